(* modelrun: reads a history file (one command per line, tokens separated by single spaces) on stdin,
   feeds each line to the extracted Coq function Model.step_line and prints the output lines.
   All parsing/formatting of tokens is done inside the extracted Gallina code; this driver only
   converts characters <-> the extracted 256-constructor [byte] type. *)
let tbl : Model.byte array = Array.of_list Model.all_bytes
let rev : (Model.byte, char) Hashtbl.t =
  let h = Hashtbl.create 512 in
  Array.iteri (fun i b -> Hashtbl.replace h b (Char.chr i)) tbl; h

let bytes_of_string (s : string) : Model.byte list =
  let r = ref [] in
  for i = String.length s - 1 downto 0 do r := tbl.(Char.code s.[i]) :: !r done; !r

let string_of_bytes (l : Model.byte list) : string =
  let b = Buffer.create 64 in
  List.iter (fun x -> Buffer.add_char b (Hashtbl.find rev x)) l; Buffer.contents b

let () =
  assert (Array.length tbl = 256);
  let st = ref Model.dinit in
  let out = Buffer.create 65536 in
  (try
    while true do
      let line = input_line stdin in
      let toks = if line = "" then [] else String.split_on_char ' ' line in
      let toks = List.map bytes_of_string toks in
      let (st', outs) = Model.step_line !st toks in
      st := st';
      List.iter (fun o -> Buffer.add_string out (string_of_bytes o); Buffer.add_char out '\n') outs;
      if Buffer.length out > 60000 then (print_string (Buffer.contents out); Buffer.clear out)
    done
  with End_of_file -> ());
  print_string (Buffer.contents out)
