"""Per-property specifications used by bin/check."""


def _sizes(tier, quick, thorough):
    return quick if tier == "quick" else thorough


PROPS = {}


def prop(**kw):
    PROPS[kw["id"]] = kw
    return kw


prop(
    id="C18",
    vfile="Properties/C18.v",
    runs=lambda tier, seed: [dict(profile="compkey", seed=seed, n=_sizes(tier, 4000, 300000))],
    rule=("compkey profile: tuples of 0-4 components with lengths from {0,1,2,3,8,20,32,70,254,255,256,300} and bytes biased to the "
          "neighbours' length bytes, families sharing component prefixes, every byte string up to length 3 over {00,01,02,61} "
          "offered to Decode (exhaustive) plus mutated/truncated encodings, the four AOL key types with every offset-component "
          "length 0..10, string forms with mutated separators/offsets; a case is non-trivial if it has >=2 components or a "
          "multi-byte input; distinct = distinct command lines"),
    assumptions=["bech32 (AccAddress.String / AccAddressFromBech32) enters the string-form theorem as two explicit premises; "
                 "the correspondence instantiates them with tables computed by the real bech32 code"],
)
