"""Per-property specifications used by bin/check."""


def _sizes(tier, quick, thorough):
    return quick if tier == "quick" else thorough


PROPS = {}


def prop(**kw):
    PROPS[kw["id"]] = kw
    return kw


prop(
    id="C18",
    vfile="Properties/C18.v",
    runs=lambda tier, seed: [dict(profile="compkey", seed=seed, n=_sizes(tier, 4000, 300000))],
    rule=("compkey profile: tuples of 0-4 components with lengths from {0,1,2,3,8,20,32,70,254,255,256,300} and bytes biased to the "
          "neighbours' length bytes, families sharing component prefixes, every byte string up to length 3 over {00,01,02,61} "
          "offered to Decode (exhaustive) plus mutated/truncated encodings, the four AOL key types with every offset-component "
          "length 0..10, string forms with mutated separators/offsets; a case is non-trivial if it has >=2 components or a "
          "multi-byte input; distinct = distinct command lines"),
    assumptions=["bech32 (AccAddress.String / AccAddressFromBech32) enters the string-form theorem as two explicit premises; "
                 "the correspondence instantiates them with tables computed by the real bech32 code"],
)


AOL_RULE = ("aol profile: histories of blocks over 4 funded accounts plus key-less/malformed address strings; messages "
            "CreateTopic/AddWriter/DeleteWriter/AddRecord (with and without fee payer), bank sends, authz Grant/Revoke and MsgExec "
            "wrapping; ~65% of transactions well-formed with their natural signers, the rest with boundary/malformed fields, wrong, "
            "extra or swapped signers and unaffordable fees; topic names from a small set that contains prefixes and extensions of "
            "one another, dotted sub-names of topics the signer already owns, and out-of-limit names (empty, 71, 255, 256, 300, 5000, "
            "5001 characters, characters outside the set); in 20% of the appends a writer listed on one topic writes to another "
            "(preferably related) topic of the same owner; a named fee payer is sometimes replaced by the owner among the signers; 15% "
            "of the histories contain a burst of 11-15 further topics of one owner, 20% a burst of 11-18 records; after every block the aol store dump and sampled Record/Topic/Writer "
            "queries are compared with the extracted model; monitors run on the implementation alone. A history is non-trivial if it "
            "contains at least one accepted and one rejected transaction; distinct = distinct history texts")
DID_RULE = ("did profile: 5 DIDs x 4 secp256k1 keys; documents in 13 shapes (key under authentication by reference / dedicated, only "
            "under assertionMethod, only as verification method, Ed25519 type, rich document — controller list naming the DID itself "
            "and/or another registered DID, 1-12 services with repeating ids —, malformed ids/base58/relationships, no authentication, "
            "further keys under capabilityInvocation / capabilityDelegation / keyAgreement only, two method ids that differ only in the letter "
            "case of the fragment); a DID named as controller signs "
            "updates with its own key, method id and sequence; keys listed without control sign under their own method id; creates on a "
            "tombstone signed by the last key over the tombstone's sequence; create/update(rotation)/deactivate with real signatures, wrong sequences, signatures over other "
            "content, tampered/empty signatures, did field != document id, empty-id and missing documents, verbatim replays through "
            "other relayers, another method id of the stored document named, keys the stored document lists without giving them control "
            "signing in the name of the controlling method, DID fields that extend or shorten the document id; two further DIDs of 42 and "
            "33 characters (the first a proper prefix of DID 0); 60% of the histories start from DID genesis entries (GD: documents with "
            "sequences 1, 254..257, 511, 2^16-1, 2^16, 2^32-1, 2^32, 2^63-1, 2^64-2; tombstones; entries the validation must refuse: a "
            "document about another identifier, an empty document with sequence 0, a key that is not a DID, malformed documents); after "
            "every block the did store dump, Query/DID of every DID and three did_base64 fields sent verbatim (padded, unpadded, URL "
            "alphabet, line break inside, trailing character, truncated, a longer identifier) are compared with the extracted model "
            "(Base/Base64.v decodes as Go's StdEncoding does); monitors: proof by a current authentication key over content and stored "
            "sequence (C03), the same proof never twice, sequence steps, proof over another sequence, read reports the stored sequence "
            "(C04), tombstones (C05), key = document id, read returns a document about the requested DID, foreign proof (C11); "
            "non-trivial = at least one accepted and one rejected transaction")


def _aol_runs(tier, seed):
    return [dict(profile="aol", seed=seed, n=_sizes(tier, 90, 3000), extra=["-blocks", str(_sizes(tier, 12, 30))])]


def _did_runs(tier, seed):
    return [dict(profile="did", seed=seed, n=_sizes(tier, 90, 3000), extra=["-blocks", str(_sizes(tier, 12, 30))])]


CHAIN_ASSUME = ["the chain model covers the message alphabet AOL(4) + DID(3) + PNFT(7) + bank MsgSend, MsgMultiSend, delayed "
                "MsgCreateVestingAccount + authz Grant/Revoke/Exec (generic authorizations, inner messages not themselves MsgExec); "
                "other SDK modules cannot write to the custom stores "
                "(store-key capability discipline of the SDK, trusted)",
                "uint64 counters are unbounded N in the model; the 2^64-th record of one topic is refused by an explicit capacity "
                "guard in the model where the real code would wrap (unreachable)",
                "bech32 decoding enters as a function with the premise unbech_wf (decoded addresses are 1..255 bytes)"]

prop(id="C01", vfile="Properties/C01.v", runs=_aol_runs, rule=AOL_RULE, assumptions=CHAIN_ASSUME)
prop(id="C02", vfile="Properties/C02.v", runs=_aol_runs, rule=AOL_RULE, assumptions=CHAIN_ASSUME,
     partial="signature verification and x/authz are modelled SDK parts (ante reduced to 'signed exactly by the required signers')")
prop(id="C03", vfile="Properties/C03.v", runs=_did_runs, rule=DID_RULE,
     assumptions=CHAIN_ASSUME + ["secp256k1/base58 enter as functions (verify, b58key); the correspondence uses the table of signatures "
                                 "the harness produced with the real code (re-verified by the real code before use)"])
prop(id="C04", vfile="Properties/C04.v", runs=_did_runs, rule=DID_RULE,
     assumptions=CHAIN_ASSUME + ["sig_binds (a signature value verifies for at most one message) is an explicit premise of C04_no_replay"])
prop(id="C05", vfile="Properties/C05.v", runs=_did_runs, rule=DID_RULE, assumptions=CHAIN_ASSUME)
prop(id="C11", vfile="Properties/C11.v", runs=_did_runs, rule=DID_RULE, assumptions=CHAIN_ASSUME)


LIST_RULE = ("aollist profile: genesis-seeded states (consistent counters) with 3-15 topics (10%: 105 topics under one owner) over owners "
             "with 20-, 32- and 1-byte addresses whose leading bytes equal each other's length bytes, topic names that are prefixes of one "
             "another, 0-4 writers per topic, then a few blocks of create/add-writer/delete-writer; every owner's topics and a sample of "
             "writer lists are paged through with limits {1,2,3,7,100,2^64-1}, both directions, key and offset style, with/without "
             "count_total (each page request is answered by the model too), plus default-page, offset+key and malformed requests")
prop(id="C13", vfile="Properties/C13.v",
     runs=lambda tier, seed: [dict(profile="aollist", seed=seed, n=_sizes(tier, 60, 2000), extra=["-blocks", "4"]),
                              dict(profile="aol", seed=seed, n=_sizes(tier, 40, 1000), extra=["-blocks", str(_sizes(tier, 10, 30))])],
     rule=LIST_RULE + " || " + AOL_RULE, assumptions=CHAIN_ASSUME + ["query.Paginate is modelled from the SDK source (Pagination/Model.v) and checked differentially"])


VALID_RULE = ("valid profile (boundary-exhaustive, not random): every field of the 14 messages is driven through lengths "
              "{0,1,max-1,max,max+1,255,256} and, for names, every character at a class boundary (- . / 0 9 : @ A Z [ _ ` a z {), "
              "space, tab, LF, VT, FF, CR, NUL, DEL, 0x80, two-byte and three-byte UTF-8, invalid UTF-8, alone and next to a valid "
              "character, while the other fields hold valid values; addresses: valid, empty, blank, upper-case, padded, truncated, "
              "other prefix, 1/32/255/256-byte; DIDs of 31/32/44/45 characters, non-base58 characters, wrong method; documents with "
              "every verification-method-id suffix shape, key types, base58 keys, missing methods/authentication, contexts, "
              "controllers, services (whitespace-only, one-character, very long and odd ids, types and endpoints), relationship entries with neither id nor method; plus pairs of off-limit fields. Each case: real ValidateBasic (+GetSigners when accepted) vs model. "
              "non-trivial = distinct case; thorough adds 4000 random field combinations")
prop(id="C16", vfile="Properties/C16.v",
     runs=lambda tier, seed: [dict(profile="valid", seed=seed, n=_sizes(tier, 1, 2)),
                              dict(profile="aol", seed=seed, n=_sizes(tier, 30, 500), extra=["-blocks", "10"])],
     rule=VALID_RULE, assumptions=CHAIN_ASSUME + ["Go regexp semantics for the six literal patterns are modelled by byte-wise character classes (tied to the literals by C16_regex_ties, checked differentially at every class boundary)"])


PNFT_RULE = ("pnft profile: 4 accounts; denom ids {a, ab, b, a/b, A} and odd ones (with 0x00, empty), token ids {x, xy, y, c} and odd "
             "ones; the seven PNFT messages with the tracked current owner as actor 80% of the time, otherwise former owners, creators "
             "that are no longer owners and strangers; optional fields empty/non-empty; authz Grant+Exec wrapping; wrong signers; "
             "EXPORTIMPORT events; after every block the pnft store dump and sampled Denom/PNFT/PNFTs/ByOwner/DenomsByOwner/Denoms "
             "queries are compared with the model; non-trivial = at least one accepted and one refused transaction")


def _pnft_runs(tier, seed):
    return [dict(profile="pnft", seed=seed, n=_sizes(tier, 90, 3000), extra=["-blocks", str(_sizes(tier, 12, 30))])]


prop(id="C06", vfile="Properties/C06.v", runs=_pnft_runs, rule=PNFT_RULE,
     assumptions=CHAIN_ASSUME + ["x/nft keeper (pinned SDK v0.47.12) is modelled line by line (Pnft/Model.v), not verified"])

prop(id="C12", vfile="Properties/C12.v", runs=_pnft_runs, rule=PNFT_RULE,
     assumptions=CHAIN_ASSUME + ["x/nft keeper (pinned SDK v0.47.12) is modelled line by line (Pnft/Model.v), not verified"])


FEE_RULE = ("fee monitor on the aol, did, pnft and burn profiles: for every transaction made only of custom-module messages (1-3 messages, "
            "failing at any position, with/without fee, fee payer = first signer or the named add-record fee payer, wrong/missing/extra "
            "signers) the balances of all four accounts, the burn address and the fee collector in both denominations and the total "
            "supply are read before and after DeliverTx; the deltas are also compared line by line with the model (T lines)")
prop(id="C15", vfile="Properties/C15.v",
     runs=lambda tier, seed: [dict(profile="aol", seed=seed, n=_sizes(tier, 50, 1500), extra=["-blocks", "10"]),
                              dict(profile="pnft", seed=seed, n=_sizes(tier, 40, 1000), extra=["-blocks", "10"]),
                              dict(profile="did", seed=seed, n=_sizes(tier, 40, 1000), extra=["-blocks", "10"])],
     rule=FEE_RULE + " || " + AOL_RULE, assumptions=CHAIN_ASSUME,
     partial="the transaction pipeline (baseapp runTx, the ante decorators, x/bank) is SDK code: modelled from its source and checked differentially, not verified")


BURN_RULE = ("burn profile: blocks in which the burn address (and, as controls, ordinary accounts) receives coins by MsgSend (1-3 per "
             "block, two denominations, amounts 0/1/dust/huge), by MsgMultiSend (one input; outputs to the burn address and to an ordinary "
             "account, also not adding up or without outputs), by MsgCreateVestingAccount at the burn address (delayed, end time before/"
             "after later blocks, then topped up) and as MsgExec inner sends, interleaved with AOL traffic and fee payments; 12% of the chains "
             "carry 24 further denominations of which 17-24 reach the burn address within one block (one send or one per denomination), 18% an "
             "IBC voucher denomination (ibc/<hash>) and one more token that reach it now and then; "
             "in 30% of the histories coins are sent to the module accounts (burn, fee collector, mint) before the first burn; after every "
             "block the monitor reads, on the implementation alone, the spendable/locked/total balance of the burn address, the supply of "
             "every denomination, all other balances touched only by the burn, and runs the registered x/crisis invariants; the B lines "
             "(spendable at the burn address, supply deltas) and T lines (per-transaction balance deltas) are compared with the model")
prop(id="C07", vfile="Properties/C07.v",
     runs=lambda tier, seed: [dict(profile="burn", seed=seed, n=_sizes(tier, 80, 2500), extra=["-blocks", str(_sizes(tier, 10, 30))]),
                              dict(profile="aol", seed=seed, n=_sizes(tier, 20, 500), extra=["-blocks", "10"])],
     rule=BURN_RULE, assumptions=CHAIN_ASSUME + [
         "x/bank (balances, supply, delayed vesting locks, SendCoins, SpendableCoins, BurnCoins) is modelled from the pinned SDK source "
         "(Bank/Model.v) and checked differentially; continuous/periodic vesting and minting by x/mint (inflation is zero in the harness "
         "genesis) are outside the model; a multi-send whose input and output sums name different denominations makes the SDK's "
         "Coins.IsEqual panic (cosmos-sdk code): the model answers 'mismatch' and the generator avoids that shape",
         "fees_ok: fee denominations are well-formed (the SDK's ante handler rejects others before deduction)"],
     partial="'the other registered chain invariants' are checked by running the real crisis invariants after every block (monitor), not proved; "
             "x/bank is modelled, not verified")


TOTAL_RULE = ("total profile (by shape, not random): a populated chain built in amino-JSON or direct sign mode with every custom message "
              "kind, then every query handler with owner in {valid, empty, malformed, upper-case, wrong checksum, 300 bytes, NUL, invalid "
              "UTF-8} x topic in {stored, empty, absent, 255, 256, 10000 bytes, invalid UTF-8, NUL}, offsets {0,1,2^63,2^64-1}, DIDs/denom "
              "ids/token ids of the same shapes, and pagination requests with key in {nil, empty, each stored key, absent, below all, above "
              "all, prefix} x offset {0,1,2,2^64-1} x limit {0,1,2,100,2^63,2^64-1} x count_total x reverse; a recovered panic surfaces as "
              "ABCI code 111222 and is flagged (C17-handler-panic). keystore profile: 85 key files (valid, wrong password, every parameter "
              "absent/zero/negative/huge, short and long iv/salt/mac/ciphertext, non-hex, non-JSON, empty; files as other Web3-secret-storage "
              "tools write them: scrypt with n/r/p complete, zero, missing, huge or non-numeric, unknown kdfs) loaded by the real Load and "
              "by the model. valid profile: see C16")
prop(id="C17", vfile="Properties/C17.v",
     runs=lambda tier, seed: [dict(profile="total", seed=seed, n=_sizes(tier, 3, 40)),
                              dict(profile="keystore", seed=seed, n=_sizes(tier, 1, 4)),
                              dict(profile="valid", seed=seed, n=_sizes(tier, 1, 2)),
                              dict(profile="aol", seed=seed, n=_sizes(tier, 25, 800), extra=["-blocks", "8"]),
                              dict(profile="did", seed=seed, n=_sizes(tier, 20, 600), extra=["-blocks", "8"]),
                              dict(profile="pnft", seed=seed, n=_sizes(tier, 20, 600), extra=["-blocks", "8"]),
                              dict(profile="burn", seed=seed, n=_sizes(tier, 15, 400), extra=["-blocks", "8"])],
     rule=TOTAL_RULE + " || " + VALID_RULE, assumptions=CHAIN_ASSUME + [
         "protobuf decoding (generated code) and the gRPC/ABCI plumbing are outside the model: the property starts from bytes that decode",
         "scrypt/pbkdf2/AES of the key store enter the model as the boolean 'MAC matches'; hex/JSON decoding as booleans 'field decodes'"],
     partial="paginated queries (Topics, Writers, Denoms) do panic on one request shape inside the SDK's query.Paginate (known finding K2): "
             "proved as an exact iff instead of 'never'; PNFT single-item queries have no panic branch in the model's types (option), "
             "their totality is by correspondence only")


KS_RULE = ("keystore profile: besides the load cases, a stress run of Save/Load/LoadByAddress from 8 goroutines on one key directory "
           "with a watchdog (a call that does not return within the deadline is a deadlock); T1 regenerates the mutex program of every "
           "exported KeyStore method from the source (calls to sibling methods inlined, defers moved to the end)")
NODE_RULE = ("node profile: histories of the aol / pnft / burn generators decorated with node life-cycle events: CRASH (a new application "
             "object on the same database) right after BeginBlock, after any prefix of a block's transactions, after the last transaction "
             "before EndBlock/Commit, and right after Commit; transactions sent to CheckTx or Simulate before, or instead of, their delivery; "
             "queries at committed heights (random past heights, 0 = latest, heights not yet committed). The extracted model answers the "
             "same lines (committed versions, lost block, historical query). On the implementation alone: a twin application fed only the "
             "committed blocks must return byte-identical DeliverTx responses and application hashes; after a restart height and hash must "
             "be those of the last Commit; 'ghost' transactions (simulated but never delivered, or delivered with a last message that fails) "
             "whose would-be effects later transactions rely on; every Q/QH answer is also asked of the twin; with -conc N background goroutines query fixed and latest heights while blocks execute and "
             "every answer served at height h must be the one answer of height h (re-checked at rest)")
prop(id="C20", vfile="Properties/C20.v",
     runs=lambda tier, seed: [dict(profile="keystore", seed=seed, n=_sizes(tier, 1, 6)),
                              dict(profile="conc", seed=seed, n=_sizes(tier, 1, 6), race=True),
                              dict(profile="node", seed=seed, n=_sizes(tier, 6, 150), extra=["-blocks", "8", "-conc", "4"], race=True),
                              dict(profile="node", seed=seed + 5, n=_sizes(tier, 3, 40), extra=["-blocks", "8", "-conc", "4", "-kind", "did"], race=True)],
     rule=KS_RULE + " || conc profile (race-detector build): ValidateBasic, GetSigners, GetSignBytes and String of ~1600 messages "
          "(all boundary cases of the valid profile plus DID documents with 60 distinct unregistered key types) from 8 goroutines "
          "in different orders; race reports are attributed by the innermost non-runtime frame of the two accesses || " + NODE_RULE,
     assumptions=["sync.RWMutex is modelled as a transition system with writer preference (a pending Lock blocks new RLock), "
                  "the documented behaviour of Go's implementation",
                  "the versioned multistore (IAVL immutable versions, cache branches for deliver/check state) is modelled by Node/Model.v: "
                  "Commit appends an immutable version, queries read a version; the SDK store itself is trusted and exercised, not verified"],
     partial="data-race freedom is a property of the Go memory model that no executable Gallina model can exhibit: it is decided here only "
             "dynamically (race detector on the exercised schedules); snapshot isolation is proved for the node model and checked "
             "differentially and with concurrent readers against the real store, not verified for the SDK store implementation")


GENESIS_RULE = ("aol / did / pnft profiles with EXPORTIMPORT events (about 1-2 per history, at random block boundaries) and -k3: text fields "
                "sometimes hold bytes that are not UTF-8 (single bytes, truncated sequences, surrogates, 5000 x 0xff). At every event the "
                "real application is exported (ExportAppStateAndValidators), the custom modules' ValidateGenesis is run, a fresh "
                "application on a new database is initialised from the exported JSON and the history continues on it; the model does "
                "the same (export_import_json) and every later dump and query is compared. On the implementation alone: the same state is "
                "exported twice (identical bytes), the raw custom stores before and after are compared (modulo x/nft zero supply counters), "
                "and the imported chain is exported again (custom-module genesis identical)")
prop(id="C08", vfile="Properties/C08.v",
     runs=lambda tier, seed: [dict(profile="pnft", seed=seed, n=_sizes(tier, 50, 2000), extra=["-blocks", "10", "-k3"]),
                              dict(profile="aol", seed=seed, n=_sizes(tier, 50, 2000), extra=["-blocks", "10", "-k3"]),
                              dict(profile="did", seed=seed, n=_sizes(tier, 40, 1500), extra=["-blocks", "10", "-k3"])],
     rule=GENESIS_RULE + " || " + PNFT_RULE, assumptions=CHAIN_ASSUME + [
         "bech32 enters as three premises (unbech (bech a) = Some a for 1..255-byte addresses, no '/' in and non-emptiness of bech strings), "
         "instantiated in the correspondence by tables computed with the real bech32 code",
         "the JSON layer is modelled as per-string UTF-8 coercion (Base/Utf8.v, Go's json.Marshal behaviour), base64 for byte fields as identity; "
         "JSON syntax itself (jsonpb) is trusted and exercised by the round trip on the real code",
         "burn has an empty genesis; bank/auth and the other SDK modules' genesis are SDK code outside the property"],
     partial="the round trip holds for states whose text is valid UTF-8; without that premise it is false (known finding K3, "
             "C08_invalid_utf8_refuted); the PNFT raw store loses x/nft's zero supply counters, which no query can observe")

prop(id="C10", vfile="Properties/C10.v",
     runs=lambda tier, seed: [dict(profile="node", seed=seed, n=_sizes(tier, 100, 2500), extra=["-blocks", "10"])],
     rule=NODE_RULE, assumptions=CHAIN_ASSUME + [
         "Node/Model.v models baseapp + the versioned multistore: Commit appends an immutable version, the deliver state is a branch that only "
         "Commit writes through, LoadLatestVersion resumes at the last version; the store implementation (IAVL, cache stores) is SDK code, "
         "exercised by the restart runs on the real database handle, not verified"],
     partial="application hashes are compared on the implementation only (the model has states, not Merkle hashes); a crash is modelled as "
             "losing the process memory with an intact database — torn database writes inside Commit are outside the model")

prop(id="C09", vfile="Properties/C09.v",
     runs=lambda tier, seed: [dict(profile="node", seed=seed + 7, n=_sizes(tier, 100, 2500), extra=["-blocks", "10"]),
                              dict(profile="node", seed=seed + 11, n=_sizes(tier, 12, 600), extra=["-blocks", "8"], second_process=True),
                              dict(profile="aollist", seed=seed, n=_sizes(tier, 16, 500), extra=["-blocks", "4", "-twin"])] +
                             # short single-kind runs, each in a process of its own: whatever a process does only once (a lazily
                             # initialised package variable, a sync.Once) is exercised by a different first operation in each
                             [dict(profile="node", seed=seed + 100 + 7 * i, n=_sizes(tier, 2, 6), extra=["-blocks", "5", "-kind", k])
                              for i in range(_sizes(tier, 2, 6)) for k in ("did", "aol", "pnft")],
     rule=NODE_RULE + " || the twin replica is a second application object in the same process initialised from the same genesis bytes "
          "(Go randomises map iteration per range statement, so map order differs between the two); a third run is repeated in "
          "a second process with GOMAXPROCS=1, another TZ and another start time and all application hashes are compared; six (thorough: 18) "
          "further short runs of one inner kind each (did, aol, pnft) are made in processes of their own, so that anything a process does "
          "only once is met by a different first operation (a delivered transaction here, a simulation or a query there)",
     assumptions=CHAIN_ASSUME + ["the model's transition is a function of (state, block time, transactions): determinism of the model is by "
                                 "construction; the theorems decide independence from side traffic, restarts and genesis map order, and the "
                                 "source tie (footprint) decides the absence of clock/randomness/goroutine/environment reads"],
     partial="gas accounting and events are compared between replicas on the implementation only (twin); the Go runtime, the SDK stores and "
             "protobuf marshalling are trusted to be deterministic")


UPGRADE_RULE = ("upgrade profile: a chain populated by the aol / pnft / did generators; in a random block the plan of the last entry of app.Upgrades "
                "is scheduled for the next height (AOL states always hold a topic of one name under three owners, two of them with writers; PNFT "
                "states hold names with surrounding whitespace, a token that has moved away from its creator and a denom that has moved away "
                "from its creator; in a third of the aol / did histories: the plan of an earlier entry this binary also has a "
                "handler for and can load the disk of — v2.2.0 —, after the stores that entry adds have been emptied and their modules removed "
                "from the recorded version map, as on a chain that skipped releases); before scheduling, the recorded versions of the custom "
                "modules are set to the baseline of the previous releases (all 1), so that a version step without a migration halts the "
                "upgrade block; the node is stopped never / before / between scheduling and the upgrade block (with "
                "upgrade-info.json on disk so that the upgrade store loader is installed) / inside the upgrade block / after it; the model "
                "answers the same history (an upgrade block has no custom-module effect) and the dumps of the three custom stores after the "
                "upgrade are compared. On the implementation alone: BeginBlock at the plan height must not panic, the plan must be marked done "
                "at that height, the recorded module version map must equal the binary's, the custom stores must be byte-identical across that "
                "BeginBlock, restarts must resume with the committed application hash, a never-restarted twin must agree on every hash, and "
                "an independent re-implementation of the store accounting must find no unaccounted mounted store and no missing handler")
prop(id="C19", vfile="Properties/C19.v",
     runs=lambda tier, seed: [dict(profile="upgrade", seed=seed, n=_sizes(tier, 40, 1500), extra=["-blocks", "8"])],
     rule=UPGRADE_RULE, assumptions=[
         "baseline (the stores of the release preceding the first descriptor: SDK 0.42 module set + aol, did, burn, token, wasm) is the one "
         "input that is not in the repository; it is written in Upgrade/Repo.v and, independently, in harness/upgrade.go",
         "rootmulti.loadVersion / UpgradeStoreLoader (cosmos-sdk v0.47.12) are modelled from their source (Upgrade/Model.v), not verified",
         "the populated pre-upgrade state is produced by the current binary (the previous release's binary is not available offline): the "
         "SDK modules are found at their current consensus versions, the custom modules at the recorded baseline (all 1; "
         "Upgrade/Baseline.v and harness/upgrade.go), which the generated fact custom_consensus_versions is compared with"],
     partial="the dynamic half (no halt, versions recorded, data unchanged, restart equivalence on the real store) is decided by running the real "
             "upgrade on generated populated states, not proved; migrations from genuinely older module versions cannot be exercised offline")


SIGN_RULE = ("sign profile (by shape; thorough adds 600 random messages): every one of the 14 custom message kinds, optional fields empty and "
             "non-empty, texts with quotes, backslashes, <>&, control characters, U+2028, DEL, bytes that are not UTF-8, byte fields with "
             "0x00/0xff, DID documents of 12 shapes (contexts as one string or a list, controller absent/empty/present, referenced and "
             "embedded relationships, services), several messages per transaction in both orders, memo, multi-coin and empty fees, "
             "sequence 0 and 2^31-1 — each in SIGN_MODE_DIRECT, DIRECT_AUX and LEGACY_AMINO_JSON. The real "
             "TxConfig.SignModeHandler().GetSignBytes and the model must return the same bytes (the auth-info and public-key bytes the "
             "harness used are inputs of the model). On the implementation alone: two transactions whose messages differ (type URL or "
             "protobuf bytes) while every other parameter is equal must not share their sign bytes; collisions are classified by the pair "
             "of kinds or, within a kind, by whether the two messages become equal after the two known JSON normalisations; only messages that pass "
             "ValidateBasic take part (each kind is also offered with every field emptied in turn, with every field changed in turn to another "
             "admissible value of the same length, with neighbouring fields exchanged, with every address also in upper-case bech32, byte fields next "
             "to their base64 / hex text, and twice in one transaction as [a,b], [c,b], [b,a]); what a "
             "message returned as its sign bytes must not change when a later message's are computed, and computing a transaction's sign "
             "bytes twice must give the same bytes (C14-signbytes-not-stable). aol profile: about 4% of the otherwise "
             "acceptable transactions carry signatures that are not over them (one byte flipped, or made over the same messages with another "
             "memo): they must be refused (C14-signature-not-bound)")
prop(id="C14", vfile="Properties/C14.v",
     runs=lambda tier, seed: [dict(profile="sign", seed=seed, n=_sizes(tier, 1, 2)),
                              dict(profile="aol", seed=seed + 3, n=_sizes(tier, 40, 800), extra=["-blocks", "8"])],
     rule=SIGN_RULE, assumptions=[
         "timeout_height, tip, fee payer/granter are zero/absent in the modelled transactions (a non-zero value adds one more injectively "
         "encoded field); the auth-info and public-key Any bytes are opaque inputs",
         "Go's encoding/json string escaping (Go >= 1.22 short forms \\b \\f), amino's omitempty and base64 are modelled in Sign/Model.v from "
         "their source and checked byte for byte on every case; the amino StdSignDoc envelope is compared for equal account/sequence/fee/memo "
         "parameters on both sides (direct and direct-aux are proved for different parameters too)",
         "stateless validation premises use the chain model's vb_base with a bech32 decoder that refuses the empty string (as the SDK does)"],
     partial="legacy amino JSON is not injective (known findings K1, K1b; exact classification proved: four pairs of kinds, invalid UTF-8, "
             "empty controller); direct and direct-aux are proved without restriction")
