"""The check driver: build -> proof obligations -> correspondence (model vs implementation) -> monitors ->
violation protocol -> evidence.  See DESIGN.md section 4."""
import glob, hashlib, json, os, re, shutil, subprocess, sys, tempfile, time

from . import build
from .build import VERIF, BUILD, COQ, REPO, BuildError, sh

EVID = os.path.join(VERIF, "evidence")
REPLAYS = os.path.join(VERIF, "replays")
KNOWN = os.path.join(VERIF, "known_findings.json")

TRUSTED_BASE = [
    "Coq 8.16.1 kernel (coqc; vm_compute used, native_compute not used); coqchk -silent -o in the thorough tier",
    "no Axiom/Parameter/Admitted in the development; Print Assumptions under every property theorem must report 'Closed under the global context' (or only the explicit premises named in the property's entry)",
    "translator harness/gen.go (hx gen): reports constants, regex literals, schemas and configuration of /repo into coq/Generated/*.v on every run",
    "extraction: Coq.extraction.ExtrOcamlBasic only (bool, option, unit, list, prod, sumbool); no Extract Constant / Extract Inductive of our own; nat, N, positive, byte stay extracted inductives; OCaml 4.13.1; ocaml/modelrun.ml (character <-> byte conversion, line splitting)",
    "correspondence harness (Go, /verif/harness): generators, executor on the real code, canonicaliser, monitors",
    "modelled rather than verified: Cosmos SDK (baseapp, ante, bank, authz, x/nft, query.Paginate, store/IAVL), protobuf/amino encoders, bech32/base58/secp256k1/sha256, Go regexp and sync primitives",
]


def load_known():
    if not os.path.exists(KNOWN):
        return []
    return json.load(open(KNOWN))


def match_known(prop, finding, known):
    """A finding is 'known' only if an entry with status 'known' for this property matches it narrowly:
    every regex in entry['match'] must match the corresponding field of the finding."""
    for e in known:
        if e.get("property") != prop or e.get("status") != "known":
            continue
        ok = True
        for field, rx in e.get("match", {}).items():
            if not re.search(rx, str(finding.get(field, "")), re.S):
                ok = False
                break
        if ok:
            return e
    return None


# ------------------------------------------------------------------------------------------------------
def check_proofs(vfile, allowed=()):
    """Compiles Properties/<P>.v (all dependencies were built by make) and reads the Print Assumptions
    output.  Returns (ok, obligations, discharged, details, log)."""
    src = open(os.path.join(COQ, vfile)).read()
    theorems = re.findall(r'^\s*(?:Theorem|Corollary)\s+([A-Za-z0-9_\']+)', src, re.M)
    printed = re.findall(r'^\s*Print Assumptions\s+([A-Za-z0-9_\']+)\s*\.', src, re.M)
    forbidden = re.findall(r'\b(Admitted|admit|Axiom|Parameter|Conjecture|Unset Guard Checking|bypass_check)\b', src)
    vo = vfile[:-2] + ".vo"
    rc, out = sh(["timeout", "900", "make", vo], cwd=COQ)
    if rc == 0:
        # re-run coqc on the property file itself to capture the assumptions report
        rc, out = sh(["timeout", "900", "coqc", "-Q", ".", "PV", vfile], cwd=COQ)
    details = {"theorems": theorems, "failed": None, "assumptions": {}}
    if rc != 0:
        m = re.search(r'File "[^"]*", line (\d+)', out)
        failing = None
        if m:
            line = int(m.group(1))
            upto = "\n".join(src.split("\n")[:line])
            names = re.findall(r'^\s*(?:Theorem|Corollary|Example|Lemma)\s+([A-Za-z0-9_\']+)', upto, re.M)
            failing = names[-1] if names and os.path.basename(vfile) in out else None
        details["failed"] = failing or "dependency of " + vfile
        details["log"] = out[-3000:]
        return False, len(theorems), 0, details
    # parse assumption blocks, in order of the Print Assumptions commands
    blocks = re.split(r'(?m)^(?=Closed under the global context|Axioms:|Section Variables:)', out)
    blocks = [b for b in blocks if b.startswith(("Closed under", "Axioms:", "Section Variables:"))]
    discharged = 0
    bad = []
    for name, blk in zip(printed, blocks):
        if blk.startswith("Closed under"):
            details["assumptions"][name] = "closed"
            discharged += 1
        else:
            axs = re.findall(r'^([A-Za-z0-9_\.\']+)\s*:', blk, re.M)
            details["assumptions"][name] = axs
            if all(a in allowed for a in axs):
                discharged += 1
            else:
                bad.append(name)
    missing = [t for t in theorems if t not in printed]
    ok = not bad and not missing and not forbidden and len(blocks) == len(printed)
    if bad:
        details["failed"] = "unexpected assumptions under " + ", ".join(bad)
    if missing:
        details["failed"] = "no Print Assumptions for " + ", ".join(missing)
    if forbidden:
        details["failed"] = "forbidden vernacular: " + ", ".join(sorted(set(forbidden)))
    return ok, len(theorems), discharged, details


def run_coqchk(vfile):
    mod = "PV." + vfile[:-2].replace("/", ".")
    rc, out = sh(["timeout", "3000", "coqchk", "-silent", "-o", "-Q", ".", "PV", mod], cwd=COQ, timeout=3100)
    return rc == 0, out[-1500:]


# ------------------------------------------------------------------------------------------------------
def run_profile(run, workdir, model_ok):
    """Executes one harness profile: implementation side (hx), then the extracted model on the same history."""
    os.makedirs(workdir, exist_ok=True)
    binary = "hxr" if run.get("race") else "hx"
    cmd = [os.path.join(BUILD, binary), run["profile"], "-seed", str(run["seed"]), "-n", str(run["n"]), "-out", workdir]
    if run.get("replay"):
        cmd += ["-replay", run["replay"]]
    cmd += run.get("extra", [])
    t = time.time()
    env = dict(build.GOENV)
    if run.get("race"):
        env["GORACE"] = "log_path=%s halt_on_error=0 exitcode=0" % os.path.join(workdir, "race")
    rc, out = sh(cmd, env=env, timeout=run.get("timeout", 3000))
    res = {"profile": run["profile"], "seed": run["seed"], "n": run["n"], "impl_s": round(time.time() - t, 1)}
    race_findings, race_stats = (parse_race_logs(workdir) if run.get("race") else ([], {}))
    if rc != 0:
        fatal = re.search(r"fatal error: [^\n]*", out)
        if fatal and "panacea-core/v2/" in out:
            race_findings.append({"clause": "C20-runtime-abort", "detail": "the Go runtime aborted the process: %s" % fatal.group(0),
                                  "cmd": "hx %s -seed %s -n %s (stderr tail)\n%s" % (run["profile"], run["seed"], run["n"], out[-2500:])})
        if not race_findings:
            res["harness_error"] = out[-3000:]
            return res
        res["monitor"] = {"findings": [], "commands": 0, "stats": {"kinds": {}}, "samples": []}
    else:
        res["monitor"] = json.load(open(os.path.join(workdir, "monitor.json")))
    if run.get("second_process"):
        # the same profile again in another process with another scheduler width, time zone and start time: every
        # application hash of every committed height must be the same (C09)
        wd2 = workdir + "-p2"
        os.makedirs(wd2, exist_ok=True)
        env2 = dict(env, GOMAXPROCS="1", TZ="Asia/Tokyo", GOGC="20")
        cmd2 = [c if c != workdir else wd2 for c in cmd]
        rc2, out2 = sh(cmd2, env=env2, timeout=run.get("timeout", 3000))
        h1 = open(os.path.join(workdir, "hashes.txt")).read() if os.path.exists(os.path.join(workdir, "hashes.txt")) else ""
        h2 = open(os.path.join(wd2, "hashes.txt")).read() if os.path.exists(os.path.join(wd2, "hashes.txt")) else None
        kinds = res["monitor"].setdefault("stats", {}).setdefault("kinds", {})
        kinds["second-process-heights-compared"] = len(h1.splitlines())
        if rc2 != 0 or h2 is None:
            res["monitor"]["findings"] = (res["monitor"].get("findings") or []) + [{"clause": "C09-second-process", "detail": "the second process failed: " + out2[-800:], "cmd": " ".join(cmd2)}]
        elif h1 != h2:
            l1, l2 = h1.splitlines(), h2.splitlines()
            first = next((i for i in range(min(len(l1), len(l2))) if l1[i] != l2[i]), min(len(l1), len(l2)))
            res["monitor"]["findings"] = (res["monitor"].get("findings") or []) + [{
                "clause": "C09-diverge", "detail": "two processes (GOMAXPROCS 16 / 1, different TZ and start time) computed different application hashes: history, height, hash = %s vs %s" % (l1[first:first + 1], l2[first:first + 1]),
                "cmd": "re-run: " + " ".join(cmd) + "  and  GOMAXPROCS=1 TZ=Asia/Tokyo " + " ".join(cmd2)}]
        shutil.rmtree(wd2, ignore_errors=True)
    if run.get("race"):
        res["monitor"]["findings"] = (res["monitor"].get("findings") or []) + race_findings
        res["monitor"].setdefault("stats", {}).setdefault("kinds", {}).update(race_stats)
        if rc != 0 or not os.path.exists(os.path.join(workdir, "history.txt")):
            res["model_error_skip"] = True
            return res
    if model_ok:
        t = time.time()
        with open(os.path.join(workdir, "history.txt"), "rb") as fin, open(os.path.join(workdir, "model.txt"), "wb") as fout:
            p = subprocess.run([os.path.join(BUILD, "ocaml", "modelrun")], stdin=fin, stdout=fout,
                               stderr=subprocess.PIPE, timeout=3000)
        res["model_s"] = round(time.time() - t, 1)
        if p.returncode != 0:
            res["model_error"] = p.stderr.decode(errors="replace")[-2000:]
    return res


def _first_user_frame(lines):
    """first frame of a race-report stack that is not Go runtime / standard library"""
    for l in lines:
        l = l.strip()
        if not l or l.startswith("/") or l.startswith("Goroutine") or "()" not in l:
            continue
        fn = l.split("(")[0]
        first = fn.split("/")[0]
        if "." in first and "/" in fn:      # a module path such as github.com/...
            return fn
    return ""


def parse_race_logs(workdir):
    """Reads GORACE log files.  A report counts for C20 when the innermost non-runtime frame of one of the two
    conflicting accesses is code of medibloc/panacea-core (races wholly inside the SDK or the harness are only counted)."""
    findings, stats = [], {"race-reports": 0, "race-reports-sdk-internal": 0}
    seen = set()
    for f in sorted(glob.glob(os.path.join(workdir, "race.*"))):
        text = open(f, errors="replace").read()
        for rep in text.split("=================="):
            if "DATA RACE" not in rep:
                continue
            stats["race-reports"] += 1
            # the two access stacks: from the header line to the next blank line
            stacks = re.findall(r"(?:Read|Write|Previous read|Previous write|Atomic read|Atomic write|Previous atomic read|Previous atomic write) at [^\n]*\n((?:  [^\n]*\n)+)", rep)
            tops = [_first_user_frame(s.split("\n")) for s in stacks[:2]]
            mine = [t for t in tops if "medibloc/panacea-core/v2/" in t]
            if mine:
                key = tuple(sorted(tops))
                if key not in seen and len(findings) < 10:
                    seen.add(key)
                    findings.append({"clause": "C20-data-race", "detail": "data race (Go race detector): conflicting accesses in %s" % " and ".join(tops),
                                     "cmd": rep.strip()[:6000]})
            else:
                stats["race-reports-sdk-internal"] += 1
    return findings, stats


def diff_observables(workdir, project=None, limit=20):
    """Line-by-line comparison of the projected observables.  Returns (n_compared, mismatches)."""
    impl = open(os.path.join(workdir, "impl.txt"), errors="replace").read().split("\n")
    model = open(os.path.join(workdir, "model.txt"), errors="replace").read().split("\n")
    hist = [l for l in open(os.path.join(workdir, "history.txt"), errors="replace").read().split("\n")]
    if impl and impl[-1] == "":
        impl.pop()
    if model and model[-1] == "":
        model.pop()
    mism = []
    if len(impl) != len(model):
        mism.append({"index": -1, "impl": "%d lines" % len(impl), "model": "%d lines" % len(model), "cmd": "(line counts differ)"})
    n = 0
    for i, (a, m) in enumerate(zip(impl, model)):
        if project:
            a, m = project(a), project(m)
            if a is None and m is None:
                continue
        n += 1
        if a != m and len(mism) < limit:
            mism.append({"index": i, "impl": a, "model": m})
    return n, mism, hist


def write_replay(prop, kind, payload):
    os.makedirs(REPLAYS, exist_ok=True)
    h = hashlib.sha256(json.dumps(payload, sort_keys=True).encode()).hexdigest()[:12]
    path = os.path.join(REPLAYS, "%s-%s-%s.json" % (prop, kind, h))
    payload = dict(payload, property=prop, kind=kind)
    json.dump(payload, open(path, "w"), indent=1)
    return path


# ------------------------------------------------------------------------------------------------------
def run_check(spec, tier):
    prop = spec["id"]
    t0 = time.time()
    seed = int(os.environ.get("VERIF_SEED", "1") or "1")
    log = {}
    known = load_known()
    violations = []     # (replay_path, no_input_found)
    # every recorded, unrepaired finding of this property is announced on every run (the defect is in the tree whether or not
    # this run's sample happens to hit it, e.g. the rare store race K6); the evidence says which ones this run observed
    known_lines = ["KNOWN-FINDING: property=%s %s" % (prop, e["what"]) for e in known
                   if e.get("property") == prop and e.get("status") == "known"]
    observed_known = []
    broken = []         # names of theorems / correspondences that no longer check
    os.makedirs(EVID, exist_ok=True)
    for old in glob.glob(os.path.join(BUILD, "%s-*" % prop)):   # work directories of earlier failing runs
        shutil.rmtree(old, ignore_errors=True)
    work = tempfile.mkdtemp(prefix="%s-" % prop, dir=BUILD if os.path.isdir(BUILD) else None)
    model_ok, harness_ok = True, True
    proof = {"ok": False, "obligations": 0, "discharged": 0, "details": {}}
    runs_out = []
    try:
        # ---- 1. build everything from /repo's working tree
        try:
            with build.Lock():
                build.build_go(log)
        except BuildError as e:
            harness_ok = False
            broken.append({"what": "build: " + e.stage, "log": e.log[-3000:]})
        if harness_ok:
            try:
                with build.Lock():
                    build.run_translator(log)
            except BuildError as e:
                # a fact could not be re-derived from the source (restructured code): the tie for it is broken;
                # the last generated values are kept so that correspondence and monitors can still look for a failing input
                log["t1_fallback"] = True
                broken.append({"what": "translator could not re-derive the generated facts: " + e.stage, "log": e.log[-3000:]})
        if harness_ok:
            try:
                with build.Lock():
                    build.build_coq(log, ["Driver/Driver.vo"])
                    build.build_ocaml(log)
            except BuildError as e:
                model_ok = False
                broken.append({"what": "model no longer builds against the regenerated facts: " + e.stage, "log": e.log[-3000:]})
            # ---- 2. proof obligations
            with build.Lock():
                ok, nob, ndis, det = check_proofs(spec["vfile"], spec.get("allowed_assumptions", ()))
            proof = {"ok": ok, "obligations": nob, "discharged": ndis, "details": det}
            if not ok:
                broken.append({"what": "proof obligation: " + str(det.get("failed")), "log": det.get("log", "")})
            if ok and tier == "thorough" and spec.get("coqchk", True):
                with build.Lock():
                    cok, cout = run_coqchk(spec["vfile"])
                log["coqchk_ok"] = cok
                log["coqchk_tail"] = cout[-600:]
                if not cok:
                    broken.append({"what": "coqchk rejected " + spec["vfile"], "log": cout})
            # ---- 3. correspondence + 4. monitors
            runs = spec["runs"](tier, seed)
            if any(r.get("race") for r in runs):
                try:
                    with build.Lock():
                        build.build_go_race(log)
                except BuildError as e:
                    broken.append({"what": "build: " + e.stage, "log": e.log[-3000:]})
                    runs = [r for r in runs if not r.get("race")]
            enlarged = False
            if broken and tier == "quick":
                # search harder for a failing input: four times the quick workload (bounded, so that a broken tie
                # is reported within minutes; the thorough tier searches at full size)
                runs = [dict(r, n=(r["n"] * 4 if r["n"] > 2 else r["n"] + 1)) for r in runs]
                enlarged = True
            def do_runs(runs, tag):
                for i, run in enumerate(runs):
                    wd = os.path.join(work, "run%s%d" % (tag, i))
                    r = run_profile(run, wd, model_ok)
                    if "harness_error" in r:
                        broken.append({"what": "harness profile %s failed to run" % run["profile"], "log": r["harness_error"]})
                        runs_out.append(r)
                        continue
                    findings = r["monitor"].get("findings") or []
                    # a monitor clause named after another claimed property is that property's to report
                    from .props import PROPS as _P
                    findings = [f for f in findings
                                if not (re.match(r"C\d\d-", str(f.get("clause", ""))) and f["clause"][:3] != prop)]
                    new_findings = []
                    for f in findings:
                        e = match_known(prop, f, known)
                        if e:
                            line = "KNOWN-FINDING: property=%s %s" % (prop, e["what"])
                            if line not in known_lines:
                                known_lines.append(line)
                            if e.get("id") not in observed_known:
                                observed_known.append(e.get("id"))
                        else:
                            new_findings.append(f)
                    for f in new_findings[:5]:
                        path = write_replay(prop, "monitor", {"clause": f.get("clause"), "detail": f.get("detail"),
                                                              "history": f.get("history") or [f.get("cmd")],
                                                              "profile": run["profile"], "seed": run["seed"],
                                                              "how": "bin/check replay <this file> re-executes the history on the real code"})
                        violations.append((path, False))
                    if r.get("model_error_skip") or run.get("nomodel"):
                        pass
                    elif model_ok and "model_error" not in r:
                        n, mism, hist = diff_observables(wd, spec.get("project"))
                        r["compared"] = n
                        r["mismatches"] = len(mism)
                        if mism:
                            # a disagreement explained by a known finding is not reported again
                            unexplained = [m for m in mism if not match_known(prop, dict(m, clause="correspondence"), known)]
                            if unexplained:
                                broken.append({"what": "correspondence %s: model and implementation disagree" % run["profile"],
                                               "first": unexplained[:5], "workdir": wd})
                    elif "model_error" in r:
                        broken.append({"what": "extracted model failed on the history", "log": r["model_error"]})
                    runs_out.append(r)

            do_runs(runs, "")
            if broken and not violations and tier == "quick" and not enlarged:
                # the correspondence (or a profile) broke at quick size but no monitor produced a failing input: look
                # for one at four times the workload before reporting "no failing input found"
                do_runs([dict(r, n=(r["n"] * 4 if r["n"] > 2 else r["n"] + 1)) for r in runs], "x")
        # ---- 5. outcome
        if broken and not violations:
            path = write_replay(prop, "broken", {"no_longer_checks": broken,
                                                 "note": "no failing input was found by the monitors at thorough size"})
            violations.append((path, True))
    finally:
        log["known_observed"] = observed_known
        evidence = make_evidence(spec, tier, seed, proof, runs_out, log, known_lines, violations, broken, time.time() - t0)
        json.dump(evidence, open(os.path.join(EVID, prop + ".json"), "w"), indent=1)
        if not violations:
            shutil.rmtree(work, ignore_errors=True)
    for l in known_lines:
        print(l)
    for path, noinput in violations:
        print("VIOLATION property=%s replay=%s%s" % (prop, path, " no-failing-input-found" if noinput else ""))
    sys.stdout.flush()
    return 1 if violations else 0


def make_evidence(spec, tier, seed, proof, runs_out, log, known_lines, violations, broken, wall):
    evaluations = 0
    distinct_nt = 0
    samples = []
    hist = {}
    for r in runs_out:
        m = r.get("monitor") or {}
        evaluations += int(m.get("commands", 0))
        st = m.get("stats") or {}
        distinct_nt += int(st.get("distinct_nontrivial", 0))
        samples += (m.get("samples") or [])[:6]
        hist[r["profile"]] = st
    det = proof.get("details", {})
    cov = {
        "obligations": max(proof["obligations"], 1),
        "discharged": proof["discharged"],
        "checker_cmd": "make -C /verif/coq %s && coqc -Q . PV %s  (Print Assumptions under every theorem)%s" % (
            spec["vfile"][:-2] + ".vo", spec["vfile"], "; coqchk -silent -o" if tier == "thorough" else ""),
        "trusted_base": TRUSTED_BASE + spec.get("trusted_extra", []),
        "theorems": det.get("theorems", []),
        "assumptions_report": det.get("assumptions", {}),
        "proof_ok": proof["ok"],
        "evaluations": evaluations,
        "distinct_nontrivial": distinct_nt,
        "rule": spec.get("rule", ""),
        "samples": samples or ["(no correspondence run completed)"],
        "traces_validated_against_impl": sum(int(r.get("compared", 0)) for r in runs_out),
        "correspondence_mismatches": sum(int(r.get("mismatches", 0)) for r in runs_out),
        "input_distribution": hist,
        "generated_digest": log.get("generated_digest"),
        "generated_changed": log.get("generated_changed"),
        "known_findings_printed": known_lines,
        "known_findings_observed_in_this_run": log.get("known_observed", []),
        "no_longer_checks": [b["what"] for b in broken],
        "timings": {k: v for k, v in log.items() if k.endswith("_s")},
        "partial": spec.get("partial", ""),
    }
    if "coqchk_ok" in log:
        cov["coqchk_ok"] = log["coqchk_ok"]
        cov["coqchk_tail"] = log.get("coqchk_tail")
    return {
        "property_id": spec["id"], "tier": tier, "seed": seed, "level": "proof", "coverage": cov,
        "assumptions": spec.get("assumptions", []), "wall_s": round(wall, 1), "violations": len(violations),
    }


def replay(path):
    """Re-executes the history of a replay file on the real code (and the model) and prints both answers."""
    rp = json.load(open(path))
    if rp.get("kind") == "broken":
        print(json.dumps(rp, indent=1)[:6000])
        return 0
    log = {}
    with build.Lock():
        build.build_go(log)
    wd = tempfile.mkdtemp(prefix="replay-", dir=BUILD)
    hist = os.path.join(wd, "in.txt")
    open(hist, "w").write("\n".join(rp.get("history") or []) + "\n")
    r = run_profile({"profile": rp.get("profile", "compkey"), "seed": rp.get("seed", 1), "n": 0, "replay": hist}, wd,
                    os.path.exists(os.path.join(BUILD, "ocaml", "modelrun")))
    print("history:")
    print(open(os.path.join(wd, "history.txt")).read())
    print("implementation:")
    print(open(os.path.join(wd, "impl.txt")).read())
    if os.path.exists(os.path.join(wd, "model.txt")):
        print("model:")
        print(open(os.path.join(wd, "model.txt")).read())
    print("monitor findings:", json.dumps((r.get("monitor") or {}).get("findings"), indent=1))
    shutil.rmtree(wd, ignore_errors=True)
    return 0
