"""Shared, serialised build steps: translator -> Generated/*.v, Coq (full .vo build), extraction + OCaml
model runner, Go harness. Everything is rebuilt from /repo's current working tree; results are cached by
content (make, go build cache) so that running all checks pays for the build once."""
import fcntl, hashlib, os, subprocess, sys, time, glob, shutil

VERIF = os.path.dirname(os.path.dirname(os.path.abspath(__file__)))
REPO = os.environ.get("VERIF_REPO", "/repo")
BUILD = os.path.join(VERIF, "_build")
COQ = os.path.join(VERIF, "coq")
GOENV = dict(os.environ, GOFLAGS="-mod=mod", GOPROXY="off", GOSUMDB="off", GOTOOLCHAIN="local",
             CGO_ENABLED=os.environ.get("CGO_ENABLED", "1"))
GUARD_TAG = "verif"


class BuildError(Exception):
    def __init__(self, stage, log):
        super().__init__(stage)
        self.stage, self.log = stage, log


def sh(cmd, cwd=None, env=None, timeout=1800):
    p = subprocess.run(cmd, cwd=cwd, env=env, shell=isinstance(cmd, str), stdout=subprocess.PIPE,
                       stderr=subprocess.STDOUT, timeout=timeout, text=True, errors="replace")
    return p.returncode, p.stdout


class Lock:
    def __enter__(self):
        os.makedirs(BUILD, exist_ok=True)
        self.f = open(os.path.join(BUILD, ".lock"), "w")
        fcntl.flock(self.f, fcntl.LOCK_EX)
        return self

    def __exit__(self, *a):
        fcntl.flock(self.f, fcntl.LOCK_UN)
        self.f.close()


def file_hash(paths):
    h = hashlib.sha256()
    for p in sorted(paths):
        h.update(p.encode())
        with open(p, "rb") as f:
            h.update(f.read())
    return h.hexdigest()


def build_go(log):
    """Go harness + translator, compiled against /repo in place (replace directive)."""
    t = time.time()
    hdir = os.path.join(VERIF, "harness")
    rc, out = sh([sys.executable, os.path.join(hdir, "gen_gomod.py")], env=GOENV)
    if rc != 0:
        raise BuildError("go.mod generation", out)
    rc, out = sh(["go", "build", "-tags", GUARD_TAG, "-o", os.path.join(BUILD, "hx"), "."], cwd=hdir, env=GOENV)
    if rc != 0:
        raise BuildError("go build of the harness against /repo", out)
    log["go_build_s"] = round(time.time() - t, 1)


def build_go_race(log):
    """The same harness built with the Go race detector (profiles conc / node of C20)."""
    t = time.time()
    hdir = os.path.join(VERIF, "harness")
    rc, out = sh(["go", "build", "-race", "-tags", GUARD_TAG, "-o", os.path.join(BUILD, "hxr"), "."], cwd=hdir, env=GOENV)
    if rc != 0:
        raise BuildError("go build -race of the harness against /repo", out)
    log["go_race_build_s"] = round(time.time() - t, 1)


def run_translator(log):
    """tools/gen (part of the hx binary: `hx gen`) regenerates coq/Generated/*.v from /repo."""
    t = time.time()
    gdir = os.path.join(COQ, "Generated")
    tmp = os.path.join(BUILD, "gen.tmp")
    shutil.rmtree(tmp, ignore_errors=True)
    os.makedirs(tmp)
    os.makedirs(gdir, exist_ok=True)
    rc, out = sh([os.path.join(BUILD, "hx"), "gen", "-out", tmp, "-repo", REPO], env=GOENV)
    if rc != 0:
        raise BuildError("translator (hx gen)", out)
    changed = []
    for f in sorted(os.listdir(tmp)):
        src, dst = os.path.join(tmp, f), os.path.join(gdir, f)
        new = open(src).read()
        old = open(dst).read() if os.path.exists(dst) else None
        if new != old:
            open(dst, "w").write(new)
            changed.append(f)
    log["generated_changed"] = changed
    log["generated_digest"] = file_hash(glob.glob(os.path.join(gdir, "*.v")))[:16]
    log["translator_s"] = round(time.time() - t, 1)


def build_coq(log, targets=None):
    """Full .vo build (no -vos).  targets: list of .vo paths relative to coq/, default = all."""
    t = time.time()
    if not os.path.exists(os.path.join(COQ, "Makefile")) or \
            os.path.getmtime(os.path.join(COQ, "_CoqProject")) > os.path.getmtime(os.path.join(COQ, "Makefile")):
        rc, out = sh("coq_makefile -f _CoqProject -o Makefile", cwd=COQ)
        if rc != 0:
            raise BuildError("coq_makefile", out)
    cmd = ["timeout", "1500", "make", "-j16"] + (targets or [])
    rc, out = sh(cmd, cwd=COQ)
    log["coq_build_s"] = round(time.time() - t, 1)
    if rc != 0:
        raise BuildError("coq build (" + " ".join(targets or ["all"]) + ")", out)
    return out


def build_ocaml(log):
    """Extraction (ExtrOcamlBasic only) + the OCaml driver; redone when the model's .vo files changed."""
    t = time.time()
    odir = os.path.join(BUILD, "ocaml")
    os.makedirs(odir, exist_ok=True)
    dep = os.path.join(COQ, "Driver", "Driver.vo")
    stamp = os.path.join(odir, ".stamp")
    key = file_hash([dep, os.path.join(VERIF, "ocaml", "modelrun.ml"), os.path.join(COQ, "Extract", "Extract.v")])
    if os.path.exists(stamp) and open(stamp).read() == key and os.path.exists(os.path.join(odir, "modelrun")):
        log["ocaml_build_s"] = 0
        return
    rc, out = sh(["coqc", "-Q", COQ, "PV", os.path.join(COQ, "Extract", "Extract.v"), "-o",
                  os.path.join(odir, "Extract.vo")], cwd=odir)
    if rc != 0:
        raise BuildError("extraction", out)
    shutil.copy(os.path.join(VERIF, "ocaml", "modelrun.ml"), odir)
    rc, out = sh("ocamlfind ocamlopt -O3 -w -a model.mli model.ml modelrun.ml -o modelrun", cwd=odir)
    if rc != 0:
        raise BuildError("ocaml build of the extracted model", out)
    open(stamp, "w").write(key)
    log["ocaml_build_s"] = round(time.time() - t, 1)


def build_all(log, coq_targets=None, need_model=True):
    with Lock():
        build_go(log)
        run_translator(log)
        if need_model:
            build_coq(log, ["Driver/Driver.vo"])
            build_ocaml(log)
        if coq_targets:
            build_coq(log, coq_targets)
