(** The history-file interpreter: one input line (a list of tokens) -> output lines.
    The same function is extracted to OCaml (ocaml/modelrun) and can be evaluated inside Coq. *)
From Coq Require Import Strings.String Strings.Byte.
From Coq Require Import List Arith NArith ZArith Bool.
From PV Require Import Base.Bytes Base.Outcome Base.KV Compkey.Model Aol.Model Bank.Model Chain.Model Driver.Tok.
Import ListNotations.

Record pending := {
  p_fee : coins; p_signers : list bytes; p_msgs : list msg (* reversed *);
  p_exec : option (bytes * list base_msg) (* an open MsgExec: grantee string, inner messages reversed *) }.

Record dstate := {
  d_unbech : list (bytes * bytes);   (* bech32 string -> address bytes (strings absent here do not decode) *)
  d_bech : list (bytes * bytes);     (* address bytes -> canonical bech32 string *)
  d_chain : chain;
  d_now : Z;
  d_fee_collector : bytes;
  d_blocked : list bytes;
  d_tx : option pending;
}.

Definition empty_chain : chain :=
  {| c_aol := []; c_bank := {| balances := []; supply := [] |}; c_grants := [] |}.

Definition dinit : dstate :=
  {| d_unbech := []; d_bech := []; d_chain := empty_chain; d_now := 0%Z; d_fee_collector := []; d_blocked := [];
     d_tx := None |}.

Definition upd_tables (st : dstate) (u : list (bytes * bytes)) (bb : list (bytes * bytes)) : dstate :=
  {| d_unbech := u; d_bech := bb; d_chain := d_chain st; d_now := d_now st; d_fee_collector := d_fee_collector st;
     d_blocked := d_blocked st; d_tx := d_tx st |}.
Definition upd_chain (st : dstate) (c : chain) : dstate :=
  {| d_unbech := d_unbech st; d_bech := d_bech st; d_chain := c; d_now := d_now st; d_fee_collector := d_fee_collector st;
     d_blocked := d_blocked st; d_tx := d_tx st |}.
Definition upd_tx (st : dstate) (t : option pending) : dstate :=
  {| d_unbech := d_unbech st; d_bech := d_bech st; d_chain := d_chain st; d_now := d_now st; d_fee_collector := d_fee_collector st;
     d_blocked := d_blocked st; d_tx := t |}.
Definition upd_env (st : dstate) (now : Z) (fc : bytes) (bl : list bytes) : dstate :=
  {| d_unbech := d_unbech st; d_bech := d_bech st; d_chain := d_chain st; d_now := now; d_fee_collector := fc;
     d_blocked := bl; d_tx := d_tx st |}.

Definition unbech_of (st : dstate) (s : bytes) : option bytes := lookup s (d_unbech st).
Definition bech_of (st : dstate) (a : bytes) : bytes :=
  match lookup a (d_bech st) with Some s => s | None => b "?" ++ to_hex a end.

(** ** compkey commands *)
Definition kind_of_tok (t : tok) : option key_kind :=
  if tok_is t "owner" then Some KOwner
  else if tok_is t "topic" then Some KTopic
  else if tok_is t "writer" then Some KWriter
  else if tok_is t "record" then Some KRecord
  else None.

Definition key_of_toks (kind : key_kind) (ts : list tok) : option typed_key :=
  match kind, ts with
  | KOwner, [o] => match bytes_of_tok o with Some o' => Some (OwnerKey o') | None => None end
  | KTopic, [o; t] =>
      match bytes_of_tok o, bytes_of_tok t with
      | Some o', Some t' => Some (TopicKey o' t') | _, _ => None end
  | KWriter, [o; t; w] =>
      match bytes_of_tok o, bytes_of_tok t, bytes_of_tok w with
      | Some o', Some t', Some w' => Some (WriterKey o' t' w') | _, _, _ => None end
  | KRecord, [o; t; n] =>
      match bytes_of_tok o, bytes_of_tok t, parse_dec n with
      | Some o', Some t', Some n' => Some (RecordKey o' t' n') | _, _, _ => None end
  | _, _ => None
  end.

Definition toks_of_key (k : typed_key) : list tok :=
  match k with
  | OwnerKey o => [b "owner"; tok_of_bytes o]
  | TopicKey o t => [b "topic"; tok_of_bytes o; tok_of_bytes t]
  | WriterKey o t w => [b "writer"; tok_of_bytes o; tok_of_bytes t; tok_of_bytes w]
  | RecordKey o t n => [b "record"; tok_of_bytes o; tok_of_bytes t; print_dec n]
  end.

Definition bad : list bytes := [b "BADLINE"].

Definition out_opt_bytes (x : option bytes) : list bytes :=
  match x with Some bz => [join_toks [b "ok"; tok_of_bytes bz]] | None => [b "err"] end.

Definition ck_cmd (st : dstate) (ts : list tok) : list bytes :=
  match ts with
  | op :: args =>
      if tok_is op "ENC" then
        match map_opt bytes_of_tok args with
        | Some vs => out_opt_bytes (encode vs)
        | None => bad
        end
      else if tok_is op "PENC" then
        match args with
        | k :: vals =>
            match nat_tok k, map_opt bytes_of_tok vals with
            | Some k', Some vs => out_opt_bytes (partial_encode vs k')
            | _, _ => bad
            end
        | _ => bad
        end
      else if tok_is op "DEC" then
        match args with
        | [x] => match bytes_of_tok x with
                 | Some bz => match decode bz with
                              | Some vs => [join_toks (b "ok" :: map tok_of_bytes vs)]
                              | None => [b "err"]
                              end
                 | None => bad
                 end
        | _ => bad
        end
      else if tok_is op "DECK" then
        match args with
        | [k; x] => match kind_of_tok k, bytes_of_tok x with
                    | Some kind, Some bz =>
                        match decode_key true kind bz with
                        | Ok key => [join_toks (b "ok" :: toks_of_key key)]
                        | Err _ _ => [b "err"]
                        | Panic => [b "panic"]
                        end
                    | _, _ => bad
                    end
        | _ => bad
        end
      else if tok_is op "ENCK" then
        match args with
        | k :: fields => match kind_of_tok k with
                         | Some kind => match key_of_toks kind fields with
                                        | Some key => out_opt_bytes (encode_key key)
                                        | None => bad
                                        end
                         | None => bad
                         end
        | _ => bad
        end
      else if tok_is op "STR" then
        match args with
        | k :: fields => match kind_of_tok k with
                         | Some kind => match key_of_toks kind fields with
                                        | Some key => [join_toks [b "ok"; tok_of_bytes (encode_to_string (bech_of st) key)]]
                                        | None => bad
                                        end
                         | None => bad
                         end
        | _ => bad
        end
      else if tok_is op "DSTR" then
        match args with
        | [k; x] => match kind_of_tok k, bytes_of_tok x with
                    | Some kind, Some s =>
                        match decode_from_string (unbech_of st) kind s with
                        | Some key => [join_toks (b "ok" :: toks_of_key key)]
                        | None => [b "err"]
                        end
                    | _, _ => bad
                    end
        | _ => bad
        end
      else bad
  | [] => bad
  end.


(** ** chain commands *)
Definition env_of (st : dstate) : env :=
  {| e_unbech := unbech_of st; e_now := d_now st; e_fee_collector := d_fee_collector st; e_blocked := d_blocked st |}.

Definition coin_of_tok (t : tok) : option coin :=
  match split_on ":"%byte t with
  | [d; a] => match of_hex d, parse_dec a with Some d', Some a' => Some (d', a') | _, _ => None end
  | _ => None
  end.
Definition coins_of_tok (t : tok) : option coins :=
  if tok_is t "-" then Some [] else map_opt coin_of_tok (split_on ","%byte t).
Definition addrs_of_tok (t : tok) : option (list bytes) :=
  if tok_is t "-" then Some [] else map_opt of_hex (split_on ","%byte t).
Definition z_of_tok (t : tok) : option Z :=
  match parse_dec t with Some n => Some (Z.of_N n) | None => None end.
Definition optz_of_tok (t : tok) : option (option Z) :=
  if tok_is t "-" then Some None else match z_of_tok t with Some z => Some (Some z) | None => None end.

Definition base_msg_of_toks (ts : list tok) : option base_msg :=
  match ts with
  | kind :: args =>
      match map_opt bytes_of_tok args with
      | None => None
      | Some a =>
          if tok_is kind "aol.CreateTopic" then
            match a with [t; d; o] => Some (BAol (ACreateTopic t d o)) | _ => None end
          else if tok_is kind "aol.AddWriter" then
            match a with [t; m; d; w; o] => Some (BAol (AAddWriter t m d w o)) | _ => None end
          else if tok_is kind "aol.DeleteWriter" then
            match a with [t; w; o] => Some (BAol (ADeleteWriter t w o)) | _ => None end
          else if tok_is kind "aol.AddRecord" then
            match a with [t; k; v; w; o; f] => Some (BAol (AAddRecord t k v w o f)) | _ => None end
          else if tok_is kind "authz.Revoke" then
            match a with [g; r; u] => Some (BRevoke g r u) | _ => None end
          else None
      end
  | [] => None
  end.

(** messages whose arguments are not all byte strings *)
Definition base_msg_of_toks2 (ts : list tok) : option base_msg :=
  match ts with
  | [kind; f; t; cs] =>
      if tok_is kind "bank.Send" then
        match bytes_of_tok f, bytes_of_tok t, coins_of_tok cs with
        | Some f', Some t', Some cs' => Some (BSend f' t' cs') | _, _, _ => None end
      else base_msg_of_toks ts
  | [kind; g; r; u; ex] =>
      if tok_is kind "authz.Grant" then
        match bytes_of_tok g, bytes_of_tok r, bytes_of_tok u, optz_of_tok ex with
        | Some g', Some r', Some u', Some ex' => Some (BGrant g' r' u' ex') | _, _, _, _ => None end
      else base_msg_of_toks ts
  | _ => base_msg_of_toks ts
  end.

Definition print_n (n : N) : bytes := print_dec n.
Definition print_z (z : Z) : bytes :=
  match z with Zneg p => b "-" ++ print_dec (Npos p) | _ => print_dec (Z.to_N z) end.

Definition result_line (r : tx_result) : bytes :=
  match r with
  | ROk acks => join_toks (b "R" :: b "ok" :: map print_n acks)
  | RVb cs code => join_toks [b "R"; b "vb"; cs; print_n code]
  | RVbPanic => b "R panic"
  | RAnte => b "R ante"
  | RMsg i cs code => join_toks [b "R"; b "msg"; print_n (N.of_nat i); cs; print_n code]
  | RMsgPanic => b "R panic"
  end.

Definition aol_val_toks (v : aol_val) : list tok :=
  match v with
  | VOwner n => [b "O"; print_n n]
  | VTopic d nr nw => [b "T"; tok_of_bytes d; print_n nr; print_n nw]
  | VWriter m d t => [b "W"; tok_of_bytes m; tok_of_bytes d; print_z t]
  | VRecord k v t w => [b "R"; tok_of_bytes k; tok_of_bytes v; print_z t; tok_of_bytes w]
  end.

Definition q_line (r : outcome aol_val) : bytes :=
  match r with
  | Ok v => join_toks (b "Q" :: b "ok" :: aol_val_toks v)
  | Err _ code => join_toks [b "Q"; b "err"; print_n code]
  | Panic => b "Q panic"
  end.

Definition dump_entry (e : bytes * aol_val) : bytes :=
  to_hex (fst e) ++ b "=" ++ join_with ":"%byte (aol_val_toks (snd e)).

Definition q_cmd (st : dstate) (ts : list tok) : list bytes :=
  let e := env_of st in
  match ts with
  | kind :: args =>
      match map_opt bytes_of_tok (firstn 2 args), skipn 2 args with
      | Some [o; t], rest =>
          if tok_is kind "aol.Record" then
            match rest with
            | [n] => match parse_dec n with
                     | Some off => [q_line (q_record (e_unbech e) true (c_aol (d_chain st)) o t off)]
                     | None => bad end
            | _ => bad end
          else if tok_is kind "aol.Topic" then
            match rest with [] => [q_line (q_topic (e_unbech e) true (c_aol (d_chain st)) o t)] | _ => bad end
          else if tok_is kind "aol.Writer" then
            match rest with
            | [w] => match bytes_of_tok w with
                     | Some w' => [q_line (q_writer (e_unbech e) true (c_aol (d_chain st)) o t w')]
                     | None => bad end
            | _ => bad end
          else bad
      | _, _ => bad
      end
  | [] => bad
  end.

Definition chain_cmd (st : dstate) (cmd : tok) (args : list tok) : option (dstate * list bytes) :=
  if tok_is cmd "ENV" then
    match args with
    | [k; v] => match bytes_of_tok v with
                | Some v' =>
                    if tok_is k "fee_collector" then Some (upd_env st (d_now st) v' (d_blocked st), [])
                    else if tok_is k "blocked" then Some (upd_env st (d_now st) (d_fee_collector st) (v' :: d_blocked st), [])
                    else Some (st, bad)
                | None => Some (st, bad) end
    | _ => Some (st, bad)
    end
  else if tok_is cmd "BAL" then
    match args with
    | [a; d; n] =>
        match bytes_of_tok a, bytes_of_tok d, parse_dec n with
        | Some a', Some d', Some n' =>
            let c := d_chain st in
            Some (upd_chain st (with_bank c (set_balance (c_bank c) a' d' n')), [])
        | _, _, _ => Some (st, bad)
        end
    | _ => Some (st, bad)
    end
  else if tok_is cmd "BLOCK" then
    match args with
    | [t] => match z_of_tok t with
             | Some z => let st1 := upd_env st z (d_fee_collector st) (d_blocked st) in
                         Some (upd_chain st1 (begin_block (env_of st1) (d_chain st1)), [])
             | None => Some (st, bad) end
    | _ => Some (st, bad)
    end
  else if tok_is cmd "TX" then
    match args with
    | [fee; sg] =>
        match coins_of_tok fee, addrs_of_tok sg with
        | Some f, Some s => Some (upd_tx st (Some {| p_fee := f; p_signers := s; p_msgs := []; p_exec := None |}), [])
        | _, _ => Some (st, bad)
        end
    | _ => Some (st, bad)
    end
  else if tok_is cmd "M" then
    match d_tx st, base_msg_of_toks2 args with
    | Some p, Some m =>
        match p_exec p with
        | Some (g, inner) =>
            Some (upd_tx st (Some {| p_fee := p_fee p; p_signers := p_signers p; p_msgs := p_msgs p;
                                     p_exec := Some (g, m :: inner) |}), [])
        | None =>
            Some (upd_tx st (Some {| p_fee := p_fee p; p_signers := p_signers p; p_msgs := MBase m :: p_msgs p;
                                     p_exec := None |}), [])
        end
    | _, _ => Some (st, bad)
    end
  else if tok_is cmd "X" then
    match d_tx st, args with
    | Some p, [g] =>
        match bytes_of_tok g with
        | Some g' => Some (upd_tx st (Some {| p_fee := p_fee p; p_signers := p_signers p; p_msgs := p_msgs p;
                                              p_exec := Some (g', []) |}), [])
        | None => Some (st, bad) end
    | _, _ => Some (st, bad)
    end
  else if tok_is cmd "XEND" then
    match d_tx st with
    | Some p =>
        match p_exec p with
        | Some (g, inner) =>
            Some (upd_tx st (Some {| p_fee := p_fee p; p_signers := p_signers p;
                                     p_msgs := MExec g (rev inner) :: p_msgs p; p_exec := None |}), [])
        | None => Some (st, bad)
        end
    | None => Some (st, bad)
    end
  else if tok_is cmd "ENDTX" then
    match d_tx st with
    | Some p =>
        let t := {| tx_msgs := rev (p_msgs p); tx_signed_by := p_signers p; tx_fee := p_fee p |} in
        let '(c', r) := deliver_tx (env_of st) (d_chain st) t in
        Some (upd_tx (upd_chain st c') None, [result_line r])
    | None => Some (st, bad)
    end
  else if tok_is cmd "ENDBLOCK" then
    Some (upd_chain st (end_block (env_of st) (d_chain st)), [])
  else if tok_is cmd "Q" then Some (st, q_cmd st args)
  else if tok_is cmd "DUMP" then
    match args with
    | [which] =>
        if tok_is which "aol" then
          Some (st, [join_toks [b "D"; b "aol"; join_with ";"%byte (map dump_entry (c_aol (d_chain st)))]])
        else Some (st, bad)
    | _ => Some (st, bad)
    end
  else None.

(** ** dispatcher *)
Definition step_line (st : dstate) (ts : list tok) : dstate * list bytes :=
  match ts with
  | [] => (st, [])
  | cmd :: args =>
      if tok_is cmd "#" then (st, [])
      else if tok_is cmd "ADDR" then
        match args with
        | [s; a] => match bytes_of_tok s, bytes_of_tok a with
                    | Some s', Some a' =>
                        (upd_tables st ((s', a') :: d_unbech st) (d_bech st), [])
                    | _, _ => (st, bad)
                    end
        | _ => (st, bad)
        end
      else if tok_is cmd "BECH" then
        match args with
        | [a; s] => match bytes_of_tok a, bytes_of_tok s with
                    | Some a', Some s' =>
                        (upd_tables st (d_unbech st) ((a', s') :: d_bech st), [])
                    | _, _ => (st, bad)
                    end
        | _ => (st, bad)
        end
      else if tok_is cmd "RESET" then (dinit, [])
      else if tok_is cmd "CK" then (st, ck_cmd st args)
      else match chain_cmd st cmd args with
           | Some r => r
           | None => (st, bad)
           end
  end.

(** run a whole file (used for in-Coq evaluation of small cases) *)
Fixpoint run_lines (st : dstate) (ls : list (list tok)) : list bytes :=
  match ls with
  | [] => []
  | l :: r => let '(st', out) := step_line st l in out ++ run_lines st' r
  end.
