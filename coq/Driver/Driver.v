(** The history-file interpreter: one input line (a list of tokens) -> output lines.
    The same function is extracted to OCaml (ocaml/modelrun) and can be evaluated inside Coq. *)
From Coq Require Import Strings.String Strings.Byte.
From Coq Require Import List Arith NArith ZArith Bool.
From PV Require Import Base.Bytes Base.Base64 Base.Outcome Base.KV Compkey.Model Aol.Model Aol.Query Bank.Model Did.Model Pnft.Model Chain.Model Keystore.Load Driver.Tok.
From PV Require Generated.GenNft.
From PV Require Pagination.Model Pnft.Query.
From PV Require Sign.Model.
From PV Require Upgrade.Model Upgrade.Baseline Generated.GenUpgrade.
Import ListNotations.

Record pending := {
  p_fee : coins; p_signers : list bytes; p_msgs : list msg (* reversed *);
  p_exec : option (bytes * list base_msg) (* an open MsgExec: grantee string, inner messages reversed *) }.

Record dstate := {
  d_unbech : list (bytes * bytes);   (* bech32 string -> address bytes (strings absent here do not decode) *)
  d_bech : list (bytes * bytes);     (* address bytes -> canonical bech32 string *)
  d_chain : chain;
  d_now : Z;
  d_fee_collector : bytes;
  d_blocked : list bytes;
  d_tx : option pending;
  d_docs : list (bytes * did_doc);          (* document literals by reference name *)
  d_keys58 : list (bytes * bytes);          (* base58 string -> 33-byte secp256k1 key (absent = not a key) *)
  d_sigs : list (bytes * (bytes * bytes));  (* valid signatures: key, (signed bytes, signature) *)
  d_watch : list bytes;                     (* addresses whose balance deltas are reported per transaction *)
  d_denoms : list bytes;
  d_versions : list chain;                  (* committed versions, oldest first *)
  d_base : N;                               (* block height of the first element of d_versions *)
}.

Definition dinit : dstate :=
  {| d_unbech := []; d_bech := []; d_chain := empty_chain; d_now := 0%Z; d_fee_collector := []; d_blocked := [];
     d_tx := None; d_docs := []; d_keys58 := []; d_sigs := []; d_watch := []; d_denoms := []; d_versions := []; d_base := 1%N |}.

Definition upd_tables (st : dstate) (u : list (bytes * bytes)) (bb : list (bytes * bytes)) : dstate :=
  {| d_unbech := u; d_bech := bb; d_chain := d_chain st; d_now := d_now st; d_fee_collector := d_fee_collector st;
     d_blocked := d_blocked st; d_tx := d_tx st; d_docs := d_docs st; d_keys58 := d_keys58 st; d_sigs := d_sigs st; d_watch := d_watch st; d_denoms := d_denoms st; d_versions := d_versions st; d_base := d_base st |}.
Definition upd_chain (st : dstate) (c : chain) : dstate :=
  {| d_unbech := d_unbech st; d_bech := d_bech st; d_chain := c; d_now := d_now st; d_fee_collector := d_fee_collector st;
     d_blocked := d_blocked st; d_tx := d_tx st; d_docs := d_docs st; d_keys58 := d_keys58 st; d_sigs := d_sigs st; d_watch := d_watch st; d_denoms := d_denoms st; d_versions := d_versions st; d_base := d_base st |}.
Definition upd_versions (st : dstate) (vs : list chain) (base : N) : dstate :=
  {| d_unbech := d_unbech st; d_bech := d_bech st; d_chain := d_chain st; d_now := d_now st; d_fee_collector := d_fee_collector st;
     d_blocked := d_blocked st; d_tx := d_tx st; d_docs := d_docs st; d_keys58 := d_keys58 st; d_sigs := d_sigs st; d_watch := d_watch st;
     d_denoms := d_denoms st; d_versions := vs; d_base := base |}.
Definition upd_tx (st : dstate) (t : option pending) : dstate :=
  {| d_unbech := d_unbech st; d_bech := d_bech st; d_chain := d_chain st; d_now := d_now st; d_fee_collector := d_fee_collector st;
     d_blocked := d_blocked st; d_tx := t; d_docs := d_docs st; d_keys58 := d_keys58 st; d_sigs := d_sigs st; d_watch := d_watch st; d_denoms := d_denoms st; d_versions := d_versions st; d_base := d_base st |}.
Definition upd_env (st : dstate) (now : Z) (fc : bytes) (bl : list bytes) : dstate :=
  {| d_unbech := d_unbech st; d_bech := d_bech st; d_chain := d_chain st; d_now := now; d_fee_collector := fc;
     d_blocked := bl; d_tx := d_tx st; d_docs := d_docs st; d_keys58 := d_keys58 st; d_sigs := d_sigs st; d_watch := d_watch st; d_denoms := d_denoms st; d_versions := d_versions st; d_base := d_base st |}.

Definition unbech_of (st : dstate) (s : bytes) : option bytes := lookup s (d_unbech st).
Definition bech_of (st : dstate) (a : bytes) : bytes :=
  match lookup a (d_bech st) with Some s => s | None => b "?" ++ to_hex a end.

Definition upd_did_tables (st : dstate) (docs : list (bytes * did_doc)) (k58 : list (bytes * bytes))
           (sigs : list (bytes * (bytes * bytes))) : dstate :=
  {| d_unbech := d_unbech st; d_bech := d_bech st; d_chain := d_chain st; d_now := d_now st;
     d_fee_collector := d_fee_collector st; d_blocked := d_blocked st; d_tx := d_tx st;
     d_docs := docs; d_keys58 := k58; d_sigs := sigs; d_watch := d_watch st; d_denoms := d_denoms st; d_versions := d_versions st; d_base := d_base st |}.

Definition upd_watch (st : dstate) (w : list bytes) (ds : list bytes) : dstate :=
  {| d_unbech := d_unbech st; d_bech := d_bech st; d_chain := d_chain st; d_now := d_now st;
     d_fee_collector := d_fee_collector st; d_blocked := d_blocked st; d_tx := d_tx st;
     d_docs := d_docs st; d_keys58 := d_keys58 st; d_sigs := d_sigs st; d_watch := w; d_denoms := ds; d_versions := d_versions st; d_base := d_base st |}.

(** ** compkey commands *)
Definition kind_of_tok (t : tok) : option key_kind :=
  if tok_is t "owner" then Some KOwner
  else if tok_is t "topic" then Some KTopic
  else if tok_is t "writer" then Some KWriter
  else if tok_is t "record" then Some KRecord
  else None.

Definition key_of_toks (kind : key_kind) (ts : list tok) : option typed_key :=
  match kind, ts with
  | KOwner, [o] => match bytes_of_tok o with Some o' => Some (OwnerKey o') | None => None end
  | KTopic, [o; t] =>
      match bytes_of_tok o, bytes_of_tok t with
      | Some o', Some t' => Some (TopicKey o' t') | _, _ => None end
  | KWriter, [o; t; w] =>
      match bytes_of_tok o, bytes_of_tok t, bytes_of_tok w with
      | Some o', Some t', Some w' => Some (WriterKey o' t' w') | _, _, _ => None end
  | KRecord, [o; t; n] =>
      match bytes_of_tok o, bytes_of_tok t, parse_dec n with
      | Some o', Some t', Some n' => Some (RecordKey o' t' n') | _, _, _ => None end
  | _, _ => None
  end.

Definition toks_of_key (k : typed_key) : list tok :=
  match k with
  | OwnerKey o => [b "owner"; tok_of_bytes o]
  | TopicKey o t => [b "topic"; tok_of_bytes o; tok_of_bytes t]
  | WriterKey o t w => [b "writer"; tok_of_bytes o; tok_of_bytes t; tok_of_bytes w]
  | RecordKey o t n => [b "record"; tok_of_bytes o; tok_of_bytes t; print_dec n]
  end.

Definition bad : list bytes := [b "BADLINE"].

Definition out_opt_bytes (x : option bytes) : list bytes :=
  match x with Some bz => [join_toks [b "ok"; tok_of_bytes bz]] | None => [b "err"] end.

Definition ck_cmd (st : dstate) (ts : list tok) : list bytes :=
  match ts with
  | op :: args =>
      if tok_is op "ENC" then
        match map_opt bytes_of_tok args with
        | Some vs => out_opt_bytes (encode vs)
        | None => bad
        end
      else if tok_is op "PENC" then
        match args with
        | k :: vals =>
            match nat_tok k, map_opt bytes_of_tok vals with
            | Some k', Some vs => out_opt_bytes (partial_encode vs k')
            | _, _ => bad
            end
        | _ => bad
        end
      else if tok_is op "DEC" then
        match args with
        | [x] => match bytes_of_tok x with
                 | Some bz => match decode bz with
                              | Some vs => [join_toks (b "ok" :: map tok_of_bytes vs)]
                              | None => [b "err"]
                              end
                 | None => bad
                 end
        | _ => bad
        end
      else if tok_is op "DECK" then
        match args with
        | [k; x] => match kind_of_tok k, bytes_of_tok x with
                    | Some kind, Some bz =>
                        match decode_key true kind bz with
                        | Ok key => [join_toks (b "ok" :: toks_of_key key)]
                        | Err _ _ => [b "err"]
                        | Panic => [b "panic"]
                        end
                    | _, _ => bad
                    end
        | _ => bad
        end
      else if tok_is op "ENCK" then
        match args with
        | k :: fields => match kind_of_tok k with
                         | Some kind => match key_of_toks kind fields with
                                        | Some key => out_opt_bytes (encode_key key)
                                        | None => bad
                                        end
                         | None => bad
                         end
        | _ => bad
        end
      else if tok_is op "STR" then
        match args with
        | k :: fields => match kind_of_tok k with
                         | Some kind => match key_of_toks kind fields with
                                        | Some key => [join_toks [b "ok"; tok_of_bytes (encode_to_string (bech_of st) key)]]
                                        | None => bad
                                        end
                         | None => bad
                         end
        | _ => bad
        end
      else if tok_is op "DSTR" then
        match args with
        | [k; x] => match kind_of_tok k, bytes_of_tok x with
                    | Some kind, Some s =>
                        match decode_from_string (unbech_of st) kind s with
                        | Some key => [join_toks (b "ok" :: toks_of_key key)]
                        | None => [b "err"]
                        end
                    | _, _ => bad
                    end
        | _ => bad
        end
      else bad
  | [] => bad
  end.



(** ** DID documents, tables, messages *)
Fixpoint update_assoc {A} (k : bytes) (f : A -> A) (l : list (bytes * A)) : list (bytes * A) :=
  match l with
  | [] => []
  | (k', v) :: r => if bytes_eqb k k' then (k', f v) :: r else (k', v) :: update_assoc k f r
  end.

Definition set_rel (which : tok) (r : vrel) (d : did_doc) : option did_doc :=
  let mk a s k ci cd :=
    {| doc_contexts := doc_contexts d; doc_id := doc_id d; doc_controller := doc_controller d; doc_vms := doc_vms d;
       doc_auth := a; doc_assert := s; doc_keyagree := k; doc_capinv := ci; doc_capdel := cd;
       doc_services := doc_services d |} in
  if tok_is which "auth" then Some (mk (doc_auth d ++ [r]) (doc_assert d) (doc_keyagree d) (doc_capinv d) (doc_capdel d))
  else if tok_is which "assert" then Some (mk (doc_auth d) (doc_assert d ++ [r]) (doc_keyagree d) (doc_capinv d) (doc_capdel d))
  else if tok_is which "keyagree" then Some (mk (doc_auth d) (doc_assert d) (doc_keyagree d ++ [r]) (doc_capinv d) (doc_capdel d))
  else if tok_is which "capinv" then Some (mk (doc_auth d) (doc_assert d) (doc_keyagree d) (doc_capinv d ++ [r]) (doc_capdel d))
  else if tok_is which "capdel" then Some (mk (doc_auth d) (doc_assert d) (doc_keyagree d) (doc_capinv d) (doc_capdel d ++ [r]))
  else None.

Definition doc_cmd (st : dstate) (cmd : tok) (args : list tok) : option (dstate * list bytes) :=
  let upd ref f := Some (upd_did_tables st (update_assoc ref f (d_docs st)) (d_keys58 st) (d_sigs st), []) in
  match args with
  | ref :: rest =>
      match map_opt bytes_of_tok rest with
      | None => if tok_is cmd "DREL" then
                  (* DREL ref which ref|ded fields... : which/kind are plain words *)
                  match rest with
                  | which :: kind :: fields =>
                      match map_opt bytes_of_tok fields with
                      | Some [id] =>
                          if tok_is kind "ref" then
                            match lookup ref (d_docs st) with
                            | Some d => match set_rel which (VRef id) d with
                                        | Some d' => upd ref (fun _ => d') | None => Some (st, bad) end
                            | None => Some (st, bad) end
                          else Some (st, bad)
                      | Some [id; ty; ct; pk] =>
                          if tok_is kind "ded" then
                            match lookup ref (d_docs st) with
                            | Some d => match set_rel which (VDed {| vm_id := id; vm_type := ty; vm_controller := ct; vm_pubkey58 := pk |}) d with
                                        | Some d' => upd ref (fun _ => d') | None => Some (st, bad) end
                            | None => Some (st, bad) end
                          else Some (st, bad)
                      | _ => Some (st, bad)
                      end
                  | _ => Some (st, bad)
                  end
                else None
      | Some a =>
          if tok_is cmd "DOC" then
            match a with
            | [id] => Some (upd_did_tables st ((ref, {| doc_contexts := None; doc_id := id; doc_controller := None;
                                                        doc_vms := []; doc_auth := []; doc_assert := []; doc_keyagree := [];
                                                        doc_capinv := []; doc_capdel := []; doc_services := [] |}) :: d_docs st)
                                           (d_keys58 st) (d_sigs st), [])
            | _ => Some (st, bad)
            end
          else if tok_is cmd "DCTX" then
            upd ref (fun d => {| doc_contexts := Some a; doc_id := doc_id d; doc_controller := doc_controller d; doc_vms := doc_vms d;
                                 doc_auth := doc_auth d; doc_assert := doc_assert d; doc_keyagree := doc_keyagree d;
                                 doc_capinv := doc_capinv d; doc_capdel := doc_capdel d; doc_services := doc_services d |})
          else if tok_is cmd "DCTRL" then
            upd ref (fun d => {| doc_contexts := doc_contexts d; doc_id := doc_id d; doc_controller := Some a; doc_vms := doc_vms d;
                                 doc_auth := doc_auth d; doc_assert := doc_assert d; doc_keyagree := doc_keyagree d;
                                 doc_capinv := doc_capinv d; doc_capdel := doc_capdel d; doc_services := doc_services d |})
          else if tok_is cmd "DVM" then
            match a with
            | [id; ty; ct; pk] =>
                upd ref (fun d => {| doc_contexts := doc_contexts d; doc_id := doc_id d; doc_controller := doc_controller d;
                                     doc_vms := doc_vms d ++ [{| vm_id := id; vm_type := ty; vm_controller := ct; vm_pubkey58 := pk |}];
                                     doc_auth := doc_auth d; doc_assert := doc_assert d; doc_keyagree := doc_keyagree d;
                                     doc_capinv := doc_capinv d; doc_capdel := doc_capdel d; doc_services := doc_services d |})
            | _ => Some (st, bad)
            end
          else if tok_is cmd "DSVC" then
            match a with
            | [id; ty; ep] =>
                upd ref (fun d => {| doc_contexts := doc_contexts d; doc_id := doc_id d; doc_controller := doc_controller d;
                                     doc_vms := doc_vms d; doc_auth := doc_auth d; doc_assert := doc_assert d;
                                     doc_keyagree := doc_keyagree d; doc_capinv := doc_capinv d; doc_capdel := doc_capdel d;
                                     doc_services := doc_services d ++ [{| sv_id := id; sv_type := ty; sv_endpoint := ep |}] |})
            | _ => Some (st, bad)
            end
          else None
      end
  | [] => None
  end.

Definition did_table_cmd (st : dstate) (cmd : tok) (args : list tok) : option (dstate * list bytes) :=
  if tok_is cmd "KEY58" then
    match map_opt bytes_of_tok args with
    | Some [s; k] => Some (upd_did_tables st (d_docs st) ((s, k) :: d_keys58 st) (d_sigs st), [])
    | _ => Some (st, bad)
    end
  else if tok_is cmd "SIGT" then
    match map_opt bytes_of_tok args with
    | Some [k; m; sg] => Some (upd_did_tables st (d_docs st) (d_keys58 st) ((k, (m, sg)) :: d_sigs st), [])
    | _ => Some (st, bad)
    end
  else None.

(** canonical rendering of a document (the same printer exists on the Go side) *)
Definition cat (sep : string) (xs : list bytes) : bytes := concat (map (fun x => b sep ++ x) xs).
Definition vm_str (vm : vmethod) : bytes :=
  join_with "/"%byte [tok_of_bytes (vm_id vm); tok_of_bytes (vm_type vm); tok_of_bytes (vm_controller vm); tok_of_bytes (vm_pubkey58 vm)].
Definition rel_str (r : vrel) : bytes :=
  match r with
  | VRef id => b "r/" ++ tok_of_bytes id
  | VDed vm => b "d/" ++ vm_str vm
  end.
Definition svc_str (s : service) : bytes :=
  join_with "/"%byte [tok_of_bytes (sv_id s); tok_of_bytes (sv_type s); tok_of_bytes (sv_endpoint s)].
Definition optl_str (o : option (list bytes)) : bytes :=
  match o with None => b "none" | Some l => b "L" ++ cat "," (map tok_of_bytes l) end.
Definition doc_str (d : did_doc) : bytes :=
  join_with "|"%byte
    [tok_of_bytes (doc_id d); optl_str (doc_contexts d); optl_str (doc_controller d);
     b "L" ++ cat "," (map vm_str (doc_vms d));
     b "L" ++ cat "," (map rel_str (doc_auth d)); b "L" ++ cat "," (map rel_str (doc_assert d));
     b "L" ++ cat "," (map rel_str (doc_keyagree d)); b "L" ++ cat "," (map rel_str (doc_capinv d));
     b "L" ++ cat "," (map rel_str (doc_capdel d));
     b "L" ++ cat "," (map svc_str (doc_services d))].

Definition did_entry_str (e : bytes * did_entry) : bytes :=
  to_hex (fst e) ++ b "=" ++ print_dec (en_seq (snd e)) ++ b ":" ++
  match en_doc (snd e) with Some d => doc_str d | None => b "nil" end.

Definition docref (st : dstate) (t : tok) : option (option did_doc) :=
  if tok_is t "-" then Some None
  else match lookup t (d_docs st) with Some d => Some (Some d) | None => None end.

Definition did_msg_of_toks (st : dstate) (ts : list tok) : option base_msg :=
  match ts with
  | [kind; did; dref; vmid; sg; from] =>
      match bytes_of_tok did, docref st dref, bytes_of_tok vmid, bytes_of_tok sg, bytes_of_tok from with
      | Some did', Some doc, Some vmid', Some sg', Some from' =>
          if tok_is kind "did.Create" then Some (BDid (DCreate did' doc vmid' sg' from'))
          else if tok_is kind "did.Update" then Some (BDid (DUpdate did' doc vmid' sg' from'))
          else None
      | _, _, _, _, _ => None
      end
  | [kind; did; vmid; sg; from] =>
      if tok_is kind "did.Deactivate" then
        match map_opt bytes_of_tok [did; vmid; sg; from] with
        | Some [did'; vmid'; sg'; from'] => Some (BDid (DDeactivate did' vmid' sg' from'))
        | _ => None
        end
      else None
  | _ => None
  end.

Definition print_z_early (z : Z) : bytes :=
  match z with Zneg p => b "-" ++ print_dec (Npos p) | _ => print_dec (Z.to_N z) end.

(** ** PNFT messages, renderings, queries *)
Definition pnft_msg_of_toks (ts : list tok) : option base_msg :=
  match ts with
  | kind :: args =>
      match map_opt bytes_of_tok args with
      | None => None
      | Some a =>
          if tok_is kind "pnft.CreateDenom" then
            match a with [i; n; sy; d; u; uh; c; dt] => Some (BPnft (PCreateDenom i n sy d u uh c dt)) | _ => None end
          else if tok_is kind "pnft.UpdateDenom" then
            match a with [i; n; sy; d; u; uh; c; dt] => Some (BPnft (PUpdateDenom i n sy d u uh c dt)) | _ => None end
          else if tok_is kind "pnft.DeleteDenom" then
            match a with [i; r] => Some (BPnft (PDeleteDenom i r)) | _ => None end
          else if tok_is kind "pnft.TransferDenom" then
            match a with [i; sn; r] => Some (BPnft (PTransferDenom i sn r)) | _ => None end
          else if tok_is kind "pnft.Mint" then
            match a with [dn; i; n; d; u; uh; dt; c] => Some (BPnft (PMint dn i n d u uh dt c)) | _ => None end
          else if tok_is kind "pnft.Transfer" then
            match a with [dn; i; sn; r] => Some (BPnft (PTransfer dn i sn r)) | _ => None end
          else if tok_is kind "pnft.Burn" then
            match a with [dn; i; bu] => Some (BPnft (PBurn dn i bu)) | _ => None end
          else None
      end
  | [] => None
  end.

Definition denom_str (d : denom) : bytes :=
  join_with "/"%byte (map tok_of_bytes [dn_id d; dn_name d; dn_symbol d; dn_description d; dn_uri d; dn_uri_hash d; dn_owner d; dn_data d]).
Definition token_str (t : token) : bytes :=
  join_with "/"%byte (map tok_of_bytes [tk_class t; tk_id t; tk_name t; tk_description t; tk_uri t; tk_uri_hash t; tk_data t; tk_creator t]
                      ++ [print_z_early (tk_created_at t)]).
Definition pnft_str (p : pnft) : bytes := token_str (p_token p) ++ b "/" ++ tok_of_bytes (p_owner p).

Definition nft_val_str (v : nft_val) : bytes :=
  match v with
  | VClass d => b "C:" ++ denom_str d
  | VToken t => b "T:" ++ token_str t
  | VOwnerOf o => b "O:" ++ tok_of_bytes o
  | VByOwner => b "P"
  | VSupply n => b "S:" ++ print_dec n
  end.
Definition pnft_entry_str (e : bytes * nft_val) : bytes := to_hex (fst e) ++ b "=" ++ nft_val_str (snd e).

(** ** chain commands *)
(** the ideal signature scheme of the correspondence: a signature verifies exactly when the harness
    produced it with that key over those bytes (table SIGT, filled by the real secp256k1 code) *)
Definition verify_of (st : dstate) (pk msg sg : bytes) : bool :=
  existsb (fun e => bytes_eqb (fst e) pk && bytes_eqb (fst (snd e)) msg && bytes_eqb (snd (snd e)) sg) (d_sigs st).

Definition env_of (st : dstate) : env :=
  {| e_unbech := unbech_of st; e_now := d_now st; e_fee_collector := d_fee_collector st; e_blocked := d_blocked st; e_bech := bech_of st;
     e_b58key := fun s => lookup s (d_keys58 st); e_verify := verify_of st |}.

Definition coin_of_tok (t : tok) : option coin :=
  match split_on ":"%byte t with
  | [d; a] => match of_hex d, parse_dec a with Some d', Some a' => Some (d', a') | _, _ => None end
  | _ => None
  end.
Definition coins_of_tok (t : tok) : option coins :=
  if tok_is t "-" then Some [] else map_opt coin_of_tok (split_on ","%byte t).
Definition addrs_of_tok (t : tok) : option (list bytes) :=
  if tok_is t "-" then Some [] else map_opt of_hex (split_on ","%byte t).
Definition z_of_tok (t : tok) : option Z :=
  match parse_dec t with Some n => Some (Z.of_N n) | None => None end.
Definition optz_of_tok (t : tok) : option (option Z) :=
  if tok_is t "-" then Some None else match z_of_tok t with Some z => Some (Some z) | None => None end.

Definition base_msg_of_toks (ts : list tok) : option base_msg :=
  match ts with
  | kind :: args =>
      match map_opt bytes_of_tok args with
      | None => None
      | Some a =>
          if tok_is kind "aol.CreateTopic" then
            match a with [t; d; o] => Some (BAol (ACreateTopic t d o)) | _ => None end
          else if tok_is kind "aol.AddWriter" then
            match a with [t; m; d; w; o] => Some (BAol (AAddWriter t m d w o)) | _ => None end
          else if tok_is kind "aol.DeleteWriter" then
            match a with [t; w; o] => Some (BAol (ADeleteWriter t w o)) | _ => None end
          else if tok_is kind "aol.AddRecord" then
            match a with [t; k; v; w; o; f] => Some (BAol (AAddRecord t k v w o f)) | _ => None end
          else if tok_is kind "authz.Revoke" then
            match a with [g; r; u] => Some (BRevoke g r u) | _ => None end
          else None
      end
  | [] => None
  end.

(** [bank.MultiSend <from> <coins> <to1> <coins1> <to2> <coins2> ...]: one input, any number of outputs *)
Fixpoint outs_of_toks (ts : list tok) : option (list (bytes * coins)) :=
  match ts with
  | [] => Some []
  | a :: cs :: r =>
      match bytes_of_tok a, coins_of_tok cs, outs_of_toks r with
      | Some a', Some cs', Some r' => Some ((a', cs') :: r') | _, _, _ => None end
  | _ => None
  end.
Definition multi_send_of_toks (args : list tok) : option base_msg :=
  match args with
  | f :: cs :: outs =>
      match bytes_of_tok f, coins_of_tok cs, outs_of_toks outs with
      | Some f', Some cs', Some outs' => Some (BMultiSend f' cs' outs') | _, _, _ => None end
  | _ => None
  end.

(** messages whose arguments are not all byte strings *)
Definition base_msg_of_toks2 (ts : list tok) : option base_msg :=
  match ts with
  | kind :: args => if tok_is kind "bank.MultiSend" then multi_send_of_toks args else
  match ts with
  | [kind; f; t; cs] =>
      if tok_is kind "bank.Send" then
        match bytes_of_tok f, bytes_of_tok t, coins_of_tok cs with
        | Some f', Some t', Some cs' => Some (BSend f' t' cs') | _, _, _ => None end
      else base_msg_of_toks ts
  | [kind; g; r; u; ex] =>
      if tok_is kind "vesting.Create" then
        match bytes_of_tok g, bytes_of_tok r, coins_of_tok u, z_of_tok ex with
        | Some f', Some t', Some cs', Some et' => Some (BVest f' t' cs' et') | _, _, _, _ => None end
      else
      if tok_is kind "authz.Grant" then
        match bytes_of_tok g, bytes_of_tok r, bytes_of_tok u, optz_of_tok ex with
        | Some g', Some r', Some u', Some ex' => Some (BGrant g' r' u' ex') | _, _, _, _ => None end
      else base_msg_of_toks ts
  | _ => base_msg_of_toks ts
  end
  | [] => base_msg_of_toks ts
  end.

Definition print_n (n : N) : bytes := print_dec n.
Definition print_z (z : Z) : bytes :=
  match z with Zneg p => b "-" ++ print_dec (Npos p) | _ => print_dec (Z.to_N z) end.

Definition result_line (r : tx_result) : bytes :=
  match r with
  | ROk acks => join_toks (b "R" :: b "ok" :: map print_n acks)
  | RVb cs code => join_toks [b "R"; b "vb"; cs; print_n code]
  | RVbPanic => b "R panic"
  | RAnte => b "R ante"
  | RMsg i cs code => join_toks [b "R"; b "msg"; print_n (N.of_nat i); cs; print_n code]
  | RMsgPanic => b "R panic"
  end.

(** the SDK keeps and prints coins sorted by denomination: presentation order of a coin list *)
Fixpoint insert_coin (c : bytes * N) (l : coins) : coins :=
  match l with
  | [] => [c]
  | h :: t => if bytes_ltb (fst c) (fst h) then c :: h :: t else h :: insert_coin c t
  end.
Definition sort_coins (l : coins) : coins := fold_right insert_coin [] l.

Definition coins_tok (cs : coins) : bytes :=
  match cs with
  | [] => b "-"
  | _ => join_with ","%byte (map (fun c => to_hex (fst c) ++ b ":" ++ print_dec (snd c)) cs)
  end.

(** balance deltas of the watched addresses (and the supply) caused by one transaction *)
Definition delta_line (st : dstate) (before after : bank) : bytes :=
  join_toks (b "T" ::
    flat_map (fun a => map (fun d => print_z (Z.of_N (balance after a d) - Z.of_N (balance before a d))) (d_denoms st)) (d_watch st)
    ++ map (fun d => print_z (Z.of_N (supply_of after d) - Z.of_N (supply_of before d))) (d_denoms st)).

Definition aol_val_toks (v : aol_val) : list tok :=
  match v with
  | VOwner n => [b "O"; print_n n]
  | VTopic d nr nw => [b "T"; tok_of_bytes d; print_n nr; print_n nw]
  | VWriter m d t => [b "W"; tok_of_bytes m; tok_of_bytes d; print_z t]
  | VRecord k v t w => [b "R"; tok_of_bytes k; tok_of_bytes v; print_z t; tok_of_bytes w]
  end.

Definition q_line (r : outcome aol_val) : bytes :=
  match r with
  | Ok v => join_toks (b "Q" :: b "ok" :: aol_val_toks v)
  | Err _ code => join_toks [b "Q"; b "err"; print_n code]
  | Panic => b "Q panic"
  end.

Definition dump_entry (e : bytes * aol_val) : bytes :=
  to_hex (fst e) ++ b "=" ++ join_with ":"%byte (aol_val_toks (snd e)).

Definition optkey_of_tok (t : tok) : option (option bytes) :=
  if tok_is t "nil" then Some None
  else match bytes_of_tok t with
       | Some [] => Some None       (* an empty key does not survive the protobuf wire: the handler sees nil *)
       | Some k => Some (Some k) | None => None end.
Definition bool_of_tok (t : tok) : option bool :=
  if tok_is t "1" then Some true else if tok_is t "0" then Some false else None.

Definition page_req_of_toks (ts : list tok) : option (option Pagination.Model.page_req) :=
  match ts with
  | [t] => if tok_is t "nopage" then Some None else None
  | [k; off; lim; ct; rv] =>
      match optkey_of_tok k, parse_dec off, parse_dec lim, bool_of_tok ct, bool_of_tok rv with
      | Some k', Some off', Some lim', Some ct', Some rv' =>
          Some (Some (Pagination.Model.mk_page_req k' off' lim' ct' rv'))
      | _, _, _, _, _ => None
      end
  | _ => None
  end.

Definition page_line (r : outcome (list bytes * Pagination.Model.page_res)) : bytes :=
  match r with
  | Ok (items, pr) =>
      join_toks [b "Q"; b "ok"; b "L" ++ cat "," (map tok_of_bytes items);
                 match Pagination.Model.pg_next_key pr with
                 | Some (c :: k) => to_hex (c :: k)
                 | _ => b "nil"
                 end;
                 print_dec (Pagination.Model.pg_total pr)]
  | Err _ code => join_toks [b "Q"; b "err"; print_dec code]
  | Panic => b "Q panic"
  end.

Definition pnft_q (st : dstate) (ts : list tok) : option (list bytes) :=
  let e := env_of st in
  let ps := c_pnft (d_chain st) in
  let lst (l : list bytes) := [join_toks [b "Q"; b "ok"; b "L" ++ cat "," l]] in
  match ts with
  | kind :: args =>
      if tok_is kind "pnft.Denoms" then
        match page_req_of_toks args with
        | Some req =>
            match Pnft.Query.q_denoms ps req with
            | Ok (l, pr) => Some [join_toks [b "Q"; b "ok"; b "L" ++ cat "," (map denom_str l);
                                             match Pagination.Model.pg_next_key pr with Some (c :: k) => to_hex (c :: k) | _ => b "nil" end;
                                             print_dec (Pagination.Model.pg_total pr)]]
            | Err _ _ => Some [b "Q err 2"]
            | Panic => Some [b "Q panic"]
            end
        | None => Some bad
        end
      else
      match map_opt bytes_of_tok args with
      | None => None
      | Some a =>
          if tok_is kind "pnft.Denom" then
            match a with
            | [i] => match get_class ps i with Some d => Some [join_toks [b "Q"; b "ok"; denom_str d]] | None => Some [b "Q err 2"] end
            | _ => Some bad end
          else if tok_is kind "pnft.PNFT" then
            match a with
            | [dn; i] => match get_pnft (e_bech e) ps dn i with
                         | Some p => Some [join_toks [b "Q"; b "ok"; pnft_str p]] | None => Some [b "Q err 2"] end
            | _ => Some bad end
          else if tok_is kind "pnft.PNFTs" then
            match a with
            | [dn] => Some (lst (map pnft_str (pnfts_of_class (e_bech e) ps dn)))
            | _ => Some bad end
          else if tok_is kind "pnft.ByOwner" then
            match a with
            | [dn; o] => match e_unbech e o with
                         | Some oa => Some (lst (map pnft_str (pnfts_of_class_by_owner (e_bech e) ps dn oa)))
                         | None => Some [b "Q err 2"] end
            | _ => Some bad end
          else if tok_is kind "pnft.DenomsByOwner" then
            match a with
            | [o] => Some (lst (map denom_str (denoms_by_owner true ps o)))
            | _ => Some bad end
          else None
      end
  | [] => None
  end.

Definition q_cmd0 (st : dstate) (ts : list tok) : list bytes :=
  let e := env_of st in
  match ts with
  | [kind; did] =>
      if tok_is kind "did.DID" then
        match bytes_of_tok did with
        | Some d =>
            match q_did (c_did (d_chain st)) d with
            | DFound doc seq => [join_toks [b "Q"; b "ok"; print_dec seq; doc_str doc]]
            | DNotFound => [b "Q err 5 notfound"]
            | DDeactivated => [b "Q err 5 deactivated"]
            end
        | None => bad
        end
      else if tok_is kind "did.DID64" then
        (* the did_base64 field as the client sent it: refused unless it decodes (base64.StdEncoding.DecodeString) *)
        match bytes_of_tok did with
        | Some raw =>
            match q_did64 (c_did (d_chain st)) raw with
            | None => [b "Q err 3"]
            | Some (DFound doc seq) => [join_toks [b "Q"; b "ok"; print_dec seq; doc_str doc]]
            | Some DNotFound => [b "Q err 5 notfound"]
            | Some DDeactivated => [b "Q err 5 deactivated"]
            end
        | None => bad
        end
      else bad
  | kind :: o :: rest =>
      if tok_is kind "aol.Topics" then
        match bytes_of_tok o, page_req_of_toks rest with
        | Some o', Some req => [page_line (q_topics (e_unbech e) (c_aol (d_chain st)) o' req)]
        | _, _ => bad
        end
      else if tok_is kind "aol.Writers" then
        match rest with
        | t :: rest' =>
            match bytes_of_tok o, bytes_of_tok t, page_req_of_toks rest' with
            | Some o', Some t', Some req => [page_line (q_writers (e_unbech e) (bech_of st) (c_aol (d_chain st)) o' t' req)]
            | _, _, _ => bad
            end
        | [] => bad
        end
      else
      let args := o :: rest in
      match map_opt bytes_of_tok (firstn 2 args), skipn 2 args with
      | Some [o; t], rest =>
          if tok_is kind "aol.Record" then
            match rest with
            | [n] => match parse_dec n with
                     | Some off => [q_line (q_record (e_unbech e) true (c_aol (d_chain st)) o t off)]
                     | None => bad end
            | _ => bad end
          else if tok_is kind "aol.Topic" then
            match rest with [] => [q_line (q_topic (e_unbech e) true (c_aol (d_chain st)) o t)] | _ => bad end
          else if tok_is kind "aol.Writer" then
            match rest with
            | [w] => match bytes_of_tok w with
                     | Some w' => [q_line (q_writer (e_unbech e) true (c_aol (d_chain st)) o t w')]
                     | None => bad end
            | _ => bad end
          else bad
      | _, _ => bad
      end
  | _ => bad
  end.

Definition q_cmd (st : dstate) (ts : list tok) : list bytes :=
  match pnft_q st ts with Some r => r | None => q_cmd0 st ts end.

Definition chain_cmd (st : dstate) (cmd : tok) (args : list tok) : option (dstate * list bytes) :=
  if tok_is cmd "ENV" then
    match args with
    | [k; v] => match bytes_of_tok v with
                | Some v' =>
                    if tok_is k "fee_collector" then Some (upd_env st (d_now st) v' (d_blocked st), [])
                    else if tok_is k "blocked" then Some (upd_env st (d_now st) (d_fee_collector st) (v' :: d_blocked st), [])
                    else if tok_is k "watch" then Some (upd_watch st (d_watch st ++ [v']) (d_denoms st), [])
                    else if tok_is k "denom" then Some (upd_watch st (d_watch st) (d_denoms st ++ [v']), [])
                    else if tok_is k "account" then
                      Some (upd_chain st (with_bank (d_chain st) (add_account (c_bank (d_chain st)) v')), [])
                    else Some (st, bad)
                | None => Some (st, bad) end
    | _ => Some (st, bad)
    end
  else if tok_is cmd "BAL" then
    match args with
    | [a; d; n] =>
        match bytes_of_tok a, bytes_of_tok d, parse_dec n with
        | Some a', Some d', Some n' =>
            let c := d_chain st in
            let bk := add_account (set_balance (c_bank c) a' d' n') a' in
            Some (upd_chain st (with_bank c (set_supply bk d' (supply_of bk d' + n'))), [])
        | _, _, _ => Some (st, bad)
        end
    | _ => Some (st, bad)
    end
  else if tok_is cmd "BLOCK" then
    match args with
    | [t] => match z_of_tok t with
             | Some z => let st0 := match d_versions st with [] => upd_versions st [d_chain st] (d_base st) | _ => st end in
                         let st1 := upd_env st0 z (d_fee_collector st0) (d_blocked st0) in
                         Some (upd_chain st1 (begin_block (env_of st1) (d_chain st1)), [])
             | None => Some (st, bad) end
    | _ => Some (st, bad)
    end
  else if tok_is cmd "TX" then
    match args with
    | [fee; sg] =>
        match coins_of_tok fee, addrs_of_tok sg with
        | Some f, Some s => Some (upd_tx st (Some {| p_fee := f; p_signers := s; p_msgs := []; p_exec := None |}), [])
        | _, _ => Some (st, bad)
        end
    | _ => Some (st, bad)
    end
  else if tok_is cmd "M" then
    match d_tx st, (match did_msg_of_toks st args with
                   | Some m => Some m
                   | None => match pnft_msg_of_toks args with Some m => Some m | None => base_msg_of_toks2 args end
                   end) with
    | Some p, Some m =>
        match p_exec p with
        | Some (g, inner) =>
            Some (upd_tx st (Some {| p_fee := p_fee p; p_signers := p_signers p; p_msgs := p_msgs p;
                                     p_exec := Some (g, m :: inner) |}), [])
        | None =>
            Some (upd_tx st (Some {| p_fee := p_fee p; p_signers := p_signers p; p_msgs := MBase m :: p_msgs p;
                                     p_exec := None |}), [])
        end
    | _, _ => Some (st, bad)
    end
  else if tok_is cmd "SIGMOD" then
    (* the signatures of the pending transaction are not signatures over it: no account has signed *)
    match d_tx st with
    | Some p => Some (upd_tx st (Some {| p_fee := p_fee p; p_signers := []; p_msgs := p_msgs p; p_exec := p_exec p |}), [])
    | None => Some (st, bad)
    end
  else if tok_is cmd "X" then
    match d_tx st, args with
    | Some p, [g] =>
        match bytes_of_tok g with
        | Some g' => Some (upd_tx st (Some {| p_fee := p_fee p; p_signers := p_signers p; p_msgs := p_msgs p;
                                              p_exec := Some (g', []) |}), [])
        | None => Some (st, bad) end
    | _, _ => Some (st, bad)
    end
  else if tok_is cmd "XEND" then
    match d_tx st with
    | Some p =>
        match p_exec p with
        | Some (g, inner) =>
            Some (upd_tx st (Some {| p_fee := p_fee p; p_signers := p_signers p;
                                     p_msgs := MExec g (rev inner) :: p_msgs p; p_exec := None |}), [])
        | None => Some (st, bad)
        end
    | None => Some (st, bad)
    end
  else if tok_is cmd "ENDTX" then
    match d_tx st with
    | Some p =>
        let t := {| tx_msgs := rev (p_msgs p); tx_signed_by := p_signers p; tx_fee := p_fee p |} in
        let '(c', r) := deliver_tx (env_of st) (d_chain st) t in
        Some (upd_tx (upd_chain st c') None, [result_line r; delta_line st (c_bank (d_chain st)) (c_bank c')])
    | None => Some (st, bad)
    end
  else if tok_is cmd "ENDSIGN" then
    (* C14: the sign bytes of the pending transaction; nothing is executed *)
    match d_tx st, args with
    | Some p, [mode; chain; accnum; sq; memo; gas; authinfo; pkany] =>
        match bytes_of_tok chain, parse_dec accnum, parse_dec sq, bytes_of_tok memo with
        | Some chain', Some accnum', Some sq', Some memo' =>
            match parse_dec gas, bytes_of_tok authinfo, bytes_of_tok pkany,
                  map_opt (fun m => match m with MBase bm => Some bm | MExec _ _ => None end) (rev (p_msgs p)) with
            | Some gas', Some authinfo', Some pkany', Some msgs =>
                Some (upd_tx st None,
                      [match Sign.Model.sign_bytes mode chain' accnum' sq' memo' gas' (p_fee p) authinfo' pkany' msgs with
                       | Some bz => b "S " ++ to_hex bz
                       | None => b "S err"
                       end])
            | _, _, _, _ => Some (upd_tx st None, [b "S err"])
            end
        | _, _, _, _ => Some (st, bad)
        end
    | _, _ => Some (st, bad)
    end
  else if tok_is cmd "ENDBLOCK" then
    let c := d_chain st in
    let c' := end_block (env_of st) c in
    Some (upd_versions (upd_chain st c') (d_versions st ++ [c']) (d_base st),
          [join_toks (b "B" :: coins_tok (sort_coins (spendable_coins (c_bank c) (d_now st) Generated.GenApp.burn_address))
                        :: map (fun d => print_z (Z.of_N (supply_of (c_bank c') d) - Z.of_N (supply_of (c_bank c) d))) (d_denoms st))])
  else if tok_is cmd "G" then
    (* genesis map entries: G aol.<kind> <key string> <fields> *)
    match args with
    | kind :: ks :: fields =>
        let entry : option (key_kind * aol_val) :=
          if tok_is kind "aol.owner" then
            match fields with [n] => match parse_dec n with Some n' => Some (KOwner, VOwner n') | None => None end | _ => None end
          else if tok_is kind "aol.topic" then
            match fields with
            | [d; nr; nw] => match bytes_of_tok d, parse_dec nr, parse_dec nw with
                             | Some d', Some nr', Some nw' => Some (KTopic, VTopic d' nr' nw') | _, _, _ => None end
            | _ => None end
          else if tok_is kind "aol.writer" then
            match fields with
            | [m; d; t] => match bytes_of_tok m, bytes_of_tok d, z_of_tok t with
                           | Some m', Some d', Some t' => Some (KWriter, VWriter m' d' t') | _, _, _ => None end
            | _ => None end
          else if tok_is kind "aol.record" then
            match fields with
            | [k; v; t; w] => match bytes_of_tok k, bytes_of_tok v, z_of_tok t, bytes_of_tok w with
                              | Some k', Some v', Some t', Some w' => Some (KRecord, VRecord k' v' t' w') | _, _, _, _ => None end
            | _ => None end
          else None in
        match entry, bytes_of_tok ks with
        | Some (kk, v), Some ks' =>
            match init_kind (unbech_of st) kk [(ks', v)] (c_aol (d_chain st)) with
            | Ok a => Some (upd_chain st (with_aol (d_chain st) a), [])
            | _ => Some (st, [b "G panic"])
            end
        | _, _ => Some (st, bad)
        end
    | _ => Some (st, bad)
    end
  else if tok_is cmd "GD" then
    (* a DID genesis entry: GD <did key> <document ref | -> <sequence>.  GenesisState.Validate decides entry by entry;
       InitGenesis stores every entry of a genesis that passed under its key *)
    match args with
    | [k; r; n] =>
        match bytes_of_tok k, docref st r, parse_dec n with
        | Some did, Some od, Some seq =>
            let e := {| en_doc := Some (match od with Some d => d | None => empty_doc end); en_seq := seq |} in
            (* the entry reaches the chain through the JSON genesis file: texts are coerced to UTF-8 on the way *)
            let g := coerce_did_genesis [(did, e)] in
            if validate_did_genesis g
            then Some (upd_chain st (with_did (d_chain st) (init_did g (c_did (d_chain st)))), [b "GD ok"])
            else Some (st, [b "GD invalid"])
        | _, _, _ => Some (st, bad)
        end
    | _ => Some (st, bad)
    end
  else if tok_is cmd "VB" then
    (* stateless validation of one message, outside any transaction *)
    match (match did_msg_of_toks st args with
           | Some m => Some m
           | None => match pnft_msg_of_toks args with Some m => Some m | None => base_msg_of_toks2 args end
           end) with
    | Some m =>
        Some (st, [match vb_base (env_of st) m with
                   | Ok _ => b "V ok"
                   | Err cs code => join_toks [b "V"; b "err"; cs; print_dec code]
                   | Panic => b "V panic"
                   end;
                   match vb_base (env_of st) m with
                   | Ok _ => match signers_base (env_of st) m with
                             | Ok l => join_toks [b "S"; b "ok"; join_with ","%byte (map tok_of_bytes l)]
                             | _ => b "S panic"
                             end
                   | _ => b "S skipped"
                   end])
    | None => Some (st, bad)
    end
  else if tok_is cmd "KS" then
    (* a key-store file described by its features: KS json version cipher kdf prf machex ivhex cthex salthex ivlen dklen macok *)
    match args with
    | [j; ver; ci; kd; pr; mh; ih; ch; sh; il; dk; mm] =>
        let zs (t : tok) : option Z :=
          match t with
          | c :: r => if byte_eqb c "-"%byte then match parse_dec r with Some n => Some (- Z.of_N n)%Z | None => None end
                      else match parse_dec t with Some n => Some (Z.of_N n) | None => None end
          | [] => None
          end in
        match bool_of_tok j, zs ver, bytes_of_tok ci, bytes_of_tok kd, bytes_of_tok pr with
        | Some j', Some ver', Some ci', Some kd', Some pr' =>
            match bool_of_tok mh, bool_of_tok ih, bool_of_tok ch, bool_of_tok sh, nat_tok il, zs dk, bool_of_tok mm with
            | Some mh', Some ih', Some ch', Some sh', Some il', Some dk', Some mm' =>
                let f := {| kf_json_ok := j'; kf_version := ver'; kf_cipher := ci'; kf_kdf := kd'; kf_prf := pr';
                            kf_mac_hex_ok := mh'; kf_iv_hex_ok := ih'; kf_ct_hex_ok := ch'; kf_salt_hex_ok := sh';
                            kf_iv_len := il'; kf_dklen := dk'; kf_mac_matches := mm' |} in
                Some (st, [match load true f with LOk => b "K ok" | LErr => b "K err" | LPanic => b "K panic" end])
            | _, _, _, _, _, _, _ => Some (st, bad)
            end
        | _, _, _, _, _ => Some (st, bad)
        end
    | _ => Some (st, bad)
    end
  else if tok_is cmd "EXPORTIMPORT" then
    match export_import_app (bech_of st) (unbech_of st) (d_now st) (d_chain st) with
    | Ok c' => Some (upd_versions (upd_chain st c') [c'] (d_base st + N.of_nat (length (d_versions st))), [b "X ok"])
    | Err _ _ => Some (st, [b "X invalid"])
    | Panic => Some (st, [b "X panic"])
    end
  else if tok_is cmd "UPROBE" then
    (* C19: this binary started at the height of the k-th upgrade descriptor, on the disk left by the previous ones *)
    match args with
    | [k] =>
        match parse_dec k with
        | Some k' =>
            let ups := Generated.GenUpgrade.upgrades in
            match nth_error ups (N.to_nat k') with
            | Some d =>
                let disk := Upgrade.Model.upgrade_path Upgrade.Baseline.baseline (firstn (N.to_nat k') ups) in
                Some (st, [join_toks [b "U"; b "probe"; tok_of_bytes (b (Upgrade.Model.d_name d));
                                      if Upgrade.Model.load_ok Generated.GenUpgrade.mounted_stores disk (Some d) then b "ok" else b "fail"]])
            | None => Some (st, [b "U probe ? bad-index"])
            end
        | None => Some (st, bad)
        end
    | _ => Some (st, bad)
    end
  else if tok_is cmd "UPGRADE" then Some (st, [b "U scheduled"])   (* a software-upgrade plan: no custom-module state is involved *)
  else if tok_is cmd "ENDCHECK" then Some (upd_tx st None, [])     (* CheckTx / simulate: no effect on the committed or deliver state *)
  else if tok_is cmd "ENDSIM" then Some (upd_tx st None, [])
  else if tok_is cmd "CRASH" then
    (* stop and restart on the same database: the block in progress (if any) is lost *)
    match d_versions st with
    | [] => Some (st, [join_toks [b "H"; print_dec (d_base st)]])
    | v :: vs => Some (upd_tx (upd_chain st (last vs v)) None,
                       [join_toks [b "H"; print_dec (d_base st + N.of_nat (length vs))]])
    end
  else if tok_is cmd "QH" then
    (* a query at a committed height (0 = latest committed) *)
    match args with
    | h :: qargs =>
        match parse_dec h with
        | Some h' =>
            let ver := if (h' =? 0)%N then (match d_versions st with [] => Some (d_chain st) | v :: vs => Some (last vs v) end)
                       else if (h' <? d_base st)%N then None
                       else nth_error (d_versions st) (N.to_nat (h' - d_base st)) in
            match ver with
            | Some c => Some (st, q_cmd (upd_chain st c) qargs)
            | None => Some (st, [b "Q err height"])
            end
        | None => Some (st, bad)
        end
    | [] => Some (st, bad)
    end
  else if tok_is cmd "Q" then Some (st, q_cmd st args)
  else if tok_is cmd "DUMP" then
    match args with
    | [which] =>
        if tok_is which "aol" then
          Some (st, [join_toks [b "D"; b "aol"; join_with ";"%byte (map dump_entry (c_aol (d_chain st)))]])
        else if tok_is which "pnft" then
          Some (st, [join_toks [b "D"; b "pnft"; join_with ";"%byte (map pnft_entry_str (c_pnft (d_chain st)))]])
        else if tok_is which "did" then
          Some (st, [join_toks [b "D"; b "did"; join_with ";"%byte (map did_entry_str (c_did (d_chain st)))]])
        else Some (st, bad)
    | _ => Some (st, bad)
    end
  else None.

(** ** dispatcher *)
Definition step_line (st : dstate) (ts : list tok) : dstate * list bytes :=
  match ts with
  | [] => (st, [])
  | cmd :: args =>
      if tok_is cmd "#" then (st, [])
      else if tok_is cmd "ADDR" then
        match args with
        | [s; a] => match bytes_of_tok s, bytes_of_tok a with
                    | Some s', Some a' =>
                        (upd_tables st ((s', a') :: d_unbech st) (d_bech st), [])
                    | _, _ => (st, bad)
                    end
        | _ => (st, bad)
        end
      else if tok_is cmd "BECH" then
        match args with
        | [a; s] => match bytes_of_tok a, bytes_of_tok s with
                    | Some a', Some s' =>
                        (upd_tables st (d_unbech st) ((a', s') :: d_bech st), [])
                    | _, _ => (st, bad)
                    end
        | _ => (st, bad)
        end
      else if tok_is cmd "RESET" then (dinit, [])
      else if tok_is cmd "MODE" then (st, [])     (* sign mode of the following transactions: no effect on the model *)
      else if tok_is cmd "CK" then (st, ck_cmd st args)
      else match chain_cmd st cmd args with
           | Some r => r
           | None =>
               match doc_cmd st cmd args with
               | Some r => r
               | None => match did_table_cmd st cmd args with Some r => r | None => (st, bad) end
               end
           end
  end.

(** run a whole file (used for in-Coq evaluation of small cases) *)
Fixpoint run_lines (st : dstate) (ls : list (list tok)) : list bytes :=
  match ls with
  | [] => []
  | l :: r => let '(st', out) := step_line st l in out ++ run_lines st' r
  end.
