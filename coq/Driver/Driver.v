(** The history-file interpreter: one input line (a list of tokens) -> output lines.
    The same function is extracted to OCaml (ocaml/modelrun) and can be evaluated inside Coq. *)
From Coq Require Import Strings.String Strings.Byte.
From Coq Require Import List Arith NArith Bool.
From PV Require Import Base.Bytes Base.Outcome Compkey.Model Driver.Tok.
Import ListNotations.

Record dstate := {
  d_unbech : list (bytes * bytes);   (* bech32 string -> address bytes (strings absent here do not decode) *)
  d_bech : list (bytes * bytes);     (* address bytes -> canonical bech32 string *)
}.

Definition dinit : dstate := {| d_unbech := []; d_bech := [] |}.

Definition unbech_of (st : dstate) (s : bytes) : option bytes := lookup s (d_unbech st).
Definition bech_of (st : dstate) (a : bytes) : bytes :=
  match lookup a (d_bech st) with Some s => s | None => b "?" ++ to_hex a end.

(** ** compkey commands *)
Definition kind_of_tok (t : tok) : option key_kind :=
  if tok_is t "owner" then Some KOwner
  else if tok_is t "topic" then Some KTopic
  else if tok_is t "writer" then Some KWriter
  else if tok_is t "record" then Some KRecord
  else None.

Definition key_of_toks (kind : key_kind) (ts : list tok) : option typed_key :=
  match kind, ts with
  | KOwner, [o] => match bytes_of_tok o with Some o' => Some (OwnerKey o') | None => None end
  | KTopic, [o; t] =>
      match bytes_of_tok o, bytes_of_tok t with
      | Some o', Some t' => Some (TopicKey o' t') | _, _ => None end
  | KWriter, [o; t; w] =>
      match bytes_of_tok o, bytes_of_tok t, bytes_of_tok w with
      | Some o', Some t', Some w' => Some (WriterKey o' t' w') | _, _, _ => None end
  | KRecord, [o; t; n] =>
      match bytes_of_tok o, bytes_of_tok t, parse_dec n with
      | Some o', Some t', Some n' => Some (RecordKey o' t' n') | _, _, _ => None end
  | _, _ => None
  end.

Definition toks_of_key (k : typed_key) : list tok :=
  match k with
  | OwnerKey o => [b "owner"; tok_of_bytes o]
  | TopicKey o t => [b "topic"; tok_of_bytes o; tok_of_bytes t]
  | WriterKey o t w => [b "writer"; tok_of_bytes o; tok_of_bytes t; tok_of_bytes w]
  | RecordKey o t n => [b "record"; tok_of_bytes o; tok_of_bytes t; print_dec n]
  end.

Definition bad : list bytes := [b "BADLINE"].

Definition out_opt_bytes (x : option bytes) : list bytes :=
  match x with Some bz => [join_toks [b "ok"; tok_of_bytes bz]] | None => [b "err"] end.

Definition ck_cmd (st : dstate) (ts : list tok) : list bytes :=
  match ts with
  | op :: args =>
      if tok_is op "ENC" then
        match map_opt bytes_of_tok args with
        | Some vs => out_opt_bytes (encode vs)
        | None => bad
        end
      else if tok_is op "PENC" then
        match args with
        | k :: vals =>
            match nat_tok k, map_opt bytes_of_tok vals with
            | Some k', Some vs => out_opt_bytes (partial_encode vs k')
            | _, _ => bad
            end
        | _ => bad
        end
      else if tok_is op "DEC" then
        match args with
        | [x] => match bytes_of_tok x with
                 | Some bz => match decode bz with
                              | Some vs => [join_toks (b "ok" :: map tok_of_bytes vs)]
                              | None => [b "err"]
                              end
                 | None => bad
                 end
        | _ => bad
        end
      else if tok_is op "DECK" then
        match args with
        | [k; x] => match kind_of_tok k, bytes_of_tok x with
                    | Some kind, Some bz =>
                        match decode_key true kind bz with
                        | Ok key => [join_toks (b "ok" :: toks_of_key key)]
                        | Err _ _ => [b "err"]
                        | Panic => [b "panic"]
                        end
                    | _, _ => bad
                    end
        | _ => bad
        end
      else if tok_is op "ENCK" then
        match args with
        | k :: fields => match kind_of_tok k with
                         | Some kind => match key_of_toks kind fields with
                                        | Some key => out_opt_bytes (encode_key key)
                                        | None => bad
                                        end
                         | None => bad
                         end
        | _ => bad
        end
      else if tok_is op "STR" then
        match args with
        | k :: fields => match kind_of_tok k with
                         | Some kind => match key_of_toks kind fields with
                                        | Some key => [join_toks [b "ok"; tok_of_bytes (encode_to_string (bech_of st) key)]]
                                        | None => bad
                                        end
                         | None => bad
                         end
        | _ => bad
        end
      else if tok_is op "DSTR" then
        match args with
        | [k; x] => match kind_of_tok k, bytes_of_tok x with
                    | Some kind, Some s =>
                        match decode_from_string (unbech_of st) kind s with
                        | Some key => [join_toks (b "ok" :: toks_of_key key)]
                        | None => [b "err"]
                        end
                    | _, _ => bad
                    end
        | _ => bad
        end
      else bad
  | [] => bad
  end.

(** ** dispatcher *)
Definition step_line (st : dstate) (ts : list tok) : dstate * list bytes :=
  match ts with
  | [] => (st, [])
  | cmd :: args =>
      if tok_is cmd "#" then (st, [])
      else if tok_is cmd "ADDR" then
        match args with
        | [s; a] => match bytes_of_tok s, bytes_of_tok a with
                    | Some s', Some a' =>
                        ({| d_unbech := (s', a') :: d_unbech st; d_bech := d_bech st |}, [])
                    | _, _ => (st, bad)
                    end
        | _ => (st, bad)
        end
      else if tok_is cmd "BECH" then
        match args with
        | [a; s] => match bytes_of_tok a, bytes_of_tok s with
                    | Some a', Some s' =>
                        ({| d_unbech := d_unbech st; d_bech := (a', s') :: d_bech st |}, [])
                    | _, _ => (st, bad)
                    end
        | _ => (st, bad)
        end
      else if tok_is cmd "CK" then (st, ck_cmd st args)
      else (st, bad)
  end.

(** run a whole file (used for in-Coq evaluation of small cases) *)
Fixpoint run_lines (st : dstate) (ls : list (list tok)) : list bytes :=
  match ls with
  | [] => []
  | l :: r => let '(st', out) := step_line st l in out ++ run_lines st' r
  end.
