(** Token-level helpers for the line-based history format (executable glue, no theorems). *)
From Coq Require Import Strings.String Strings.Byte.
From Coq Require Import List Arith NArith Bool.
From PV Require Import Base.Bytes.
Import ListNotations.

Definition tok := bytes.

Definition tok_is (t : tok) (s : string) : bool := bytes_eqb t (b s).

(** all 256 bytes in order (used by the OCaml driver to convert characters) *)
Definition all_bytes : list byte :=
  map (fun n => byte_of_N_mod (N.of_nat n)) (seq 0 256).

Fixpoint map_opt {A B} (f : A -> option B) (l : list A) : option (list B) :=
  match l with
  | [] => Some []
  | x :: r => match f x, map_opt f r with
              | Some y, Some ys => Some (y :: ys)
              | _, _ => None
              end
  end.

Definition join_toks (ts : list tok) : bytes := join_with " "%byte ts.

Definition nat_tok (t : tok) : option nat :=
  match parse_dec t with Some n => Some (N.to_nat n) | None => None end.

(** association tables keyed by byte strings *)
Fixpoint lookup {A} (k : bytes) (l : list (bytes * A)) : option A :=
  match l with
  | [] => None
  | (k', v) :: r => if bytes_eqb k k' then Some v else lookup k r
  end.
