(** Model of KeyStore.Load / decryptKey of x/did/client/crypto/keystore.go: the decision logic around the
    cryptographic primitives (PBKDF2, Keccak MAC, AES-CTR are outside the model: whether the MAC matches is an input). *)
From Coq Require Import Strings.String Strings.Byte.
From Coq Require Import List Arith NArith ZArith Bool.
From PV Require Import Base.Bytes.
From PV Require Import Keystore.Locks.
From PV Require Generated.GenKeystore.
Import ListNotations.

Record keyfile := {
  kf_json_ok : bool;                 (* the file exists and decodes as JSON into the key structure *)
  kf_version : Z; kf_cipher : bytes; kf_kdf : bytes; kf_prf : bytes;
  kf_mac_hex_ok : bool; kf_iv_hex_ok : bool; kf_ct_hex_ok : bool; kf_salt_hex_ok : bool;
  kf_iv_len : nat;                   (* length of the decoded iv *)
  kf_dklen : Z;
  kf_mac_matches : bool              (* the MAC recomputed from password, salt, c, dklen and ciphertext equals the stored one *)
}.

Inductive load_result := LOk | LErr | LPanic.

(** [strict] = the repaired code: dklen must be the supported value and the iv one AES block.
    With [false] it is the original code: dklen <= 0 panics in pbkdf2.Key / slicing, and an iv of another
    length panics in cipher.NewCTR once the MAC has been verified. *)
Definition load (strict : bool) (f : keyfile) : load_result :=
  if negb (kf_json_ok f) then LErr
  else if negb (kf_version f =? GenKeystore.ks_version)%Z then LErr
  else if negb (bytes_eqb (kf_cipher f) GenKeystore.ks_cipher) then LErr
  else if negb (bytes_eqb (kf_kdf f) GenKeystore.ks_kdf) then LErr
  else if negb (bytes_eqb (kf_prf f) GenKeystore.ks_prf) then LErr
  else if negb (kf_mac_hex_ok f) then LErr
  else if negb (kf_iv_hex_ok f) then LErr
  else if negb (kf_ct_hex_ok f) then LErr
  else if negb (kf_salt_hex_ok f) then LErr
  else if strict then
    if negb (kf_dklen f =? GenKeystore.ks_dklen)%Z then LErr
    else if negb (kf_iv_len f =? 16)%nat then LErr
    else if kf_mac_matches f then LOk else LErr
  else
    if (kf_dklen f <=? 0)%Z then LPanic
    else if negb (kf_mac_matches f) then LErr
    else if negb (kf_iv_len f =? 16)%nat then LPanic
    else LOk.

(** loading any key file with any password returns a key or an error, never a panic *)
Theorem load_total : forall f, load true f <> LPanic.
Proof.
  intros f. unfold load.
  repeat match goal with |- (if ?c then _ else _) <> _ => destruct c; try discriminate end.
Qed.

(** the original code could panic: two witnesses (finding F4, repaired) *)
Definition good_file : keyfile :=
  {| kf_json_ok := true; kf_version := GenKeystore.ks_version; kf_cipher := GenKeystore.ks_cipher; kf_kdf := GenKeystore.ks_kdf;
     kf_prf := GenKeystore.ks_prf; kf_mac_hex_ok := true; kf_iv_hex_ok := true; kf_ct_hex_ok := true; kf_salt_hex_ok := true;
     kf_iv_len := 16; kf_dklen := GenKeystore.ks_dklen; kf_mac_matches := true |}.
Definition with_dklen (f : keyfile) (n : Z) : keyfile :=
  {| kf_json_ok := kf_json_ok f; kf_version := kf_version f; kf_cipher := kf_cipher f; kf_kdf := kf_kdf f; kf_prf := kf_prf f;
     kf_mac_hex_ok := kf_mac_hex_ok f; kf_iv_hex_ok := kf_iv_hex_ok f; kf_ct_hex_ok := kf_ct_hex_ok f; kf_salt_hex_ok := kf_salt_hex_ok f;
     kf_iv_len := kf_iv_len f; kf_dklen := n; kf_mac_matches := kf_mac_matches f |}.
Definition with_iv_len (f : keyfile) (n : nat) : keyfile :=
  {| kf_json_ok := kf_json_ok f; kf_version := kf_version f; kf_cipher := kf_cipher f; kf_kdf := kf_kdf f; kf_prf := kf_prf f;
     kf_mac_hex_ok := kf_mac_hex_ok f; kf_iv_hex_ok := kf_iv_hex_ok f; kf_ct_hex_ok := kf_ct_hex_ok f; kf_salt_hex_ok := kf_salt_hex_ok f;
     kf_iv_len := n; kf_dklen := kf_dklen f; kf_mac_matches := kf_mac_matches f |}.

Theorem load_lenient_refuted :
  load false (with_dklen good_file 0) = LPanic /\ load false (with_iv_len good_file 1) = LPanic /\ load true good_file = LOk /\
  load true (with_dklen good_file 0) = LErr /\ load true (with_iv_len good_file 1) = LErr.
Proof. vm_compute. repeat split; reflexivity. Qed.

(** the key store's mutex programs, regenerated from the source: no exported method acquires the mutex
    while holding it, hence (Locks.v) no interleaving of any number of calls can deadlock *)
Theorem keystore_programs_nonreentrant : programs_ok (map snd GenKeystore.lock_programs) = true.
Proof. vm_compute. reflexivity. Qed.
Theorem keystore_programs_present : (3 <=? length GenKeystore.lock_programs)%nat = true.
Proof. vm_compute. reflexivity. Qed.

(** any number of concurrent calls, each one of the key store's exported methods, in any interleaving:
    no reachable state is stuck *)
Theorem keystore_calls_deadlock_free : forall calls,
  (forall p, In p calls -> In p (map snd GenKeystore.lock_programs)) ->
  forall s, reachable (init calls) s -> ~ stuck s.
Proof.
  intros calls Hin. apply nonreentrant_deadlock_free.
  apply forallb_forall. intros p Hp.
  pose proof keystore_programs_nonreentrant as H. unfold programs_ok in H.
  rewrite forallb_forall in H. apply H. apply Hin. exact Hp.
Qed.

(** every path of Save that touches the mutex takes the WRITE lock (a saver that only read-locks does not exclude the readers
    of the file it is writing) *)
Definition is_save (name : bytes) : bool :=
  match name with
  | x53 :: x61 :: x76 :: x65 :: x23 :: _ => true      (* "Save#" *)
  | _ => false
  end.
Definition save_paths_write_locked : bool :=
  forallb (fun np => negb (is_save (fst np)) || match snd np with [] => true | OpLock :: _ => true | _ => false end)
          GenKeystore.lock_programs &&
  existsb (fun np => is_save (fst np) && match snd np with OpLock :: _ => true | _ => false end) GenKeystore.lock_programs.
Theorem keystore_save_takes_write_lock : save_paths_write_locked = true.
Proof. vm_compute. reflexivity. Qed.
