(* Keystore/Locks.v

   A formal model of Go's sync.RWMutex (writer-preferring: once a writer is
   waiting inside Lock(), new RLock() calls block until that writer has
   acquired and released), shared by an arbitrary number of threads each
   running a straight-line "lock program" (the sequence of mutex operations
   performed by one method call).

   Results:
   - nonreentrant_deadlock_free : if every program is a sequence of balanced,
     non-nested critical sections (it never acquires while holding), then no
     reachable state is stuck (any number of threads, any program lengths,
     all interleavings).
   - nonreentrant_mutual_exclusion : (sanity of the model) in every reachable
     state a write hold excludes read holds and other write holds.
   - reentrant_can_deadlock : the re-entrant read-lock program
     [RLock; RLock; RUnlock; RUnlock] (what KeyStore.LoadByAddress does: it
     takes RLock and then calls Load, which takes RLock again) together with a
     saver [Lock; Unlock] has a reachable stuck state.
*)

From Coq Require Import List Arith Bool Lia PeanoNat.
Import ListNotations.

(* ------------------------------------------------------------------ *)
(** * Programs and states *)

Inductive lock_op := OpLock | OpUnlock | OpRLock | OpRUnlock.

(* the sequence of mutex operations of one method call *)
Definition program := list lock_op.

(* state of the mutex + each thread's remaining program *)
Record mstate := mk_mstate {
  writer  : bool;          (* a writer holds the lock *)
  readers : nat;           (* number of read holds *)
  wwait   : list nat;      (* ids of threads blocked inside Lock() (announced writers), FIFO *)
  threads : list program   (* remaining ops of thread i = nth i threads [] *)
}.

Definition init (progs : list program) : mstate :=
  mk_mstate false 0 [] progs.

(* remaining program of thread i *)
Definition prog_of (s : mstate) (i : nat) : program := nth i (threads s) [].

(* replace the i-th element of a list of programs *)
Fixpoint upd (i : nat) (p : program) (l : list program) {struct l} : list program :=
  match l with
  | [] => []
  | x :: r =>
      match i with
      | 0 => p :: r
      | S i' => x :: upd i' p r
      end
  end.

Fixpoint mem_nat (i : nat) (l : list nat) : bool :=
  match l with
  | [] => false
  | x :: r => (x =? i) || mem_nat i r
  end.

Definition remove_nat (i : nat) (l : list nat) : list nat :=
  filter (fun j => negb (j =? i)) l.

(* ------------------------------------------------------------------ *)
(** * Executable small-step semantics *)

(* Lock() by thread i can complete now: the mutex is free and i is first in
   line (or nobody is in line). *)
Definition can_acquire (s : mstate) (i : nat) : bool :=
  negb (writer s) && (readers s =? 0) &&
  match wwait s with
  | [] => true
  | h :: _ => h =? i
  end.

(* can thread i execute (the head op of) its program in state s? *)
Definition enabled (s : mstate) (i : nat) : bool :=
  match prog_of s i with
  | [] => false
  | OpRLock :: _ =>
      (* blocked by a holding writer and by any waiting writer *)
      negb (writer s) && match wwait s with [] => true | _ :: _ => false end
  | OpRUnlock :: _ => true
  | OpLock :: _ =>
      (* either acquires, or (if not announced yet) announces itself *)
      can_acquire s i || negb (mem_nat i (wwait s))
  | OpUnlock :: _ => true
  end.

(* effect of thread i taking its step *)
Definition fire (s : mstate) (i : nat) : mstate :=
  match prog_of s i with
  | [] => s
  | OpRLock :: r =>
      mk_mstate (writer s) (S (readers s)) (wwait s) (upd i r (threads s))
  | OpRUnlock :: r =>
      mk_mstate (writer s) (pred (readers s)) (wwait s) (upd i r (threads s))
  | OpLock :: r =>
      if can_acquire s i
      then mk_mstate true (readers s) (remove_nat i (wwait s)) (upd i r (threads s))
      else (* announce: does not consume the op *)
           mk_mstate (writer s) (readers s) (wwait s ++ [i]) (threads s)
  | OpUnlock :: r =>
      mk_mstate false (readers s) (wwait s) (upd i r (threads s))
  end.

Definition step (s s' : mstate) : Prop :=
  exists i, i < length (threads s) /\ enabled s i = true /\ s' = fire s i.

Inductive reachable (s0 : mstate) : mstate -> Prop :=
| reach_refl : reachable s0 s0
| reach_step : forall s s', reachable s0 s -> step s s' -> reachable s0 s'.

Definition finished (s : mstate) : Prop :=
  Forall (fun p : program => p = []) (threads s).

Definition stuck (s : mstate) : Prop :=
  ~ finished s /\ forall s', ~ step s s'.

(* executable versions *)
Definition is_nil (p : program) : bool :=
  match p with [] => true | _ :: _ => false end.

Definition finishedb (s : mstate) : bool := forallb is_nil (threads s).

Definition stuckb (s : mstate) : bool :=
  negb (finishedb s) &&
  forallb (fun i => negb (enabled s i)) (seq 0 (length (threads s))).

Lemma finishedb_correct : forall s, finishedb s = true <-> finished s.
Proof.
  intros s. unfold finishedb, finished.
  rewrite forallb_forall, Forall_forall.
  split; intros H p Hin.
  - specialize (H p Hin). destruct p as [|o r]; [reflexivity|discriminate H].
  - rewrite (H p Hin). reflexivity.
Qed.

Lemma stuckb_correct : forall s, stuckb s = true <-> stuck s.
Proof.
  intros s. unfold stuckb, stuck.
  rewrite andb_true_iff, negb_true_iff, forallb_forall.
  split.
  - intros [Hnf Hall]. split.
    + intros Hfin. apply finishedb_correct in Hfin.
      rewrite Hfin in Hnf. discriminate Hnf.
    + intros s' [i [Hlt [Hen _]]].
      assert (Hin : In i (seq 0 (length (threads s)))).
      { apply in_seq. lia. }
      specialize (Hall i Hin). rewrite Hen in Hall. discriminate Hall.
  - intros [Hnf Hno]. split.
    + destruct (finishedb s) eqn:Hfb; [|reflexivity].
      exfalso. apply Hnf. apply finishedb_correct. exact Hfb.
    + intros i Hin. apply in_seq in Hin.
      destruct (enabled s i) eqn:Hen; [|reflexivity].
      exfalso. apply (Hno (fire s i)).
      exists i. split; [lia|]. split; [exact Hen|reflexivity].
Qed.

(* ------------------------------------------------------------------ *)
(** * Non-reentrant programs *)

(* p matches ( OpLock OpUnlock | OpRLock OpRUnlock )* :
   balanced, non-nested critical sections; never acquires while holding *)
Fixpoint nonreentrant (p : program) : bool :=
  match p with
  | [] => true
  | OpLock :: OpUnlock :: r => nonreentrant r
  | OpRLock :: OpRUnlock :: r => nonreentrant r
  | _ => false
  end.

Definition well_nested (p : program) : Prop := nonreentrant p = true.

Definition programs_ok (ps : list program) : bool := forallb nonreentrant ps.

Definition reentrant_load : program := [OpRLock; OpRLock; OpRUnlock; OpRUnlock].
Definition saver : program := [OpLock; OpUnlock].

Example nonreentrant_ok_example :
  nonreentrant [OpRLock; OpRUnlock; OpLock; OpUnlock] = true.
Proof. reflexivity. Qed.

Example nonreentrant_reentrant_load :
  nonreentrant reentrant_load = false.
Proof. reflexivity. Qed.

Example nonreentrant_saver : nonreentrant saver = true.
Proof. reflexivity. Qed.

Example programs_ok_example :
  programs_ok [[OpRLock; OpRUnlock]; saver; []] = true.
Proof. reflexivity. Qed.

Example programs_ok_reentrant :
  programs_ok [reentrant_load; saver] = false.
Proof. reflexivity. Qed.

(* ------------------------------------------------------------------ *)
(** * Thread shapes *)

(* remaining program of a thread that currently holds a read lock *)
Definition is_rhold (p : program) : bool :=
  match p with OpRUnlock :: _ => true | _ => false end.

(* remaining program of a thread that currently holds the write lock *)
Definition is_whold (p : program) : bool :=
  match p with OpUnlock :: _ => true | _ => false end.

Definition is_lockhead (p : program) : bool :=
  match p with OpLock :: _ => true | _ => false end.

(* a remaining program is: nonreentrant (thread holds nothing), or
   OpUnlock :: nonreentrant (write holder), or OpRUnlock :: nonreentrant
   (read holder) *)
Definition shape_ok (p : program) : bool :=
  match p with
  | OpUnlock :: q => nonreentrant q
  | OpRUnlock :: q => nonreentrant q
  | _ => nonreentrant p
  end.

Lemma nonreentrant_shape_ok :
  forall p, nonreentrant p = true -> shape_ok p = true.
Proof.
  intros p H. destruct p as [|o r]; [reflexivity|].
  destruct o; simpl in *; try exact H; discriminate H.
Qed.

Lemma nonreentrant_not_hold :
  forall p, nonreentrant p = true -> is_rhold p = false /\ is_whold p = false.
Proof.
  intros p H. destruct p as [|o r]; [split; reflexivity|].
  destruct o; simpl in *; try discriminate H; split; reflexivity.
Qed.

Lemma shape_lock :
  forall r, shape_ok (OpLock :: r) = true ->
  exists q, r = OpUnlock :: q /\ nonreentrant q = true.
Proof.
  intros r H. simpl in H.
  destruct r as [|o q]; [discriminate H|].
  destruct o; try discriminate H.
  exists q. split; [reflexivity|exact H].
Qed.

Lemma shape_rlock :
  forall r, shape_ok (OpRLock :: r) = true ->
  exists q, r = OpRUnlock :: q /\ nonreentrant q = true.
Proof.
  intros r H. simpl in H.
  destruct r as [|o q]; [discriminate H|].
  destruct o; try discriminate H.
  exists q. split; [reflexivity|exact H].
Qed.

Lemma shape_unlock :
  forall r, shape_ok (OpUnlock :: r) = true -> nonreentrant r = true.
Proof. intros r H. exact H. Qed.

Lemma shape_runlock :
  forall r, shape_ok (OpRUnlock :: r) = true -> nonreentrant r = true.
Proof. intros r H. exact H. Qed.

(* ------------------------------------------------------------------ *)
(** * List facts: upd, count *)

Fixpoint count (f : program -> bool) (l : list program) : nat :=
  match l with
  | [] => 0
  | x :: r => (if f x then 1 else 0) + count f r
  end.

Lemma length_upd : forall l i p, length (upd i p l) = length l.
Proof.
  induction l as [|x r IH]; intros i p; simpl; [reflexivity|].
  destruct i as [|i']; simpl; [reflexivity|]. rewrite IH. reflexivity.
Qed.

Lemma nth_upd_same :
  forall l i p, i < length l -> nth i (upd i p l) [] = p.
Proof.
  induction l as [|x r IH]; intros i p Hlt; simpl in *; [lia|].
  destruct i as [|i']; simpl; [reflexivity|]. apply IH. lia.
Qed.

Lemma nth_upd_other :
  forall l i j p, j <> i -> nth j (upd i p l) [] = nth j l [].
Proof.
  induction l as [|x r IH]; intros i j p Hne; simpl; [reflexivity|].
  destruct i as [|i']; destruct j as [|j']; simpl; try reflexivity.
  - exfalso. apply Hne. reflexivity.
  - apply IH. intros Heq. apply Hne. rewrite Heq. reflexivity.
Qed.

Lemma Forall_upd :
  forall (P : program -> Prop) l i p,
    Forall P l -> P p -> Forall P (upd i p l).
Proof.
  intros P. induction l as [|x r IH]; intros i p Hall Hp; simpl; [constructor|].
  inversion Hall as [|x' r' Hx Hr]; subst.
  destruct i as [|i']; constructor; try assumption.
  apply IH; assumption.
Qed.

Lemma Forall_nth_prog :
  forall (P : program -> Prop) l i,
    Forall P l -> i < length l -> P (nth i l []).
Proof.
  intros P l i Hall Hlt. rewrite Forall_forall in Hall.
  apply Hall. apply nth_In. exact Hlt.
Qed.

Lemma count_upd :
  forall f l i p, i < length l ->
    count f (upd i p l) + (if f (nth i l []) then 1 else 0)
    = count f l + (if f p then 1 else 0).
Proof.
  intros f. induction l as [|x r IH]; intros i p Hlt; simpl in *; [lia|].
  destruct i as [|i']; simpl.
  - lia.
  - assert (Hlt' : i' < length r) by lia.
    specialize (IH i' p Hlt'). lia.
Qed.

Lemma count_pos_ex :
  forall f l, 0 < count f l ->
    exists i, i < length l /\ f (nth i l []) = true.
Proof.
  intros f. induction l as [|x r IH]; intros Hpos; simpl in *; [lia|].
  destruct (f x) eqn:Hfx.
  - exists 0. split; [lia|exact Hfx].
  - simpl in Hpos. destruct (IH Hpos) as [i [Hlt Hfi]].
    exists (S i). split; [lia|exact Hfi].
Qed.

Lemma not_finished_ex :
  forall l : list program,
    ~ Forall (fun p : program => p = []) l ->
    exists i, i < length l /\ nth i l [] <> [].
Proof.
  induction l as [|x r IH]; intros Hnf.
  - exfalso. apply Hnf. constructor.
  - destruct x as [|o x'].
    + assert (Hnr : ~ Forall (fun p : program => p = []) r).
      { intros Hr. apply Hnf. constructor; [reflexivity|exact Hr]. }
      destruct (IH Hnr) as [i [Hlt Hne]].
      exists (S i). simpl. split; [lia|exact Hne].
    + exists 0. simpl. split; [lia|discriminate].
Qed.

Lemma mem_nat_In : forall i l, mem_nat i l = true <-> In i l.
Proof.
  intros i. induction l as [|x r IH]; simpl.
  - split; [discriminate|contradiction].
  - rewrite orb_true_iff, Nat.eqb_eq, IH. reflexivity.
Qed.

(* ------------------------------------------------------------------ *)
(** * The invariant *)

Definition wait_ok (ts : list program) (j : nat) : Prop :=
  j < length ts /\ is_lockhead (nth j ts []) = true.

Record inv (s : mstate) : Prop := mk_inv {
  inv_shape   : Forall (fun p => shape_ok p = true) (threads s);
  inv_readers : readers s = count is_rhold (threads s);
  inv_writer  : (if writer s then 1 else 0) = count is_whold (threads s);
  inv_excl    : writer s = true -> readers s = 0;
  inv_wwait   : Forall (wait_ok (threads s)) (wwait s)
}.

Lemma wait_ok_upd :
  forall ts i r ww,
    Forall (wait_ok ts) ww -> ~ In i ww ->
    Forall (wait_ok (upd i r ts)) ww.
Proof.
  intros ts i r ww Hall Hnin.
  rewrite Forall_forall in *. intros j Hj.
  destruct (Hall j Hj) as [Hlt Hhd].
  assert (Hne : j <> i).
  { intros Heq. apply Hnin. rewrite <- Heq. exact Hj. }
  unfold wait_ok. rewrite length_upd, (nth_upd_other ts i j r Hne).
  split; assumption.
Qed.

Lemma wait_not_in :
  forall ts i ww,
    Forall (wait_ok ts) ww -> is_lockhead (nth i ts []) = false -> ~ In i ww.
Proof.
  intros ts i ww Hall Hhd Hin.
  rewrite Forall_forall in Hall. destruct (Hall i Hin) as [_ Hl].
  rewrite Hl in Hhd. discriminate Hhd.
Qed.

Lemma inv_init :
  forall progs, forallb nonreentrant progs = true -> inv (init progs).
Proof.
  intros progs Hok. rewrite forallb_forall in Hok.
  assert (Hcnt : count is_rhold progs = 0 /\ count is_whold progs = 0).
  { induction progs as [|p r IH]; simpl; [split; reflexivity|].
    assert (Hp : nonreentrant p = true) by (apply Hok; left; reflexivity).
    assert (Hr : forall x, In x r -> nonreentrant x = true).
    { intros x Hx. apply Hok. right. exact Hx. }
    destruct (IH Hr) as [IH1 IH2].
    destruct (nonreentrant_not_hold p Hp) as [H1 H2].
    rewrite H1, H2, IH1, IH2. split; reflexivity. }
  destruct Hcnt as [Hc1 Hc2].
  constructor; simpl.
  - apply Forall_forall. intros p Hin.
    apply nonreentrant_shape_ok. apply Hok. exact Hin.
  - symmetry. exact Hc1.
  - symmetry. exact Hc2.
  - intros H. discriminate H.
  - constructor.
Qed.

Lemma inv_step : forall s s', inv s -> step s s' -> inv s'.
Proof.
  intros s s' Hinv [i [Hlt [Hen Hs']]]. subst s'.
  destruct Hinv as [Hshape Hrd Hwr Hex Hww].
  destruct s as [w n ww ts].
  unfold enabled, fire, prog_of, can_acquire in *. simpl in *.
  assert (Hsh_i : shape_ok (nth i ts []) = true).
  { apply (Forall_nth_prog (fun p => shape_ok p = true)); assumption. }
  pose proof (count_upd is_rhold ts i) as Hcr.
  pose proof (count_upd is_whold ts i) as Hcw.
  destruct (nth i ts []) as [|o r] eqn:Hp; [discriminate Hen|].
  destruct o.
  - (* OpLock *)
    destruct (shape_lock r Hsh_i) as [q [Hr Hq]].
    destruct (negb w && (n =? 0) &&
              match ww with [] => true | h :: _ => h =? i end) eqn:Hacq.
    + (* acquire *)
      apply andb_true_iff in Hacq. destruct Hacq as [Hacq _].
      apply andb_true_iff in Hacq. destruct Hacq as [Hw Hn].
      apply negb_true_iff in Hw. apply Nat.eqb_eq in Hn. subst w.
      specialize (Hcr r Hlt). specialize (Hcw r Hlt).
      subst r. simpl in Hcr, Hcw. simpl in Hwr.
      constructor; simpl.
      * apply Forall_upd; [exact Hshape|]. exact Hq.
      * lia.
      * lia.
      * intros _. exact Hn.
      * apply wait_ok_upd.
        -- unfold remove_nat. rewrite Forall_forall in *.
           intros j Hj. apply filter_In in Hj. apply Hww. apply Hj.
        -- unfold remove_nat. intros Hin. apply filter_In in Hin.
           destruct Hin as [_ Hneq]. rewrite Nat.eqb_refl in Hneq.
           discriminate Hneq.
    + (* announce *)
      constructor; simpl; try assumption.
      apply Forall_app. split; [exact Hww|].
      constructor; [|constructor].
      unfold wait_ok. rewrite Hp. split; [exact Hlt|reflexivity].
  - (* OpUnlock *)
    pose proof (shape_unlock r Hsh_i) as Hq.
    destruct (nonreentrant_not_hold r Hq) as [Hnr Hnw].
    specialize (Hcr r Hlt). specialize (Hcw r Hlt).
    rewrite Hnr in Hcr. rewrite Hnw in Hcw. simpl in Hcr, Hcw.
    constructor; simpl.
    + apply Forall_upd; [exact Hshape|]. apply nonreentrant_shape_ok. exact Hq.
    + lia.
    + destruct w; lia.
    + intros H. discriminate H.
    + apply wait_ok_upd; [exact Hww|].
      apply (wait_not_in ts i ww Hww). rewrite Hp. reflexivity.
  - (* OpRLock *)
    destruct (shape_rlock r Hsh_i) as [q [Hr Hq]].
    apply andb_true_iff in Hen. destruct Hen as [Hw Hwwnil].
    apply negb_true_iff in Hw. subst w.
    destruct ww as [|h ww']; [|discriminate Hwwnil].
    specialize (Hcr r Hlt). specialize (Hcw r Hlt).
    subst r. simpl in Hcr, Hcw. simpl in Hwr.
    constructor; simpl.
    + apply Forall_upd; [exact Hshape|]. exact Hq.
    + lia.
    + lia.
    + intros H. discriminate H.
    + constructor.
  - (* OpRUnlock *)
    pose proof (shape_runlock r Hsh_i) as Hq.
    destruct (nonreentrant_not_hold r Hq) as [Hnr Hnw].
    specialize (Hcr r Hlt). specialize (Hcw r Hlt).
    rewrite Hnr in Hcr. rewrite Hnw in Hcw. simpl in Hcr, Hcw.
    constructor; simpl.
    + apply Forall_upd; [exact Hshape|]. apply nonreentrant_shape_ok. exact Hq.
    + lia.
    + lia.
    + intros Hwt. specialize (Hex Hwt). lia.
    + apply wait_ok_upd; [exact Hww|].
      apply (wait_not_in ts i ww Hww). rewrite Hp. reflexivity.
Qed.

Lemma inv_reachable :
  forall progs, forallb nonreentrant progs = true ->
  forall s, reachable (init progs) s -> inv s.
Proof.
  intros progs Hok s Hreach.
  induction Hreach as [|s s' Hreach IH Hstep].
  - apply inv_init. exact Hok.
  - apply (inv_step s s' IH Hstep).
Qed.

(* ------------------------------------------------------------------ *)
(** * Progress: an unfinished state satisfying the invariant can step *)

Lemma inv_progress :
  forall s, inv s -> ~ finished s -> exists s', step s s'.
Proof.
  intros s Hinv Hnf.
  destruct Hinv as [Hshape Hrd Hwr Hex Hww].
  destruct s as [w n ww ts].
  unfold finished in Hnf. simpl in *.
  assert (Hfire : forall i, i < length ts ->
            enabled (mk_mstate w n ww ts) i = true ->
            exists s', step (mk_mstate w n ww ts) s').
  { intros i Hlt Hen. exists (fire (mk_mstate w n ww ts) i).
    exists i. split; [exact Hlt|]. split; [exact Hen|reflexivity]. }
  destruct w.
  - (* a writer holds: it can release *)
    assert (Hpos : 0 < count is_whold ts) by lia.
    destruct (count_pos_ex is_whold ts Hpos) as [i [Hlt Hhold]].
    apply (Hfire i Hlt).
    unfold enabled, prog_of. simpl.
    destruct (nth i ts []) as [|o r]; [discriminate Hhold|].
    destruct o; try discriminate Hhold. reflexivity.
  - destruct n as [|n'].
    + (* the mutex is free *)
      destruct ww as [|h ww'].
      * (* nobody waiting: any thread with a non-empty program can go *)
        destruct (not_finished_ex ts Hnf) as [i [Hlt Hne]].
        apply (Hfire i Hlt).
        unfold enabled, prog_of, can_acquire. simpl.
        destruct (nth i ts []) as [|o r]; [exfalso; apply Hne; reflexivity|].
        destruct o; reflexivity.
      * (* the first waiting writer can acquire *)
        inversion Hww as [|h' ww'' Hh Hrest]; subst.
        destruct Hh as [Hlt Hhd].
        apply (Hfire h Hlt).
        unfold enabled, prog_of, can_acquire. simpl.
        destruct (nth h ts []) as [|o r]; [discriminate Hhd|].
        destruct o; try discriminate Hhd.
        rewrite Nat.eqb_refl. reflexivity.
    + (* a reader holds: it can release *)
      assert (Hpos : 0 < count is_rhold ts) by lia.
      destruct (count_pos_ex is_rhold ts Hpos) as [i [Hlt Hhold]].
      apply (Hfire i Hlt).
      unfold enabled, prog_of. simpl.
      destruct (nth i ts []) as [|o r]; [discriminate Hhold|].
      destruct o; try discriminate Hhold. reflexivity.
Qed.

(* ------------------------------------------------------------------ *)
(** * Main theorems *)

Theorem nonreentrant_deadlock_free :
  forall progs, forallb nonreentrant progs = true ->
  forall s, reachable (init progs) s -> ~ stuck s.
Proof.
  intros progs Hok s Hreach [Hnf Hno].
  pose proof (inv_reachable progs Hok s Hreach) as Hinv.
  destruct (inv_progress s Hinv Hnf) as [s' Hstep].
  apply (Hno s' Hstep).
Qed.

Corollary programs_ok_deadlock_free :
  forall progs, programs_ok progs = true ->
  forall s, reachable (init progs) s -> stuckb s = false.
Proof.
  intros progs Hok s Hreach.
  destruct (stuckb s) eqn:Hsb; [|reflexivity].
  exfalso. apply (nonreentrant_deadlock_free progs Hok s Hreach).
  apply stuckb_correct. exact Hsb.
Qed.

(* sanity of the model: it really is a reader/writer lock *)
Theorem nonreentrant_mutual_exclusion :
  forall progs, forallb nonreentrant progs = true ->
  forall s, reachable (init progs) s ->
    count is_whold (threads s) <= 1 /\
    (0 < count is_whold (threads s) -> count is_rhold (threads s) = 0).
Proof.
  intros progs Hok s Hreach.
  destruct (inv_reachable progs Hok s Hreach) as [_ Hrd Hwr Hex _].
  destruct (writer s).
  - split; [lia|]. intros _. rewrite <- Hrd. apply Hex. reflexivity.
  - split; lia.
Qed.

(* the deadlocked state of the re-entrant read-lock scenario *)
Definition deadlock_state : mstate :=
  mk_mstate false 1 [1] [[OpRLock; OpRUnlock; OpRUnlock]; [OpLock; OpUnlock]].

Theorem reentrant_can_deadlock :
  exists s,
    reachable (init [[OpRLock; OpRLock; OpRUnlock; OpRUnlock]; [OpLock; OpUnlock]]) s
    /\ stuck s.
Proof.
  exists deadlock_state. split.
  - (* thread 0 takes RLock; thread 1 announces Lock *)
    apply (reach_step _
             (mk_mstate false 1 []
                [[OpRLock; OpRUnlock; OpRUnlock]; [OpLock; OpUnlock]])).
    + apply (reach_step _
               (init [[OpRLock; OpRLock; OpRUnlock; OpRUnlock]; [OpLock; OpUnlock]])).
      * apply reach_refl.
      * exists 0. split; [simpl; lia|]. split; reflexivity.
    + exists 1. split; [simpl; lia|]. split; reflexivity.
  - apply stuckb_correct. vm_compute. reflexivity.
Qed.

Corollary reentrant_load_can_deadlock :
  exists s, reachable (init [reentrant_load; saver]) s /\ stuck s.
Proof. exact reentrant_can_deadlock. Qed.

Print Assumptions nonreentrant_deadlock_free.
Print Assumptions reentrant_can_deadlock.
