(** Extraction of the executable model to OCaml.  Only ExtrOcamlBasic is used:
    bool, option, unit, list, prod, sumbool map to their OCaml counterparts; nat, N, positive, byte
    stay the extracted inductive types. No Extract Constant / Extract Inductive of our own. *)
From Coq Require Extraction.
From Coq Require Import ExtrOcamlBasic.
From PV Require Import Driver.Tok Driver.Driver.
Extraction Language OCaml.
Extraction "model.ml" all_bytes dinit step_line.
