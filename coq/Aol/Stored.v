(** C16 "nothing outside the published limits is ever stored by a transaction":
    the four AOL handlers, run on a message that passed ValidateBasic, preserve [Stored_ok]. *)
From Coq Require Import Strings.String Strings.Byte.
From Coq Require Import List Arith NArith ZArith Bool Lia.
From Coq Require Import ZifyN ZifyNat. Ltac Zify.zify_post_hook ::= Z.div_mod_to_equations.
From PV Require Import Base.Bytes Base.Outcome Base.KV Compkey.Model Compkey.Proofs
  Aol.Model Aol.Spec Aol.Inv Valid.Aol Aol.StoredSpec.
From PV Require Generated.GenConst.
Import ListNotations.

#[local] Arguments be_bytes : simpl never.

(** * what the validators guarantee *)
Lemma name_char_not_sep : forall c, name_char c = true -> c <> sep.
Proof. intros c H E. subst c. vm_compute in H. discriminate H. Qed.

Lemma name_chars_no_sep : forall t, forallb name_char t = true -> no_byte sep t.
Proof.
  intros t F. unfold no_byte. intros Hin. rewrite forallb_forall in F.
  apply (name_char_not_sep sep (F sep Hin)). reflexivity.
Qed.

Lemma validate_topic_name_ok : forall t, validate_topic_name t = Ok tt ->
  t <> [] /\ (N.of_nat (length t) <= GenConst.max_topic_length)%N /\ forallb name_char t = true /\ no_byte sep t.
Proof.
  intros t. unfold validate_topic_name, blen, err_too_large.
  destruct (N.ltb_spec GenConst.max_topic_length (N.of_nat (length t))) as [H1|H1]; [discriminate|].
  destruct (N.ltb_spec 0 (N.of_nat (length t))) as [H2|H2]; cbn [negb orb]; [|discriminate].
  destruct (forallb name_char t) eqn:F; cbn [negb]; [|discriminate].
  intros _. split.
  - intros E. subst t. cbn [length N.of_nat] in H2. lia.
  - split; [exact H1|]. split; [reflexivity|]. apply name_chars_no_sep. exact F.
Qed.

Lemma validate_moniker_ok : forall m, validate_moniker m = Ok tt ->
  (N.of_nat (length m) <= GenConst.max_moniker_length)%N /\ forallb name_char m = true.
Proof.
  intros m. unfold validate_moniker, blen, err_too_large.
  destruct (N.ltb_spec GenConst.max_moniker_length (N.of_nat (length m))) as [H1|H1]; [discriminate|].
  destruct (forallb name_char m) eqn:F; cbn [negb]; [|discriminate].
  intros _. split; [exact H1 | reflexivity].
Qed.

Lemma validate_description_ok : forall d, validate_description d = Ok tt ->
  (N.of_nat (length d) <= GenConst.max_description_length)%N.
Proof.
  intros d. unfold validate_description, blen, err_too_large.
  destruct (N.ltb_spec GenConst.max_description_length (N.of_nat (length d))) as [H1|H1]; [discriminate|].
  intros _. exact H1.
Qed.

Lemma validate_record_key_ok : forall k, validate_record_key k = Ok tt ->
  (N.of_nat (length k) <= GenConst.max_record_key_length)%N.
Proof.
  intros k. unfold validate_record_key, blen, err_too_large.
  destruct (N.ltb_spec GenConst.max_record_key_length (N.of_nat (length k))) as [H1|H1]; [discriminate|].
  intros _. exact H1.
Qed.

Lemma validate_record_value_ok : forall v, validate_record_value v = Ok tt ->
  (N.of_nat (length v) <= GenConst.max_record_value_length)%N.
Proof.
  intros v. unfold validate_record_value, blen, err_too_large.
  destruct (N.ltb_spec GenConst.max_record_value_length (N.of_nat (length v))) as [H1|H1]; [discriminate|].
  intros _. exact H1.
Qed.

(** * [Stored_ok] only needs to be checked on keys whose record offset is a uint64:
      a record key with a larger offset has the store key of [offset mod 2^64], and [val_ok] does not
      look at the offset *)
Definition norm_key (K : typed_key) : typed_key :=
  match K with RecordKey o t n => RecordKey o t (n mod two64)%N | _ => K end.

Lemma be_bytes8_mod : forall n, be_bytes 8 (n mod two64)%N = be_bytes 8 n.
Proof.
  intros n. rewrite two64_eq, <- be_value_be_bytes.
  pose proof (be_bytes_be_value (be_bytes 8 n)) as E. rewrite be_bytes_length in E. exact E.
Qed.

Lemma store_key_norm : forall K, store_key (norm_key K) = store_key K.
Proof.
  intros K. unfold store_key, encode_key. destruct K; cbn [norm_key byte_slices kind_of]; try reflexivity.
  rewrite be_bytes8_mod. reflexivity.
Qed.

Lemma off_ok_norm : forall K, off_ok (norm_key K).
Proof.
  intros K. destruct K; cbn [norm_key off_ok]; try exact I.
  apply N.mod_upper_bound. discriminate.
Qed.

Lemma val_ok_norm : forall K v, val_ok (norm_key K) v -> val_ok K v.
Proof. intros K v H. destruct K; cbn [norm_key] in H; exact H. Qed.

Lemma lookup_norm : forall (st : aol_state) K, lookup st (norm_key K) = lookup st K.
Proof. intros st K. unfold lookup. rewrite store_key_norm. reflexivity. Qed.

Lemma Stored_ok_off : forall st,
  (forall K v, off_ok K -> lookup st K = Some v -> val_ok K v) -> Stored_ok st.
Proof.
  intros st H K v L. apply val_ok_norm. apply H; [apply off_ok_norm|].
  rewrite lookup_norm. exact L.
Qed.

Lemma Stored_ok_empty : Stored_ok [].
Proof. intros K v L. rewrite lookup_nil in L. discriminate L. Qed.

Section S.
  Variable unbech : bytes -> option bytes.
  Hypothesis Hunbech : unbech_wf unbech.
  Variable now : Z.

  Lemma create_topic_stored : forall st t d o st', Inv st -> Stored_ok st ->
      vb_create_topic unbech t d o = Ok tt -> create_topic unbech st t d o = Ok st' -> Stored_ok st'.
  Proof.
    intros st t d os st' HI HS HV H.
    destruct (create_topic_char unbech Hunbech _ _ _ _ _ HI H)
      as (o & tot & Ho & Wt & Lt & Htot & Ss & Sw & HL & _).
    unfold vb_create_topic in HV.
    destruct (validate_topic_name t) as [[]|cs c|] eqn:Vt; try discriminate HV. cbn [bind] in HV.
    destruct (validate_description d) as [[]|cs c|] eqn:Vd; try discriminate HV.
    apply Stored_ok_off. intros K v OK L. rewrite HL in L by exact OK. kdec.
    - inversion L; subst v. cbn [val_ok]. split; assumption.
    - inversion L; subst v. exact I.
    - apply HS. exact L.
  Qed.

  Lemma add_writer_stored : forall st t m d w o st', Inv st -> Stored_ok st ->
      vb_add_writer unbech t m d w o = Ok tt -> add_writer unbech now st t m d w o = Ok st' -> Stored_ok st'.
  Proof.
    intros st t m d ws os st' HI HS HV H.
    destruct (add_writer_char unbech Hunbech now _ _ _ _ _ _ _ HI H)
      as (o & w & d0 & nr & nw & Ho & Hw & Ww & Lt & Lw & Ss & Sw & HL & _).
    unfold vb_add_writer in HV.
    destruct (validate_topic_name t) as [[]|cs c|] eqn:Vt; try discriminate HV. cbn [bind] in HV.
    destruct (validate_moniker m) as [[]|cs c|] eqn:Vm; try discriminate HV. cbn [bind] in HV.
    destruct (validate_description d) as [[]|cs c|] eqn:Vd; try discriminate HV.
    pose proof (HS _ _ Lt) as Vtop. cbn [val_ok] in Vtop.
    apply Stored_ok_off. intros K v OK L. rewrite HL in L by exact OK. kdec.
    - inversion L; subst v. cbn [val_ok]. repeat split; assumption.
    - inversion L; subst v. cbn [val_ok]. exact Vtop.
    - apply HS. exact L.
  Qed.

  Lemma delete_writer_stored : forall st t w o st', Inv st -> Stored_ok st ->
      vb_delete_writer unbech t w o = Ok tt -> delete_writer unbech st t w o = Ok st' -> Stored_ok st'.
  Proof.
    intros st t ws os st' HI HS HV H.
    destruct (delete_writer_char unbech Hunbech _ _ _ _ _ HI H)
      as (o & w & d0 & nr & nw & Ho & Hw & Ww & Lt & Hhw & Hnw & Ss & Sw & HL & _).
    pose proof (HS _ _ Lt) as Vtop. cbn [val_ok] in Vtop.
    apply Stored_ok_off. intros K v OK L. rewrite HL in L by exact OK. kdec.
    - discriminate L.
    - inversion L; subst v. cbn [val_ok]. exact Vtop.
    - apply HS. exact L.
  Qed.

  Lemma add_record_stored : forall st t k v w o f st' n, Inv st -> Stored_ok st ->
      vb_add_record unbech t k v w o f = Ok tt -> add_record unbech now st t k v w o = Ok (st', n) -> Stored_ok st'.
  Proof.
    intros st t k v ws os f st' n HI HS HV H.
    destruct (add_record_char unbech Hunbech now _ _ _ _ _ _ _ _ HI H)
      as (o & w & d0 & nw & Ho & Hw & Wr & Lt & Hhw & Hcap & Lr & Ss & Sw & HL & _).
    unfold vb_add_record in HV.
    destruct (validate_topic_name t) as [[]|cs c|] eqn:Vt; try discriminate HV. cbn [bind] in HV.
    destruct (validate_record_key k) as [[]|cs c|] eqn:Vk; try discriminate HV. cbn [bind] in HV.
    destruct (validate_record_value v) as [[]|cs c|] eqn:Vv; try discriminate HV.
    pose proof (HS _ _ Lt) as Vtop. cbn [val_ok] in Vtop.
    apply Stored_ok_off. intros K v' OK L. rewrite HL in L by exact OK. kdec.
    - inversion L; subst v'. cbn [val_ok]. repeat split; assumption.
    - inversion L; subst v'. cbn [val_ok]. exact Vtop.
    - apply HS. exact L.
  Qed.
End S.

Print Assumptions validate_topic_name_ok.
Print Assumptions Stored_ok_empty.
Print Assumptions create_topic_stored.
Print Assumptions add_writer_stored.
Print Assumptions delete_writer_stored.
Print Assumptions add_record_stored.
