(** The four AOL message handlers preserve the invariant [Inv]; per-step frame and effect lemmas. *)
From Coq Require Import Strings.String Strings.Byte.
From Coq Require Import List Arith NArith ZArith Bool Lia.
From Coq Require Import ZifyN ZifyNat. Ltac Zify.zify_post_hook ::= Z.div_mod_to_equations.
From PV Require Import Base.Bytes Base.Outcome Base.KV Compkey.Model Compkey.Proofs Aol.Model Aol.Spec.
From PV Require Generated.GenConst.
Import ListNotations.

#[local] Arguments be_bytes : simpl never.
Local Opaque be_bytes.

(** * typed keys and store keys *)

(** the part of well-formedness that injectivity of [store_key] needs: a record offset is a uint64 *)
Definition off_ok (k : typed_key) : Prop :=
  match k with RecordKey _ _ n => (n < two64)%N | _ => True end.

Lemma wf_off_ok k : wf_key k -> off_ok k.
Proof. destruct k; cbn [wf_key off_ok]; tauto. Qed.

Definition typed_key_eq_dec (k1 k2 : typed_key) : {k1 = k2} + {k1 <> k2}.
Proof. decide equality; try apply bytes_eq_dec; apply N.eq_dec. Defined.

Lemma split_key_prefix kind e : split_key (prefix_of_kind kind ++ e) = Some (kind, e).
Proof. destruct kind; reflexivity. Qed.

Lemma store_key_split K kk :
  store_key K = Some kk -> exists e, encode_key K = Some e /\ kk = prefix_of_kind (kind_of K) ++ e.
Proof.
  unfold store_key. destruct (encode_key K) as [e|]; [|discriminate].
  intros [= <-]. exists e. split; reflexivity.
Qed.

Lemma store_key_kind K1 K2 kk :
  store_key K1 = Some kk -> store_key K2 = Some kk ->
  kind_of K1 = kind_of K2 /\ encode_key K1 = encode_key K2.
Proof.
  intros H1 H2.
  destruct (store_key_split _ _ H1) as [e1 [E1 P1]].
  destruct (store_key_split _ _ H2) as [e2 [E2 P2]].
  pose proof (split_key_prefix (kind_of K1) e1) as S1. rewrite <- P1 in S1.
  pose proof (split_key_prefix (kind_of K2) e2) as S2. rewrite <- P2 in S2.
  rewrite S1 in S2. inversion S2 as [[Hk He]]. split; [reflexivity|]. rewrite E1, E2, He. reflexivity.
Qed.

Lemma store_key_inj_off K1 K2 kk :
  off_ok K1 -> off_ok K2 -> store_key K1 = Some kk -> store_key K2 = Some kk -> K1 = K2.
Proof.
  intros O1 O2 H1 H2. destruct (store_key_kind _ _ _ H1 H2) as [Hk He].
  destruct (store_key_split _ _ H1) as [e [E1 _]]. rewrite E1 in He. symmetry in He.
  unfold encode_key in E1, He. pose proof (encode_injective _ _ _ E1 He) as Hb.
  destruct K1 as [o1|o1 t1|o1 t1 w1|o1 t1 n1], K2 as [o2|o2 t2|o2 t2 w2|o2 t2 n2];
    try discriminate Hk; cbn [byte_slices] in Hb.
  - injection Hb as ->. reflexivity.
  - injection Hb as -> ->. reflexivity.
  - injection Hb as -> -> ->. reflexivity.
  - assert (Hn : be_bytes 8 n1 = be_bytes 8 n2).
    { apply (f_equal (fun l => nth 2 l [])) in Hb. exact Hb. }
    assert (Ho : o1 = o2) by (apply (f_equal (fun l => nth 0 l [])) in Hb; exact Hb).
    assert (Ht : t1 = t2) by (apply (f_equal (fun l => nth 1 l [])) in Hb; exact Hb).
    subst o2 t2. f_equal. cbn [off_ok] in O1, O2.
    rewrite <- (be_value_be_bytes8 n1 O1), <- (be_value_be_bytes8 n2 O2). f_equal. exact Hn.
Qed.

Lemma typed_of_store_key : forall k kk, wf_key k -> store_key k = Some kk -> typed_of kk = Some k.
Proof.
  intros k kk Hwf H. destruct (store_key_split _ _ H) as [e [He ->]].
  unfold typed_of. rewrite split_key_prefix. rewrite (typed_roundtrip true k e Hwf He). reflexivity.
Qed.

Lemma store_key_inj : forall k1 k2 kk,
  wf_key k1 -> wf_key k2 -> store_key k1 = Some kk -> store_key k2 = Some kk -> k1 = k2.
Proof.
  intros k1 k2 kk W1 W2 H1 H2.
  apply (store_key_inj_off k1 k2 kk); auto using wf_off_ok.
Qed.

Lemma wf_store_key K : wf_key K -> exists kk, store_key K = Some kk.
Proof.
  intros Hwf. destruct (wf_key_encodes K Hwf) as [e He]. unfold store_key. rewrite He. eexists; reflexivity.
Qed.

(** [key_of] on the components of a typed key is [store_key] *)
Lemma key_of_store_key K kk :
  key_of (prefix_of_kind (kind_of K)) (byte_slices K) = Ok kk <-> store_key K = Some kk.
Proof.
  unfold key_of, store_key, encode_key. destruct (encode (byte_slices K)) as [e|]; split; intros H;
    try discriminate; inversion H; reflexivity.
Qed.

(** * lookups after [set] / [del] *)
Lemma has_key_has K kk (st : aol_state) : store_key K = Some kk -> has_key st K = has kk st.
Proof. intros H. unfold has_key, lookup, has. rewrite H. reflexivity. Qed.

Lemma lookup_get K kk (st : aol_state) : store_key K = Some kk -> lookup st K = get kk st.
Proof. intros H. unfold lookup. rewrite H. reflexivity. Qed.

Lemma lookup_set K0 kk v (st : aol_state) K :
  store_key K0 = Some kk -> off_ok K0 -> off_ok K ->
  lookup (set kk v st) K = if typed_key_eq_dec K K0 then Some v else lookup st K.
Proof.
  intros HK0 O0 O. unfold lookup. destruct (store_key K) as [kk'|] eqn:HK.
  - rewrite get_set. destruct (typed_key_eq_dec K K0) as [E|NE].
    + subst K. rewrite HK0 in HK. inversion HK; subst. rewrite bytes_eqb_refl. reflexivity.
    + destruct (bytes_eqb kk' kk) eqn:E; [|reflexivity]. apply bytes_eqb_eq in E; subst kk'.
      exfalso. apply NE. apply (store_key_inj_off K K0 kk); assumption.
  - destruct (typed_key_eq_dec K K0) as [E|NE]; [|reflexivity]. subst K. congruence.
Qed.

Lemma lookup_del K0 kk (st : aol_state) K :
  store_key K0 = Some kk -> off_ok K0 -> off_ok K ->
  lookup (del kk st) K = if typed_key_eq_dec K K0 then None else lookup st K.
Proof.
  intros HK0 O0 O. unfold lookup. destruct (store_key K) as [kk'|] eqn:HK.
  - rewrite get_del. destruct (typed_key_eq_dec K K0) as [E|NE].
    + subst K. rewrite HK0 in HK. inversion HK; subst. rewrite bytes_eqb_refl. reflexivity.
    + destruct (bytes_eqb kk' kk) eqn:E; [|reflexivity]. apply bytes_eqb_eq in E; subst kk'.
      exfalso. apply NE. apply (store_key_inj_off K K0 kk); assumption.
  - destruct (typed_key_eq_dec K K0) as [E|NE]; reflexivity.
Qed.

(** * well-formed entries *)
Lemma Forall_set {V} (P : bytes * V -> Prop) k v (st : store V) :
  Forall P st -> P (k, v) -> Forall P (set k v st).
Proof.
  intros Hall Hp. induction st as [|[k' v'] r IH]; simpl.
  - constructor; [exact Hp | constructor].
  - inversion Hall as [|? ? Hh Hr]; subst.
    destruct (bytes_eqb k k'); [constructor; assumption|].
    destruct (bytes_ltb k k'); [constructor; [exact Hp | exact Hall]|].
    constructor; [exact Hh | apply IH; exact Hr].
Qed.

Lemma Forall_del {V} (P : bytes * V -> Prop) k (st : store V) : Forall P st -> Forall P (del k st).
Proof.
  intros Hall. induction st as [|[k' v'] r IH]; simpl; [constructor|].
  inversion Hall as [|? ? Hh Hr]; subst.
  destruct (bytes_eqb k k'); [apply IH; exact Hr|]. constructor; [exact Hh | apply IH; exact Hr].
Qed.

Lemma entry_wf_intro K kk v : wf_key K -> store_key K = Some kk -> kind_of K = val_kind v -> entry_wf (kk, v).
Proof.
  intros Hwf HK Hkind. exists K. cbn [fst snd].
  split; [apply typed_of_store_key; assumption|]. split; [exact Hwf|]. split; [exact HK | exact Hkind].
Qed.

Lemma lookup_kind (st : aol_state) K v : Forall entry_wf st -> lookup st K = Some v -> val_kind v = kind_of K.
Proof.
  intros Hall H. unfold lookup in H. destruct (store_key K) as [kk|] eqn:HK; [|discriminate].
  apply get_In in H. rewrite Forall_forall in Hall. destruct (Hall _ H) as [K' [_ [_ [HK' Hkind]]]].
  cbn [fst snd] in HK', Hkind. rewrite <- Hkind. apply (store_key_kind K' K kk HK' HK).
Qed.

Lemma lookup_topic_val (st : aol_state) o t v :
  Forall entry_wf st -> lookup st (TopicKey o t) = Some v -> exists d nr nw, v = VTopic d nr nw.
Proof.
  intros Hall H. apply (lookup_kind st _ _ Hall) in H. destruct v; try discriminate H. eauto.
Qed.

Lemma lookup_owner_val (st : aol_state) o v :
  Forall entry_wf st -> lookup st (OwnerKey o) = Some v -> exists n, v = VOwner n.
Proof.
  intros Hall H. apply (lookup_kind st _ _ Hall) in H. destruct v; try discriminate H. eauto.
Qed.

(** * counting: how the listings change under [set] / [del] *)
Lemma set_split_absent {V} k (v : V) (st : store V) :
  get k st = None -> exists l1 l2, st = l1 ++ l2 /\ set k v st = l1 ++ (k, v) :: l2.
Proof.
  induction st as [|[k' v'] r IH]; simpl; intros H.
  - exists [], []. split; reflexivity.
  - destruct (bytes_eqb k k') eqn:E; [discriminate|].
    destruct (bytes_ltb k k').
    + exists [], ((k', v') :: r). split; reflexivity.
    + destruct (IH H) as [l1 [l2 [E1 E2]]]. exists ((k', v') :: l1), l2.
      split; simpl; [rewrite <- E1 | rewrite E2]; reflexivity.
Qed.

Lemma del_absent {V} k (st : store V) : get k st = None -> del k st = st.
Proof.
  induction st as [|[k' v'] r IH]; simpl; intros H; [reflexivity|].
  destruct (bytes_eqb k k'); [discriminate|]. rewrite (IH H). reflexivity.
Qed.

Lemma split_present {V} k (v0 : V) (st : store V) :
  sorted st -> get k st = Some v0 ->
  exists l1 l2, st = l1 ++ (k, v0) :: l2 /\ (forall v, set k v st = l1 ++ (k, v) :: l2) /\ del k st = l1 ++ l2.
Proof.
  induction st as [|[k' v'] r IH]; simpl; intros Hs H; [discriminate|].
  destruct Hs as [Hlb Hr].
  destruct (bytes_eqb k k') eqn:E.
  - apply bytes_eqb_eq in E; subst k'. inversion H; subst v'.
    exists [], r. split; [reflexivity|]. split; [intros v; reflexivity|].
    simpl. apply del_absent. apply lb_get_None; assumption.
  - destruct (bytes_ltb k k') eqn:L.
    + exfalso. pose proof (get_In _ _ _ H) as Hin.
      pose proof (sorted_all_gt k' v' r (conj Hlb Hr) k v0 Hin) as C.
      pose proof (bytes_ltb_trans _ _ _ L C) as C2. rewrite bytes_ltb_irrefl in C2. discriminate.
    + destruct (IH Hr H) as [l1 [l2 [E1 [E2 E3]]]]. exists ((k', v') :: l1), l2.
      split; [simpl; rewrite <- E1; reflexivity|].
      split; [intros v; simpl; rewrite E2; reflexivity | simpl; rewrite E3; reflexivity].
Qed.

Section TCount.
  Context {A : Type}.
  Variable sel : typed_key -> list A.

  Definition tsel (kk : bytes) : list A := match typed_of kk with Some K => sel K | None => [] end.
  Definition tcount (st : aol_state) : list A := flat_map (fun e => tsel (fst e)) st.

  Lemma tcount_app l1 l2 : tcount (l1 ++ l2) = tcount l1 ++ tcount l2.
  Proof. apply flat_map_app. Qed.

  Lemma tcount_cons k v l : tcount ((k, v) :: l) = tsel k ++ tcount l.
  Proof. reflexivity. Qed.

  Lemma tsel_store_key K kk : wf_key K -> store_key K = Some kk -> tsel kk = sel K.
  Proof. intros Hwf HK. unfold tsel. rewrite (typed_of_store_key K kk Hwf HK). reflexivity. Qed.

  Lemma tcount_set_len K kk v st :
    sorted st -> wf_key K -> store_key K = Some kk ->
    length (tcount (set kk v st)) = length (tcount st) + (if has_key st K then 0 else length (sel K)).
  Proof.
    intros Hs Hwf HK. rewrite (has_key_has K kk st HK). unfold has.
    destruct (get kk st) as [v0|] eqn:G.
    - destruct (split_present kk v0 st Hs G) as [l1 [l2 [E1 [E2 _]]]].
      rewrite E2, E1. rewrite !tcount_app, !tcount_cons. lia.
    - destruct (set_split_absent kk v st G) as [l1 [l2 [E1 E2]]].
      rewrite E2, E1. rewrite !tcount_app, !tcount_cons, !app_length.
      rewrite (tsel_store_key K kk Hwf HK). lia.
  Qed.

  Lemma tcount_del_len K kk st :
    sorted st -> wf_key K -> store_key K = Some kk ->
    length (tcount st) = length (tcount (del kk st)) + (if has_key st K then length (sel K) else 0).
  Proof.
    intros Hs Hwf HK. rewrite (has_key_has K kk st HK). unfold has.
    destruct (get kk st) as [v0|] eqn:G.
    - destruct (split_present kk v0 st Hs G) as [l1 [l2 [E1 [_ E3]]]].
      rewrite E3, E1. rewrite !tcount_app, !tcount_cons, !app_length.
      rewrite (tsel_store_key K kk Hwf HK). lia.
    - rewrite (del_absent kk st G). lia.
  Qed.

  Lemma tcount_In_has x st :
    sorted st -> Forall entry_wf st -> In x (tcount st) ->
    exists K, wf_key K /\ has_key st K = true /\ In x (sel K).
  Proof.
    intros Hs Hall Hin. unfold tcount in Hin. apply in_flat_map in Hin as [[kk v] [Hin Hx]].
    cbn [fst] in Hx. rewrite Forall_forall in Hall. destruct (Hall _ Hin) as [K [HT [HW [HK _]]]].
    cbn [fst] in HT, HK. unfold tsel in Hx. rewrite HT in Hx. exists K. split; [exact HW|]. split; [|exact Hx].
    unfold has_key. rewrite (lookup_get K kk st HK). rewrite (In_get kk v st Hs Hin). reflexivity.
  Qed.

  Lemma tcount_nil st :
    sorted st -> Forall entry_wf st -> (forall K, wf_key K -> has_key st K = true -> sel K = []) -> tcount st = [].
  Proof.
    intros Hs Hall H. destruct (tcount st) as [|x l] eqn:E; [reflexivity|]. exfalso.
    destruct (tcount_In_has x st Hs Hall) as [K [HW [HK Hx]]]; [rewrite E; left; reflexivity|].
    rewrite (H K HW HK) in Hx. exact Hx.
  Qed.
End TCount.

(** two-step updates, as the handlers do them *)
Lemma has_key_set_other K0 kk v (st : aol_state) K :
  store_key K0 = Some kk -> off_ok K0 -> off_ok K -> K <> K0 -> has_key (set kk v st) K = has_key st K.
Proof.
  intros HK0 O0 O NE. unfold has_key. rewrite (lookup_set K0 kk v st K HK0 O0 O).
  destruct (typed_key_eq_dec K K0) as [E|_]; [contradiction|reflexivity].
Qed.

Lemma tcount_set2 {A} (sel : typed_key -> list A) (st : aol_state) K1 k1 v1 K2 k2 v2 :
  sorted st -> wf_key K1 -> wf_key K2 -> store_key K1 = Some k1 -> store_key K2 = Some k2 -> K2 <> K1 ->
  length (tcount sel (set k2 v2 (set k1 v1 st))) =
  length (tcount sel st) + (if has_key st K1 then 0 else length (sel K1))
                         + (if has_key st K2 then 0 else length (sel K2)).
Proof.
  intros Hs W1 W2 H1 H2 NE.
  rewrite (tcount_set_len sel K2 k2 v2 (set k1 v1 st) (sorted_set k1 v1 st Hs) W2 H2).
  rewrite (tcount_set_len sel K1 k1 v1 st Hs W1 H1).
  rewrite (has_key_set_other K1 k1 v1 st K2 H1 (wf_off_ok _ W1) (wf_off_ok _ W2) NE). reflexivity.
Qed.

Lemma tcount_set_del {A} (sel : typed_key -> list A) (st : aol_state) K1 k1 v1 K2 k2 :
  sorted st -> wf_key K1 -> wf_key K2 -> store_key K1 = Some k1 -> store_key K2 = Some k2 -> K2 <> K1 ->
  length (tcount sel st) + (if has_key st K1 then 0 else length (sel K1)) =
  length (tcount sel (del k2 (set k1 v1 st))) + (if has_key st K2 then length (sel K2) else 0).
Proof.
  intros Hs W1 W2 H1 H2 NE.
  rewrite <- (tcount_set_len sel K1 k1 v1 st Hs W1 H1).
  rewrite (tcount_del_len sel K2 k2 (set k1 v1 st) (sorted_set k1 v1 st Hs) W2 H2).
  rewrite (has_key_set_other K1 k1 v1 st K2 H1 (wf_off_ok _ W1) (wf_off_ok _ W2) NE). reflexivity.
Qed.

(** the three listings as instances of [tcount] *)
Definition sel_topic (o : bytes) (K : typed_key) : list bytes :=
  match K with TopicKey o' t => if bytes_eqb o o' then [t] else [] | _ => [] end.
Definition sel_writer (o t : bytes) (K : typed_key) : list bytes :=
  match K with WriterKey o' t' w => if bytes_eqb o o' && bytes_eqb t t' then [w] else [] | _ => [] end.
Definition sel_record (o t : bytes) (K : typed_key) : list N :=
  match K with RecordKey o' t' n => if bytes_eqb o o' && bytes_eqb t t' then [n] else [] | _ => [] end.

Lemma topics_of_tcount st o : topics_of st o = tcount (sel_topic o) st.
Proof. reflexivity. Qed.
Lemma writers_of_tcount st o t : writers_of st o t = tcount (sel_writer o t) st.
Proof. reflexivity. Qed.
Lemma records_of_tcount st o t : records_of st o t = tcount (sel_record o t) st.
Proof. reflexivity. Qed.

Lemma pair_neq_eqb (o' t' o t : bytes) : (o', t') <> (o, t) -> bytes_eqb o' o && bytes_eqb t' t = false.
Proof.
  intros H. destruct (bytes_eqb o' o) eqn:E1; [|reflexivity]. destruct (bytes_eqb t' t) eqn:E2; [|reflexivity].
  apply bytes_eqb_eq in E1. apply bytes_eqb_eq in E2. subst. contradiction H; reflexivity.
Qed.

Lemma has_key_false_lookup (st : aol_state) K : lookup st K = None -> has_key st K = false.
Proof. intros H. unfold has_key. rewrite H. reflexivity. Qed.
Lemma has_key_true_lookup (st : aol_state) K v : lookup st K = Some v -> has_key st K = true.
Proof. intros H. unfold has_key. rewrite H. reflexivity. Qed.
Lemma has_key_true_inv (st : aol_state) K : has_key st K = true -> exists v, lookup st K = Some v.
Proof. unfold has_key. destruct (lookup st K) as [v|]; [eauto | discriminate]. Qed.

(** listings of absent owners / topics are empty *)
Lemma topics_of_nil st o : Inv st -> has_key st (OwnerKey o) = false -> topics_of st o = [].
Proof.
  intros HI Hno. rewrite topics_of_tcount. apply tcount_nil; [apply HI | apply HI |].
  intros K _ HK. destruct K as [o1|o1 t1|o1 t1 w1|o1 t1 n1]; cbn [sel_topic]; try reflexivity.
  destruct (bytes_eqb o o1) eqn:E; [|reflexivity]. apply bytes_eqb_eq in E; subst o1.
  rewrite (inv_topic_owner st HI o t1 HK) in Hno. discriminate.
Qed.

Lemma writers_of_nil st o t : Inv st -> has_key st (TopicKey o t) = false -> writers_of st o t = [].
Proof.
  intros HI Hno. rewrite writers_of_tcount. apply tcount_nil; [apply HI | apply HI |].
  intros K _ HK. destruct K as [o1|o1 t1|o1 t1 w1|o1 t1 n1]; cbn [sel_writer]; try reflexivity.
  destruct (bytes_eqb o o1) eqn:E1; [|reflexivity]. destruct (bytes_eqb t t1) eqn:E2; [|reflexivity].
  apply bytes_eqb_eq in E1. apply bytes_eqb_eq in E2. subst o1 t1.
  rewrite (inv_writer_topic st HI o t w1 HK) in Hno. discriminate.
Qed.

Lemma records_of_nil st o t : Inv st -> has_key st (TopicKey o t) = false -> records_of st o t = [].
Proof.
  intros HI Hno. rewrite records_of_tcount. apply tcount_nil; [apply HI | apply HI |].
  intros K HW HK. destruct K as [o1|o1 t1|o1 t1 w1|o1 t1 n1]; cbn [sel_record]; try reflexivity.
  destruct (bytes_eqb o o1) eqn:E1; [|reflexivity]. destruct (bytes_eqb t t1) eqn:E2; [|reflexivity].
  apply bytes_eqb_eq in E1. apply bytes_eqb_eq in E2. subst o1 t1.
  cbn [wf_key] in HW. destruct HW as [_ [_ Hn]].
  rewrite (inv_record_topic st HI o t n1 Hn HK) in Hno. discriminate.
Qed.

Lemma lookup_nil K : lookup ([] : aol_state) K = None.
Proof. unfold lookup. destruct (store_key K); reflexivity. Qed.

Lemma Inv_empty : Inv [].
Proof.
  constructor.
  - exact I.
  - constructor.
  - intros o t H. unfold has_key in H. rewrite lookup_nil in H. discriminate.
  - intros o n H. unfold owner_total in H. rewrite lookup_nil in H. discriminate.
  - intros o t w H. unfold has_key in H. rewrite lookup_nil in H. discriminate.
  - intros o t d nr nw H. unfold topic_info in H. rewrite lookup_nil in H. discriminate.
  - intros o t n _ H. unfold has_key in H. rewrite lookup_nil in H. discriminate.
  - intros o t d nr nw H. unfold topic_info in H. rewrite lookup_nil in H. discriminate.
  - intros o t d nr nw H. unfold topic_info in H. rewrite lookup_nil in H. discriminate.
Qed.

(** key construction in the handlers *)
Lemma owner_key_ok o kk : owner_key o = Ok kk -> store_key (OwnerKey o) = Some kk.
Proof. intros H. apply (proj1 (key_of_store_key (OwnerKey o) kk)). exact H. Qed.
Lemma topic_key_ok o t kk : topic_key o t = Ok kk -> store_key (TopicKey o t) = Some kk.
Proof. intros H. apply (proj1 (key_of_store_key (TopicKey o t) kk)). exact H. Qed.
Lemma writer_key_ok o t w kk : writer_key o t w = Ok kk -> store_key (WriterKey o t w) = Some kk.
Proof. intros H. apply (proj1 (key_of_store_key (WriterKey o t w) kk)). exact H. Qed.
Lemma record_key_ok o t n kk : record_key o t n = Ok kk -> store_key (RecordKey o t n) = Some kk.
Proof. intros H. apply (proj1 (key_of_store_key (RecordKey o t n) kk)). exact H. Qed.

Lemma topic_len_ok o t kk : store_key (TopicKey o t) = Some kk -> length t <= 255.
Proof.
  intros H. destruct (store_key_split _ _ H) as [e [He _]]. unfold encode_key in He. cbn [byte_slices] in He.
  apply forall_le2 in He. tauto.
Qed.

Lemma get_topic_lookup (st : aol_state) o t tk d nr nw :
  store_key (TopicKey o t) = Some tk -> lookup st (TopicKey o t) = Some (VTopic d nr nw) ->
  get_topic tk st = (d, nr, nw).
Proof. intros HK H. rewrite (lookup_get _ _ _ HK) in H. unfold get_topic. rewrite H. reflexivity. Qed.

Lemma has_true_topic (st : aol_state) o t tk :
  Forall entry_wf st -> store_key (TopicKey o t) = Some tk -> has tk st = true ->
  exists d nr nw, lookup st (TopicKey o t) = Some (VTopic d nr nw).
Proof.
  intros Hall HK Hh. rewrite <- (has_key_has _ _ st HK) in Hh.
  destruct (has_key_true_inv _ _ Hh) as [v Hv].
  destruct (lookup_topic_val st o t v Hall Hv) as (d & nr & nw & ->). eauto.
Qed.

(** case analysis on the [typed_key_eq_dec] tests left by [lookup_set] / [lookup_del] *)
Ltac kdec :=
  repeat match goal with
  | |- context [typed_key_eq_dec ?a ?c] =>
      let E := fresh "Ekd" in
      destruct (typed_key_eq_dec a c) as [E|E]; [try discriminate E; inversion E; subst | ]
  | H : context [typed_key_eq_dec ?a ?c] |- _ =>
      let E := fresh "Ekd" in
      destruct (typed_key_eq_dec a c) as [E|E]; [try discriminate E; inversion E; subst | ]
  end.

Ltac neq_refl := match goal with H : ?x <> ?x |- _ => exfalso; apply H; reflexivity end.

Section Steps.
  Variable unbech : bytes -> option bytes.
  Hypothesis Hunbech : unbech_wf unbech.
  Variable now : Z.

  Lemma addr_ok s a : addr unbech s = Ok a -> unbech s = Some a.
  Proof. unfold addr, err_invalid_address. destruct (unbech s); [intros [= ->]; reflexivity | discriminate]. Qed.

  (** ** CreateTopic *)
  Lemma create_topic_char st t d os st' :
    Inv st -> create_topic unbech st t d os = Ok st' ->
    exists o tot,
      unbech os = Some o /\ wf_key (TopicKey o t) /\ lookup st (TopicKey o t) = None /\
      tot = N.of_nat (length (topics_of st o)) /\
      sorted st' /\ Forall entry_wf st' /\
      (forall K, off_ok K -> lookup st' K =
         if typed_key_eq_dec K (TopicKey o t) then Some (VTopic d 0 0)
         else if typed_key_eq_dec K (OwnerKey o) then Some (VOwner (tot + 1)) else lookup st K) /\
      length (topics_of st' o) = length (topics_of st o) + 1 /\
      (forall o', o' <> o -> length (topics_of st' o') = length (topics_of st o')) /\
      (forall o' t', length (writers_of st' o' t') = length (writers_of st o' t')) /\
      (forall o' t', length (records_of st' o' t') = length (records_of st o' t')).
  Proof.
    intros HI H. unfold create_topic in H.
    destruct (addr unbech os) as [o|cs c|] eqn:Ea; try discriminate H. cbn [bind] in H.
    destruct (topic_key o t) as [tk|cs c|] eqn:Etk; try discriminate H. cbn [bind] in H.
    destruct (has tk st) eqn:Hhas; [discriminate H|].
    destruct (owner_key o) as [ok|cs c|] eqn:Eok; try discriminate H. cbn [bind] in H.
    inversion H as [Hst]. clear H.
    apply addr_ok in Ea. pose proof (Hunbech _ _ Ea) as Vo.
    apply topic_key_ok in Etk. apply owner_key_ok in Eok.
    assert (Wt : wf_key (TopicKey o t)) by (split; [exact Vo | exact (topic_len_ok _ _ _ Etk)]).
    assert (Wo : wf_key (OwnerKey o)) by exact Vo.
    assert (Lt : lookup st (TopicKey o t) = None).
    { rewrite (lookup_get _ _ _ Etk). unfold has in Hhas. destruct (get tk st); [discriminate | reflexivity]. }
    pose proof (has_key_false_lookup _ _ Lt) as Ht.
    assert (NE : TopicKey o t <> OwnerKey o) by discriminate.
    pose proof HI as [Is Iw Ito Ioc Iwt Iwc Irt Ird Irc].
    exists o, (get_owner_total ok st).
    split; [exact Ea|]. split; [exact Wt|]. split; [exact Lt|].
    split.
    { unfold get_owner_total. rewrite <- (lookup_get _ _ st Eok).
      destruct (lookup st (OwnerKey o)) as [v|] eqn:G.
      - destruct (lookup_owner_val st o v Iw G) as [n ->]. apply Ioc. unfold owner_total. rewrite G. reflexivity.
      - rewrite (topics_of_nil st o HI (has_key_false_lookup _ _ G)). reflexivity. }
    split; [apply sorted_set; apply sorted_set; exact Is|].
    split.
    { apply Forall_set; [apply Forall_set; [exact Iw|]|].
      - apply (entry_wf_intro (OwnerKey o)); [exact Wo | exact Eok | reflexivity].
      - apply (entry_wf_intro (TopicKey o t)); [exact Wt | exact Etk | reflexivity]. }
    split.
    { intros K OK. rewrite (lookup_set (TopicKey o t) tk _ _ K Etk I OK).
      destruct (typed_key_eq_dec K (TopicKey o t)) as [E|NE1]; [reflexivity|].
      rewrite (lookup_set (OwnerKey o) ok _ _ K Eok I OK). reflexivity. }
    split.
    { rewrite !topics_of_tcount.
      rewrite (tcount_set2 (sel_topic o) st (OwnerKey o) ok _ (TopicKey o t) tk _ Is Wo Wt Eok Etk NE).
      rewrite Ht. cbn [sel_topic]. rewrite bytes_eqb_refl. cbn [length].
      destruct (has_key st (OwnerKey o)); lia. }
    split.
    { intros o' Hne. rewrite !topics_of_tcount.
      rewrite (tcount_set2 (sel_topic o') st (OwnerKey o) ok _ (TopicKey o t) tk _ Is Wo Wt Eok Etk NE).
      rewrite Ht. cbn [sel_topic]. apply bytes_eqb_neq in Hne. rewrite Hne. cbn [length].
      destruct (has_key st (OwnerKey o)); lia. }
    split.
    { intros o' t'. rewrite !writers_of_tcount.
      rewrite (tcount_set2 (sel_writer o' t') st (OwnerKey o) ok _ (TopicKey o t) tk _ Is Wo Wt Eok Etk NE).
      cbn [sel_writer length]. destruct (has_key st (OwnerKey o)), (has_key st (TopicKey o t)); lia. }
    { intros o' t'. rewrite !records_of_tcount.
      rewrite (tcount_set2 (sel_record o' t') st (OwnerKey o) ok _ (TopicKey o t) tk _ Is Wo Wt Eok Etk NE).
      cbn [sel_record length]. destruct (has_key st (OwnerKey o)), (has_key st (TopicKey o t)); lia. }
  Qed.

  Lemma create_topic_inv : forall st t d o st', Inv st -> create_topic unbech st t d o = Ok st' -> Inv st'.
  Proof.
    intros st t d os st' HI H.
    destruct (create_topic_char _ _ _ _ _ HI H) as (o & tot & Ho & Wt & Lt & Htot & Ss & Sw & HL & Ct & Cto & Cw & Cr).
    pose proof HI as [Is Iw Ito Ioc Iwt Iwc Irt Ird Irc].
    pose proof (has_key_false_lookup _ _ Lt) as Hnt.
    constructor.
    - exact Ss.
    - exact Sw.
    - intros o' t' Hh. unfold has_key in Hh |- *. rewrite HL in Hh by exact I. rewrite HL by exact I. kdec.
      + reflexivity.
      + reflexivity.
      + neq_refl.
      + apply (Ito o' t'). exact Hh.
    - intros o' n Hn. unfold owner_total in Hn. rewrite HL in Hn by exact I. kdec.
      + inversion Hn; subst n. rewrite Ct. lia.
      + rewrite Cto by congruence. apply Ioc. exact Hn.
    - intros o' t' w' Hh. unfold has_key in Hh |- *. rewrite HL in Hh by exact I. rewrite HL by exact I. kdec.
      + reflexivity.
      + apply (Iwt o' t' w'). exact Hh.
    - intros o' t' d' nr nw Hti. unfold topic_info in Hti. rewrite HL in Hti by exact I. kdec.
      + inversion Hti; subst. rewrite Cw. rewrite (writers_of_nil st o t HI Hnt). reflexivity.
      + rewrite Cw. apply (Iwc o' t' d' nr nw). exact Hti.
    - intros o' t' n Hn Hh. unfold has_key in Hh |- *. rewrite HL in Hh by exact Hn. rewrite HL by exact I. kdec.
      + reflexivity.
      + apply (Irt o' t' n Hn). exact Hh.
    - intros o' t' d' nr nw Hti. unfold topic_info in Hti. rewrite HL in Hti by exact I. kdec.
      + inversion Hti; subst. split; [reflexivity|]. intros n Hn. unfold has_key. rewrite HL by exact Hn. kdec.
        destruct (lookup st (RecordKey o t n)) as [v|] eqn:G.
        * pose proof (Irt o t n Hn (has_key_true_lookup _ _ _ G)) as C. rewrite Hnt in C. discriminate.
        * split; [discriminate | lia].
      + destruct (Ird o' t' d' nr nw Hti) as [Hb Hd]. split; [exact Hb|].
        intros n Hn. unfold has_key. rewrite HL by exact Hn. kdec. apply (Hd n Hn).
    - intros o' t' d' nr nw Hti. unfold topic_info in Hti. rewrite HL in Hti by exact I. kdec.
      + inversion Hti; subst. rewrite Cr. rewrite (records_of_nil st o t HI Hnt). reflexivity.
      + rewrite Cr. apply (Irc o' t' d' nr nw). exact Hti.
  Qed.

  Lemma create_topic_records : forall st t d o st',
    Inv st -> create_topic unbech st t d o = Ok st' -> records_preserved st st'.
  Proof.
    intros st t d os st' HI H.
    destruct (create_topic_char _ _ _ _ _ HI H) as (o & tot & Ho & Wt & Lt & Htot & Ss & Sw & HL & _).
    intros o' t' n v Hn Hv. rewrite HL by exact Hn. kdec. exact Hv.
  Qed.

  Lemma create_topic_writers : forall st t d o st',
    Inv st -> create_topic unbech st t d o = Ok st' -> writers_same st st'.
  Proof.
    intros st t d os st' HI H.
    destruct (create_topic_char _ _ _ _ _ HI H) as (o & tot & Ho & Wt & Lt & Htot & Ss & Sw & HL & _).
    intros o' t' w'. unfold has_key. rewrite HL by exact I. kdec. reflexivity.
  Qed.

  Lemma create_topic_effect : forall st t d os st', Inv st -> create_topic unbech st t d os = Ok st' ->
    exists o, unbech os = Some o /\ has_key st (TopicKey o t) = false /\ has_key st' (TopicKey o t) = true /\
      forall o' t', (o', t') <> (o, t) -> has_key st' (TopicKey o' t') = has_key st (TopicKey o' t').
  Proof.
    intros st t d os st' HI H.
    destruct (create_topic_char _ _ _ _ _ HI H) as (o & tot & Ho & Wt & Lt & Htot & Ss & Sw & HL & _).
    exists o. split; [exact Ho|]. split; [exact (has_key_false_lookup _ _ Lt)|]. split.
    - unfold has_key. rewrite HL by exact I. kdec; [reflexivity | neq_refl].
    - intros o' t' Hne. unfold has_key. rewrite HL by exact I. kdec; [neq_refl | reflexivity].
  Qed.

  (** ** AddWriter *)
  Lemma add_writer_char st t m d ws os st' :
    Inv st -> add_writer unbech now st t m d ws os = Ok st' ->
    exists o w d0 nr nw,
      unbech os = Some o /\ unbech ws = Some w /\ wf_key (WriterKey o t w) /\
      lookup st (TopicKey o t) = Some (VTopic d0 nr nw) /\ lookup st (WriterKey o t w) = None /\
      sorted st' /\ Forall entry_wf st' /\
      (forall K, off_ok K -> lookup st' K =
         if typed_key_eq_dec K (WriterKey o t w) then Some (VWriter m d now)
         else if typed_key_eq_dec K (TopicKey o t) then Some (VTopic d0 nr (nw + 1)) else lookup st K) /\
      (forall o', length (topics_of st' o') = length (topics_of st o')) /\
      length (writers_of st' o t) = length (writers_of st o t) + 1 /\
      (forall o' t', (o', t') <> (o, t) -> length (writers_of st' o' t') = length (writers_of st o' t')) /\
      (forall o' t', length (records_of st' o' t') = length (records_of st o' t')).
  Proof.
    intros HI H. unfold add_writer in H.
    destruct (addr unbech os) as [o|cs c|] eqn:Ea; try discriminate H. cbn [bind] in H.
    destruct (addr unbech ws) as [w|cs c|] eqn:Eaw; try discriminate H. cbn [bind] in H.
    destruct (topic_key o t) as [tk|cs c|] eqn:Etk; try discriminate H. cbn [bind] in H.
    destruct (has tk st) eqn:Hhas; cbn [negb] in H; [|discriminate H].
    destruct (writer_key o t w) as [wk|cs c|] eqn:Ewk; try discriminate H. cbn [bind] in H.
    destruct (has wk st) eqn:Hhw; [discriminate H|].
    destruct (get_topic tk st) as [[d0 nr] nw] eqn:Egt.
    inversion H as [Hst]. clear H. unfold u64_inc.
    apply addr_ok in Ea. pose proof (Hunbech _ _ Ea) as Vo.
    apply addr_ok in Eaw. pose proof (Hunbech _ _ Eaw) as Vw.
    apply topic_key_ok in Etk. apply writer_key_ok in Ewk.
    pose proof (topic_len_ok _ _ _ Etk) as Tl.
    assert (Wt : wf_key (TopicKey o t)) by (split; [exact Vo | exact Tl]).
    assert (Ww : wf_key (WriterKey o t w)) by (split; [exact Vo | split; [exact Tl | exact Vw]]).
    pose proof HI as [Is Iw Ito Ioc Iwt Iwc Irt Ird Irc].
    destruct (has_true_topic st o t tk Iw Etk Hhas) as (d1 & nr1 & nw1 & Ltop).
    rewrite (get_topic_lookup st o t tk d1 nr1 nw1 Etk Ltop) in Egt. inversion Egt; subst d1 nr1 nw1. clear Egt.
    assert (Lw : lookup st (WriterKey o t w) = None).
    { rewrite (lookup_get _ _ _ Ewk). unfold has in Hhw. destruct (get wk st); [discriminate | reflexivity]. }
    pose proof (has_key_false_lookup _ _ Lw) as Hw.
    pose proof (has_key_true_lookup _ _ _ Ltop) as Ht.
    assert (NE : WriterKey o t w <> TopicKey o t) by discriminate.
    exists o, w, d0, nr, nw.
    split; [exact Ea|]. split; [exact Eaw|]. split; [exact Ww|]. split; [exact Ltop|]. split; [exact Lw|].
    split; [apply sorted_set; apply sorted_set; exact Is|].
    split.
    { apply Forall_set; [apply Forall_set; [exact Iw|]|].
      - apply (entry_wf_intro (TopicKey o t)); [exact Wt | exact Etk | reflexivity].
      - apply (entry_wf_intro (WriterKey o t w)); [exact Ww | exact Ewk | reflexivity]. }
    split.
    { intros K OK. rewrite (lookup_set (WriterKey o t w) wk _ _ K Ewk I OK).
      destruct (typed_key_eq_dec K (WriterKey o t w)) as [E|NE1]; [reflexivity|].
      rewrite (lookup_set (TopicKey o t) tk _ _ K Etk I OK). reflexivity. }
    split.
    { intros o'. rewrite !topics_of_tcount.
      rewrite (tcount_set2 (sel_topic o') st (TopicKey o t) tk _ (WriterKey o t w) wk _ Is Wt Ww Etk Ewk NE).
      rewrite Ht, Hw. cbn [sel_topic length]. lia. }
    split.
    { rewrite !writers_of_tcount.
      rewrite (tcount_set2 (sel_writer o t) st (TopicKey o t) tk _ (WriterKey o t w) wk _ Is Wt Ww Etk Ewk NE).
      rewrite Ht, Hw. cbn [sel_writer]. rewrite !bytes_eqb_refl. cbn [andb length]. lia. }
    split.
    { intros o' t' Hne. rewrite !writers_of_tcount.
      rewrite (tcount_set2 (sel_writer o' t') st (TopicKey o t) tk _ (WriterKey o t w) wk _ Is Wt Ww Etk Ewk NE).
      rewrite Ht, Hw. cbn [sel_writer]. rewrite (pair_neq_eqb _ _ _ _ Hne). cbn [length]. lia. }
    { intros o' t'. rewrite !records_of_tcount.
      rewrite (tcount_set2 (sel_record o' t') st (TopicKey o t) tk _ (WriterKey o t w) wk _ Is Wt Ww Etk Ewk NE).
      rewrite Ht, Hw. cbn [sel_record length]. lia. }
  Qed.

  (** ** DeleteWriter *)
  Lemma delete_writer_char st t ws os st' :
    Inv st -> delete_writer unbech st t ws os = Ok st' ->
    exists o w d0 nr nw,
      unbech os = Some o /\ unbech ws = Some w /\ wf_key (WriterKey o t w) /\
      lookup st (TopicKey o t) = Some (VTopic d0 nr nw) /\ has_key st (WriterKey o t w) = true /\
      (1 <= nw)%N /\
      sorted st' /\ Forall entry_wf st' /\
      (forall K, off_ok K -> lookup st' K =
         if typed_key_eq_dec K (WriterKey o t w) then None
         else if typed_key_eq_dec K (TopicKey o t) then Some (VTopic d0 nr (nw - 1)) else lookup st K) /\
      (forall o', length (topics_of st' o') = length (topics_of st o')) /\
      length (writers_of st o t) = length (writers_of st' o t) + 1 /\
      (forall o' t', (o', t') <> (o, t) -> length (writers_of st' o' t') = length (writers_of st o' t')) /\
      (forall o' t', length (records_of st' o' t') = length (records_of st o' t')).
  Proof.
    intros HI H. unfold delete_writer in H.
    destruct (addr unbech os) as [o|cs c|] eqn:Ea; try discriminate H. cbn [bind] in H.
    destruct (addr unbech ws) as [w|cs c|] eqn:Eaw; try discriminate H. cbn [bind] in H.
    destruct (writer_key o t w) as [wk|cs c|] eqn:Ewk; try discriminate H. cbn [bind] in H.
    destruct (has wk st) eqn:Hhw; cbn [negb] in H; [|discriminate H].
    destruct (topic_key o t) as [tk|cs c|] eqn:Etk; try discriminate H. cbn [bind] in H.
    destruct (get_topic tk st) as [[d0 nr] nw] eqn:Egt.
    inversion H as [Hst]. clear H.
    apply addr_ok in Ea. pose proof (Hunbech _ _ Ea) as Vo.
    apply addr_ok in Eaw. pose proof (Hunbech _ _ Eaw) as Vw.
    apply topic_key_ok in Etk. apply writer_key_ok in Ewk.
    pose proof (topic_len_ok _ _ _ Etk) as Tl.
    assert (Wt : wf_key (TopicKey o t)) by (split; [exact Vo | exact Tl]).
    assert (Ww : wf_key (WriterKey o t w)) by (split; [exact Vo | split; [exact Tl | exact Vw]]).
    pose proof HI as [Is Iw Ito Ioc Iwt Iwc Irt Ird Irc].
    assert (Hw : has_key st (WriterKey o t w) = true) by (rewrite (has_key_has _ _ st Ewk); exact Hhw).
    pose proof (Iwt o t w Hw) as Ht.
    assert (Hhas : has tk st = true) by (rewrite <- (has_key_has _ _ st Etk); exact Ht).
    destruct (has_true_topic st o t tk Iw Etk Hhas) as (d1 & nr1 & nw1 & Ltop).
    rewrite (get_topic_lookup st o t tk d1 nr1 nw1 Etk Ltop) in Egt. inversion Egt; subst d1 nr1 nw1. clear Egt.
    assert (NE : WriterKey o t w <> TopicKey o t) by discriminate.
    assert (Cw : length (writers_of st o t) = length (writers_of (del wk (set tk (VTopic d0 nr (u64_dec nw)) st)) o t) + 1).
    { rewrite !writers_of_tcount.
      pose proof (tcount_set_del (sel_writer o t) st (TopicKey o t) tk (VTopic d0 nr (u64_dec nw))
                    (WriterKey o t w) wk Is Wt Ww Etk Ewk NE) as C.
      rewrite Ht, Hw in C. cbn [sel_writer] in C. rewrite !bytes_eqb_refl in C. cbn [andb length] in C. lia. }
    assert (Hnw : (1 <= nw)%N).
    { assert (TI : topic_info st o t = Some (d0, nr, nw)) by (unfold topic_info; rewrite Ltop; reflexivity).
      pose proof (Iwc o t d0 nr nw TI) as E. lia. }
    assert (Hdec : u64_dec nw = (nw - 1)%N).
    { unfold u64_dec. destruct (N.eqb_spec nw 0) as [E|_]; [lia | reflexivity]. }
    rewrite Hdec in *.
    exists o, w, d0, nr, nw.
    split; [exact Ea|]. split; [exact Eaw|]. split; [exact Ww|]. split; [exact Ltop|]. split; [exact Hw|].
    split; [exact Hnw|].
    split; [apply sorted_del; apply sorted_set; exact Is|].
    split.
    { apply Forall_del. apply Forall_set; [exact Iw|].
      apply (entry_wf_intro (TopicKey o t)); [exact Wt | exact Etk | reflexivity]. }
    split.
    { intros K OK. rewrite (lookup_del (WriterKey o t w) wk _ K Ewk I OK).
      destruct (typed_key_eq_dec K (WriterKey o t w)) as [E|NE1]; [reflexivity|].
      rewrite (lookup_set (TopicKey o t) tk _ _ K Etk I OK). reflexivity. }
    split.
    { intros o'. rewrite !topics_of_tcount.
      pose proof (tcount_set_del (sel_topic o') st (TopicKey o t) tk (VTopic d0 nr (nw - 1))
                    (WriterKey o t w) wk Is Wt Ww Etk Ewk NE) as C.
      rewrite Ht, Hw in C. cbn [sel_topic length] in C. lia. }
    split; [exact Cw|].
    split.
    { intros o' t' Hne. rewrite !writers_of_tcount.
      pose proof (tcount_set_del (sel_writer o' t') st (TopicKey o t) tk (VTopic d0 nr (nw - 1))
                    (WriterKey o t w) wk Is Wt Ww Etk Ewk NE) as C.
      rewrite Ht, Hw in C. cbn [sel_writer] in C. rewrite (pair_neq_eqb _ _ _ _ Hne) in C. cbn [length] in C. lia. }
    { intros o' t'. rewrite !records_of_tcount.
      pose proof (tcount_set_del (sel_record o' t') st (TopicKey o t) tk (VTopic d0 nr (nw - 1))
                    (WriterKey o t w) wk Is Wt Ww Etk Ewk NE) as C.
      rewrite Ht, Hw in C. cbn [sel_record length] in C. lia. }
  Qed.

  (** ** AddRecord *)
  Lemma add_record_char st t k v ws os st' n :
    Inv st -> add_record unbech now st t k v ws os = Ok (st', n) ->
    exists o w d0 nw,
      unbech os = Some o /\ unbech ws = Some w /\ wf_key (RecordKey o t n) /\
      lookup st (TopicKey o t) = Some (VTopic d0 n nw) /\ has_key st (WriterKey o t w) = true /\
      (n + 1 < two64)%N /\ lookup st (RecordKey o t n) = None /\
      sorted st' /\ Forall entry_wf st' /\
      (forall K, off_ok K -> lookup st' K =
         if typed_key_eq_dec K (RecordKey o t n) then Some (VRecord k v now ws)
         else if typed_key_eq_dec K (TopicKey o t) then Some (VTopic d0 (n + 1) nw) else lookup st K) /\
      (forall o', length (topics_of st' o') = length (topics_of st o')) /\
      (forall o' t', length (writers_of st' o' t') = length (writers_of st o' t')) /\
      length (records_of st' o t) = length (records_of st o t) + 1 /\
      (forall o' t', (o', t') <> (o, t) -> length (records_of st' o' t') = length (records_of st o' t')).
  Proof.
    intros HI H. unfold add_record in H.
    destruct (addr unbech os) as [o|cs c|] eqn:Ea; try discriminate H. cbn [bind] in H.
    destruct (addr unbech ws) as [w|cs c|] eqn:Eaw; try discriminate H. cbn [bind] in H.
    destruct (topic_key o t) as [tk|cs c|] eqn:Etk; try discriminate H. cbn [bind] in H.
    destruct (has tk st) eqn:Hhas; cbn [negb] in H; [|discriminate H].
    destruct (writer_key o t w) as [wk|cs c|] eqn:Ewk; try discriminate H. cbn [bind] in H.
    destruct (has wk st) eqn:Hhw; cbn [negb] in H; [|discriminate H].
    destruct (get_topic tk st) as [[d0 nr] nw] eqn:Egt.
    destruct (N.leb_spec (two64 - 1) nr) as [Hcap|Hcap]; [discriminate H|].
    destruct (record_key o t nr) as [rk|cs c|] eqn:Erk; try discriminate H. cbn [bind] in H.
    inversion H as [[Hst Hn]]. clear H. subst n. unfold u64_inc.
    apply addr_ok in Ea. pose proof (Hunbech _ _ Ea) as Vo.
    apply addr_ok in Eaw. pose proof (Hunbech _ _ Eaw) as Vw.
    apply topic_key_ok in Etk. apply writer_key_ok in Ewk. apply record_key_ok in Erk.
    pose proof (topic_len_ok _ _ _ Etk) as Tl.
    assert (Hnr : (nr + 1 < two64)%N) by lia.
    assert (Wt : wf_key (TopicKey o t)) by (split; [exact Vo | exact Tl]).
    assert (Wr : wf_key (RecordKey o t nr)) by (split; [exact Vo | split; [exact Tl | lia]]).
    pose proof HI as [Is Iw Ito Ioc Iwt Iwc Irt Ird Irc].
    destruct (has_true_topic st o t tk Iw Etk Hhas) as (d1 & nr1 & nw1 & Ltop).
    rewrite (get_topic_lookup st o t tk d1 nr1 nw1 Etk Ltop) in Egt. inversion Egt; subst d1 nr1 nw1. clear Egt.
    assert (Hw : has_key st (WriterKey o t w) = true) by (rewrite (has_key_has _ _ st Ewk); exact Hhw).
    pose proof (has_key_true_lookup _ _ _ Ltop) as Ht.
    assert (TI : topic_info st o t = Some (d0, nr, nw)) by (unfold topic_info; rewrite Ltop; reflexivity).
    assert (Hr : has_key st (RecordKey o t nr) = false).
    { destruct (Ird o t d0 nr nw TI) as [_ Hd]. assert (Hlt : (nr < two64)%N) by lia.
      destruct (has_key st (RecordKey o t nr)) eqn:E; [|reflexivity].
      apply (Hd nr Hlt) in E. lia. }
    assert (Lr : lookup st (RecordKey o t nr) = None).
    { unfold has_key in Hr. destruct (lookup st (RecordKey o t nr)); [discriminate | reflexivity]. }
    assert (NE : RecordKey o t nr <> TopicKey o t) by discriminate.
    exists o, w, d0, nw.
    split; [exact Ea|]. split; [exact Eaw|]. split; [exact Wr|]. split; [exact Ltop|]. split; [exact Hw|].
    split; [exact Hnr|]. split; [exact Lr|].
    split; [apply sorted_set; apply sorted_set; exact Is|].
    split.
    { apply Forall_set; [apply Forall_set; [exact Iw|]|].
      - apply (entry_wf_intro (TopicKey o t)); [exact Wt | exact Etk | reflexivity].
      - apply (entry_wf_intro (RecordKey o t nr)); [exact Wr | exact Erk | reflexivity]. }
    split.
    { intros K OK. rewrite (lookup_set (RecordKey o t nr) rk _ _ K Erk (wf_off_ok _ Wr) OK).
      destruct (typed_key_eq_dec K (RecordKey o t nr)) as [E|NE1]; [reflexivity|].
      rewrite (lookup_set (TopicKey o t) tk _ _ K Etk I OK). reflexivity. }
    split.
    { intros o'. rewrite !topics_of_tcount.
      rewrite (tcount_set2 (sel_topic o') st (TopicKey o t) tk _ (RecordKey o t nr) rk _ Is Wt Wr Etk Erk NE).
      rewrite Ht, Hr. cbn [sel_topic length]. lia. }
    split.
    { intros o' t'. rewrite !writers_of_tcount.
      rewrite (tcount_set2 (sel_writer o' t') st (TopicKey o t) tk _ (RecordKey o t nr) rk _ Is Wt Wr Etk Erk NE).
      rewrite Ht, Hr. cbn [sel_writer length]. lia. }
    split.
    { rewrite !records_of_tcount.
      rewrite (tcount_set2 (sel_record o t) st (TopicKey o t) tk _ (RecordKey o t nr) rk _ Is Wt Wr Etk Erk NE).
      rewrite Ht, Hr. cbn [sel_record]. rewrite !bytes_eqb_refl. cbn [andb length]. lia. }
    { intros o' t' Hne. rewrite !records_of_tcount.
      rewrite (tcount_set2 (sel_record o' t') st (TopicKey o t) tk _ (RecordKey o t nr) rk _ Is Wt Wr Etk Erk NE).
      rewrite Ht, Hr. cbn [sel_record]. rewrite (pair_neq_eqb _ _ _ _ Hne). cbn [length]. lia. }
  Qed.

  Lemma add_writer_inv : forall st t m d w o st',
    Inv st -> add_writer unbech now st t m d w o = Ok st' -> Inv st'.
  Proof.
    intros st t m d ws os st' HI H.
    destruct (add_writer_char _ _ _ _ _ _ _ HI H)
      as (o & w & d0 & nr & nw & Ho & Hw & Ww & Lt & Lw & Ss & Sw & HL & Ct & Cw & Cwo & Cr).
    pose proof HI as [Is Iw Ito Ioc Iwt Iwc Irt Ird Irc].
    pose proof (has_key_true_lookup _ _ _ Lt) as Ht.
    assert (TI : topic_info st o t = Some (d0, nr, nw)) by (unfold topic_info; rewrite Lt; reflexivity).
    constructor.
    - exact Ss.
    - exact Sw.
    - intros o' t' Hh. unfold has_key in Hh |- *. rewrite HL in Hh by exact I. rewrite HL by exact I. kdec.
      + exact (Ito o t Ht).
      + exact (Ito o' t' Hh).
    - intros o' n Hn. unfold owner_total in Hn. rewrite HL in Hn by exact I. kdec.
      rewrite Ct. apply Ioc. exact Hn.
    - intros o' t' w' Hh. unfold has_key in Hh |- *. rewrite HL in Hh by exact I. rewrite HL by exact I. kdec;
        first [ reflexivity | neq_refl | exact (Iwt o' t' w' Hh) ].
    - intros o' t' d' nr' nw' Hti. unfold topic_info in Hti. rewrite HL in Hti by exact I. kdec.
      + inversion Hti; subst. rewrite Cw. pose proof (Iwc o t d' nr' nw TI) as E. lia.
      + rewrite Cwo by congruence. apply (Iwc o' t' d' nr' nw'). exact Hti.
    - intros o' t' n Hn Hh. unfold has_key in Hh |- *. rewrite HL in Hh by exact Hn. rewrite HL by exact I. kdec;
        first [ reflexivity | neq_refl | exact (Irt o' t' n Hn Hh) ].
    - intros o' t' d' nr' nw' Hti. unfold topic_info in Hti. rewrite HL in Hti by exact I. kdec.
      + inversion Hti; subst. destruct (Ird o t d' nr' nw TI) as [Hb Hd]. split; [exact Hb|].
        intros n Hn. unfold has_key. rewrite HL by exact Hn. kdec. apply (Hd n Hn).
      + destruct (Ird o' t' d' nr' nw' Hti) as [Hb Hd]. split; [exact Hb|].
        intros n Hn. unfold has_key. rewrite HL by exact Hn. kdec. apply (Hd n Hn).
    - intros o' t' d' nr' nw' Hti. unfold topic_info in Hti. rewrite HL in Hti by exact I. kdec.
      + inversion Hti; subst. rewrite Cr. apply (Irc o t d' nr' nw TI).
      + rewrite Cr. apply (Irc o' t' d' nr' nw'). exact Hti.
  Qed.

  Lemma add_writer_records : forall st t m d w o st',
    Inv st -> add_writer unbech now st t m d w o = Ok st' -> records_preserved st st'.
  Proof.
    intros st t m d ws os st' HI H.
    destruct (add_writer_char _ _ _ _ _ _ _ HI H)
      as (o & w & d0 & nr & nw & Ho & Hw & Ww & Lt & Lw & Ss & Sw & HL & _).
    intros o' t' n v Hn Hv. rewrite HL by exact Hn. kdec. exact Hv.
  Qed.

  Lemma add_writer_topics : forall st t m d w o st',
    Inv st -> add_writer unbech now st t m d w o = Ok st' -> topics_same st st'.
  Proof.
    intros st t m d ws os st' HI H.
    destruct (add_writer_char _ _ _ _ _ _ _ HI H)
      as (o & w & d0 & nr & nw & Ho & Hw & Ww & Lt & Lw & Ss & Sw & HL & _).
    intros o' t'. unfold has_key. rewrite HL by exact I. kdec; [|reflexivity].
    rewrite Lt. reflexivity.
  Qed.

  Lemma add_writer_effect : forall st t m d ws os st', Inv st -> add_writer unbech now st t m d ws os = Ok st' ->
    exists o w, unbech os = Some o /\ unbech ws = Some w /\ has_key st (WriterKey o t w) = false /\
      has_key st' (WriterKey o t w) = true /\ writers_same_except st st' o t w.
  Proof.
    intros st t m d ws os st' HI H.
    destruct (add_writer_char _ _ _ _ _ _ _ HI H)
      as (o & w & d0 & nr & nw & Ho & Hw & Ww & Lt & Lw & Ss & Sw & HL & _).
    exists o, w. split; [exact Ho|]. split; [exact Hw|]. split; [exact (has_key_false_lookup _ _ Lw)|]. split.
    - unfold has_key. rewrite HL by exact I. kdec; [reflexivity | neq_refl].
    - intros o' t' w' Hne. unfold has_key. rewrite HL by exact I. kdec; [neq_refl | reflexivity].
  Qed.

  Lemma delete_writer_inv : forall st t w o st',
    Inv st -> delete_writer unbech st t w o = Ok st' -> Inv st'.
  Proof.
    intros st t ws os st' HI H.
    destruct (delete_writer_char _ _ _ _ _ HI H)
      as (o & w & d0 & nr & nw & Ho & Hw & Ww & Lt & Hhw & Hnw & Ss & Sw & HL & Ct & Cw & Cwo & Cr).
    pose proof HI as [Is Iw Ito Ioc Iwt Iwc Irt Ird Irc].
    pose proof (has_key_true_lookup _ _ _ Lt) as Ht.
    assert (TI : topic_info st o t = Some (d0, nr, nw)) by (unfold topic_info; rewrite Lt; reflexivity).
    constructor.
    - exact Ss.
    - exact Sw.
    - intros o' t' Hh. unfold has_key in Hh |- *. rewrite HL in Hh by exact I. rewrite HL by exact I. kdec.
      + exact (Ito o t Ht).
      + exact (Ito o' t' Hh).
    - intros o' n Hn. unfold owner_total in Hn. rewrite HL in Hn by exact I. kdec.
      rewrite Ct. apply Ioc. exact Hn.
    - intros o' t' w' Hh. unfold has_key in Hh |- *. rewrite HL in Hh by exact I. rewrite HL by exact I. kdec;
        first [ reflexivity | discriminate Hh | exact (Iwt o' t' w' Hh) ].
    - intros o' t' d' nr' nw' Hti. unfold topic_info in Hti. rewrite HL in Hti by exact I. kdec.
      + inversion Hti; subst. pose proof (Iwc o t d' nr' nw TI) as E. lia.
      + rewrite Cwo by congruence. apply (Iwc o' t' d' nr' nw'). exact Hti.
    - intros o' t' n Hn Hh. unfold has_key in Hh |- *. rewrite HL in Hh by exact Hn. rewrite HL by exact I. kdec;
        first [ reflexivity | neq_refl | exact (Irt o' t' n Hn Hh) ].
    - intros o' t' d' nr' nw' Hti. unfold topic_info in Hti. rewrite HL in Hti by exact I. kdec.
      + inversion Hti; subst. destruct (Ird o t d' nr' nw TI) as [Hb Hd]. split; [exact Hb|].
        intros n Hn. unfold has_key. rewrite HL by exact Hn. kdec. apply (Hd n Hn).
      + destruct (Ird o' t' d' nr' nw' Hti) as [Hb Hd]. split; [exact Hb|].
        intros n Hn. unfold has_key. rewrite HL by exact Hn. kdec. apply (Hd n Hn).
    - intros o' t' d' nr' nw' Hti. unfold topic_info in Hti. rewrite HL in Hti by exact I. kdec.
      + inversion Hti; subst. rewrite Cr. apply (Irc o t d' nr' nw TI).
      + rewrite Cr. apply (Irc o' t' d' nr' nw'). exact Hti.
  Qed.

  Lemma delete_writer_records : forall st t w o st',
    Inv st -> delete_writer unbech st t w o = Ok st' -> records_preserved st st'.
  Proof.
    intros st t ws os st' HI H.
    destruct (delete_writer_char _ _ _ _ _ HI H)
      as (o & w & d0 & nr & nw & Ho & Hw & Ww & Lt & Hhw & Hnw & Ss & Sw & HL & _).
    intros o' t' n v Hn Hv. rewrite HL by exact Hn. kdec. exact Hv.
  Qed.

  Lemma delete_writer_topics : forall st t w o st',
    Inv st -> delete_writer unbech st t w o = Ok st' -> topics_same st st'.
  Proof.
    intros st t ws os st' HI H.
    destruct (delete_writer_char _ _ _ _ _ HI H)
      as (o & w & d0 & nr & nw & Ho & Hw & Ww & Lt & Hhw & Hnw & Ss & Sw & HL & _).
    intros o' t'. unfold has_key. rewrite HL by exact I. kdec; [|reflexivity].
    rewrite Lt. reflexivity.
  Qed.

  Lemma delete_writer_effect : forall st t ws os st', Inv st -> delete_writer unbech st t ws os = Ok st' ->
    exists o w, unbech os = Some o /\ unbech ws = Some w /\ has_key st (WriterKey o t w) = true /\
      has_key st' (WriterKey o t w) = false /\ writers_same_except st st' o t w.
  Proof.
    intros st t ws os st' HI H.
    destruct (delete_writer_char _ _ _ _ _ HI H)
      as (o & w & d0 & nr & nw & Ho & Hw & Ww & Lt & Hhw & Hnw & Ss & Sw & HL & _).
    exists o, w. split; [exact Ho|]. split; [exact Hw|]. split; [exact Hhw|]. split.
    - unfold has_key. rewrite HL by exact I. kdec; [reflexivity | neq_refl].
    - intros o' t' w' Hne. unfold has_key. rewrite HL by exact I. kdec; [neq_refl | reflexivity].
  Qed.

  Lemma add_record_inv : forall st t k v w o st' n,
    Inv st -> add_record unbech now st t k v w o = Ok (st', n) -> Inv st'.
  Proof.
    intros st t k v ws os st' n0 HI H.
    destruct (add_record_char _ _ _ _ _ _ _ _ HI H)
      as (o & w & d0 & nw & Ho & Hw & Wr & Lt & Hhw & Hcap & Lr & Ss & Sw & HL & Ct & Cw & Cr & Cro).
    pose proof HI as [Is Iw Ito Ioc Iwt Iwc Irt Ird Irc].
    pose proof (has_key_true_lookup _ _ _ Lt) as Ht.
    assert (TI : topic_info st o t = Some (d0, n0, nw)) by (unfold topic_info; rewrite Lt; reflexivity).
    pose proof (wf_off_ok _ Wr) as Or.
    constructor.
    - exact Ss.
    - exact Sw.
    - intros o' t' Hh. unfold has_key in Hh |- *. rewrite HL in Hh by exact I. rewrite HL by exact I. kdec.
      + exact (Ito o t Ht).
      + exact (Ito o' t' Hh).
    - intros o' n Hn. unfold owner_total in Hn. rewrite HL in Hn by exact I. kdec.
      rewrite Ct. apply Ioc. exact Hn.
    - intros o' t' w' Hh. unfold has_key in Hh |- *. rewrite HL in Hh by exact I. rewrite HL by exact I. kdec;
        first [ reflexivity | exact (Iwt o' t' w' Hh) ].
    - intros o' t' d' nr' nw' Hti. unfold topic_info in Hti. rewrite HL in Hti by exact I. kdec.
      + inversion Hti; subst. rewrite Cw. apply (Iwc o t d' n0 nw' TI).
      + rewrite Cw. apply (Iwc o' t' d' nr' nw'). exact Hti.
    - intros o' t' n Hn Hh. unfold has_key in Hh |- *. rewrite HL in Hh by exact Hn. rewrite HL by exact I. kdec;
        first [ reflexivity | neq_refl | exact (Irt o' t' n Hn Hh) ].
    - intros o' t' d' nr' nw' Hti. unfold topic_info in Hti. rewrite HL in Hti by exact I. kdec.
      + inversion Hti; subst. destruct (Ird o t d' n0 nw' TI) as [Hb Hd]. split; [exact Hcap|].
        intros n Hn. unfold has_key. rewrite HL by exact Hn. kdec.
        * split; [intros _; lia | reflexivity].
        * assert (Hne : n <> n0) by congruence.
          pose proof (Hd n Hn) as Hiff. unfold has_key in Hiff. rewrite Hiff. lia.
      + destruct (Ird o' t' d' nr' nw' Hti) as [Hb Hd]. split; [exact Hb|].
        intros n Hn. unfold has_key. rewrite HL by exact Hn. kdec.
        * neq_refl.
        * apply (Hd n Hn).
    - intros o' t' d' nr' nw' Hti. unfold topic_info in Hti. rewrite HL in Hti by exact I. kdec.
      + inversion Hti; subst. rewrite Cr. pose proof (Irc o t d' n0 nw' TI) as E. lia.
      + rewrite Cro by congruence. apply (Irc o' t' d' nr' nw'). exact Hti.
  Qed.

  Lemma add_record_records : forall st t k v w o st' n,
    Inv st -> add_record unbech now st t k v w o = Ok (st', n) -> records_preserved st st'.
  Proof.
    intros st t k v ws os st' n0 HI H.
    destruct (add_record_char _ _ _ _ _ _ _ _ HI H)
      as (o & w & d0 & nw & Ho & Hw & Wr & Lt & Hhw & Hcap & Lr & Ss & Sw & HL & _).
    intros o' t' n v' Hn Hv. rewrite HL by exact Hn. kdec.
    - rewrite Lr in Hv. discriminate Hv.
    - exact Hv.
  Qed.

  Lemma add_record_writers : forall st t k v w o st' n,
    Inv st -> add_record unbech now st t k v w o = Ok (st', n) -> writers_same st st'.
  Proof.
    intros st t k v ws os st' n0 HI H.
    destruct (add_record_char _ _ _ _ _ _ _ _ HI H)
      as (o & w & d0 & nw & Ho & Hw & Wr & Lt & Hhw & Hcap & Lr & Ss & Sw & HL & _).
    intros o' t' w'. unfold has_key. rewrite HL by exact I. kdec. reflexivity.
  Qed.

  Lemma add_record_topics : forall st t k v w o st' n,
    Inv st -> add_record unbech now st t k v w o = Ok (st', n) -> topics_same st st'.
  Proof.
    intros st t k v ws os st' n0 HI H.
    destruct (add_record_char _ _ _ _ _ _ _ _ HI H)
      as (o & w & d0 & nw & Ho & Hw & Wr & Lt & Hhw & Hcap & Lr & Ss & Sw & HL & _).
    intros o' t'. unfold has_key. rewrite HL by exact I. kdec; [|reflexivity].
    rewrite Lt. reflexivity.
  Qed.

  Lemma add_record_effect : forall st t k v ws os st' n, Inv st -> add_record unbech now st t k v ws os = Ok (st', n) ->
    exists o w d nw, unbech os = Some o /\ unbech ws = Some w /\
      topic_info st o t = Some (d, n, nw) /\ n = N.of_nat (length (records_of st o t)) /\
      has_key st (WriterKey o t w) = true /\
      lookup st (RecordKey o t n) = None /\
      lookup st' (RecordKey o t n) = Some (VRecord k v now ws) /\
      topic_info st' o t = Some (d, (n + 1)%N, nw).
  Proof.
    intros st t k v ws os st' n0 HI H.
    destruct (add_record_char _ _ _ _ _ _ _ _ HI H)
      as (o & w & d0 & nw & Ho & Hw & Wr & Lt & Hhw & Hcap & Lr & Ss & Sw & HL & _).
    assert (TI : topic_info st o t = Some (d0, n0, nw)) by (unfold topic_info; rewrite Lt; reflexivity).
    exists o, w, d0, nw.
    split; [exact Ho|]. split; [exact Hw|]. split; [exact TI|].
    split; [exact (inv_record_count st HI o t d0 n0 nw TI)|].
    split; [exact Hhw|]. split; [exact Lr|]. split.
    - rewrite HL by exact (wf_off_ok _ Wr). kdec; [reflexivity | neq_refl].
    - unfold topic_info. rewrite HL by exact I. kdec; [reflexivity | neq_refl].
  Qed.
End Steps.

Print Assumptions create_topic_inv.
Print Assumptions add_writer_inv.
Print Assumptions delete_writer_inv.
Print Assumptions add_record_inv.
Print Assumptions add_record_effect.
Print Assumptions add_record_records.
