(** Model of x/aol: store layout (byte-exact keys), the four message handlers, the single-item queries
    and genesis export/import.  Definitions only (extracted and run against the Go code). *)
From Coq Require Import Strings.String Strings.Byte.
From Coq Require Import List Arith NArith ZArith Bool.
From PV Require Import Base.Bytes Base.Outcome Base.KV Compkey.Model.
From PV Require Generated.GenConst.
Import ListNotations.

Inductive aol_val :=
| VOwner (total_topics : N)
| VTopic (description : bytes) (total_records total_writers : N)
| VWriter (moniker description : bytes) (nano : Z)
| VRecord (key value : bytes) (nano : Z) (writer_address : bytes).

Definition aol_state := store aol_val.

Definition cs_aol : bytes := b "aol".
Definition cs_sdk : bytes := b "sdk".
Definition err_invalid_address {A} : outcome A := Err cs_sdk 7.

(** store keys: prefix byte ++ compkey encoding; compkey.MustEncode panics on a >255-byte component *)
Definition key_of (pfx : bytes) (vs : list bytes) : outcome bytes :=
  match encode vs with Some e => Ok (pfx ++ e) | None => Panic end.

Definition owner_key (o : bytes) := key_of GenConst.aol_owner_prefix [o].
Definition topic_key (o t : bytes) := key_of GenConst.aol_topic_prefix [o; t].
Definition writer_key (o t w : bytes) := key_of GenConst.aol_writer_prefix [o; t; w].
Definition record_key (o t : bytes) (n : N) := key_of GenConst.aol_record_prefix [o; t; be_bytes 8 n].

(** Get* on a missing key unmarshals nil bytes: the zero value *)
Definition get_owner_total (k : bytes) (st : aol_state) : N :=
  match get k st with Some (VOwner n) => n | _ => 0%N end.
Definition get_topic (k : bytes) (st : aol_state) : bytes * N * N :=
  match get k st with Some (VTopic d nr nw) => (d, nr, nw) | _ => ([], 0%N, 0%N) end.

(** uint64 counters are modelled by unbounded N: [n + 1] never wraps in the model.  The only place where
    wrap-around could matter for a property is the record offset (it is part of the store key), so
    [add_record] carries an explicit capacity guard: the model refuses the 2^64-th record of one topic
    (error "model"/64) where the real code would wrap to offset 0.  That many records in one topic are
    not reachable; this deviation is named in the trusted base. *)
Definition u64_dec (n : N) : N := if (n =? 0)%N then (two64 - 1)%N else (n - 1)%N.   (* uint64 n - 1 *)
Definition u64_inc (n : N) : N := (n + 1)%N.

Section Handlers.
  Variable unbech : bytes -> option bytes.   (* sdk.AccAddressFromBech32 *)
  Variable now : Z.                          (* ctx.BlockTime().UnixNano() *)

  Definition addr (s : bytes) : outcome bytes :=
    match unbech s with Some a => Ok a | None => err_invalid_address end.

  (** msgServer.CreateTopic *)
  Definition create_topic (st : aol_state) (topic desc owner_s : bytes) : outcome aol_state :=
    do o <- addr owner_s;
    do tk <- topic_key o topic;
    if has tk st then Err cs_aol 5
    else
      do ok <- owner_key o;
      let st1 := set ok (VOwner (u64_inc (get_owner_total ok st))) st in
      Ok (set tk (VTopic desc 0 0) st1).

  (** msgServer.AddWriter *)
  Definition add_writer (st : aol_state) (topic moniker desc writer_s owner_s : bytes) : outcome aol_state :=
    do o <- addr owner_s;
    do w <- addr writer_s;
    do tk <- topic_key o topic;
    if negb (has tk st) then Err cs_aol 7
    else
      do wk <- writer_key o topic w;
      if has wk st then Err cs_aol 6
      else
        let '(d, nr, nw) := get_topic tk st in
        let st1 := set tk (VTopic d nr (u64_inc nw)) st in
        Ok (set wk (VWriter moniker desc now) st1).

  (** msgServer.DeleteWriter *)
  Definition delete_writer (st : aol_state) (topic writer_s owner_s : bytes) : outcome aol_state :=
    do o <- addr owner_s;
    do w <- addr writer_s;
    do wk <- writer_key o topic w;
    if negb (has wk st) then Err cs_aol 8
    else
      do tk <- topic_key o topic;
      let '(d, nr, nw) := get_topic tk st in
      let st1 := set tk (VTopic d nr (u64_dec nw)) st in
      Ok (del wk st1).

  (** msgServer.AddRecord; returns the new state and the acknowledged offset *)
  Definition add_record (st : aol_state) (topic key value writer_s owner_s : bytes) : outcome (aol_state * N) :=
    do o <- addr owner_s;
    do w <- addr writer_s;
    do tk <- topic_key o topic;
    if negb (has tk st) then Err cs_aol 7
    else
      do wk <- writer_key o topic w;
      if negb (has wk st) then Err cs_aol 9
      else
        let '(d, nr, nw) := get_topic tk st in
        if (two64 - 1 <=? nr)%N then Err (b "model") 64   (* capacity guard, see above *)
        else
          let st1 := set tk (VTopic d (u64_inc nr) nw) st in
          do rk <- record_key o topic nr;
          Ok (set rk (VRecord key value now writer_s) st1, nr).

  (** ** single-item gRPC queries; errors carry the gRPC status code (3 InvalidArgument, 5 NotFound) *)
  Definition cs_grpc : bytes := b "grpc".

  (** [strict] = the repaired handlers that answer InvalidArgument when the key cannot be encoded;
      the original ones panic in MustEncode (finding F1) *)
  Definition qkey (strict : bool) (k : outcome bytes) : outcome bytes :=
    match k with
    | Panic => if strict then Err cs_grpc 3 else Panic
    | other => other
    end.

  Definition q_record (strict : bool) (st : aol_state) (owner_s topic : bytes) (offset : N) : outcome aol_val :=
    match unbech owner_s with
    | None => Err cs_grpc 3
    | Some o =>
        do rk <- qkey strict (record_key o topic offset);
        match get rk st with
        | Some v => Ok v
        | None => Err cs_grpc 5
        end
    end.

  Definition q_topic (strict : bool) (st : aol_state) (owner_s topic : bytes) : outcome aol_val :=
    match unbech owner_s with
    | None => Err cs_grpc 3
    | Some o =>
        do tk <- qkey strict (topic_key o topic);
        match get tk st with
        | Some v => Ok v
        | None => Err cs_grpc 5
        end
    end.

  Definition q_writer (strict : bool) (st : aol_state) (owner_s topic writer_s : bytes) : outcome aol_val :=
    match unbech owner_s with
    | None => Err cs_grpc 3
    | Some o =>
        match unbech writer_s with
        | None => Err cs_grpc 3
        | Some w =>
            do wk <- qkey strict (writer_key o topic w);
            match get wk st with
            | Some v => Ok v
            | None => Err cs_grpc 5
            end
        end
    end.
End Handlers.

(** ** typed view of a store entry: which key kind a store key belongs to *)
Definition split_key (k : bytes) : option (key_kind * bytes) :=
  match k with
  | [] => None
  | p :: rest =>
      if bytes_eqb [p] GenConst.aol_owner_prefix then Some (KOwner, rest)
      else if bytes_eqb [p] GenConst.aol_topic_prefix then Some (KTopic, rest)
      else if bytes_eqb [p] GenConst.aol_writer_prefix then Some (KWriter, rest)
      else if bytes_eqb [p] GenConst.aol_record_prefix then Some (KRecord, rest)
      else None
  end.

Definition prefix_of_kind (k : key_kind) : bytes :=
  match k with
  | KOwner => GenConst.aol_owner_prefix
  | KTopic => GenConst.aol_topic_prefix
  | KWriter => GenConst.aol_writer_prefix
  | KRecord => GenConst.aol_record_prefix
  end.

(** ** genesis *)
(** an entry of one of the four genesis maps: the map key string and the value *)
Definition gen_entry := (bytes * aol_val)%type.
Record aol_genesis := {
  g_owners : list gen_entry; g_topics : list gen_entry; g_writers : list gen_entry; g_records : list gen_entry }.

Section Genesis.
  Variable bech : bytes -> bytes.
  Variable unbech : bytes -> option bytes.

  (** GetAllX: iterate the prefix store, MustDecode every key *)
  Fixpoint export_kind (kind : key_kind) (items : list (bytes * aol_val)) : outcome (list gen_entry) :=
    match items with
    | [] => Ok []
    | (k, v) :: r =>
        match strip_prefix (prefix_of_kind kind) k with
        | None => export_kind kind r
        | Some ck =>
            match decode_key true kind ck with
            | Ok key => do rest <- export_kind kind r; Ok ((encode_to_string bech key, v) :: rest)
            | _ => Panic
            end
        end
    end.

  Definition export_genesis (st : aol_state) : outcome aol_genesis :=
    do o <- export_kind KOwner st;
    do t <- export_kind KTopic st;
    do w <- export_kind KWriter st;
    do r <- export_kind KRecord st;
    Ok {| g_owners := o; g_topics := t; g_writers := w; g_records := r |}.

  (** InitGenesis: MustDecodeFromString every key (panic on failure), SetX *)
  Fixpoint init_kind (kind : key_kind) (entries : list gen_entry) (st : aol_state) : outcome aol_state :=
    match entries with
    | [] => Ok st
    | (ks, v) :: r =>
        match decode_from_string unbech kind ks with
        | None => Panic
        | Some key =>
            match encode_key key with
            | None => Panic
            | Some e => init_kind kind r (set (prefix_of_kind kind ++ e) v st)
            end
        end
    end.

  Definition init_genesis (g : aol_genesis) : outcome aol_state :=
    do s1 <- init_kind KOwner (g_owners g) [];
    do s2 <- init_kind KTopic (g_topics g) s1;
    do s3 <- init_kind KWriter (g_writers g) s2;
    init_kind KRecord (g_records g) s3.
End Genesis.
