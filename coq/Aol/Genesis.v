(** C08/C09 for x/aol: genesis export followed by import reproduces the store exactly, whatever order
    the Go map iteration delivers the entries of the four genesis maps in. *)
From Coq Require Import Strings.String Strings.Byte.
From Coq Require Import List Arith NArith ZArith Bool Lia Permutation.
From PV Require Import Base.Bytes Base.Outcome Base.KV Compkey.Model Compkey.Proofs
  Aol.Model Aol.Spec Aol.Inv Valid.Aol Aol.StoredSpec Aol.Stored.
From PV Require Generated.GenConst.
Import ListNotations.

#[local] Arguments be_bytes : simpl never.

(** * which entries a prefix iteration sees *)
Definition is_kind (kind : key_kind) (it : bytes * aol_val) : bool :=
  match strip_prefix (prefix_of_kind kind) (fst it) with Some _ => true | None => false end.

(** the typed key of a raw store key (a dummy for byte strings that are not store keys) *)
Definition tk (k : bytes) : typed_key :=
  match typed_of k with Some K => K | None => OwnerKey [] end.

Lemma is_kind_same : forall kind e v, is_kind kind (prefix_of_kind kind ++ e, v) = true.
Proof. intros kind e v. destruct kind; reflexivity. Qed.

Lemma is_kind_diff : forall kind kind' e v, kind <> kind' -> is_kind kind (prefix_of_kind kind' ++ e, v) = false.
Proof.
  intros kind kind' e v Hne.
  destruct kind, kind'; try reflexivity; exfalso; apply Hne; reflexivity.
Qed.

Lemma is_kind_fst : forall kind k v v', is_kind kind (k, v) = is_kind kind (k, v').
Proof. intros. reflexivity. Qed.

Lemma strip_prefix_kind : forall kind k ck,
  strip_prefix (prefix_of_kind kind) k = Some ck -> split_key k = Some (kind, ck).
Proof. intros kind k ck H. apply strip_prefix_spec in H. subst k. apply split_key_prefix. Qed.

Lemma entry_kind_facts : forall it kind, entry_wf it -> is_kind kind it = true ->
  exists K e, typed_of (fst it) = Some K /\ wf_key K /\ store_key K = Some (fst it) /\ kind_of K = kind /\
              val_kind (snd it) = kind /\ encode_key K = Some e /\ fst it = prefix_of_kind kind ++ e /\
              strip_prefix (prefix_of_kind kind) (fst it) = Some e.
Proof.
  intros it kind (K & HT & HW & HK & Hkd) Hk.
  destruct (store_key_split _ _ HK) as (e & He & Hfst).
  unfold is_kind in Hk. destruct (strip_prefix (prefix_of_kind kind) (fst it)) as [ck|] eqn:Es; [|discriminate Hk].
  pose proof (strip_prefix_kind _ _ _ Es) as S1.
  pose proof (split_key_prefix (kind_of K) e) as S2. rewrite <- Hfst in S2.
  rewrite S1 in S2. injection S2 as Hkind Hck. subst ck.
  exists K, e. split; [exact HT|]. split; [exact HW|]. split; [exact HK|]. split; [symmetry; exact Hkind|].
  split; [rewrite <- Hkd; symmetry; exact Hkind|]. split; [exact He|].
  split; [rewrite Hkind; exact Hfst | reflexivity].
Qed.

Lemma entry_kind_exists : forall it, entry_wf it ->
  exists kind e, fst it = prefix_of_kind kind ++ e.
Proof.
  intros it (K & HT & HW & HK & Hkd). destruct (store_key_split _ _ HK) as (e & He & Hfst).
  exists (kind_of K), e. exact Hfst.
Qed.

Lemma NoDup_map_Some : forall (A : Type) (l : list A), NoDup l -> NoDup (map (@Some A) l).
Proof.
  intros A l H. induction H as [|x l Hnin Hnd IH]; cbn [map]; constructor; [|exact IH].
  intros Hin. apply in_map_iff in Hin as (y & Ey & Hy). inversion Ey; subst y. exact (Hnin Hy).
Qed.

(** the topic component of a stored key contains no separator *)
Lemma val_ok_no_sep : forall K v, val_ok K v ->
  match K with
  | OwnerKey _ => True
  | TopicKey _ t | WriterKey _ t _ | RecordKey _ t _ => no_byte sep t
  end.
Proof.
  intros K v H. destruct K as [o|o t|o t w|o t n]; [exact I| | |];
    destruct v; cbn [val_ok] in H; try contradiction;
    destruct H as [Vt _]; apply validate_topic_name_ok in Vt; tauto.
Qed.

Section G.
  Variable bech : bytes -> bytes.
  Variable unbech : bytes -> option bytes.
  Hypothesis unbech_bech : forall a, verify_address_format a = true -> unbech (bech a) = Some a.
  Hypothesis bech_no_slash : forall a, no_byte sep (bech a).

  (** ** export, as a function *)
  Definition ent (it : bytes * aol_val) : gen_entry := (encode_to_string bech (tk (fst it)), snd it).
  Definition exp_list (kind : key_kind) (st : aol_state) : list gen_entry := map ent (filter (is_kind kind) st).

  Lemma export_kind_eq : forall kind items,
    Forall entry_wf items -> export_kind bech kind items = Ok (exp_list kind items).
  Proof.
    intros kind. induction items as [|[k v] r IH]; intros Hall; [reflexivity|].
    inversion Hall as [|? ? Hh Hr]; subst. specialize (IH Hr).
    unfold exp_list. cbn [export_kind filter].
    destruct (is_kind kind (k, v)) eqn:Ek.
    - destruct (entry_kind_facts _ _ Hh Ek) as (K & e & HT & HW & HK & Hkd & Hv & He & Hk & Hs).
      cbn [fst snd] in HT, HK, Hv, Hk, Hs.
      assert (Hd : decode_key true kind e = Ok K) by (rewrite <- Hkd; apply typed_roundtrip; assumption).
      rewrite Hs, Hd, IH. cbn [bind map]. unfold ent at 1. cbn [fst snd]. unfold tk. rewrite HT. reflexivity.
    - unfold is_kind in Ek. cbn [fst] in Ek.
      destruct (strip_prefix (prefix_of_kind kind) k); [discriminate Ek | exact IH].
  Qed.

  Lemma export_genesis_eq : forall st, Inv st ->
    export_genesis bech st =
    Ok {| g_owners := exp_list KOwner st; g_topics := exp_list KTopic st;
          g_writers := exp_list KWriter st; g_records := exp_list KRecord st |}.
  Proof.
    intros st HI. pose proof (inv_wf st HI) as Hw. unfold export_genesis.
    rewrite !export_kind_eq by exact Hw. reflexivity.
  Qed.

  (** ** import: a sequence of [set]s *)
  (** the store key that InitGenesis writes for a genesis map key *)
  Definition skey_s (kind : key_kind) (ks : bytes) : option bytes :=
    match decode_from_string unbech kind ks with
    | Some K => match encode_key K with Some c => Some (prefix_of_kind kind ++ c) | None => None end
    | None => None
    end.
  Definition skey (kind : key_kind) (e : gen_entry) : option bytes := skey_s kind (fst e).

  Lemma init_kind_spec : forall kind l s0,
    (forall e, In e l -> skey kind e <> None) -> NoDup (map (skey kind) l) ->
    exists s1, init_kind unbech kind l s0 = Ok s1 /\ (sorted s0 -> sorted s1) /\
      (forall e kk, In e l -> skey kind e = Some kk -> get kk s1 = Some (snd e)) /\
      (forall k, ~ In (Some k) (map (skey kind) l) -> get k s1 = get k s0).
  Proof.
    intros kind. induction l as [|[ks v] r IH]; intros s0 Hall Hnd.
    - exists s0. split; [reflexivity|]. split; [intros S0; exact S0|]. split.
      + intros e kk Hin. contradiction Hin.
      + intros k _. reflexivity.
    - cbn [map] in Hnd. inversion Hnd as [|? ? Hnin Hnd']; subst.
      pose proof (Hall (ks, v) (or_introl eq_refl)) as Hs.
      destruct (skey kind (ks, v)) as [kk|] eqn:Ekk; [|contradiction Hs; reflexivity]. clear Hs.
      destruct (IH (set kk v s0) (fun e He => Hall e (or_intror He)) Hnd') as (s1 & Hi & Hso & Hin & Hout).
      exists s1. split.
      { cbn [init_kind]. unfold skey, skey_s in Ekk. cbn [fst] in Ekk.
        destruct (decode_from_string unbech kind ks) as [K|]; [|discriminate Ekk].
        destruct (encode_key K) as [c|]; [|discriminate Ekk]. inversion Ekk; subst kk. exact Hi. }
      split. { intros S0. apply Hso. apply sorted_set. exact S0. }
      split.
      { intros e kk' [He|He] Hk.
        - subst e. rewrite Ekk in Hk. inversion Hk; subst kk'. cbn [snd].
          rewrite Hout by exact Hnin. apply get_set_eq.
        - apply (Hin e kk' He Hk). }
      { intros k Hk. cbn [map] in Hk. rewrite Ekk in Hk. rewrite Hout.
        - apply get_set_neq. intros E. subst k. apply Hk. left. reflexivity.
        - intros C. apply Hk. right. exact C. }
  Qed.

  (** ** one phase of InitGenesis on (a permutation of) the exported entries of one kind *)
  Section Phase.
    Variable st : aol_state.
    Hypothesis HI : Inv st.
    Hypothesis HS : Stored_ok st.

    Lemma skey_ent : forall kind it, In it st -> is_kind kind it = true -> skey kind (ent it) = Some (fst it).
    Proof.
      intros kind [k v] Hin Hk.
      pose proof (inv_wf st HI) as Hw. rewrite Forall_forall in Hw.
      destruct (entry_kind_facts _ _ (Hw _ Hin) Hk) as (K & e & HT & HW & HK & Hkd & Hv & He & Hfst & Hs).
      cbn [fst snd] in HT, HK, Hv, Hfst, Hs |- *.
      assert (L : lookup st K = Some v).
      { rewrite (lookup_get K k st HK). apply In_get; [exact (inv_sorted st HI) | exact Hin]. }
      pose proof (string_roundtrip bech unbech unbech_bech bech_no_slash K HW (val_ok_no_sep K v (HS K v L))) as R.
      rewrite Hkd in R.
      unfold skey, skey_s, ent. cbn [fst]. unfold tk. rewrite HT, R, He, Hfst. reflexivity.
    Qed.

    Lemma exp_list_src : forall kind e, In e (exp_list kind st) ->
      exists it, In it st /\ is_kind kind it = true /\ e = ent it.
    Proof.
      intros kind e Hin. unfold exp_list in Hin. apply in_map_iff in Hin as (it & E & Hit).
      apply filter_In in Hit as [Hit Hk]. exists it. split; [exact Hit|]. split; [exact Hk | symmetry; exact E].
    Qed.

    Lemma exp_list_skeys : forall kind,
      map (skey kind) (exp_list kind st) = map (@Some bytes) (keys (filter (is_kind kind) st)).
    Proof.
      intros kind. unfold exp_list, keys. rewrite !map_map. apply map_ext_in.
      intros it Hit. apply filter_In in Hit as [Hit Hk]. apply skey_ent; assumption.
    Qed.

    Lemma exp_list_skeys_NoDup : forall kind, NoDup (map (skey kind) (exp_list kind st)).
    Proof.
      intros kind. rewrite exp_list_skeys. apply NoDup_map_Some. apply sorted_NoDup_keys.
      apply sorted_filter. exact (inv_sorted st HI).
    Qed.

    (** the exported map keys of one map are pairwise distinct *)
    Lemma exp_list_keys_NoDup : forall kind, NoDup (map fst (exp_list kind st)).
    Proof.
      intros kind. apply (NoDup_map_inv (skey_s kind)).
      pose proof (exp_list_skeys_NoDup kind) as H. unfold skey in H. rewrite <- map_map in H. exact H.
    Qed.

    Lemma phase : forall kind l s_in, Permutation l (exp_list kind st) ->
      exists s_out, init_kind unbech kind l s_in = Ok s_out /\ (sorted s_in -> sorted s_out) /\
        (forall k v, get k st = Some v -> is_kind kind (k, v) = true -> get k s_out = Some v) /\
        (forall k, (forall v, get k st = Some v -> is_kind kind (k, v) = false) -> get k s_out = get k s_in).
    Proof.
      intros kind l s_in HP.
      assert (A : forall e, In e l -> exists it, In it st /\ is_kind kind it = true /\ e = ent it).
      { intros e He. apply exp_list_src. apply (Permutation_in e HP). exact He. }
      assert (B : forall e, In e l -> skey kind e <> None).
      { intros e He. destruct (A e He) as (it & Hit & Hk & ->). rewrite (skey_ent kind it Hit Hk). discriminate. }
      assert (C : NoDup (map (skey kind) l)).
      { apply (Permutation_NoDup (l := map (skey kind) (exp_list kind st))).
        - apply Permutation_map. apply Permutation_sym. exact HP.
        - apply exp_list_skeys_NoDup. }
      destruct (init_kind_spec kind l s_in B C) as (s_out & Hi & Hso & Hin & Hout).
      exists s_out. split; [exact Hi|]. split; [exact Hso|]. split.
      - intros k v G Hk. pose proof (get_In _ _ _ G) as Hit.
        assert (He : In (ent (k, v)) l).
        { apply (Permutation_in _ (Permutation_sym HP)). unfold exp_list. apply in_map.
          apply filter_In. split; [exact Hit | exact Hk]. }
        apply (Hin (ent (k, v)) k He). apply (skey_ent kind (k, v) Hit Hk).
      - intros k Hno. apply Hout. intros C1. apply in_map_iff in C1 as (e & Ee & He).
        destruct (A e He) as ([k' v'] & Hit & Hk & ->).
        rewrite (skey_ent kind (k', v') Hit Hk) in Ee. cbn [fst] in Ee. inversion Ee; subst k'.
        pose proof (In_get k v' st (inv_sorted st HI) Hit) as G.
        rewrite (Hno v' G) in Hk. discriminate Hk.
    Qed.

    (** every exported entry is exactly one store entry *)
    Lemma exp_list_In : forall kind ks v,
      In (ks, v) (exp_list kind st) <->
      exists K, kind_of K = kind /\ off_ok K /\ ks = encode_to_string bech K /\ lookup st K = Some v.
    Proof.
      intros kind ks v. pose proof (inv_wf st HI) as Hw. rewrite Forall_forall in Hw. split.
      - intros Hin. destruct (exp_list_src kind _ Hin) as ([k v'] & Hit & Hk & E).
        destruct (entry_kind_facts _ _ (Hw _ Hit) Hk) as (K & e & HT & HW & HK & Hkd & Hv & He & Hfst & Hs).
        cbn [fst snd] in HT, HK, Hv, Hfst, Hs. unfold ent in E. cbn [fst snd] in E. unfold tk in E. rewrite HT in E.
        inversion E; subst ks v'. exists K. split; [exact Hkd|]. split; [apply wf_off_ok; exact HW|].
        split; [reflexivity|]. rewrite (lookup_get K k st HK). apply In_get; [exact (inv_sorted st HI) | exact Hit].
      - intros (K & Hkd & HO & -> & L). unfold lookup in L.
        destruct (store_key K) as [kk|] eqn:HK; [|discriminate L].
        pose proof (get_In _ _ _ L) as Hit.
        destruct (Hw _ Hit) as (K0 & HT0 & HW0 & HK0 & Hkd0). cbn [fst snd] in HT0, HK0, Hkd0.
        assert (EK : K0 = K) by (apply (store_key_inj_off K0 K kk); auto using wf_off_ok).
        subst K0. unfold exp_list. apply in_map_iff. exists (kk, v). split.
        + unfold ent. cbn [fst snd]. unfold tk. rewrite HT0. reflexivity.
        + apply filter_In. split; [exact Hit|].
          destruct (store_key_split _ _ HK) as (e & He & ->). rewrite Hkd. apply is_kind_same.
    Qed.
  End Phase.

  (** ** the main theorem *)
  (** exporting a store that satisfies the invariants succeeds (MustDecode never panics) and re-importing the
      exported entries, each of the four lists taken in ANY order, yields exactly the original store *)
  Theorem export_import_identity : forall st, Inv st -> Stored_ok st ->
    exists g, export_genesis bech st = Ok g /\
      forall lo lt lw lr, Permutation lo (g_owners g) -> Permutation lt (g_topics g) ->
                          Permutation lw (g_writers g) -> Permutation lr (g_records g) ->
        init_genesis unbech {| g_owners := lo; g_topics := lt; g_writers := lw; g_records := lr |} = Ok st.
  Proof.
    intros st HI HS. pose proof (inv_wf st HI) as Hw. rewrite Forall_forall in Hw.
    eexists. split; [apply export_genesis_eq; exact HI|].
    cbn [g_owners g_topics g_writers g_records].
    intros lo lt lw lr Po Pt Pw Pr. unfold init_genesis. cbn [g_owners g_topics g_writers g_records].
    destruct (phase st HI HS KOwner lo [] Po) as (s1 & E1 & S1 & A1 & B1). rewrite E1. cbn [bind].
    destruct (phase st HI HS KTopic lt s1 Pt) as (s2 & E2 & S2 & A2 & B2). rewrite E2. cbn [bind].
    destruct (phase st HI HS KWriter lw s2 Pw) as (s3 & E3 & S3 & A3 & B3). rewrite E3. cbn [bind].
    destruct (phase st HI HS KRecord lr s3 Pr) as (s4 & E4 & S4 & A4 & B4). rewrite E4.
    f_equal. apply sorted_ext.
    - apply S4, S3, S2, S1. exact I.
    - exact (inv_sorted st HI).
    - intros k. destruct (get k st) as [v|] eqn:G.
      + pose proof (get_In _ _ _ G) as Hit.
        destruct (entry_kind_exists _ (Hw _ Hit)) as (kind & e & Hk). cbn [fst] in Hk. subst k.
        destruct kind.
        * rewrite B4 by (intros v' _; apply is_kind_diff; discriminate).
          rewrite B3 by (intros v' _; apply is_kind_diff; discriminate).
          rewrite B2 by (intros v' _; apply is_kind_diff; discriminate).
          apply (A1 _ _ G). apply is_kind_same.
        * rewrite B4 by (intros v' _; apply is_kind_diff; discriminate).
          rewrite B3 by (intros v' _; apply is_kind_diff; discriminate).
          apply (A2 _ _ G). apply is_kind_same.
        * rewrite B4 by (intros v' _; apply is_kind_diff; discriminate).
          apply (A3 _ _ G). apply is_kind_same.
        * apply (A4 _ _ G). apply is_kind_same.
      + rewrite B4 by (intros v' C; rewrite G in C; discriminate C).
        rewrite B3 by (intros v' C; rewrite G in C; discriminate C).
        rewrite B2 by (intros v' C; rewrite G in C; discriminate C).
        rewrite B1 by (intros v' C; rewrite G in C; discriminate C).
        reflexivity.
  Qed.

  (** in particular, with the entries in exported order *)
  Corollary export_import_same_order : forall st g, Inv st -> Stored_ok st ->
    export_genesis bech st = Ok g -> init_genesis unbech g = Ok st.
  Proof.
    intros st g HI HS He. destruct (export_import_identity st HI HS) as (g' & He' & Himp).
    rewrite He in He'. inversion He'; subst g'.
    specialize (Himp _ _ _ _ (Permutation_refl _) (Permutation_refl _) (Permutation_refl _) (Permutation_refl _)).
    destruct g as [o1 t1 w1 r1]. exact Himp.
  Qed.

  (** hence export is stable: exporting the re-imported store gives the same genesis *)
  Corollary reexport_same : forall st g st2, Inv st -> Stored_ok st ->
    export_genesis bech st = Ok g -> init_genesis unbech g = Ok st2 -> export_genesis bech st2 = Ok g.
  Proof.
    intros st g st2 HI HS He Hi. rewrite (export_import_same_order st g HI HS He) in Hi.
    inversion Hi; subst st2. exact He.
  Qed.

  (** the same, for any order of the imported maps *)
  Corollary reexport_same_perm : forall st g g2 st2, Inv st -> Stored_ok st ->
    export_genesis bech st = Ok g ->
    Permutation (g_owners g2) (g_owners g) -> Permutation (g_topics g2) (g_topics g) ->
    Permutation (g_writers g2) (g_writers g) -> Permutation (g_records g2) (g_records g) ->
    init_genesis unbech g2 = Ok st2 -> st2 = st /\ export_genesis bech st2 = Ok g.
  Proof.
    intros st g g2 st2 HI HS He Po Pt Pw Pr Hi.
    destruct (export_import_identity st HI HS) as (g' & He' & Himp).
    rewrite He in He'. inversion He'; subst g'.
    specialize (Himp _ _ _ _ Po Pt Pw Pr). destruct g2 as [o2 t2 w2 r2]. cbn [g_owners g_topics g_writers g_records] in Himp.
    rewrite Hi in Himp. inversion Himp; subst st2. split; [reflexivity | exact He].
  Qed.

  (** ** every exported entry is exactly one store entry, and the map keys are pairwise distinct *)
  Lemma export_genesis_lists : forall st g, Inv st -> export_genesis bech st = Ok g ->
    g_owners g = exp_list KOwner st /\ g_topics g = exp_list KTopic st /\
    g_writers g = exp_list KWriter st /\ g_records g = exp_list KRecord st.
  Proof.
    intros st g HI He. rewrite (export_genesis_eq st HI) in He. inversion He; subst g.
    cbn [g_owners g_topics g_writers g_records]. repeat split; reflexivity.
  Qed.

  Lemma export_entries_spec : forall st g, Inv st -> Stored_ok st -> export_genesis bech st = Ok g ->
    forall ks v, In (ks, v) (g_topics g) <->
      exists o t, ks = encode_to_string bech (TopicKey o t) /\ lookup st (TopicKey o t) = Some v.
  Proof.
    intros st g HI _ He ks v. destruct (export_genesis_lists st g HI He) as (_ & -> & _ & _).
    rewrite (exp_list_In st HI KTopic ks v). split.
    - intros (K & Hkd & _ & E & L). destruct K as [o|o t|o t w|o t n]; try discriminate Hkd. exists o, t. auto.
    - intros (o & t & E & L). exists (TopicKey o t). split; [reflexivity|]. split; [exact I|]. auto.
  Qed.

  Lemma export_owners_spec : forall st g, Inv st -> Stored_ok st -> export_genesis bech st = Ok g ->
    forall ks v, In (ks, v) (g_owners g) <->
      exists o, ks = encode_to_string bech (OwnerKey o) /\ lookup st (OwnerKey o) = Some v.
  Proof.
    intros st g HI _ He ks v. destruct (export_genesis_lists st g HI He) as (-> & _ & _ & _).
    rewrite (exp_list_In st HI KOwner ks v). split.
    - intros (K & Hkd & _ & E & L). destruct K as [o|o t|o t w|o t n]; try discriminate Hkd. exists o. auto.
    - intros (o & E & L). exists (OwnerKey o). split; [reflexivity|]. split; [exact I|]. auto.
  Qed.

  Lemma export_writers_spec : forall st g, Inv st -> Stored_ok st -> export_genesis bech st = Ok g ->
    forall ks v, In (ks, v) (g_writers g) <->
      exists o t w, ks = encode_to_string bech (WriterKey o t w) /\ lookup st (WriterKey o t w) = Some v.
  Proof.
    intros st g HI _ He ks v. destruct (export_genesis_lists st g HI He) as (_ & _ & -> & _).
    rewrite (exp_list_In st HI KWriter ks v). split.
    - intros (K & Hkd & _ & E & L). destruct K as [o|o t|o t w|o t n]; try discriminate Hkd. exists o, t, w. auto.
    - intros (o & t & w & E & L). exists (WriterKey o t w). split; [reflexivity|]. split; [exact I|]. auto.
  Qed.

  Lemma export_records_spec : forall st g, Inv st -> Stored_ok st -> export_genesis bech st = Ok g ->
    forall ks v, In (ks, v) (g_records g) <->
      exists o t n, (n < two64)%N /\ ks = encode_to_string bech (RecordKey o t n) /\
                    lookup st (RecordKey o t n) = Some v.
  Proof.
    intros st g HI _ He ks v. destruct (export_genesis_lists st g HI He) as (_ & _ & _ & ->).
    rewrite (exp_list_In st HI KRecord ks v). split.
    - intros (K & Hkd & HO & E & L). destruct K as [o|o t|o t w|o t n]; try discriminate Hkd.
      exists o, t, n. cbn [off_ok] in HO. auto.
    - intros (o & t & n & Hn & E & L). exists (RecordKey o t n). split; [reflexivity|]. split; [exact Hn|]. auto.
  Qed.

  Lemma export_keys_distinct : forall st g, Inv st -> Stored_ok st -> export_genesis bech st = Ok g ->
    NoDup (map fst (g_owners g)) /\ NoDup (map fst (g_topics g)) /\
    NoDup (map fst (g_writers g)) /\ NoDup (map fst (g_records g)).
  Proof.
    intros st g HI HS He. destruct (export_genesis_lists st g HI He) as (-> & -> & -> & ->).
    repeat split; apply exp_list_keys_NoDup; assumption.
  Qed.
End G.

Print Assumptions export_import_identity.
Print Assumptions reexport_same.
Print Assumptions reexport_same_perm.
Print Assumptions export_entries_spec.
Print Assumptions export_owners_spec.
Print Assumptions export_writers_spec.
Print Assumptions export_records_spec.
Print Assumptions export_keys_distinct.
