(** "Nothing outside the published limits is ever stored": the predicate on AOL store contents. *)
From Coq Require Import Strings.String Strings.Byte.
From Coq Require Import List Arith NArith ZArith Bool.
From PV Require Import Base.Bytes Base.Outcome Base.KV Compkey.Model Aol.Model Aol.Spec Valid.Aol.
Import ListNotations.

Definition val_ok (k : typed_key) (v : aol_val) : Prop :=
  match k, v with
  | OwnerKey _, VOwner _ => True
  | TopicKey _ t, VTopic d _ _ => validate_topic_name t = Ok tt /\ validate_description d = Ok tt
  | WriterKey _ t _, VWriter m d _ =>
      validate_topic_name t = Ok tt /\ validate_moniker m = Ok tt /\ validate_description d = Ok tt
  | RecordKey _ t _, VRecord k v _ _ =>
      validate_topic_name t = Ok tt /\ validate_record_key k = Ok tt /\ validate_record_value v = Ok tt
  | _, _ => False
  end.

(** every entry of the store, read through its typed key, respects the limits *)
Definition Stored_ok (st : aol_state) : Prop :=
  forall K v, lookup st K = Some v -> val_ok K v.
