(** Typed views of the AOL store and the invariant carried along every history. Definitions only. *)
From Coq Require Import Strings.String Strings.Byte.
From Coq Require Import List Arith NArith ZArith Bool.
From PV Require Import Base.Bytes Base.Outcome Base.KV Compkey.Model Compkey.Proofs Aol.Model.
From PV Require Generated.GenConst.
Import ListNotations.

(** the store key of a typed key: prefix byte ++ compkey encoding *)
Definition store_key (k : typed_key) : option bytes :=
  match encode_key k with Some e => Some (prefix_of_kind (kind_of k) ++ e) | None => None end.

Definition lookup (st : aol_state) (k : typed_key) : option aol_val :=
  match store_key k with Some kk => get kk st | None => None end.

Definition has_key (st : aol_state) (k : typed_key) : bool :=
  match lookup st k with Some _ => true | None => false end.

Definition val_kind (v : aol_val) : key_kind :=
  match v with
  | VOwner _ => KOwner | VTopic _ _ _ => KTopic | VWriter _ _ _ => KWriter | VRecord _ _ _ _ => KRecord
  end.

(** the typed key of a raw store key, if it is one *)
Definition typed_of (k : bytes) : option typed_key :=
  match split_key k with
  | Some (kind, ck) => match decode_key true kind ck with Ok key => Some key | _ => None end
  | None => None
  end.

Definition entry_wf (e : bytes * aol_val) : Prop :=
  exists k, typed_of (fst e) = Some k /\ wf_key k /\ store_key k = Some (fst e) /\ kind_of k = val_kind (snd e).

Definition topic_info (st : aol_state) (o t : bytes) : option (bytes * N * N) :=
  match lookup st (TopicKey o t) with Some (VTopic d nr nw) => Some (d, nr, nw) | _ => None end.

Definition owner_total (st : aol_state) (o : bytes) : option N :=
  match lookup st (OwnerKey o) with Some (VOwner n) => Some n | _ => None end.

(** the listings, computed from the raw store by decoding every key *)
Definition topics_of (st : aol_state) (o : bytes) : list bytes :=
  flat_map (fun e => match typed_of (fst e) with
                     | Some (TopicKey o' t) => if bytes_eqb o o' then [t] else []
                     | _ => [] end) st.

Definition writers_of (st : aol_state) (o t : bytes) : list bytes :=
  flat_map (fun e => match typed_of (fst e) with
                     | Some (WriterKey o' t' w) => if bytes_eqb o o' && bytes_eqb t t' then [w] else []
                     | _ => [] end) st.

Definition records_of (st : aol_state) (o t : bytes) : list N :=
  flat_map (fun e => match typed_of (fst e) with
                     | Some (RecordKey o' t' n) => if bytes_eqb o o' && bytes_eqb t t' then [n] else []
                     | _ => [] end) st.

Record Inv (st : aol_state) : Prop := {
  inv_sorted : sorted st;
  inv_wf : Forall entry_wf st;
  (* every topic has an owner entry whose counter is the number of that owner's topics *)
  inv_topic_owner : forall o t, has_key st (TopicKey o t) = true -> has_key st (OwnerKey o) = true;
  inv_owner_count : forall o n, owner_total st o = Some n -> n = N.of_nat (length (topics_of st o));
  (* writers belong to topics; the topic's counter is the number of its writers *)
  inv_writer_topic : forall o t w, has_key st (WriterKey o t w) = true -> has_key st (TopicKey o t) = true;
  inv_writer_count : forall o t d nr nw, topic_info st o t = Some (d, nr, nw) -> nw = N.of_nat (length (writers_of st o t));
  (* records belong to topics; their offsets are exactly 0 .. total_records-1 *)
  inv_record_topic : forall o t n, (n < two64)%N -> has_key st (RecordKey o t n) = true -> has_key st (TopicKey o t) = true;
  inv_record_dense : forall o t d nr nw, topic_info st o t = Some (d, nr, nw) ->
      (nr < two64)%N /\ forall n, (n < two64)%N -> (has_key st (RecordKey o t n) = true <-> (n < nr)%N);
  inv_record_count : forall o t d nr nw, topic_info st o t = Some (d, nr, nw) -> nr = N.of_nat (length (records_of st o t));
}.

(** what bech32 decoding guarantees about the address bytes it returns (sdk.VerifyAddressFormat) *)
Definition unbech_wf (unbech : bytes -> option bytes) : Prop :=
  forall s a, unbech s = Some a -> verify_address_format a = true.

(** record entries are never changed or removed *)
Definition records_preserved (st st' : aol_state) : Prop :=
  forall o t n v, (n < two64)%N -> lookup st (RecordKey o t n) = Some v -> lookup st' (RecordKey o t n) = Some v.

(** the writer list of every topic is the same in both states *)
Definition writers_same (st st' : aol_state) : Prop :=
  forall o t w, has_key st' (WriterKey o t w) = has_key st (WriterKey o t w).
Definition writers_same_except (st st' : aol_state) (o t w : bytes) : Prop :=
  forall o' t' w', (o', t', w') <> (o, t, w) -> has_key st' (WriterKey o' t' w') = has_key st (WriterKey o' t' w').
Definition topics_same (st st' : aol_state) : Prop :=
  forall o t, has_key st' (TopicKey o t) = has_key st (TopicKey o t).
