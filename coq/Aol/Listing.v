(** C13: the listings of the paginated queries Topics / Writers equal the real contents, no cross-talk.

    The sub-store that [q_topics] / [q_writers] paginate over holds exactly the entries of the
    requested owner / (owner, topic) -- never those of another owner, of another key kind, or of a
    topic whose name merely shares a prefix -- and paging through it (any page size, direction and
    style) yields exactly [topics_of st o] / [writers_of st o t], each once. *)
From Coq Require Import Strings.String Strings.Byte.
From Coq Require Import List Arith NArith ZArith Bool Lia Sorted.
From Coq Require Import ZifyN ZifyNat. Ltac Zify.zify_post_hook ::= Z.div_mod_to_equations.
From PV Require Import Base.Bytes Base.Outcome Base.KV Compkey.Model Compkey.Proofs.
From PV Require Import Aol.Model Aol.Spec Aol.Inv Aol.Query.
From PV Require Pagination.Model.
From PV Require Import Pagination.Proofs.
From PV Require Generated.GenConst.
Import ListNotations.

(** * [map_outcome]: the fallible callback mapped over a page *)
Section MapOutcome.
  Context {V R : Type}.
  Variable on : bytes -> V -> outcome R.
  Implicit Types l : list (bytes * V).

  Lemma map_outcome_cons_inv k v l r :
    Pagination.Model.map_outcome on ((k, v) :: l) = Ok r ->
    exists a r', on k v = Ok a /\ Pagination.Model.map_outcome on l = Ok r' /\ r = a :: r'.
  Proof.
    cbn [Pagination.Model.map_outcome]. destruct (on k v) as [a|cs c|]; cbn [bind]; try discriminate.
    destruct (Pagination.Model.map_outcome on l) as [r'|cs c|]; cbn [bind]; try discriminate.
    intros [= <-]. exists a, r'. auto.
  Qed.

  Lemma map_outcome_cons_ok k v l a r' :
    on k v = Ok a -> Pagination.Model.map_outcome on l = Ok r' -> Pagination.Model.map_outcome on ((k, v) :: l) = Ok (a :: r').
  Proof. intros H1 H2. cbn [Pagination.Model.map_outcome]. rewrite H1. cbn [bind]. rewrite H2. reflexivity. Qed.

  Lemma map_outcome_app_ok l1 : forall l2 r1 r2,
    Pagination.Model.map_outcome on l1 = Ok r1 -> Pagination.Model.map_outcome on l2 = Ok r2 ->
    Pagination.Model.map_outcome on (l1 ++ l2) = Ok (r1 ++ r2).
  Proof.
    induction l1 as [|[k v] l1 IH]; intros l2 r1 r2 H1 H2.
    - cbn [Pagination.Model.map_outcome] in H1. inversion H1; subst. exact H2.
    - apply map_outcome_cons_inv in H1 as [a [r' [Ha [Hr ->]]]].
      cbn [app]. apply map_outcome_cons_ok; [exact Ha|]. apply IH; assumption.
  Qed.

  Lemma map_outcome_app_inv l1 : forall l2 r,
    Pagination.Model.map_outcome on (l1 ++ l2) = Ok r ->
    exists r1 r2, Pagination.Model.map_outcome on l1 = Ok r1 /\ Pagination.Model.map_outcome on l2 = Ok r2 /\ r = r1 ++ r2.
  Proof.
    induction l1 as [|[k v] l1 IH]; intros l2 r H.
    - exists [], r. auto.
    - cbn [app] in H. apply map_outcome_cons_inv in H as [a [r' [Ha [Hr ->]]]].
      destruct (IH _ _ Hr) as [r1 [r2 [H1 [H2 ->]]]].
      exists (a :: r1), r2. split; [apply map_outcome_cons_ok; assumption|]. split; [exact H2 | reflexivity].
  Qed.

  Lemma map_outcome_length l : forall r, Pagination.Model.map_outcome on l = Ok r -> length r = length l.
  Proof.
    induction l as [|[k v] l IH]; intros r H.
    - inversion H; reflexivity.
    - apply map_outcome_cons_inv in H as [a [r' [_ [Hr ->]]]]. cbn [length]. rewrite (IH _ Hr). reflexivity.
  Qed.

  Lemma map_outcome_rev l : forall r, Pagination.Model.map_outcome on l = Ok r -> Pagination.Model.map_outcome on (rev l) = Ok (rev r).
  Proof.
    induction l as [|[k v] l IH]; intros r H.
    - inversion H; reflexivity.
    - apply map_outcome_cons_inv in H as [a [r' [Ha [Hr ->]]]]. cbn [rev].
      apply map_outcome_app_ok; [apply IH; exact Hr|].
      apply map_outcome_cons_ok; [exact Ha | reflexivity].
  Qed.

  Lemma map_outcome_firstn (n : nat) : forall l r,
    Pagination.Model.map_outcome on l = Ok r -> Pagination.Model.map_outcome on (firstn n l) = Ok (firstn n r).
  Proof.
    induction n as [|n IH]; intros l r H; [reflexivity|].
    destruct l as [|[k v] l].
    - inversion H; reflexivity.
    - apply map_outcome_cons_inv in H as [a [r' [Ha [Hr ->]]]]. cbn [firstn].
      apply map_outcome_cons_ok; [exact Ha | apply IH; exact Hr].
  Qed.

  Lemma map_outcome_skipn (n : nat) : forall l r,
    Pagination.Model.map_outcome on l = Ok r -> Pagination.Model.map_outcome on (skipn n l) = Ok (skipn n r).
  Proof.
    induction n as [|n IH]; intros l r H; [exact H|].
    destruct l as [|[k v] l].
    - inversion H; reflexivity.
    - apply map_outcome_cons_inv in H as [a [r' [Ha [Hr ->]]]]. cbn [skipn]. apply IH; exact Hr.
  Qed.

  Lemma map_outcome_visit_order (reverse : bool) l r :
    Pagination.Model.map_outcome on l = Ok r ->
    Pagination.Model.map_outcome on (visit_order reverse l) = Ok (if reverse then rev r else r).
  Proof. intros H. destruct reverse; cbn [visit_order]; [apply map_outcome_rev|]; exact H. Qed.
End MapOutcome.

(** * the prefix store as a list: membership and order *)
Lemma skipn_app_exact {A} (p r : list A) : skipn (length p) (p ++ r) = r.
Proof. induction p as [|a p IH]; [reflexivity | exact IH]. Qed.

Section SubStore.
  Context {V : Type}.
  Implicit Types st : store V.

  Lemma sub_store_cons pfx kk (v : V) st :
    sub_store pfx ((kk, v) :: st) =
    if is_prefix pfx kk then (skipn (length pfx) kk, v) :: sub_store pfx st else sub_store pfx st.
  Proof.
    unfold sub_store, prefix_items. cbn [filter fst]. destruct (is_prefix pfx kk); reflexivity.
  Qed.

  (** an entry of the sub-store is an entry of the store under the prefix, and conversely *)
  Lemma sub_store_In pfx st k (v : V) :
    In (k, v) (sub_store pfx st) <-> In (pfx ++ k, v) st.
  Proof.
    unfold sub_store, prefix_items. rewrite in_map_iff. split.
    - intros [[kk v'] [E Hin]]. cbn [fst snd] in E. apply filter_In in Hin as [Hin Hp]. cbn [fst] in Hp.
      apply is_prefix_spec in Hp as [r ->]. rewrite skipn_app_exact in E. inversion E; subst. exact Hin.
    - intros Hin. exists (pfx ++ k, v). cbn [fst snd]. rewrite skipn_app_exact. split; [reflexivity|].
      apply filter_In. split; [exact Hin | apply is_prefix_app].
  Qed.

  Lemma sorted_sorted_keys st : sorted st -> sorted_keys st.
  Proof.
    induction st as [|[k v] r IH]; intros Hs; [constructor|].
    apply sorted_keys_cons. split; [apply IH; exact (sorted_tail _ _ Hs)|].
    apply Forall_forall. intros [k' v'] Hin. cbn [fst]. exact (sorted_all_gt k v r Hs k' v' Hin).
  Qed.

  Lemma strip_sorted_keys pfx st :
    sorted st -> Forall (fun e => is_prefix pfx (fst e) = true) st ->
    sorted_keys (map (fun e : bytes * V => (skipn (length pfx) (fst e), snd e)) st).
  Proof.
    induction st as [|[k v] r IH]; intros Hs Hp; [constructor|].
    inversion Hp as [|? ? Hk Hr]; subst. cbn [map]. apply sorted_keys_cons.
    split; [apply IH; [exact (sorted_tail _ _ Hs) | exact Hr]|].
    apply Forall_forall. intros y Hy. apply in_map_iff in Hy as [[k' v'] [<- Hin]]. cbn [fst snd].
    pose proof (sorted_all_gt k v r Hs k' v' Hin) as Hlt.
    rewrite Forall_forall in Hr. pose proof (Hr _ Hin) as Hk'. cbn [fst] in Hk, Hk'.
    apply is_prefix_spec in Hk as [x ->]. apply is_prefix_spec in Hk' as [x' ->].
    rewrite !skipn_app_exact. rewrite bytes_ltb_app in Hlt. exact Hlt.
  Qed.

  (** the sub-store of a sorted store is sorted: the stripped prefix does not influence the order *)
  Lemma sub_store_sorted_keys pfx st : sorted st -> sorted_keys (sub_store pfx st).
  Proof.
    intros Hs. unfold sub_store. apply strip_sorted_keys.
    - unfold prefix_items. apply sorted_filter. exact Hs.
    - apply Forall_forall. intros e He. unfold prefix_items in He. apply filter_In in He. apply He.
  Qed.
End SubStore.

(** * which store keys lie under the prefix [kind byte ++ encode pre] *)
Lemma is_prefix_kind kd kd' cp e :
  is_prefix (prefix_of_kind kd ++ cp) (prefix_of_kind kd' ++ e) = true <-> kd = kd' /\ is_prefix cp e = true.
Proof.
  destruct kd, kd'; cbn; (split; [intros H | intros [H1 H2]]); try discriminate; auto.
Qed.

(** different kind => different first byte; same kind => [prefix_exact]: the leading components agree *)
Lemma prefix_match kd pre cp K kk :
  encode pre = Some cp -> store_key K = Some kk ->
  (is_prefix (prefix_of_kind kd ++ cp) kk = true <->
   kind_of K = kd /\ firstn (length pre) (byte_slices K) = pre).
Proof.
  intros Hcp HK. destruct (store_key_split _ _ HK) as [e [He ->]].
  rewrite is_prefix_kind. unfold encode_key in He.
  rewrite (prefix_exact_aux pre (byte_slices K) cp e Hcp He).
  split; intros [H1 H2]; split; auto.
Qed.

(** a key under the prefix is the prefix followed by the encoding of the remaining components *)
Lemma store_key_decomp kd pre cp K kk :
  encode pre = Some cp -> store_key K = Some kk ->
  kind_of K = kd -> firstn (length pre) (byte_slices K) = pre ->
  exists r, encode (skipn (length pre) (byte_slices K)) = Some r /\
            kk = (prefix_of_kind kd ++ cp) ++ r /\ encode_key K = Some (cp ++ r).
Proof.
  intros Hcp HK Hkd Hpre. destruct (store_key_split _ _ HK) as [e [He ->]].
  pose proof He as He'. unfold encode_key in He'.
  rewrite <- (firstn_skipn (length pre) (byte_slices K)), Hpre in He'.
  apply encode_app_inv in He' as [ea [ec [Ha [Hc ->]]]].
  rewrite Hcp in Ha. inversion Ha; subst ea.
  exists ec. split; [exact Hc|]. split; [|exact He]. rewrite Hkd, app_assoc. reflexivity.
Qed.

Lemma store_key_compose K pre rest cp r :
  byte_slices K = pre ++ rest -> encode pre = Some cp -> encode rest = Some r ->
  store_key K = Some ((prefix_of_kind (kind_of K) ++ cp) ++ r).
Proof.
  intros Hb Hcp Hr. unfold store_key, encode_key. rewrite Hb, (encode_app _ _ _ _ Hcp Hr), app_assoc.
  reflexivity.
Qed.

(** the encoding of a one-component tuple is never empty: it starts with the length byte *)
Lemma encode1_nonempty (x : bytes) k : encode [x] = Some k -> k <> [].
Proof.
  cbn [encode]. destruct (Byte.of_nat (length x)); [|discriminate]. intros [= <-]. discriminate.
Qed.

Lemma partial_encode_1 o x cp : partial_encode [o; x] 1 = Some cp -> encode [o] = Some cp.
Proof. intros H. exact H. Qed.

Lemma partial_encode_2 o t x cp : partial_encode [o; t; x] 2 = Some cp -> encode [o; t] = Some cp.
Proof. intros H. exact H. Qed.

(** ** topic keys of one owner *)
Lemma topic_match o cp K kk :
  encode [o] = Some cp -> store_key K = Some kk ->
  (is_prefix (GenConst.aol_topic_prefix ++ cp) kk = true <-> exists t, K = TopicKey o t).
Proof.
  intros Hcp HK. change GenConst.aol_topic_prefix with (prefix_of_kind KTopic).
  rewrite (prefix_match KTopic [o] cp K kk Hcp HK). split.
  - intros [Hk Hf]. destruct K as [o1|o1 t1|o1 t1 w1|o1 t1 n1]; try discriminate Hk.
    cbn in Hf. inversion Hf; subst. exists t1. reflexivity.
  - intros [t ->]. split; reflexivity.
Qed.

Lemma topic_key_decomp o t cp kk :
  encode [o] = Some cp -> store_key (TopicKey o t) = Some kk ->
  exists k, encode [t] = Some k /\ kk = (GenConst.aol_topic_prefix ++ cp) ++ k /\
            encode_key (TopicKey o t) = Some (cp ++ k).
Proof.
  intros Hcp HK.
  exact (store_key_decomp KTopic [o] cp (TopicKey o t) kk Hcp HK eq_refl eq_refl).
Qed.

Lemma topic_key_compose o t cp k :
  encode [o] = Some cp -> encode [t] = Some k ->
  store_key (TopicKey o t) = Some ((GenConst.aol_topic_prefix ++ cp) ++ k).
Proof. intros Hcp Hk. exact (store_key_compose (TopicKey o t) [o] [t] cp k eq_refl Hcp Hk). Qed.

(** ** writer keys of one topic *)
Lemma writer_match o t cp K kk :
  encode [o; t] = Some cp -> store_key K = Some kk ->
  (is_prefix (GenConst.aol_writer_prefix ++ cp) kk = true <-> exists w, K = WriterKey o t w).
Proof.
  intros Hcp HK. change GenConst.aol_writer_prefix with (prefix_of_kind KWriter).
  rewrite (prefix_match KWriter [o; t] cp K kk Hcp HK). split.
  - intros [Hk Hf]. destruct K as [o1|o1 t1|o1 t1 w1|o1 t1 n1]; try discriminate Hk.
    cbn in Hf. inversion Hf; subst. exists w1. reflexivity.
  - intros [w ->]. split; reflexivity.
Qed.

Lemma writer_key_decomp o t w cp kk :
  encode [o; t] = Some cp -> store_key (WriterKey o t w) = Some kk ->
  exists k, encode [w] = Some k /\ kk = (GenConst.aol_writer_prefix ++ cp) ++ k /\
            encode_key (WriterKey o t w) = Some (cp ++ k).
Proof.
  intros Hcp HK.
  exact (store_key_decomp KWriter [o; t] cp (WriterKey o t w) kk Hcp HK eq_refl eq_refl).
Qed.

Lemma writer_key_compose o t w cp k :
  encode [o; t] = Some cp -> encode [w] = Some k ->
  store_key (WriterKey o t w) = Some ((GenConst.aol_writer_prefix ++ cp) ++ k).
Proof. intros Hcp Hk. exact (store_key_compose (WriterKey o t w) [o; t] [w] cp k eq_refl Hcp Hk). Qed.

(** * the callback over the sub-store computes the listing *)
Lemma map_outcome_sub_store {A R} (sel : typed_key -> list A) (f : A -> R)
      (on : bytes -> aol_val -> outcome R) pfx (st : aol_state) :
  Forall entry_wf st ->
  (forall K kk v, wf_key K -> store_key K = Some kk ->
     if is_prefix pfx kk
     then exists a, sel K = [a] /\ on (skipn (length pfx) kk) v = Ok (f a)
     else sel K = []) ->
  Pagination.Model.map_outcome on (sub_store pfx st) = Ok (map f (tcount sel st)).
Proof.
  intros Hall Hent. induction st as [|[kk v] r IH]; [reflexivity|].
  inversion Hall as [|? ? He Hr]; subst. destruct He as [K [HT [HW [HK _]]]]. cbn [fst] in HT, HK.
  rewrite sub_store_cons, tcount_cons. unfold tsel. rewrite HT.
  specialize (Hent K kk v HW HK). destruct (is_prefix pfx kk).
  - destruct Hent as [a [Hs Ho]]. rewrite Hs. cbn [app map].
    apply map_outcome_cons_ok; [exact Ho | exact (IH Hr)].
  - rewrite Hent. cbn [app]. exact (IH Hr).
Qed.

Lemma NoDup_app_intro {A} (l1 l2 : list A) :
  NoDup l1 -> NoDup l2 -> (forall a, In a l1 -> In a l2 -> False) -> NoDup (l1 ++ l2).
Proof.
  induction l1 as [|x l1 IH]; intros H1 H2 Hd; [exact H2|].
  inversion H1 as [|? ? Hx Hl1]; subst. cbn [app]. constructor.
  - intros Hin. apply in_app_or in Hin as [Hin|Hin]; [exact (Hx Hin)|].
    apply (Hd x); [left; reflexivity | exact Hin].
  - apply IH; [exact Hl1 | exact H2|]. intros a Ha1 Ha2. apply (Hd a); [right; exact Ha1 | exact Ha2].
Qed.

(** a listing has no duplicates when every listed value determines its key *)
Lemma tcount_NoDup {A} (sel : typed_key -> list A) (st : aol_state) :
  sorted st -> Forall entry_wf st ->
  (forall K, wf_key K -> NoDup (sel K)) ->
  (forall K1 K2 a, wf_key K1 -> wf_key K2 -> In a (sel K1) -> In a (sel K2) -> K1 = K2) ->
  NoDup (tcount sel st).
Proof.
  intros Hs Hall Hnd Hinj. induction st as [|[kk v] r IH]; [constructor|].
  inversion Hall as [|? ? He Hr]; subst. destruct He as [K [HT [HW [HK _]]]]. cbn [fst] in HT, HK.
  rewrite tcount_cons. unfold tsel at 1. rewrite HT.
  apply NoDup_app_intro; [exact (Hnd K HW) | exact (IH (sorted_tail _ _ Hs) Hr)|].
  intros a Ha1 Ha2. unfold tcount in Ha2. apply in_flat_map in Ha2 as [[kk' v'] [Hin Ha2]].
  cbn [fst] in Ha2. rewrite Forall_forall in Hr. destruct (Hr _ Hin) as [K' [HT' [HW' [HK' _]]]].
  cbn [fst] in HT', HK'. unfold tsel in Ha2. rewrite HT' in Ha2.
  pose proof (Hinj K K' a HW HW' Ha1 Ha2) as E. subst K'. rewrite HK in HK'. inversion HK'; subst kk'.
  pose proof (sorted_all_gt kk v r Hs kk v' Hin) as C. rewrite bytes_ltb_irrefl in C. discriminate C.
Qed.

(** the callbacks of [q_topics] / [q_writers] *)
Definition topic_on (cp : bytes) (k : bytes) (_ : aol_val) : outcome bytes :=
  match decode_key true KTopic (cp ++ k) with
  | Ok (TopicKey _ t) => Ok t
  | Ok _ => internal
  | Err cs c => Err cs c
  | Panic => Panic
  end.

Definition writer_on (bech : bytes -> bytes) (cp : bytes) (k : bytes) (_ : aol_val) : outcome bytes :=
  match decode_key true KWriter (cp ++ k) with
  | Ok (WriterKey _ _ w) => Ok (bech w)
  | Ok _ => internal
  | Err cs c => Err cs c
  | Panic => Panic
  end.

Section Listing.
  Variable st : aol_state.
  Hypothesis Hinv : Inv st.

  Let Hs : sorted st := inv_sorted st Hinv.
  Let Hwf : Forall entry_wf st := inv_wf st Hinv.

  Lemma entry_of_In kk v : In (kk, v) st -> exists K, wf_key K /\ store_key K = Some kk.
  Proof.
    intros Hin. pose proof Hwf as Hall. rewrite Forall_forall in Hall.
    destruct (Hall _ Hin) as [K [_ [HW [HK _]]]]. exists K. split; [exact HW | exact HK].
  Qed.

  (** ** topics *)
  Lemma topics_sub_store_spec_enc : forall o cp, encode [o] = Some cp ->
    forall k v, In (k, v) (sub_store (GenConst.aol_topic_prefix ++ cp) st) <->
                exists t, encode [t] = Some k /\ lookup st (TopicKey o t) = Some v.
  Proof.
    intros o cp Hcp k v. rewrite sub_store_In. split.
    - intros Hin. destruct (entry_of_In _ _ Hin) as [K [HW HK]].
      pose proof (proj1 (topic_match o cp K _ Hcp HK) (is_prefix_app _ _)) as [t ->].
      destruct (topic_key_decomp o t cp _ Hcp HK) as [k' [Hk' [E _]]].
      apply app_inv_head in E. subst k'. exists t. split; [exact Hk'|].
      rewrite (lookup_get _ _ st HK). apply In_get; [exact Hs | exact Hin].
    - intros [t [Hk Hl]]. pose proof (topic_key_compose o t cp k Hcp Hk) as HK.
      rewrite (lookup_get _ _ st HK) in Hl. apply get_In. exact Hl.
  Qed.

  Lemma topics_sub_store_spec : forall o cp, verify_address_format o = true -> partial_encode [o; []] 1 = Some cp ->
    forall k v, In (k, v) (sub_store (GenConst.aol_topic_prefix ++ cp) st) <->
                exists t, encode [t] = Some k /\ lookup st (TopicKey o t) = Some v.
  Proof. intros o cp _ Hcp. apply topics_sub_store_spec_enc. exact (partial_encode_1 _ _ _ Hcp). Qed.

  Lemma topics_sub_store_sorted : forall o cp, partial_encode [o; []] 1 = Some cp ->
    sorted_keys (sub_store (GenConst.aol_topic_prefix ++ cp) st) /\
    no_empty_key (sub_store (GenConst.aol_topic_prefix ++ cp) st).
  Proof.
    intros o cp Hcp. apply partial_encode_1 in Hcp. split; [apply sub_store_sorted_keys; exact Hs|].
    apply Forall_forall. intros [k v] Hin. cbn [fst].
    apply (topics_sub_store_spec_enc o cp Hcp) in Hin as [t [Hk _]]. exact (encode1_nonempty t k Hk).
  Qed.

  Lemma topic_entry o cp : encode [o] = Some cp ->
    forall K kk (v : aol_val), wf_key K -> store_key K = Some kk ->
      if is_prefix (GenConst.aol_topic_prefix ++ cp) kk
      then exists a, sel_topic o K = [a] /\
                     topic_on cp (skipn (length (GenConst.aol_topic_prefix ++ cp)) kk) v = Ok ((fun x => x) a)
      else sel_topic o K = [].
  Proof.
    intros Hcp K kk v HW HK. pose proof (topic_match o cp K kk Hcp HK) as M.
    destruct (is_prefix (GenConst.aol_topic_prefix ++ cp) kk).
    - destruct (proj1 M eq_refl) as [t ->].
      destruct (topic_key_decomp o t cp kk Hcp HK) as [k [_ [-> He]]].
      exists t. cbn [sel_topic]. rewrite bytes_eqb_refl. split; [reflexivity|].
      rewrite skipn_app_exact. unfold topic_on.
      pose proof (typed_roundtrip true (TopicKey o t) (cp ++ k) HW He) as RT. cbn [kind_of] in RT.
      rewrite RT. reflexivity.
    - destruct K as [o1|o1 t1|o1 t1 w1|o1 t1 n1]; cbn [sel_topic]; try reflexivity.
      destruct (bytes_eqb o o1) eqn:E; [|reflexivity]. apply bytes_eqb_eq in E. subst o1.
      assert (C : false = true) by (apply M; exists t1; reflexivity). discriminate C.
  Qed.

  Lemma topics_sub_store_names_enc : forall o cp, encode [o] = Some cp ->
    Pagination.Model.map_outcome (topic_on cp) (sub_store (GenConst.aol_topic_prefix ++ cp) st) = Ok (topics_of st o).
  Proof.
    intros o cp Hcp. rewrite topics_of_tcount, <- (map_id (tcount (sel_topic o) st)).
    apply map_outcome_sub_store; [exact Hwf | exact (topic_entry o cp Hcp)].
  Qed.

  (** decoding every entry in order gives topics_of *)
  Lemma topics_sub_store_names : forall o cp, verify_address_format o = true -> partial_encode [o; []] 1 = Some cp ->
    Pagination.Model.map_outcome (fun k _ => match decode_key true KTopic (cp ++ k) with
                              | Ok (TopicKey _ t) => Ok t
                              | Ok _ => internal
                              | Err cs c => Err cs c
                              | Panic => Panic end)
                  (sub_store (GenConst.aol_topic_prefix ++ cp) st) = Ok (topics_of st o).
  Proof. intros o cp _ Hcp. exact (topics_sub_store_names_enc o cp (partial_encode_1 _ _ _ Hcp)). Qed.

  Lemma topics_sub_store_length : forall o cp, encode [o] = Some cp ->
    length (sub_store (GenConst.aol_topic_prefix ++ cp) st) = length (topics_of st o).
  Proof.
    intros o cp Hcp. symmetry. exact (map_outcome_length _ _ _ (topics_sub_store_names_enc o cp Hcp)).
  Qed.

  (** ** writers *)
  Lemma writers_sub_store_spec_enc : forall o t cp, encode [o; t] = Some cp ->
    forall k v, In (k, v) (sub_store (GenConst.aol_writer_prefix ++ cp) st) <->
                exists w, encode [w] = Some k /\ lookup st (WriterKey o t w) = Some v.
  Proof.
    intros o t cp Hcp k v. rewrite sub_store_In. split.
    - intros Hin. destruct (entry_of_In _ _ Hin) as [K [HW HK]].
      pose proof (proj1 (writer_match o t cp K _ Hcp HK) (is_prefix_app _ _)) as [w ->].
      destruct (writer_key_decomp o t w cp _ Hcp HK) as [k' [Hk' [E _]]].
      apply app_inv_head in E. subst k'. exists w. split; [exact Hk'|].
      rewrite (lookup_get _ _ st HK). apply In_get; [exact Hs | exact Hin].
    - intros [w [Hk Hl]]. pose proof (writer_key_compose o t w cp k Hcp Hk) as HK.
      rewrite (lookup_get _ _ st HK) in Hl. apply get_In. exact Hl.
  Qed.

  Lemma writers_sub_store_spec : forall o t cp, verify_address_format o = true ->
    partial_encode [o; t; []] 2 = Some cp ->
    forall k v, In (k, v) (sub_store (GenConst.aol_writer_prefix ++ cp) st) <->
                exists w, encode [w] = Some k /\ lookup st (WriterKey o t w) = Some v.
  Proof. intros o t cp _ Hcp. apply writers_sub_store_spec_enc. exact (partial_encode_2 _ _ _ _ Hcp). Qed.

  Lemma writers_sub_store_sorted : forall o t cp, partial_encode [o; t; []] 2 = Some cp ->
    sorted_keys (sub_store (GenConst.aol_writer_prefix ++ cp) st) /\
    no_empty_key (sub_store (GenConst.aol_writer_prefix ++ cp) st).
  Proof.
    intros o t cp Hcp. apply partial_encode_2 in Hcp. split; [apply sub_store_sorted_keys; exact Hs|].
    apply Forall_forall. intros [k v] Hin. cbn [fst].
    apply (writers_sub_store_spec_enc o t cp Hcp) in Hin as [w [Hk _]]. exact (encode1_nonempty w k Hk).
  Qed.

  Lemma writer_entry bech o t cp : encode [o; t] = Some cp ->
    forall K kk (v : aol_val), wf_key K -> store_key K = Some kk ->
      if is_prefix (GenConst.aol_writer_prefix ++ cp) kk
      then exists a, sel_writer o t K = [a] /\
                     writer_on bech cp (skipn (length (GenConst.aol_writer_prefix ++ cp)) kk) v = Ok (bech a)
      else sel_writer o t K = [].
  Proof.
    intros Hcp K kk v HW HK. pose proof (writer_match o t cp K kk Hcp HK) as M.
    destruct (is_prefix (GenConst.aol_writer_prefix ++ cp) kk).
    - destruct (proj1 M eq_refl) as [w ->].
      destruct (writer_key_decomp o t w cp kk Hcp HK) as [k [_ [-> He]]].
      exists w. cbn [sel_writer]. rewrite !bytes_eqb_refl. split; [reflexivity|].
      rewrite skipn_app_exact. unfold writer_on.
      pose proof (typed_roundtrip true (WriterKey o t w) (cp ++ k) HW He) as RT. cbn [kind_of] in RT.
      rewrite RT. reflexivity.
    - destruct K as [o1|o1 t1|o1 t1 w1|o1 t1 n1]; cbn [sel_writer]; try reflexivity.
      destruct (bytes_eqb o o1) eqn:E1; [|reflexivity]. destruct (bytes_eqb t t1) eqn:E2; [|reflexivity].
      apply bytes_eqb_eq in E1. apply bytes_eqb_eq in E2. subst o1 t1.
      assert (C : false = true) by (apply M; exists w1; reflexivity). discriminate C.
  Qed.

  Lemma writers_sub_store_names_enc : forall bech o t cp, encode [o; t] = Some cp ->
    Pagination.Model.map_outcome (writer_on bech cp) (sub_store (GenConst.aol_writer_prefix ++ cp) st) =
    Ok (map bech (writers_of st o t)).
  Proof.
    intros bech o t cp Hcp. rewrite writers_of_tcount.
    apply map_outcome_sub_store; [exact Hwf | exact (writer_entry bech o t cp Hcp)].
  Qed.

  (** decoding every entry in order gives the bech32 forms of writers_of *)
  Lemma writers_sub_store_names : forall (bech : bytes -> bytes) o t cp, verify_address_format o = true ->
    partial_encode [o; t; []] 2 = Some cp ->
    Pagination.Model.map_outcome (fun k _ => match decode_key true KWriter (cp ++ k) with
                              | Ok (WriterKey _ _ w) => Ok (bech w)
                              | Ok _ => internal
                              | Err cs c => Err cs c
                              | Panic => Panic end)
                  (sub_store (GenConst.aol_writer_prefix ++ cp) st) = Ok (map bech (writers_of st o t)).
  Proof.
    intros bech o t cp _ Hcp. exact (writers_sub_store_names_enc bech o t cp (partial_encode_2 _ _ _ _ Hcp)).
  Qed.

  Lemma writers_sub_store_length : forall o t cp, encode [o; t] = Some cp ->
    length (sub_store (GenConst.aol_writer_prefix ++ cp) st) = length (writers_of st o t).
  Proof.
    intros o t cp Hcp.
    pose proof (map_outcome_length _ _ _ (writers_sub_store_names_enc (fun x => x) o t cp Hcp)) as L.
    rewrite map_length in L. symmetry. exact L.
  Qed.

  (** ** the listings themselves: membership and no duplicates *)
  Lemma tcount_has_In {A} (sel : typed_key -> list A) K a :
    off_ok K -> has_key st K = true -> In a (sel K) -> In a (tcount sel st).
  Proof.
    intros HO Hh Ha. apply has_key_true_inv in Hh as [v Hv]. unfold lookup in Hv.
    destruct (store_key K) as [kk|] eqn:HK; [|discriminate Hv]. apply get_In in Hv.
    destruct (entry_of_In _ _ Hv) as [K' [HW' HK']].
    assert (E : K' = K) by (apply (store_key_inj_off K' K kk); auto using wf_off_ok). subst K'.
    unfold tcount. apply in_flat_map. exists (kk, v). split; [exact Hv|]. cbn [fst].
    rewrite (tsel_store_key sel K kk HW' HK). exact Ha.
  Qed.

  Lemma topics_of_spec : forall o t, verify_address_format o = true ->
    (In t (topics_of st o) <-> has_key st (TopicKey o t) = true).
  Proof.
    intros o t _. rewrite topics_of_tcount. split.
    - intros Hin. destruct (tcount_In_has (sel_topic o) t st Hs Hwf Hin) as [K [_ [Hh Hx]]].
      destruct K as [o1|o1 t1|o1 t1 w1|o1 t1 n1]; cbn [sel_topic] in Hx; try contradiction.
      destruct (bytes_eqb o o1) eqn:E; [|contradiction]. apply bytes_eqb_eq in E. subst o1.
      destruct Hx as [->|[]]. exact Hh.
    - intros Hh. apply (tcount_has_In (sel_topic o) (TopicKey o t) t I Hh).
      cbn [sel_topic]. rewrite bytes_eqb_refl. left; reflexivity.
  Qed.

  Lemma topics_of_NoDup : forall o, NoDup (topics_of st o).
  Proof.
    intros o. rewrite topics_of_tcount. apply tcount_NoDup; [exact Hs | exact Hwf | |].
    - intros K _. destruct K as [o1|o1 t1|o1 t1 w1|o1 t1 n1]; cbn [sel_topic]; try constructor.
      destruct (bytes_eqb o o1); repeat constructor. intros [].
    - intros K1 K2 a _ _ H1 H2.
      destruct K1 as [o1|o1 t1|o1 t1 w1|o1 t1 n1]; cbn [sel_topic] in H1; try contradiction.
      destruct K2 as [o2|o2 t2|o2 t2 w2|o2 t2 n2]; cbn [sel_topic] in H2; try contradiction.
      destruct (bytes_eqb o o1) eqn:E1; [|contradiction]. destruct (bytes_eqb o o2) eqn:E2; [|contradiction].
      apply bytes_eqb_eq in E1. apply bytes_eqb_eq in E2. subst o1 o2.
      destruct H1 as [->|[]]. destruct H2 as [->|[]]. reflexivity.
  Qed.

  Lemma writers_of_spec : forall o t w, verify_address_format o = true -> verify_address_format w = true ->
    (In w (writers_of st o t) <-> has_key st (WriterKey o t w) = true).
  Proof.
    intros o t w _ _. rewrite writers_of_tcount. split.
    - intros Hin. destruct (tcount_In_has (sel_writer o t) w st Hs Hwf Hin) as [K [_ [Hh Hx]]].
      destruct K as [o1|o1 t1|o1 t1 w1|o1 t1 n1]; cbn [sel_writer] in Hx; try contradiction.
      destruct (bytes_eqb o o1) eqn:E1; [|contradiction]. destruct (bytes_eqb t t1) eqn:E2; [|contradiction].
      apply bytes_eqb_eq in E1. apply bytes_eqb_eq in E2. subst o1 t1.
      destruct Hx as [->|[]]. exact Hh.
    - intros Hh. apply (tcount_has_In (sel_writer o t) (WriterKey o t w) w I Hh).
      cbn [sel_writer]. rewrite !bytes_eqb_refl. left; reflexivity.
  Qed.

  Lemma writers_of_NoDup : forall o t, NoDup (writers_of st o t).
  Proof.
    intros o t. rewrite writers_of_tcount. apply tcount_NoDup; [exact Hs | exact Hwf | |].
    - intros K _. destruct K as [o1|o1 t1|o1 t1 w1|o1 t1 n1]; cbn [sel_writer]; try constructor.
      destruct (bytes_eqb o o1 && bytes_eqb t t1); repeat constructor. intros [].
    - intros K1 K2 a _ _ H1 H2.
      destruct K1 as [o1|o1 t1|o1 t1 w1|o1 t1 n1]; cbn [sel_writer] in H1; try contradiction.
      destruct K2 as [o2|o2 t2|o2 t2 w2|o2 t2 n2]; cbn [sel_writer] in H2; try contradiction.
      destruct (bytes_eqb o o1) eqn:E1; [|contradiction]. destruct (bytes_eqb t t1) eqn:E1'; [|contradiction].
      destruct (bytes_eqb o o2) eqn:E2; [|contradiction]. destruct (bytes_eqb t t2) eqn:E2'; [|contradiction].
      apply bytes_eqb_eq in E1. apply bytes_eqb_eq in E2. apply bytes_eqb_eq in E1'. apply bytes_eqb_eq in E2'.
      subst o1 o2 t1 t2. destruct H1 as [->|[]]. destruct H2 as [->|[]]. reflexivity.
  Qed.
End Listing.

(** * client-side drivers at the query level
    A client of a paginated gRPC query fetches page after page, key style (the next request carries the
    NextKey of the previous answer) or offset style (offsets 0, limit, 2*limit, ...), and stops when
    [len(NextKey) == 0].  [drive_by_key] / [drive_by_offset] mirror [Pagination.Model.pages_by_key] /
    [Pagination.Model.pages_by_offset] for an arbitrary query [q]. *)
Section Drive.
  Context {R : Type}.
  Variable q : option Pagination.Model.page_req -> outcome (list R * Pagination.Model.page_res).

  Fixpoint drive_by_key (fuel : nat) (limit : N) (ct reverse : bool) (key : option bytes)
    : outcome (list R) :=
    match fuel with
    | O => Pagination.Model.fuel_err
    | S f =>
        do pr <- q (Some (Pagination.Model.mk_page_req key 0 limit ct reverse));
        if Pagination.Model.key_is_nil (Pagination.Model.pg_next_key (snd pr)) then Ok (fst pr)
        else do rest <- drive_by_key f limit ct reverse (Pagination.Model.pg_next_key (snd pr));
             Ok (fst pr ++ rest)
    end.

  Fixpoint drive_by_offset (fuel : nat) (limit : N) (ct reverse : bool) (offset : N)
    : outcome (list R) :=
    match fuel with
    | O => Pagination.Model.fuel_err
    | S f =>
        do pr <- q (Some (Pagination.Model.mk_page_req None offset limit ct reverse));
        if Pagination.Model.key_is_nil (Pagination.Model.pg_next_key (snd pr)) then Ok (fst pr)
        else do rest <- drive_by_offset f limit ct reverse (offset + limit)%N;
             Ok (fst pr ++ rest)
    end.
End Drive.

Section DriveProofs.
  Context {V R : Type}.
  Variable on : bytes -> V -> outcome R.
  Variable items : list (bytes * V).
  Variable q : option Pagination.Model.page_req -> outcome (list R * Pagination.Model.page_res).
  (** the query is [Paginate] over [items] with the callback [on], errors reported as Internal *)
  Hypothesis Hq : forall req, q req = as_internal (Pagination.Model.paginate_with on items req).

  Lemma q_of_page req pr rs :
    Pagination.Model.paginate items req = Ok pr -> Pagination.Model.map_outcome on (fst pr) = Ok rs -> q req = Ok (rs, snd pr).
  Proof. intros Hp Hm. rewrite Hq. unfold Pagination.Model.paginate_with. rewrite Hp. cbn [bind]. rewrite Hm. reflexivity. Qed.

  (** if paging through the items collects [all], and the callback maps [all] to [names], then paging
      through the query collects [names] *)
  Lemma drive_by_key_paginate : forall fuel limit ct reverse key all names,
    Pagination.Model.pages_by_key fuel items limit ct reverse key = Ok all ->
    Pagination.Model.map_outcome on all = Ok names ->
    drive_by_key q fuel limit ct reverse key = Ok names.
  Proof.
    induction fuel as [|f IH]; intros limit ct reverse key all names Hp Hm; [discriminate Hp|].
    cbn [Pagination.Model.pages_by_key] in Hp. cbn [drive_by_key].
    destruct (Pagination.Model.paginate items (Some (Pagination.Model.mk_page_req key 0 limit ct reverse))) as [pr|cs c|] eqn:Ep;
      try discriminate Hp.
    cbn [bind] in Hp.
    destruct (Pagination.Model.key_is_nil (Pagination.Model.pg_next_key (snd pr))) eqn:Ek.
    - inversion Hp; subst all. rewrite (q_of_page _ pr names Ep Hm). cbn [bind fst snd]. rewrite Ek. reflexivity.
    - destruct (Pagination.Model.pages_by_key f items limit ct reverse (Pagination.Model.pg_next_key (snd pr))) as [rest|cs c|] eqn:Er;
        try discriminate Hp.
      cbn [bind] in Hp. inversion Hp; subst all.
      apply map_outcome_app_inv in Hm as [n1 [n2 [H1 [H2 ->]]]].
      rewrite (q_of_page _ pr n1 Ep H1). cbn [bind fst snd]. rewrite Ek.
      rewrite (IH limit ct reverse _ rest n2 Er H2). reflexivity.
  Qed.

  Lemma drive_by_offset_paginate : forall fuel limit ct reverse offset all names,
    Pagination.Model.pages_by_offset fuel items limit ct reverse offset = Ok all ->
    Pagination.Model.map_outcome on all = Ok names ->
    drive_by_offset q fuel limit ct reverse offset = Ok names.
  Proof.
    induction fuel as [|f IH]; intros limit ct reverse offset all names Hp Hm; [discriminate Hp|].
    cbn [Pagination.Model.pages_by_offset] in Hp. cbn [drive_by_offset].
    destruct (Pagination.Model.paginate items (Some (Pagination.Model.mk_page_req None offset limit ct reverse))) as [pr|cs c|] eqn:Ep;
      try discriminate Hp.
    cbn [bind] in Hp.
    destruct (Pagination.Model.key_is_nil (Pagination.Model.pg_next_key (snd pr))) eqn:Ek.
    - inversion Hp; subst all. rewrite (q_of_page _ pr names Ep Hm). cbn [bind fst snd]. rewrite Ek. reflexivity.
    - destruct (Pagination.Model.pages_by_offset f items limit ct reverse (offset + limit)) as [rest|cs c|] eqn:Er;
        try discriminate Hp.
      cbn [bind] in Hp. inversion Hp; subst all.
      apply map_outcome_app_inv in Hm as [n1 [n2 [H1 [H2 ->]]]].
      rewrite (q_of_page _ pr n1 Ep H1). cbn [bind fst snd]. rewrite Ek.
      rewrite (IH limit ct reverse _ rest n2 Er H2). reflexivity.
  Qed.

  Variable names : list R.
  Hypothesis Hsorted : sorted_keys items.
  Hypothesis Hnonempty : no_empty_key items.
  Hypothesis Hnames : Pagination.Model.map_outcome on items = Ok names.

  Lemma names_length : length items = length names.
  Proof. symmetry. exact (map_outcome_length on items names Hnames). Qed.

  Lemma drive_by_key_complete fuel limit ct reverse :
    (0 < limit < Pagination.Model.two64)%N -> (N.of_nat (length names) < Pagination.Model.two64)%N -> (length names < fuel)%nat ->
    drive_by_key q fuel limit ct reverse None = Ok (if reverse then rev names else names).
  Proof.
    intros Hl Hb Hf. rewrite <- names_length in Hb, Hf.
    apply (drive_by_key_paginate fuel limit ct reverse None (visit_order reverse items)).
    - apply pages_by_key_complete; [exact Hsorted | intros _; exact Hnonempty | exact Hl | left; exact Hb | exact Hf].
    - apply map_outcome_visit_order. exact Hnames.
  Qed.

  Lemma drive_by_offset_complete fuel limit ct reverse :
    (0 < limit)%N -> (N.of_nat (length names) + limit < Pagination.Model.two64)%N -> (length names < fuel)%nat ->
    drive_by_offset q fuel limit ct reverse 0 = Ok (if reverse then rev names else names).
  Proof.
    intros Hl Hb Hf. rewrite <- names_length in Hb, Hf.
    apply (drive_by_offset_paginate fuel limit ct reverse 0%N (visit_order reverse items)).
    - apply pages_by_offset_complete; [exact Hsorted | intros _; exact Hnonempty | exact Hl | exact Hb | exact Hf].
    - apply map_outcome_visit_order. exact Hnames.
  Qed.

  (** one offset-style page is the corresponding slice of the listing; with count_total the reported
      total is the size of the listing *)
  Lemma q_offset_page offset limit ct reverse :
    (0 < limit)%N -> (offset + limit < Pagination.Model.two64)%N -> (N.of_nat (length names) < Pagination.Model.two64)%N ->
    q (Some (Pagination.Model.mk_page_req None offset limit ct reverse)) =
    Ok (firstn (N.to_nat limit) (skipn (N.to_nat offset) (if reverse then rev names else names)),
        Pagination.Model.mk_page_res
          (Pagination.Model.next_key_of (skipn (N.to_nat limit) (skipn (N.to_nat offset) (visit_order reverse items))))
          (if ct then N.of_nat (length names) else 0%N)).
  Proof.
    intros Hl Hol Hb. rewrite <- names_length in *.
    pose proof (paginate_offset_spec items None offset limit ct reverse eq_refl (or_intror eq_refl)
                  Hl Hol (or_introl Hb)) as Hp.
    rewrite (q_of_page _ _ _ Hp
               (map_outcome_firstn on _ _ _ (map_outcome_skipn on _ _ _
                  (map_outcome_visit_order on reverse items names Hnames)))).
    reflexivity.
  Qed.
End DriveProofs.

(** * the drivers of the two AOL listings *)
Fixpoint topics_by_key (fuel : nat) (unbech : bytes -> option bytes) (st : aol_state) (owner_s : bytes)
         (limit : N) (ct reverse : bool) (key : option bytes) : outcome (list bytes) :=
  match fuel with
  | O => Pagination.Model.fuel_err
  | S f =>
      do pr <- q_topics unbech st owner_s (Some (Pagination.Model.mk_page_req key 0 limit ct reverse));
      if Pagination.Model.key_is_nil (Pagination.Model.pg_next_key (snd pr)) then Ok (fst pr)
      else do rest <- topics_by_key f unbech st owner_s limit ct reverse (Pagination.Model.pg_next_key (snd pr));
           Ok (fst pr ++ rest)
  end.

Fixpoint topics_by_offset (fuel : nat) (unbech : bytes -> option bytes) (st : aol_state) (owner_s : bytes)
         (limit : N) (ct reverse : bool) (offset : N) : outcome (list bytes) :=
  match fuel with
  | O => Pagination.Model.fuel_err
  | S f =>
      do pr <- q_topics unbech st owner_s (Some (Pagination.Model.mk_page_req None offset limit ct reverse));
      if Pagination.Model.key_is_nil (Pagination.Model.pg_next_key (snd pr)) then Ok (fst pr)
      else do rest <- topics_by_offset f unbech st owner_s limit ct reverse (offset + limit)%N;
           Ok (fst pr ++ rest)
  end.

Fixpoint writers_by_key (fuel : nat) (unbech : bytes -> option bytes) (bech : bytes -> bytes)
         (st : aol_state) (owner_s topic : bytes)
         (limit : N) (ct reverse : bool) (key : option bytes) : outcome (list bytes) :=
  match fuel with
  | O => Pagination.Model.fuel_err
  | S f =>
      do pr <- q_writers unbech bech st owner_s topic (Some (Pagination.Model.mk_page_req key 0 limit ct reverse));
      if Pagination.Model.key_is_nil (Pagination.Model.pg_next_key (snd pr)) then Ok (fst pr)
      else do rest <- writers_by_key f unbech bech st owner_s topic limit ct reverse (Pagination.Model.pg_next_key (snd pr));
           Ok (fst pr ++ rest)
  end.

Fixpoint writers_by_offset (fuel : nat) (unbech : bytes -> option bytes) (bech : bytes -> bytes)
         (st : aol_state) (owner_s topic : bytes)
         (limit : N) (ct reverse : bool) (offset : N) : outcome (list bytes) :=
  match fuel with
  | O => Pagination.Model.fuel_err
  | S f =>
      do pr <- q_writers unbech bech st owner_s topic (Some (Pagination.Model.mk_page_req None offset limit ct reverse));
      if Pagination.Model.key_is_nil (Pagination.Model.pg_next_key (snd pr)) then Ok (fst pr)
      else do rest <- writers_by_offset f unbech bech st owner_s topic limit ct reverse (offset + limit)%N;
           Ok (fst pr ++ rest)
  end.

Lemma topics_by_key_drive unbech st owner_s limit ct reverse : forall fuel key,
  topics_by_key fuel unbech st owner_s limit ct reverse key =
  drive_by_key (q_topics unbech st owner_s) fuel limit ct reverse key.
Proof.
  induction fuel as [|f IH]; intros key; [reflexivity|]. cbn [topics_by_key drive_by_key].
  destruct (q_topics unbech st owner_s (Some (Pagination.Model.mk_page_req key 0 limit ct reverse))) as [pr|cs c|];
    cbn [bind]; try reflexivity.
  destruct (Pagination.Model.key_is_nil (Pagination.Model.pg_next_key (snd pr))); [reflexivity|]. rewrite IH. reflexivity.
Qed.

Lemma topics_by_offset_drive unbech st owner_s limit ct reverse : forall fuel offset,
  topics_by_offset fuel unbech st owner_s limit ct reverse offset =
  drive_by_offset (q_topics unbech st owner_s) fuel limit ct reverse offset.
Proof.
  induction fuel as [|f IH]; intros offset; [reflexivity|]. cbn [topics_by_offset drive_by_offset].
  destruct (q_topics unbech st owner_s (Some (Pagination.Model.mk_page_req None offset limit ct reverse))) as [pr|cs c|];
    cbn [bind]; try reflexivity.
  destruct (Pagination.Model.key_is_nil (Pagination.Model.pg_next_key (snd pr))); [reflexivity|]. rewrite IH. reflexivity.
Qed.

Lemma writers_by_key_drive unbech bech st owner_s topic limit ct reverse : forall fuel key,
  writers_by_key fuel unbech bech st owner_s topic limit ct reverse key =
  drive_by_key (q_writers unbech bech st owner_s topic) fuel limit ct reverse key.
Proof.
  induction fuel as [|f IH]; intros key; [reflexivity|]. cbn [writers_by_key drive_by_key].
  destruct (q_writers unbech bech st owner_s topic (Some (Pagination.Model.mk_page_req key 0 limit ct reverse))) as [pr|cs c|];
    cbn [bind]; try reflexivity.
  destruct (Pagination.Model.key_is_nil (Pagination.Model.pg_next_key (snd pr))); [reflexivity|]. rewrite IH. reflexivity.
Qed.

Lemma writers_by_offset_drive unbech bech st owner_s topic limit ct reverse : forall fuel offset,
  writers_by_offset fuel unbech bech st owner_s topic limit ct reverse offset =
  drive_by_offset (q_writers unbech bech st owner_s topic) fuel limit ct reverse offset.
Proof.
  induction fuel as [|f IH]; intros offset; [reflexivity|]. cbn [writers_by_offset drive_by_offset].
  destruct (q_writers unbech bech st owner_s topic (Some (Pagination.Model.mk_page_req None offset limit ct reverse))) as [pr|cs c|];
    cbn [bind]; try reflexivity.
  destruct (Pagination.Model.key_is_nil (Pagination.Model.pg_next_key (snd pr))); [reflexivity|]. rewrite IH. reflexivity.
Qed.

(** * the queries are [Paginate] over the owner's / topic's sub-store *)
Lemma q_topics_as_paginate unbech st owner_s o cp req :
  unbech owner_s = Some o -> encode [o] = Some cp ->
  q_topics unbech st owner_s req =
  as_internal (Pagination.Model.paginate_with (topic_on cp) (sub_store (GenConst.aol_topic_prefix ++ cp) st) req).
Proof.
  intros Hu Hcp. unfold q_topics. rewrite Hu.
  change (partial_encode [o; []] 1) with (encode [o]). rewrite Hcp. reflexivity.
Qed.

Lemma q_writers_as_paginate unbech bech st owner_s o t cp req :
  unbech owner_s = Some o -> encode [o; t] = Some cp ->
  q_writers unbech bech st owner_s t req =
  as_internal (Pagination.Model.paginate_with (writer_on bech cp) (sub_store (GenConst.aol_writer_prefix ++ cp) st) req).
Proof.
  intros Hu Hcp. unfold q_writers. rewrite Hu.
  change (partial_encode [o; t; []] 2) with (encode [o; t]). rewrite Hcp. reflexivity.
Qed.

(** a topic name of more than 255 bytes cannot be encoded: Query/Writers answers Internal *)
Lemma q_writers_long_topic unbech bech st owner_s o t req :
  unbech owner_s = Some o -> 255 < length t -> q_writers unbech bech st owner_s t req = internal.
Proof.
  intros Hu Hl. unfold q_writers. rewrite Hu.
  change (partial_encode [o; t; []] 2) with (encode [o; t]).
  assert (E : encode [o; t] = None).
  { apply encode_None_iff. apply Exists_cons_tl. apply Exists_cons_hd. exact Hl. }
  rewrite E. reflexivity.
Qed.

Lemma encode_owner o : verify_address_format o = true -> exists cp, encode [o] = Some cp.
Proof. intros V. apply encode_Some_iff. constructor; [exact (vaf_le o V) | constructor]. Qed.

Lemma encode_owner_topic o t :
  verify_address_format o = true -> length t <= 255 -> exists cp, encode [o; t] = Some cp.
Proof.
  intros V Ht. apply encode_Some_iff. constructor; [exact (vaf_le o V)|]. constructor; [exact Ht | constructor].
Qed.

(** * C13: paging through Query/Topics and Query/Writers yields exactly the listing, each entry once *)
Theorem topics_paging_by_key_complete : forall unbech st owner_s o limit ct reverse fuel,
  Inv st -> unbech_wf unbech -> unbech owner_s = Some o -> (0 < limit < Pagination.Model.two64)%N ->
  (N.of_nat (length (topics_of st o)) < Pagination.Model.two64)%N -> (length (topics_of st o) < fuel)%nat ->
  topics_by_key fuel unbech st owner_s limit ct reverse None =
  Ok (if reverse then rev (topics_of st o) else topics_of st o).
Proof.
  intros unbech st owner_s o limit ct reverse fuel HI Hub Hu Hl Hb Hf.
  destruct (encode_owner o (Hub _ _ Hu)) as [cp Hcp].
  rewrite topics_by_key_drive.
  apply (drive_by_key_complete (topic_on cp) (sub_store (GenConst.aol_topic_prefix ++ cp) st)); try assumption.
  - intros req. exact (q_topics_as_paginate unbech st owner_s o cp req Hu Hcp).
  - exact (proj1 (topics_sub_store_sorted st HI o cp Hcp)).
  - exact (proj2 (topics_sub_store_sorted st HI o cp Hcp)).
  - exact (topics_sub_store_names_enc st HI o cp Hcp).
Qed.

Theorem topics_paging_by_offset_complete : forall unbech st owner_s o limit ct reverse fuel,
  Inv st -> unbech_wf unbech -> unbech owner_s = Some o -> (0 < limit)%N ->
  (N.of_nat (length (topics_of st o)) + limit < Pagination.Model.two64)%N -> (length (topics_of st o) < fuel)%nat ->
  topics_by_offset fuel unbech st owner_s limit ct reverse 0 =
  Ok (if reverse then rev (topics_of st o) else topics_of st o).
Proof.
  intros unbech st owner_s o limit ct reverse fuel HI Hub Hu Hl Hb Hf.
  destruct (encode_owner o (Hub _ _ Hu)) as [cp Hcp].
  rewrite topics_by_offset_drive.
  apply (drive_by_offset_complete (topic_on cp) (sub_store (GenConst.aol_topic_prefix ++ cp) st)); try assumption.
  - intros req. exact (q_topics_as_paginate unbech st owner_s o cp req Hu Hcp).
  - exact (proj1 (topics_sub_store_sorted st HI o cp Hcp)).
  - exact (proj2 (topics_sub_store_sorted st HI o cp Hcp)).
  - exact (topics_sub_store_names_enc st HI o cp Hcp).
Qed.

(** [length t <= 255] is needed: for a longer topic name Query/Writers answers Internal
    ([q_writers_long_topic]) although the listing is empty *)
Theorem writers_paging_by_key_complete : forall unbech bech st owner_s o t limit ct reverse fuel,
  Inv st -> unbech_wf unbech -> unbech owner_s = Some o -> length t <= 255 -> (0 < limit < Pagination.Model.two64)%N ->
  (N.of_nat (length (writers_of st o t)) < Pagination.Model.two64)%N -> (length (writers_of st o t) < fuel)%nat ->
  writers_by_key fuel unbech bech st owner_s t limit ct reverse None =
  Ok (if reverse then rev (map bech (writers_of st o t)) else map bech (writers_of st o t)).
Proof.
  intros unbech bech st owner_s o t limit ct reverse fuel HI Hub Hu Ht Hl Hb Hf.
  destruct (encode_owner_topic o t (Hub _ _ Hu) Ht) as [cp Hcp].
  rewrite writers_by_key_drive.
  apply (drive_by_key_complete (writer_on bech cp) (sub_store (GenConst.aol_writer_prefix ++ cp) st));
    try (rewrite map_length; assumption); try assumption.
  - intros req. exact (q_writers_as_paginate unbech bech st owner_s o t cp req Hu Hcp).
  - exact (proj1 (writers_sub_store_sorted st HI o t cp Hcp)).
  - exact (proj2 (writers_sub_store_sorted st HI o t cp Hcp)).
  - exact (writers_sub_store_names_enc st HI bech o t cp Hcp).
Qed.

Theorem writers_paging_by_offset_complete : forall unbech bech st owner_s o t limit ct reverse fuel,
  Inv st -> unbech_wf unbech -> unbech owner_s = Some o -> length t <= 255 -> (0 < limit)%N ->
  (N.of_nat (length (writers_of st o t)) + limit < Pagination.Model.two64)%N -> (length (writers_of st o t) < fuel)%nat ->
  writers_by_offset fuel unbech bech st owner_s t limit ct reverse 0 =
  Ok (if reverse then rev (map bech (writers_of st o t)) else map bech (writers_of st o t)).
Proof.
  intros unbech bech st owner_s o t limit ct reverse fuel HI Hub Hu Ht Hl Hb Hf.
  destruct (encode_owner_topic o t (Hub _ _ Hu) Ht) as [cp Hcp].
  rewrite writers_by_offset_drive.
  apply (drive_by_offset_complete (writer_on bech cp) (sub_store (GenConst.aol_writer_prefix ++ cp) st));
    try (rewrite map_length; assumption); try assumption.
  - intros req. exact (q_writers_as_paginate unbech bech st owner_s o t cp req Hu Hcp).
  - exact (proj1 (writers_sub_store_sorted st HI o t cp Hcp)).
  - exact (proj2 (writers_sub_store_sorted st HI o t cp Hcp)).
  - exact (writers_sub_store_names_enc st HI bech o t cp Hcp).
Qed.

(** * one offset-style page is the corresponding slice of the listing *)
Theorem q_topics_page : forall unbech st owner_s o offset limit ct reverse,
  Inv st -> unbech_wf unbech -> unbech owner_s = Some o ->
  (0 < limit)%N -> (offset + limit < Pagination.Model.two64)%N -> (N.of_nat (length (topics_of st o)) < Pagination.Model.two64)%N ->
  exists next,
    q_topics unbech st owner_s (Some (Pagination.Model.mk_page_req None offset limit ct reverse)) =
    Ok (firstn (N.to_nat limit) (skipn (N.to_nat offset) (if reverse then rev (topics_of st o) else topics_of st o)),
        Pagination.Model.mk_page_res next (if ct then N.of_nat (length (topics_of st o)) else 0%N)).
Proof.
  intros unbech st owner_s o offset limit ct reverse HI Hub Hu Hl Hol Hb.
  destruct (encode_owner o (Hub _ _ Hu)) as [cp Hcp]. eexists.
  apply (q_offset_page (topic_on cp) (sub_store (GenConst.aol_topic_prefix ++ cp) st)); try assumption.
  - intros req. exact (q_topics_as_paginate unbech st owner_s o cp req Hu Hcp).
  - exact (topics_sub_store_names_enc st HI o cp Hcp).
Qed.

(** with count_total the reported total of an offset-style request is the number of the owner's topics *)
Theorem topics_total : forall unbech st owner_s o offset limit reverse,
  Inv st -> unbech_wf unbech -> unbech owner_s = Some o ->
  (0 < limit)%N -> (offset + limit < Pagination.Model.two64)%N -> (N.of_nat (length (topics_of st o)) < Pagination.Model.two64)%N ->
  exists names next,
    q_topics unbech st owner_s (Some (Pagination.Model.mk_page_req None offset limit true reverse)) =
    Ok (names, Pagination.Model.mk_page_res next (N.of_nat (length (topics_of st o)))).
Proof.
  intros unbech st owner_s o offset limit reverse HI Hub Hu Hl Hol Hb.
  destruct (q_topics_page unbech st owner_s o offset limit true reverse HI Hub Hu Hl Hol Hb) as [next E].
  eexists. exists next. exact E.
Qed.

Theorem q_writers_page : forall unbech bech st owner_s o t offset limit ct reverse,
  Inv st -> unbech_wf unbech -> unbech owner_s = Some o -> length t <= 255 ->
  (0 < limit)%N -> (offset + limit < Pagination.Model.two64)%N -> (N.of_nat (length (writers_of st o t)) < Pagination.Model.two64)%N ->
  exists next,
    q_writers unbech bech st owner_s t (Some (Pagination.Model.mk_page_req None offset limit ct reverse)) =
    Ok (firstn (N.to_nat limit) (skipn (N.to_nat offset)
          (if reverse then rev (map bech (writers_of st o t)) else map bech (writers_of st o t))),
        Pagination.Model.mk_page_res next (if ct then N.of_nat (length (writers_of st o t)) else 0%N)).
Proof.
  intros unbech bech st owner_s o t offset limit ct reverse HI Hub Hu Ht Hl Hol Hb.
  destruct (encode_owner_topic o t (Hub _ _ Hu) Ht) as [cp Hcp]. eexists.
  rewrite <- (map_length bech (writers_of st o t)).
  apply (q_offset_page (writer_on bech cp) (sub_store (GenConst.aol_writer_prefix ++ cp) st));
    try (rewrite map_length; assumption); try assumption.
  - intros req. exact (q_writers_as_paginate unbech bech st owner_s o t cp req Hu Hcp).
  - exact (writers_sub_store_names_enc st HI bech o t cp Hcp).
Qed.

Theorem writers_total : forall unbech bech st owner_s o t offset limit reverse,
  Inv st -> unbech_wf unbech -> unbech owner_s = Some o -> length t <= 255 ->
  (0 < limit)%N -> (offset + limit < Pagination.Model.two64)%N -> (N.of_nat (length (writers_of st o t)) < Pagination.Model.two64)%N ->
  exists names next,
    q_writers unbech bech st owner_s t (Some (Pagination.Model.mk_page_req None offset limit true reverse)) =
    Ok (names, Pagination.Model.mk_page_res next (N.of_nat (length (writers_of st o t)))).
Proof.
  intros unbech bech st owner_s o t offset limit reverse HI Hub Hu Ht Hl Hol Hb.
  destruct (q_writers_page unbech bech st owner_s o t offset limit true reverse HI Hub Hu Ht Hl Hol Hb) as [next E].
  eexists. exists next. exact E.
Qed.

(** * no cross-talk, stated on the answers: whatever a complete walk returns belongs to the asked
      owner / topic, and everything that belongs to it is returned *)
Corollary topics_paging_exact : forall unbech st owner_s o limit ct reverse fuel,
  Inv st -> unbech_wf unbech -> unbech owner_s = Some o -> (0 < limit < Pagination.Model.two64)%N ->
  (N.of_nat (length (topics_of st o)) < Pagination.Model.two64)%N -> (length (topics_of st o) < fuel)%nat ->
  exists out, topics_by_key fuel unbech st owner_s limit ct reverse None = Ok out /\
              NoDup out /\ forall t, In t out <-> has_key st (TopicKey o t) = true.
Proof.
  intros unbech st owner_s o limit ct reverse fuel HI Hub Hu Hl Hb Hf.
  eexists. split; [apply (topics_paging_by_key_complete unbech st owner_s o); assumption|].
  pose proof (topics_of_NoDup st HI o) as ND.
  split.
  - destruct reverse; [apply NoDup_rev|]; exact ND.
  - intros t. rewrite <- (topics_of_spec st HI o t (Hub _ _ Hu)).
    destruct reverse; [symmetry; apply in_rev | reflexivity].
Qed.

Corollary writers_paging_exact : forall unbech bech st owner_s o t limit ct reverse fuel,
  Inv st -> unbech_wf unbech -> unbech owner_s = Some o -> length t <= 255 -> (0 < limit < Pagination.Model.two64)%N ->
  (N.of_nat (length (writers_of st o t)) < Pagination.Model.two64)%N -> (length (writers_of st o t) < fuel)%nat ->
  exists ws, writers_by_key fuel unbech bech st owner_s t limit ct reverse None =
               Ok (map bech (if reverse then rev ws else ws)) /\
             NoDup ws /\
             forall w, verify_address_format w = true -> (In w ws <-> has_key st (WriterKey o t w) = true).
Proof.
  intros unbech bech st owner_s o t limit ct reverse fuel HI Hub Hu Ht Hl Hb Hf.
  exists (writers_of st o t). split.
  - rewrite (writers_paging_by_key_complete unbech bech st owner_s o t limit ct reverse fuel); try assumption.
    destruct reverse; [rewrite map_rev|]; reflexivity.
  - split; [exact (writers_of_NoDup st HI o t)|].
    intros w Vw. exact (writers_of_spec st HI o t w (Hub _ _ Hu) Vw).
Qed.

Print Assumptions topics_paging_by_key_complete.
Print Assumptions topics_paging_by_offset_complete.
Print Assumptions writers_paging_by_key_complete.
Print Assumptions writers_paging_by_offset_complete.
Print Assumptions topics_sub_store_spec.
Print Assumptions writers_sub_store_spec.
Print Assumptions topics_sub_store_sorted.
Print Assumptions topics_sub_store_names.
Print Assumptions writers_sub_store_names.
Print Assumptions topics_of_spec.
Print Assumptions topics_of_NoDup.
Print Assumptions writers_of_spec.
Print Assumptions writers_of_NoDup.
Print Assumptions topics_total.
Print Assumptions writers_total.
Print Assumptions q_topics_page.
Print Assumptions q_writers_page.
Print Assumptions topics_paging_exact.
Print Assumptions writers_paging_exact.
