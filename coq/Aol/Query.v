(** The paginated AOL queries Topics and Writers (x/aol/keeper/grpc_query_topic.go, grpc_query_writer.go)
    on top of the model of query.Paginate.  Definitions only. *)
From Coq Require Import Strings.String Strings.Byte.
From Coq Require Import List Arith NArith ZArith Bool.
From PV Require Import Base.Bytes Base.Outcome Base.KV Compkey.Model Aol.Model.
From PV Require Pagination.Model.
From PV Require Generated.GenConst.
Import ListNotations.


(** prefix.NewStore(store, pfx): the entries under [pfx], keys with the prefix stripped, in key order *)
Definition sub_store {V} (pfx : bytes) (st : store V) : list (bytes * V) :=
  map (fun e => (skipn (length pfx) (fst e), snd e)) (prefix_items pfx st).

Definition internal {A} : outcome A := Err cs_grpc 13.

(** any error of Paginate or of the callback is reported as codes.Internal; a panic stays a panic *)
Definition as_internal {A} (x : outcome A) : outcome A :=
  match x with Ok a => Ok a | Err _ _ => internal | Panic => Panic end.

Section Q.
  Variable unbech : bytes -> option bytes.
  Variable bech : bytes -> bytes.

  (** Query/Topics: the names of the topics of one owner *)
  Definition q_topics (st : aol_state) (owner_s : bytes) (req : option Pagination.Model.page_req)
    : outcome (list bytes * Pagination.Model.page_res) :=
    match unbech owner_s with
    | None => Err cs_grpc 3
    | Some o =>
        match partial_encode [o; []] 1 with
        | None => internal
        | Some cp =>
            let on (k : bytes) (_ : aol_val) : outcome bytes :=
              match decode_key true KTopic (cp ++ k) with
              | Ok (TopicKey _ t) => Ok t
              | Ok _ => internal
              | Err cs c => Err cs c
              | Panic => Panic
              end in
            as_internal (Pagination.Model.paginate_with on (sub_store (GenConst.aol_topic_prefix ++ cp) st) req)
        end
    end.

  (** Query/Writers: the bech32 addresses of the writers of one topic *)
  Definition q_writers (st : aol_state) (owner_s topic : bytes) (req : option Pagination.Model.page_req)
    : outcome (list bytes * Pagination.Model.page_res) :=
    match unbech owner_s with
    | None => Err cs_grpc 3
    | Some o =>
        match partial_encode [o; topic; []] 2 with
        | None => internal
        | Some cp =>
            let on (k : bytes) (_ : aol_val) : outcome bytes :=
              match decode_key true KWriter (cp ++ k) with
              | Ok (WriterKey _ _ w) => Ok (bech w)
              | Ok _ => internal
              | Err cs c => Err cs c
              | Panic => Panic
              end in
            as_internal (Pagination.Model.paginate_with on (sub_store (GenConst.aol_writer_prefix ++ cp) st) req)
        end
    end.
End Q.
