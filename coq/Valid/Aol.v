(** Stateless validation (ValidateBasic) of the four AOL messages, as written in x/aol/types. *)
From Coq Require Import Strings.String Strings.Byte.
From Coq Require Import List Arith NArith Bool.
From PV Require Import Base.Bytes Base.Outcome Aol.Model.
From PV Require Generated.GenConst.
Import ListNotations.
Local Open Scope N_scope.

(** the character class [A-Za-z0-9._-] of the two regular expressions (byte-wise: Go's regexp never
    matches a byte >= 0x80 against an ASCII class) *)
Definition name_char (c : byte) : bool :=
  let n := Byte.to_N c in
  ((65 <=? n) && (n <=? 90)) || ((97 <=? n) && (n <=? 122)) || ((48 <=? n) && (n <=? 57))
  || (n =? 46) || (n =? 95) || (n =? 45).

Definition blen (x : bytes) : N := N.of_nat (length x).

Definition err_too_large {A} : outcome A := Err cs_aol 2.

(** validateTopicName: length first, then ^[A-Za-z0-9._-]+$ *)
Definition validate_topic_name (t : bytes) : outcome unit :=
  if GenConst.max_topic_length <? blen t then err_too_large
  else if negb (0 <? blen t) || negb (forallb name_char t) then Err cs_aol 3
  else Ok tt.

(** validateMoniker: length first, then ^[A-Za-z0-9._-]*$ *)
Definition validate_moniker (m : bytes) : outcome unit :=
  if GenConst.max_moniker_length <? blen m then err_too_large
  else if negb (forallb name_char m) then Err cs_aol 4
  else Ok tt.

Definition validate_description (d : bytes) : outcome unit :=
  if GenConst.max_description_length <? blen d then err_too_large else Ok tt.
Definition validate_record_key (k : bytes) : outcome unit :=
  if GenConst.max_record_key_length <? blen k then err_too_large else Ok tt.
Definition validate_record_value (v : bytes) : outcome unit :=
  if GenConst.max_record_value_length <? blen v then err_too_large else Ok tt.

Section V.
  Variable unbech : bytes -> option bytes.
  Definition validate_addr (s : bytes) : outcome unit :=
    match unbech s with Some _ => Ok tt | None => err_invalid_address end.

  Definition vb_create_topic (topic desc owner_s : bytes) : outcome unit :=
    do _ <- validate_topic_name topic;
    do _ <- validate_description desc;
    validate_addr owner_s.

  Definition vb_add_writer (topic moniker desc writer_s owner_s : bytes) : outcome unit :=
    do _ <- validate_topic_name topic;
    do _ <- validate_moniker moniker;
    do _ <- validate_description desc;
    do _ <- validate_addr writer_s;
    validate_addr owner_s.

  Definition vb_delete_writer (topic writer_s owner_s : bytes) : outcome unit :=
    do _ <- validate_topic_name topic;
    do _ <- validate_addr writer_s;
    validate_addr owner_s.

  Definition vb_add_record (topic key value writer_s owner_s feepayer_s : bytes) : outcome unit :=
    do _ <- validate_topic_name topic;
    do _ <- validate_record_key key;
    do _ <- validate_record_value value;
    do _ <- validate_addr writer_s;
    do _ <- validate_addr owner_s;
    match feepayer_s with
    | [] => Ok tt
    | _ => validate_addr feepayer_s
    end.
End V.
