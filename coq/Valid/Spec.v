(** C16 — the documented limits of stateless validation, as declarative predicates.

    Written from the published limits, independently of the executable validators
    ([Valid/Aol.v], [Did/Model.v], [Pnft/Model.v]): nothing in this file mentions a validator or a
    generated constant.  Only the data types of DID documents ([did_doc], [vmethod], [vrel],
    [service]) are taken from [Did/Model.v].  The equivalence with the validators is [Valid/Iff.v].

    Lengths are counted in bytes.  The bech32 decoder is a parameter [unbech]. *)
From Coq Require Import Strings.String Strings.Byte.
From Coq Require Import List Arith NArith.
From PV Require Import Base.Bytes Did.Model.
Import ListNotations.

(** present-or-absent fields *)
Definition absent_or {A} (P : A -> Prop) (o : option A) : Prop :=
  match o with None => True | Some x => P x end.

(** ** addresses *)
(** a well-formed address: the bech32 decoder accepts it *)
Definition addr_ok (unbech : bytes -> option bytes) (s : bytes) : Prop := exists a, unbech s = Some a.

(** ** AOL *)
(** [A-Za-z0-9._-] : 'A'..'Z' = 65..90, 'a'..'z' = 97..122, '0'..'9' = 48..57, '.' = 46, '_' = 95, '-' = 45 *)
Definition name_charset (c : byte) : Prop :=
  let n := Byte.to_N c in
  (65 <= n /\ n <= 90)%N \/ (97 <= n /\ n <= 122)%N \/ (48 <= n /\ n <= 57)%N \/
  n = 46%N \/ n = 95%N \/ n = 45%N.

(** topic name: 1-70 of [A-Za-z0-9._-] *)
Definition topic_name_ok (t : bytes) : Prop := 1 <= length t <= 70 /\ Forall name_charset t.
(** moniker: 0-70 of the same set *)
Definition moniker_ok (m : bytes) : Prop := length m <= 70 /\ Forall name_charset m.
(** description: up to 5000 bytes *)
Definition description_ok (d : bytes) : Prop := (N.of_nat (length d) <= 5000)%N.
(** record key: up to 70 bytes; record value: up to 5000 bytes *)
Definition record_key_ok (k : bytes) : Prop := length k <= 70.
Definition record_value_ok (v : bytes) : Prop := (N.of_nat (length v) <= 5000)%N.

Definition spec_create_topic (unbech : bytes -> option bytes) (topic desc owner : bytes) : Prop :=
  topic_name_ok topic /\ description_ok desc /\ addr_ok unbech owner.

Definition spec_add_writer (unbech : bytes -> option bytes) (topic moniker desc writer owner : bytes) : Prop :=
  topic_name_ok topic /\ moniker_ok moniker /\ description_ok desc /\
  addr_ok unbech writer /\ addr_ok unbech owner.

Definition spec_delete_writer (unbech : bytes -> option bytes) (topic writer owner : bytes) : Prop :=
  topic_name_ok topic /\ addr_ok unbech writer /\ addr_ok unbech owner.

(** the fee payer is optional: empty, or a well-formed address *)
Definition spec_add_record (unbech : bytes -> option bytes)
           (topic key value writer owner feepayer : bytes) : Prop :=
  topic_name_ok topic /\ record_key_ok key /\ record_value_ok value /\
  addr_ok unbech writer /\ addr_ok unbech owner /\
  (feepayer = [] \/ addr_ok unbech feepayer).

(** ** DID *)
(** the base58 (Bitcoin) alphabet: no 0, O, I, l *)
Definition is_base58_char (c : byte) : Prop :=
  In c (b "123456789ABCDEFGHJKLMNPQRSTUVWXYZabcdefghijkmnopqrstuvwxyz").

(** did:panacea:<32-44 base58> *)
Definition did_ok (d : bytes) : Prop :=
  exists rest, d = b "did:panacea:" ++ rest /\ 32 <= length rest <= 44 /\ Forall is_base58_char rest.

(** non-space: none of \t \n \f \r ' ' (bytes 9, 10, 12, 13, 32) *)
Definition non_space_char (c : byte) : Prop :=
  let n := Byte.to_N c in n <> 9%N /\ n <> 10%N /\ n <> 12%N /\ n <> 13%N /\ n <> 32%N.

(** method id: '<did>#<1-128 non-space>' *)
Definition vm_id_ok (id did : bytes) : Prop :=
  exists suffix, id = did ++ b "#" ++ suffix /\ 1 <= length suffix <= 128 /\ Forall non_space_char suffix.

(** a verification method of the document [did]: well-formed id, a named key type, a base58 key *)
Definition vm_ok (did : bytes) (vm : vmethod) : Prop :=
  vm_id_ok (vm_id vm) did /\ vm_type vm <> [] /\ vm_pubkey58 vm <> [] /\ Forall is_base58_char (vm_pubkey58 vm).

(** a verification relationship: an embedded method, or a well-formed reference that resolves to one of
    the verification methods of the document *)
Definition rel_ok (doc : did_doc) (r : vrel) : Prop :=
  match r with
  | VDed vm => vm_ok (doc_id doc) vm
  | VRef id => vm_id_ok id (doc_id doc) /\ exists vm, In vm (doc_vms doc) /\ vm_id vm = id
  end.

(** contexts: the W3C context first, no duplicates, no empty entry *)
Definition contexts_ok (cs : list bytes) : Prop :=
  exists rest, cs = b "https://www.w3.org/ns/did/v1" :: rest /\ NoDup cs /\ Forall (fun c => c <> []) cs.

(** controller: every entry empty, or every entry a DID *)
Definition controller_ok (c : list bytes) : Prop :=
  Forall (fun d => d = []) c \/ Forall did_ok c.

(** a complete service entry *)
Definition service_ok (s : service) : Prop := sv_id s <> [] /\ sv_type s <> [] /\ sv_endpoint s <> [].

(** a well-formed document *)
Definition doc_ok (d : did_doc) : Prop :=
  did_ok (doc_id d) /\
  doc_vms d <> [] /\
  doc_auth d <> [] /\
  absent_or controller_ok (doc_controller d) /\
  absent_or contexts_ok (doc_contexts d) /\
  Forall (vm_ok (doc_id d)) (doc_vms d) /\
  Forall (rel_ok d) (doc_auth d) /\
  Forall (rel_ok d) (doc_assert d) /\
  Forall (rel_ok d) (doc_keyagree d) /\
  Forall (rel_ok d) (doc_capinv d) /\
  Forall (rel_ok d) (doc_capdel d) /\
  Forall service_ok (doc_services d).

(** the sender of a DID message: a well-formed, non-empty address *)
Definition from_ok (unbech : bytes -> option bytes) (from : bytes) : Prop :=
  exists a, unbech from = Some a /\ a <> [].

(** create / update: a valid DID, a present well-formed document of that very DID, a proof, a sender *)
Definition spec_did_create_update (unbech : bytes -> option bytes)
           (did : bytes) (doc : option did_doc) (sig from : bytes) : Prop :=
  did_ok did /\
  (exists d, doc = Some d /\ doc_id d = did /\ doc_ok d) /\
  sig <> [] /\
  from_ok unbech from.

Definition spec_did_deactivate (unbech : bytes -> option bytes) (did sig from : bytes) : Prop :=
  did_ok did /\ sig <> [] /\ from_ok unbech from.

(** ** PNFT *)
(** an actor (creator, updater, sender, receiver, ...): present and well-formed *)
Definition actor_ok (unbech : bytes -> option bytes) (s : bytes) : Prop := s <> [] /\ addr_ok unbech s.

Definition spec_pnft_create_denom (unbech : bytes -> option bytes) (id name symbol creator : bytes) : Prop :=
  id <> [] /\ ~ In x00 id /\ name <> [] /\ symbol <> [] /\ actor_ok unbech creator.

Definition spec_pnft_update_denom (unbech : bytes -> option bytes) (id updater : bytes) : Prop :=
  id <> [] /\ actor_ok unbech updater.

Definition spec_pnft_delete_denom (unbech : bytes -> option bytes) (id remover : bytes) : Prop :=
  id <> [] /\ actor_ok unbech remover.

Definition spec_pnft_transfer_denom (unbech : bytes -> option bytes) (id sender receiver : bytes) : Prop :=
  id <> [] /\ actor_ok unbech sender /\ actor_ok unbech receiver.

Definition spec_pnft_mint (unbech : bytes -> option bytes) (denom_id id name creator : bytes) : Prop :=
  denom_id <> [] /\ id <> [] /\ ~ In x00 id /\ name <> [] /\ actor_ok unbech creator.

Definition spec_pnft_transfer (unbech : bytes -> option bytes) (denom_id id sender receiver : bytes) : Prop :=
  denom_id <> [] /\ id <> [] /\ actor_ok unbech sender /\ actor_ok unbech receiver.

Definition spec_pnft_burn (unbech : bytes -> option bytes) (denom_id id burner : bytes) : Prop :=
  denom_id <> [] /\ id <> [] /\ actor_ok unbech burner.
