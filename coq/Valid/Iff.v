(** C16 — stateless acceptance equals the documented limits, for every field value.

    For each of the 14 message validators (models of the Go [ValidateBasic] functions) a theorem
    [validator ... = Ok tt <-> spec ...] with the declarative predicates of [Valid/Spec.v].
    The generated constants of [Generated/GenConst.v] are used by computation on their current
    values only ([reflexivity] / [lia] after unfolding): if a limit or a literal of the Go source
    changes, this file stops compiling. *)
From Coq Require Import Strings.String Strings.Byte.
From Coq Require Import List Arith NArith ZArith Bool Lia ZifyN ZifyNat.
From PV Require Import Base.Bytes Base.Outcome Valid.Aol Did.Model Pnft.Model Valid.Spec.
From PV Require Generated.GenConst.
Import ListNotations.
Ltac Zify.zify_post_hook ::= Z.div_mod_to_equations.

(** * General lemmas *)

Lemma forallb_Forall {A} (f : A -> bool) (P : A -> Prop) (l : list A) :
  (forall x, f x = true <-> P x) -> (forallb f l = true <-> Forall P l).
Proof.
  intros Hf. induction l as [|a l IH]; simpl.
  - split; [intros _; constructor | reflexivity].
  - rewrite andb_true_iff, Hf, IH. split.
    + intros [Ha Hl]. constructor; assumption.
    + intros Hall. inversion Hall as [|? ? Ha Hl]; subst. split; assumption.
Qed.

Lemma bind_ok_unit (x : outcome unit) (f : unit -> outcome unit) :
  bind x f = Ok tt <-> x = Ok tt /\ f tt = Ok tt.
Proof.
  destruct x as [[]| |]; simpl; split.
  - intros Hf. split; [reflexivity | exact Hf].
  - intros [_ Hf]. exact Hf.
  - discriminate.
  - intros [Hx _]. discriminate Hx.
  - discriminate.
  - intros [Hx _]. discriminate Hx.
Qed.

Lemma nonnil_iff {A} (l : list A) :
  negb (match l with [] => true | _ => false end) = true <-> l <> [].
Proof.
  destruct l as [|a l]; simpl; split.
  - discriminate.
  - intros Hne. contradiction Hne. reflexivity.
  - intros _. discriminate.
  - reflexivity.
Qed.

Lemma negb_bytes_eqb_nil (x : bytes) : negb (bytes_eqb x []) = true <-> x <> [].
Proof.
  rewrite negb_true_iff. apply bytes_eqb_neq.
Qed.

(** * The ties to the Go source: limits and regular expressions *)

Theorem regex_ties :
  GenConst.regex_topic_name = b "^[A-Za-z0-9._-]+$" /\
  GenConst.regex_moniker = b "^[A-Za-z0-9._-]*$" /\
  GenConst.regex_vm_id_suffix = b "^\S+$" /\
  GenConst.regex_did_format = b "did:%s:[%s]{32,44}" /\
  GenConst.regex_did_anchor_format = b "^%s$" /\
  GenConst.regex_pubkey_format = b "^[%s]+$".
Proof. repeat split; reflexivity. Qed.

Theorem limits_ties :
  GenConst.max_topic_length = 70%N /\
  GenConst.max_moniker_length = 70%N /\
  GenConst.max_description_length = 5000%N /\
  GenConst.max_record_key_length = 70%N /\
  GenConst.max_record_value_length = 5000%N /\
  GenConst.max_vm_id_len = 128%N /\
  GenConst.did_method = b "panacea" /\
  GenConst.base58_charset = b "123456789ABCDEFGHJKLMNPQRSTUVWXYZabcdefghijkmnopqrstuvwxyz" /\
  GenConst.context_did_v1 = b "https://www.w3.org/ns/did/v1".
Proof. repeat split; reflexivity. Qed.

(** * AOL *)

Lemma name_char_iff (c : byte) : name_char c = true <-> name_charset c.
Proof.
  unfold name_char, name_charset. cbv zeta.
  rewrite !orb_true_iff, !andb_true_iff, !N.leb_le, !N.eqb_eq. tauto.
Qed.

Lemma forallb_name_char_iff (l : bytes) : forallb name_char l = true <-> Forall name_charset l.
Proof. apply forallb_Forall. exact name_char_iff. Qed.

Lemma validate_topic_name_iff (t : bytes) : validate_topic_name t = Ok tt <-> topic_name_ok t.
Proof.
  unfold validate_topic_name, topic_name_ok, err_too_large, blen.
  rewrite <- forallb_name_char_iff.
  destruct (N.ltb_spec GenConst.max_topic_length (N.of_nat (length t))) as [Hmax|Hmax];
    unfold GenConst.max_topic_length in Hmax.
  - split; [discriminate|]. intros [Hlen _]. lia.
  - destruct (N.ltb_spec 0%N (N.of_nat (length t))) as [Hpos|Hpos]; simpl.
    + destruct (forallb name_char t); simpl; split.
      * intros _. split; [lia | reflexivity].
      * reflexivity.
      * discriminate.
      * intros [_ Hall]. discriminate Hall.
    + split; [discriminate|]. intros [Hlen _]. lia.
Qed.

Lemma validate_moniker_iff (m : bytes) : validate_moniker m = Ok tt <-> moniker_ok m.
Proof.
  unfold validate_moniker, moniker_ok, err_too_large, blen.
  rewrite <- forallb_name_char_iff.
  destruct (N.ltb_spec GenConst.max_moniker_length (N.of_nat (length m))) as [Hmax|Hmax];
    unfold GenConst.max_moniker_length in Hmax.
  - split; [discriminate|]. intros [Hlen _]. lia.
  - destruct (forallb name_char m); simpl; split.
    + intros _. split; [lia | reflexivity].
    + reflexivity.
    + discriminate.
    + intros [_ Hall]. discriminate Hall.
Qed.

Lemma validate_description_iff (d : bytes) : validate_description d = Ok tt <-> description_ok d.
Proof.
  unfold validate_description, description_ok, err_too_large, blen.
  destruct (N.ltb_spec GenConst.max_description_length (N.of_nat (length d))) as [Hmax|Hmax];
    unfold GenConst.max_description_length in Hmax.
  - split; [discriminate|]. intros Hlen. lia.
  - split; [intros _; lia | reflexivity].
Qed.

Lemma validate_record_key_iff (k : bytes) : validate_record_key k = Ok tt <-> record_key_ok k.
Proof.
  unfold validate_record_key, record_key_ok, err_too_large, blen.
  destruct (N.ltb_spec GenConst.max_record_key_length (N.of_nat (length k))) as [Hmax|Hmax];
    unfold GenConst.max_record_key_length in Hmax.
  - split; [discriminate|]. intros Hlen. lia.
  - split; [intros _; lia | reflexivity].
Qed.

Lemma validate_record_value_iff (v : bytes) : validate_record_value v = Ok tt <-> record_value_ok v.
Proof.
  unfold validate_record_value, record_value_ok, err_too_large, blen.
  destruct (N.ltb_spec GenConst.max_record_value_length (N.of_nat (length v))) as [Hmax|Hmax];
    unfold GenConst.max_record_value_length in Hmax.
  - split; [discriminate|]. intros Hlen. lia.
  - split; [intros _; lia | reflexivity].
Qed.

Lemma validate_addr_iff (unbech : bytes -> option bytes) (s : bytes) :
  validate_addr unbech s = Ok tt <-> addr_ok unbech s.
Proof.
  unfold validate_addr, addr_ok.
  destruct (unbech s) as [a|]; split.
  - intros _. exists a. reflexivity.
  - reflexivity.
  - discriminate.
  - intros [a Ha]. discriminate Ha.
Qed.

Theorem C16_create_topic_iff : forall unbech t d o,
  vb_create_topic unbech t d o = Ok tt <-> spec_create_topic unbech t d o.
Proof.
  intros unbech t d o. unfold vb_create_topic, spec_create_topic.
  rewrite !bind_ok_unit, validate_topic_name_iff, validate_description_iff, validate_addr_iff.
  tauto.
Qed.

Theorem C16_add_writer_iff : forall unbech t m d w o,
  vb_add_writer unbech t m d w o = Ok tt <-> spec_add_writer unbech t m d w o.
Proof.
  intros unbech t m d w o. unfold vb_add_writer, spec_add_writer.
  rewrite !bind_ok_unit, validate_topic_name_iff, validate_moniker_iff, validate_description_iff,
    !validate_addr_iff.
  tauto.
Qed.

Theorem C16_delete_writer_iff : forall unbech t w o,
  vb_delete_writer unbech t w o = Ok tt <-> spec_delete_writer unbech t w o.
Proof.
  intros unbech t w o. unfold vb_delete_writer, spec_delete_writer.
  rewrite !bind_ok_unit, validate_topic_name_iff, !validate_addr_iff.
  tauto.
Qed.

Theorem C16_add_record_iff : forall unbech t k v w o f,
  vb_add_record unbech t k v w o f = Ok tt <-> spec_add_record unbech t k v w o f.
Proof.
  intros unbech t k v w o f. unfold vb_add_record, spec_add_record.
  rewrite !bind_ok_unit, validate_topic_name_iff, validate_record_key_iff, validate_record_value_iff,
    !validate_addr_iff.
  assert (Hfee : match f with [] => Ok tt | _ :: _ => validate_addr unbech f end = Ok tt
                 <-> (f = [] \/ addr_ok unbech f)).
  { destruct f as [|c f].
    - split; [intros _; left; reflexivity | reflexivity].
    - rewrite validate_addr_iff. split.
      + intros Hf. right. exact Hf.
      + intros [Hnil|Hf]; [discriminate Hnil | exact Hf]. }
  rewrite Hfee. tauto.
Qed.

(** * PNFT *)

Lemma nonempty_iff (x : bytes) : nonempty x = true <-> x <> [].
Proof. unfold nonempty. apply negb_bytes_eqb_nil. Qed.

Lemma has_nul_iff (x : bytes) : has_nul x = true <-> In x00 x.
Proof.
  unfold has_nul. rewrite existsb_exists. split.
  - intros [c [Hin Heq]]. apply byte_eqb_eq in Heq. subst c. exact Hin.
  - intros Hin. exists x00. split; [exact Hin | apply byte_eqb_refl].
Qed.

Lemma no_nul_iff (x : bytes) : negb (true && has_nul x) = true <-> ~ In x00 x.
Proof.
  simpl. rewrite negb_true_iff, <- has_nul_iff. destruct (has_nul x); split.
  - discriminate.
  - intros Hn. contradiction Hn. reflexivity.
  - intros _. discriminate.
  - reflexivity.
Qed.

Lemma need_iff (c : bool) : need c = Ok tt <-> c = true.
Proof.
  unfold need, vb_err. destruct c; split; try reflexivity; discriminate.
Qed.

Lemma need_addr_iff (unbech : bytes -> option bytes) (s : bytes) :
  need_addr unbech s = Ok tt <-> actor_ok unbech s.
Proof.
  unfold need_addr, actor_ok, addr_ok, vb_err. rewrite <- nonempty_iff.
  destruct (nonempty s); [destruct (unbech s) as [a|]|]; split.
  - intros _. split; [reflexivity | exists a; reflexivity].
  - reflexivity.
  - discriminate.
  - intros [_ [a Ha]]. discriminate Ha.
  - discriminate.
  - intros [Hne _]. discriminate Hne.
Qed.

Theorem C16_pnft_create_denom_iff : forall unbech id name symbol creator,
  vb_create_denom unbech true id name symbol creator = Ok tt
  <-> spec_pnft_create_denom unbech id name symbol creator.
Proof.
  intros unbech id name symbol creator. unfold vb_create_denom, spec_pnft_create_denom.
  rewrite !bind_ok_unit, !need_iff, no_nul_iff, !nonempty_iff, need_addr_iff. tauto.
Qed.

Theorem C16_pnft_update_denom_iff : forall unbech id updater,
  vb_update_denom unbech id updater = Ok tt <-> spec_pnft_update_denom unbech id updater.
Proof.
  intros unbech id updater. unfold vb_update_denom, spec_pnft_update_denom.
  rewrite !bind_ok_unit, !need_iff, !nonempty_iff, need_addr_iff. tauto.
Qed.

Theorem C16_pnft_delete_denom_iff : forall unbech id remover,
  vb_delete_denom unbech id remover = Ok tt <-> spec_pnft_delete_denom unbech id remover.
Proof.
  intros unbech id remover. unfold vb_delete_denom, spec_pnft_delete_denom.
  rewrite !bind_ok_unit, !need_iff, !nonempty_iff, need_addr_iff. tauto.
Qed.

Theorem C16_pnft_transfer_denom_iff : forall unbech id sender receiver,
  vb_transfer_denom unbech id sender receiver = Ok tt
  <-> spec_pnft_transfer_denom unbech id sender receiver.
Proof.
  intros unbech id sender receiver. unfold vb_transfer_denom, spec_pnft_transfer_denom.
  rewrite !bind_ok_unit, !need_iff, !nonempty_iff, !need_addr_iff. tauto.
Qed.

Theorem C16_pnft_mint_iff : forall unbech denom_id id name creator,
  vb_mint_pnft unbech true denom_id id name creator = Ok tt
  <-> spec_pnft_mint unbech denom_id id name creator.
Proof.
  intros unbech denom_id id name creator. unfold vb_mint_pnft, spec_pnft_mint.
  rewrite !bind_ok_unit, !need_iff, no_nul_iff, !nonempty_iff, need_addr_iff. tauto.
Qed.

Theorem C16_pnft_transfer_iff : forall unbech denom_id id sender receiver,
  vb_transfer_pnft unbech denom_id id sender receiver = Ok tt
  <-> spec_pnft_transfer unbech denom_id id sender receiver.
Proof.
  intros unbech denom_id id sender receiver. unfold vb_transfer_pnft, spec_pnft_transfer.
  rewrite !bind_ok_unit, !need_iff, !nonempty_iff, !need_addr_iff. tauto.
Qed.

Theorem C16_pnft_burn_iff : forall unbech denom_id id burner,
  vb_burn_pnft unbech denom_id id burner = Ok tt <-> spec_pnft_burn unbech denom_id id burner.
Proof.
  intros unbech denom_id id burner. unfold vb_burn_pnft, spec_pnft_burn.
  rewrite !bind_ok_unit, !need_iff, !nonempty_iff, need_addr_iff. tauto.
Qed.

(** * DID *)

Lemma base58_char_iff (c : byte) : base58_char c = true <-> is_base58_char c.
Proof.
  unfold base58_char, is_base58_char.
  change GenConst.base58_charset with (b "123456789ABCDEFGHJKLMNPQRSTUVWXYZabcdefghijkmnopqrstuvwxyz").
  rewrite existsb_exists. split.
  - intros [x [Hin Heq]]. apply byte_eqb_eq in Heq. subst x. exact Hin.
  - intros Hin. exists c. split; [exact Hin | apply byte_eqb_refl].
Qed.

Lemma forallb_base58_iff (l : bytes) : forallb base58_char l = true <-> Forall is_base58_char l.
Proof. apply forallb_Forall. exact base58_char_iff. Qed.

Lemma did_prefix_eq : did_prefix = b "did:panacea:".
Proof. reflexivity. Qed.

Lemma validate_did_iff (d : bytes) : validate_did d = true <-> did_ok d.
Proof.
  unfold validate_did, did_ok. rewrite did_prefix_eq.
  destruct (strip_prefix (b "did:panacea:") d) as [rest|] eqn:Hstrip.
  - apply strip_prefix_spec in Hstrip. subst d.
    rewrite !andb_true_iff, !Nat.leb_le, forallb_base58_iff. split.
    + intros [[Hlo Hhi] Hall]. exists rest. split; [reflexivity|]. split; [split; assumption | exact Hall].
    + intros [rest' [Heq [[Hlo Hhi] Hall]]]. apply app_inv_head in Heq. subst rest'.
      split; [split; assumption | exact Hall].
  - split; [discriminate|]. intros [rest [Heq _]].
    apply strip_prefix_spec in Heq. rewrite Heq in Hstrip. discriminate Hstrip.
Qed.

Lemma non_space_iff (c : byte) : non_space c = true <-> non_space_char c.
Proof.
  unfold non_space, non_space_char. cbv zeta.
  rewrite negb_true_iff, !orb_false_iff, !N.eqb_neq. tauto.
Qed.

Lemma validate_vm_id_iff (id did : bytes) : validate_vm_id id did = true <-> vm_id_ok id did.
Proof.
  unfold validate_vm_id, vm_id_ok.
  destruct (strip_prefix (did ++ b "#") id) as [suffix|] eqn:Hstrip.
  - apply strip_prefix_spec in Hstrip. subst id.
    rewrite !andb_true_iff, N.leb_le, Nat.leb_le, (forallb_Forall _ _ _ non_space_iff).
    unfold GenConst.max_vm_id_len. split.
    + intros [[Hhi Hlo] Hall]. exists suffix. rewrite <- app_assoc.
      split; [reflexivity|]. split; [lia | exact Hall].
    + intros [suffix' [Heq [[Hlo Hhi] Hall]]]. rewrite <- app_assoc in Heq.
      apply app_inv_head in Heq. apply app_inv_head in Heq. subst suffix'.
      split; [split; lia | exact Hall].
  - split; [discriminate|]. intros [suffix [Heq _]].
    rewrite app_assoc in Heq. apply strip_prefix_spec in Heq. rewrite Heq in Hstrip. discriminate Hstrip.
Qed.

Lemma vm_valid_iff (did : bytes) (vm : vmethod) : vm_valid did vm = true <-> vm_ok did vm.
Proof.
  unfold vm_valid, vm_ok, validate_key_type.
  rewrite !andb_true_iff, validate_vm_id_iff, negb_bytes_eqb_nil, Nat.leb_le, forallb_base58_iff.
  assert (Hlen : 1 <= length (vm_pubkey58 vm) <-> vm_pubkey58 vm <> []).
  { destruct (vm_pubkey58 vm) as [|c k]; simpl; split.
    - intros Hle. lia.
    - intros Hne. contradiction Hne. reflexivity.
    - intros _. discriminate.
    - intros _. lia. }
  rewrite Hlen. tauto.
Qed.

Lemma vm_by_id_iff (vms : list vmethod) (id : bytes) :
  match vm_by_id vms id with Some _ => true | None => false end = true
  <-> exists vm, In vm vms /\ vm_id vm = id.
Proof.
  induction vms as [|v vms IH]; simpl.
  - split; [discriminate|]. intros [vm [Hin _]]. contradiction Hin.
  - destruct (bytes_eqb (vm_id v) id) eqn:Heq.
    + apply bytes_eqb_eq in Heq. split; [|reflexivity].
      intros _. exists v. split; [left; reflexivity | exact Heq].
    + apply bytes_eqb_neq in Heq. rewrite IH. split.
      * intros [vm [Hin Hid]]. exists vm. split; [right; exact Hin | exact Hid].
      * intros [vm [[Hv|Hin] Hid]].
        -- subst vm. contradiction.
        -- exists vm. split; assumption.
Qed.

Lemma rel_valid_iff (d : did_doc) (r : vrel) : rel_valid d r = true <-> rel_ok d r.
Proof.
  destruct r as [id|vm]; simpl.
  - rewrite andb_true_iff, validate_vm_id_iff, vm_by_id_iff. tauto.
  - apply vm_valid_iff.
Qed.

Lemma forallb_rel_valid_iff (d : did_doc) (l : list vrel) :
  forallb (rel_valid d) l = true <-> Forall (rel_ok d) l.
Proof. apply forallb_Forall. exact (rel_valid_iff d). Qed.

Lemma empty_dids_iff (l : list bytes) : empty_dids l = true <-> Forall (fun d => d = []) l.
Proof.
  unfold empty_dids. apply forallb_Forall. intros x. apply bytes_eqb_eq.
Qed.

Lemma forallb_validate_did_iff (l : list bytes) : forallb validate_did l = true <-> Forall did_ok l.
Proof. apply forallb_Forall. exact validate_did_iff. Qed.

Lemma did_ok_nonempty (d : bytes) : did_ok d -> d <> [].
Proof.
  intros [rest [Heq _]] Hnil. subst d. discriminate Hnil.
Qed.

Lemma validate_dids_iff (l : list bytes) :
  validate_dids l = true <-> Forall did_ok l /\ ~ Forall (fun d => d = []) l.
Proof.
  unfold validate_dids.
  rewrite andb_true_iff, negb_true_iff, forallb_validate_did_iff, <- empty_dids_iff.
  destruct (empty_dids l); split.
  - intros [Hf _]. discriminate Hf.
  - intros [_ Hn]. contradiction Hn. reflexivity.
  - intros [_ Hall]. split; [exact Hall | discriminate].
  - intros [Hall _]. split; [reflexivity | exact Hall].
Qed.

(** the controller rule of the validator: all empty, or (not all empty and all DIDs) — the same as
    "all empty or all DIDs", because a list of DIDs whose entries are all empty is the empty list *)
Lemma controller_iff (c : list bytes) : empty_dids c || validate_dids c = true <-> controller_ok c.
Proof.
  unfold controller_ok. rewrite orb_true_iff, validate_dids_iff, empty_dids_iff. split.
  - intros [Hempty|[Hall _]]; [left; exact Hempty | right; exact Hall].
  - intros [Hempty|Hall]; [left; exact Hempty|].
    destruct c as [|x c].
    + left. constructor.
    + right. split; [exact Hall|]. intros Hempty.
      apply Forall_inv in Hall. apply Forall_inv in Hempty.
      exact (did_ok_nonempty _ Hall Hempty).
Qed.

Lemma opt_controller_iff (o : option (list bytes)) :
  match o with Some c => empty_dids c || validate_dids c | None => true end = true
  <-> absent_or controller_ok o.
Proof.
  destruct o as [c|]; simpl; [apply controller_iff|]. split; [intros _; exact I | reflexivity].
Qed.

Lemma not_in_iff (x : bytes) (l : list bytes) : negb (existsb (bytes_eqb x) l) = true <-> ~ In x l.
Proof.
  rewrite negb_true_iff. split.
  - intros Hf Hin. assert (Ht : existsb (bytes_eqb x) l = true).
    { apply existsb_exists. exists x. split; [exact Hin | apply bytes_eqb_refl]. }
    rewrite Ht in Hf. discriminate Hf.
  - intros Hn. destruct (existsb (bytes_eqb x) l) eqn:He; [|reflexivity].
    apply existsb_exists in He. destruct He as [y [Hin Heq]]. apply bytes_eqb_eq in Heq. subst y.
    contradiction.
Qed.

Lemma no_dup_bytes_iff (l : list bytes) : no_dup_bytes l = true <-> NoDup l.
Proof.
  induction l as [|x l IH]; simpl.
  - split; [intros _; constructor | reflexivity].
  - rewrite andb_true_iff, not_in_iff, IH, NoDup_cons_iff. tauto.
Qed.

Lemma validate_contexts_iff (cs : list bytes) : validate_contexts cs = true <-> contexts_ok cs.
Proof.
  unfold validate_contexts, contexts_ok.
  change GenConst.context_did_v1 with (b "https://www.w3.org/ns/did/v1").
  destruct cs as [|c rest].
  - split; [discriminate|]. intros [rest [Heq _]]. discriminate Heq.
  - rewrite !andb_true_iff, bytes_eqb_eq, no_dup_bytes_iff,
      (forallb_Forall _ (fun c => c <> []) _ negb_bytes_eqb_nil).
    split.
    + intros [[Hc Hnd] Hne]. exists rest. subst c. split; [reflexivity|]. split; assumption.
    + intros [rest' [Heq [Hnd Hne]]]. inversion Heq; subst. split; [split|]; [reflexivity|exact Hnd|exact Hne].
Qed.

Lemma opt_contexts_iff (o : option (list bytes)) :
  match o with Some cs => validate_contexts cs | None => true end = true
  <-> absent_or contexts_ok o.
Proof.
  destruct o as [cs|]; simpl; [apply validate_contexts_iff|]. split; [intros _; exact I | reflexivity].
Qed.

Lemma service_valid_iff (s : service) : service_valid s = true <-> service_ok s.
Proof.
  unfold service_valid, service_ok. rewrite !andb_true_iff, !negb_bytes_eqb_nil. tauto.
Qed.

(** DIDDocument.Valid() on a document with a non-empty id is exactly well-formedness *)
Theorem doc_valid_iff (d : did_doc) : doc_empty d = false -> (doc_valid d = true <-> doc_ok d).
Proof.
  intros Hne. unfold doc_valid, doc_ok. rewrite Hne.
  rewrite !andb_true_iff.
  rewrite validate_did_iff, !nonnil_iff, opt_controller_iff, opt_contexts_iff,
    (forallb_Forall _ _ _ (vm_valid_iff (doc_id d))), !forallb_rel_valid_iff,
    (forallb_Forall _ _ _ service_valid_iff).
  tauto.
Qed.

(** a well-formed document has a non-empty id *)
Lemma doc_ok_nonempty (d : did_doc) : doc_ok d -> doc_empty d = false.
Proof.
  intros [Hdid _]. unfold doc_empty. apply bytes_eqb_neq. exact (did_ok_nonempty _ Hdid).
Qed.

(** [doc_valid] accepts every empty-id document; with a non-empty id it is [doc_ok] *)
Corollary doc_ok_iff (d : did_doc) : doc_ok d <-> doc_empty d = false /\ doc_valid d = true.
Proof.
  split.
  - intros Hok. pose proof (doc_ok_nonempty d Hok) as Hne. split; [exact Hne|].
    apply (doc_valid_iff d Hne). exact Hok.
  - intros [Hne Hv]. apply (doc_valid_iff d Hne). exact Hv.
Qed.

Lemma vb_from_iff (unbech : bytes -> option bytes) (from : bytes) :
  vb_from unbech from = Ok tt <-> from_ok unbech from.
Proof.
  unfold vb_from, from_ok. destruct (unbech from) as [[|c a]|]; split.
  - discriminate.
  - intros [a [Ha Hne]]. inversion Ha; subst. contradiction Hne. reflexivity.
  - intros _. exists (c :: a). split; [reflexivity | discriminate].
  - reflexivity.
  - discriminate.
  - intros [a [Ha _]]. discriminate Ha.
Qed.

Lemma sig_from_iff (unbech : bytes -> option bytes) (sig from : bytes) :
  match sig with [] => Err cs_did 6 | _ :: _ => vb_from unbech from end = Ok tt
  <-> sig <> [] /\ from_ok unbech from.
Proof.
  destruct sig as [|c sig].
  - split; [discriminate|]. intros [Hne _]. contradiction Hne. reflexivity.
  - rewrite vb_from_iff. split.
    + intros Hf. split; [discriminate | exact Hf].
    + intros [_ Hf]. exact Hf.
Qed.

Lemma vb_doc_strict_iff (did : bytes) (doc : option did_doc) :
  vb_doc true did doc = Ok tt <-> exists d, doc = Some d /\ doc_id d = did /\ doc_ok d.
Proof.
  unfold vb_doc. destruct doc as [d|].
  - rewrite andb_true_l.
    destruct (doc_empty d) eqn:Hempty; simpl.
    + split; [discriminate|]. intros [d' [Hd [_ Hok]]]. inversion Hd; subst d'.
      rewrite (doc_ok_nonempty d Hok) in Hempty. discriminate Hempty.
    + destruct (bytes_eqb (doc_id d) did) eqn:Hid; simpl.
      * apply bytes_eqb_eq in Hid.
        destruct (doc_valid d) eqn:Hv; split.
        -- intros _. exists d. split; [reflexivity|]. split; [exact Hid|].
           apply (doc_valid_iff d Hempty). exact Hv.
        -- reflexivity.
        -- discriminate.
        -- intros [d' [Hd [_ Hok]]]. inversion Hd; subst d'.
           apply (doc_valid_iff d Hempty) in Hok. rewrite Hok in Hv. discriminate Hv.
      * apply bytes_eqb_neq in Hid. split; [discriminate|].
        intros [d' [Hd [Heq _]]]. inversion Hd; subst d'. contradiction.
  - split; [discriminate|]. intros [d [Hd _]]. discriminate Hd.
Qed.

Theorem C16_did_create_update_iff : forall unbech did doc sig from,
  vb_create_update unbech true did doc sig from = Ok tt
  <-> spec_did_create_update unbech did doc sig from.
Proof.
  intros unbech did doc sig from. unfold vb_create_update, spec_did_create_update.
  rewrite <- validate_did_iff.
  destruct (validate_did did); simpl.
  - rewrite bind_ok_unit, vb_doc_strict_iff, sig_from_iff. tauto.
  - split; [discriminate|]. intros [Hf _]. discriminate Hf.
Qed.

Theorem C16_did_deactivate_iff : forall unbech did sig from,
  vb_deactivate unbech did sig from = Ok tt <-> spec_did_deactivate unbech did sig from.
Proof.
  intros unbech did sig from. unfold vb_deactivate, spec_did_deactivate.
  rewrite <- validate_did_iff.
  destruct (validate_did did); simpl.
  - rewrite sig_from_iff. tauto.
  - split; [discriminate|]. intros [Hf _]. discriminate Hf.
Qed.

(** * Why the two repairs were needed: the original validators accept more than the documented limits *)

(** a stand-in bech32 decoder for the concrete examples: every non-empty string decodes to itself *)
Definition ex_unbech (s : bytes) : option bytes := match s with [] => None | _ => Some s end.

Definition ex_did : bytes := b "did:panacea:7Prd74ry1Uct87nZqL3ny7aR7Cg46Jam".        (* 32 base58 characters *)
Definition ex_did_other : bytes := b "did:panacea:6JamVbJgk8azVgUm7Prd74ry1Uct87nZqL3n".  (* 36 base58 characters *)
Definition ex_vm_id : bytes := ex_did ++ b "#key1".

Definition ex_doc : did_doc :=
  {| doc_contexts := Some [b "https://www.w3.org/ns/did/v1"];
     doc_id := ex_did;
     doc_controller := None;
     doc_vms := [ {| vm_id := ex_vm_id; vm_type := b "EcdsaSecp256k1VerificationKey2019";
                     vm_controller := ex_did;
                     vm_pubkey58 := b "qoRmLNBEXoaKDE8dKffMq2DBNxacTEfvbKRuFrccYW1b" |} ];
     doc_auth := [ VRef ex_vm_id ];
     doc_assert := []; doc_keyagree := []; doc_capinv := []; doc_capdel := [];
     doc_services := [ {| sv_id := b "service1"; sv_type := b "LinkedDomains";
                          sv_endpoint := b "https://example.org" |} ] |}.

(** F3: the original create/update accepted a (valid) document of another DID *)
Theorem vb_lenient_accepts_foreign_doc :
  exists unbech did doc sig from,
    vb_create_update unbech false did (Some doc) sig from = Ok tt /\
    ~ spec_did_create_update unbech did (Some doc) sig from.
Proof.
  exists ex_unbech, ex_did_other, ex_doc, (b "sig"), (b "panacea1from").
  split; [vm_compute; reflexivity|].
  intros [_ [[d [Hd [Hid _]]] _]]. inversion Hd; subst d.
  vm_compute in Hid. discriminate Hid.
Qed.

(** F2: the original create/update accepted a document with an empty id (nothing else is checked then) *)
Theorem vb_lenient_accepts_empty_doc :
  exists unbech did doc sig from,
    vb_create_update unbech false did (Some doc) sig from = Ok tt /\
    ~ spec_did_create_update unbech did (Some doc) sig from.
Proof.
  exists ex_unbech, ex_did, empty_doc, (b "sig"), (b "panacea1from").
  split; [vm_compute; reflexivity|].
  intros [_ [[d [Hd [_ Hok]]] _]]. inversion Hd; subst d.
  apply doc_ok_nonempty in Hok. vm_compute in Hok. discriminate Hok.
Qed.

(** F9: the original CreateDenom accepted an id containing 0x00 (the delimiter of the x/nft store keys) *)
Theorem vb_lenient_accepts_nul_id :
  exists unbech id name symbol creator,
    vb_create_denom unbech false id name symbol creator = Ok tt /\
    ~ spec_pnft_create_denom unbech id name symbol creator.
Proof.
  exists ex_unbech, [x61; x00; x62]%byte, (b "name"), (b "SYM"), (b "panacea1creator").
  split; [vm_compute; reflexivity|].
  intros [_ [Hnul _]]. apply Hnul. right. left. reflexivity.
Qed.

(** the same for MintPNFT *)
Theorem vb_lenient_mint_accepts_nul_id :
  exists unbech denom_id id name creator,
    vb_mint_pnft unbech false denom_id id name creator = Ok tt /\
    ~ spec_pnft_mint unbech denom_id id name creator.
Proof.
  exists ex_unbech, (b "denom"), [x61; x00; x62]%byte, (b "name"), (b "panacea1creator").
  split; [vm_compute; reflexivity|].
  intros [_ [_ [Hnul _]]]. apply Hnul. right. left. reflexivity.
Qed.

(** the repaired validators refuse these very messages *)
Example vb_strict_refuses_foreign_doc :
  vb_create_update ex_unbech true ex_did_other (Some ex_doc) (b "sig") (b "panacea1from") = Err cs_did 4.
Proof. vm_compute. reflexivity. Qed.

Example vb_strict_refuses_nul_id :
  vb_create_denom ex_unbech true [x61; x00; x62]%byte (b "name") (b "SYM") (b "panacea1creator") = vb_err.
Proof. vm_compute. reflexivity. Qed.

(** * Non-vacuity: concrete accepted messages, shown to satisfy the specification *)

Example ex_create_topic_ok :
  vb_create_topic ex_unbech (b "blood-pressure_v1.0") (b "daily measurements") (b "panacea1owner") = Ok tt /\
  spec_create_topic ex_unbech (b "blood-pressure_v1.0") (b "daily measurements") (b "panacea1owner").
Proof.
  assert (Hvb : vb_create_topic ex_unbech (b "blood-pressure_v1.0") (b "daily measurements")
                                (b "panacea1owner") = Ok tt) by (vm_compute; reflexivity).
  split; [exact Hvb | apply C16_create_topic_iff; exact Hvb].
Qed.

Example ex_did_length : length ex_did = 12 + 32.
Proof. reflexivity. Qed.

Example ex_doc_ok : doc_ok ex_doc.
Proof. apply doc_ok_iff. split; vm_compute; reflexivity. Qed.

Example ex_did_create_ok :
  vb_create_update ex_unbech true ex_did (Some ex_doc) (b "sig") (b "panacea1from") = Ok tt /\
  spec_did_create_update ex_unbech ex_did (Some ex_doc) (b "sig") (b "panacea1from").
Proof.
  assert (Hvb : vb_create_update ex_unbech true ex_did (Some ex_doc) (b "sig") (b "panacea1from") = Ok tt)
    by (vm_compute; reflexivity).
  split; [exact Hvb | apply C16_did_create_update_iff; exact Hvb].
Qed.

Example ex_pnft_mint_ok :
  vb_mint_pnft ex_unbech true (b "denom1") (b "token-1") (b "first token") (b "panacea1creator") = Ok tt /\
  spec_pnft_mint ex_unbech (b "denom1") (b "token-1") (b "first token") (b "panacea1creator").
Proof.
  assert (Hvb : vb_mint_pnft ex_unbech true (b "denom1") (b "token-1") (b "first token")
                             (b "panacea1creator") = Ok tt) by (vm_compute; reflexivity).
  split; [exact Hvb | apply C16_pnft_mint_iff; exact Hvb].
Qed.

(** boundary cases of the limits, by computation: 70 accepted, 71 refused; empty topic refused, empty moniker accepted *)
Example ex_topic_boundaries :
  validate_topic_name (repeat "a"%byte 70) = Ok tt /\
  validate_topic_name (repeat "a"%byte 71) = err_too_large /\
  validate_topic_name [] = Err Aol.Model.cs_aol 3 /\
  validate_moniker [] = Ok tt /\
  validate_topic_name (b "a b") = Err Aol.Model.cs_aol 3.
Proof. repeat split; vm_compute; reflexivity. Qed.

Print Assumptions C16_create_topic_iff.
Print Assumptions C16_add_writer_iff.
Print Assumptions C16_delete_writer_iff.
Print Assumptions C16_add_record_iff.
Print Assumptions C16_did_create_update_iff.
Print Assumptions C16_did_deactivate_iff.
Print Assumptions C16_pnft_create_denom_iff.
Print Assumptions C16_pnft_update_denom_iff.
Print Assumptions C16_pnft_delete_denom_iff.
Print Assumptions C16_pnft_transfer_denom_iff.
Print Assumptions C16_pnft_mint_iff.
Print Assumptions C16_pnft_transfer_iff.
Print Assumptions C16_pnft_burn_iff.
Print Assumptions doc_valid_iff.
