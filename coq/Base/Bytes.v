(** Byte strings: equality, lexicographic order, prefixes, hex/decimal text.
    Definitions only use the standard library; everything here is executable and extracted. *)
From Coq Require Import List Arith NArith Lia Bool.
From Coq Require Import Strings.Byte Strings.String Strings.Ascii.
Import ListNotations.

Definition bytes := list byte.

(** [b "abc"] : the byte string of a Coq string literal *)
Definition b (s : string) : bytes := list_byte_of_string s.

Definition byte_eqb (x y : byte) : bool := Byte.eqb x y.

Lemma byte_eqb_eq x y : byte_eqb x y = true <-> x = y.
Proof. split; [apply Byte.byte_dec_bl | apply Byte.byte_dec_lb]. Qed.

Lemma byte_eqb_refl x : byte_eqb x x = true.
Proof. apply byte_eqb_eq; reflexivity. Qed.

Fixpoint bytes_eqb (x y : bytes) : bool :=
  match x, y with
  | [], [] => true
  | a :: x', c :: y' => byte_eqb a c && bytes_eqb x' y'
  | _, _ => false
  end.

Lemma bytes_eqb_eq x y : bytes_eqb x y = true <-> x = y.
Proof.
  revert y; induction x as [|a x IH]; intros [|c y]; simpl; split; intros H;
    try discriminate; try reflexivity.
  - apply andb_true_iff in H as [H1 H2]. apply byte_eqb_eq in H1. apply IH in H2. congruence.
  - inversion H; subst. rewrite byte_eqb_refl. simpl. apply IH. reflexivity.
Qed.

Lemma bytes_eqb_refl x : bytes_eqb x x = true.
Proof. apply bytes_eqb_eq; reflexivity. Qed.

Lemma bytes_eqb_neq x y : bytes_eqb x y = false <-> x <> y.
Proof.
  split; intros H.
  - intros E. apply bytes_eqb_eq in E. congruence.
  - destruct (bytes_eqb x y) eqn:E; [|reflexivity]. apply bytes_eqb_eq in E. contradiction.
Qed.

Lemma bytes_eqb_sym x y : bytes_eqb x y = bytes_eqb y x.
Proof.
  destruct (bytes_eqb x y) eqn:E.
  - apply bytes_eqb_eq in E. subst. symmetry. apply bytes_eqb_refl.
  - symmetry. apply bytes_eqb_neq. apply bytes_eqb_neq in E. congruence.
Qed.

Definition bytes_eq_dec (x y : bytes) : {x = y} + {x <> y} := list_eq_dec Byte.byte_eq_dec x y.

(** ** Prefix *)
Fixpoint is_prefix (p x : bytes) : bool :=
  match p, x with
  | [], _ => true
  | a :: p', c :: x' => byte_eqb a c && is_prefix p' x'
  | _ :: _, [] => false
  end.

Lemma is_prefix_spec p x : is_prefix p x = true <-> exists r, x = p ++ r.
Proof.
  revert x; induction p as [|a p IH]; intros x; simpl.
  - split; [intros _; exists x; reflexivity | reflexivity].
  - destruct x as [|c x].
    + split; [discriminate | intros [r Hr]; discriminate].
    + rewrite andb_true_iff, byte_eqb_eq, IH. split.
      * intros [-> [r ->]]. exists r. reflexivity.
      * intros [r Hr]. inversion Hr; subst. split; [reflexivity | exists r; reflexivity].
Qed.

Lemma is_prefix_app p r : is_prefix p (p ++ r) = true.
Proof. apply is_prefix_spec. exists r. reflexivity. Qed.

Lemma is_prefix_refl p : is_prefix p p = true.
Proof. apply is_prefix_spec. exists []. rewrite app_nil_r. reflexivity. Qed.

(** strip a prefix *)
Fixpoint strip_prefix (p x : bytes) : option bytes :=
  match p, x with
  | [], _ => Some x
  | a :: p', c :: x' => if byte_eqb a c then strip_prefix p' x' else None
  | _ :: _, [] => None
  end.

Lemma strip_prefix_spec p x r : strip_prefix p x = Some r <-> x = p ++ r.
Proof.
  revert x; induction p as [|a p IH]; intros x; simpl.
  - split; [intros [= ->]; reflexivity | intros ->; reflexivity].
  - destruct x as [|c x]; [split; discriminate|].
    destruct (byte_eqb a c) eqn:E.
    + apply byte_eqb_eq in E; subst. rewrite IH. split; [intros ->; reflexivity | intros [= ->]; reflexivity].
    + split; [discriminate|]. intros [= -> ->]. rewrite byte_eqb_refl in E. discriminate.
Qed.

(** ** Lexicographic order (the order of the KV store iterators) *)
Definition byte_ltb (x y : byte) : bool := N.ltb (Byte.to_N x) (Byte.to_N y).

Fixpoint bytes_ltb (x y : bytes) : bool :=
  match x, y with
  | [], [] => false
  | [], _ :: _ => true
  | _ :: _, [] => false
  | a :: x', c :: y' => if byte_eqb a c then bytes_ltb x' y' else byte_ltb a c
  end.

Definition bytes_leb (x y : bytes) : bool := negb (bytes_ltb y x).

Lemma to_N_inj x y : Byte.to_N x = Byte.to_N y -> x = y.
Proof.
  intros H. assert (E : Byte.of_N (Byte.to_N x) = Byte.of_N (Byte.to_N y)) by (rewrite H; reflexivity).
  rewrite !Byte.of_to_N in E. congruence.
Qed.

Lemma byte_ltb_irrefl x : byte_ltb x x = false.
Proof. unfold byte_ltb. apply N.ltb_irrefl. Qed.

Lemma byte_ltb_trans x y z : byte_ltb x y = true -> byte_ltb y z = true -> byte_ltb x z = true.
Proof. unfold byte_ltb. rewrite !N.ltb_lt. lia. Qed.

Lemma byte_ltb_total x y : x = y \/ byte_ltb x y = true \/ byte_ltb y x = true.
Proof.
  unfold byte_ltb. rewrite !N.ltb_lt.
  destruct (N.lt_trichotomy (Byte.to_N x) (Byte.to_N y)) as [H|[H|H]]; auto.
  left. apply to_N_inj. exact H.
Qed.

Lemma byte_ltb_asym x y : byte_ltb x y = true -> byte_ltb y x = false.
Proof. unfold byte_ltb. rewrite N.ltb_lt, N.ltb_ge. lia. Qed.

Lemma bytes_ltb_irrefl x : bytes_ltb x x = false.
Proof. induction x as [|a x IH]; simpl; [reflexivity|]. rewrite byte_eqb_refl. exact IH. Qed.

Lemma bytes_ltb_trans x y z : bytes_ltb x y = true -> bytes_ltb y z = true -> bytes_ltb x z = true.
Proof.
  revert y z; induction x as [|a x IH]; intros [|c y] [|d z]; simpl; try discriminate; auto.
  destruct (byte_eqb a c) eqn:Eac.
  - apply byte_eqb_eq in Eac; subst c.
    destruct (byte_eqb a d) eqn:Ead; [apply IH | intros _ H; exact H].
  - intros Hac. destruct (byte_eqb c d) eqn:Ecd.
    + apply byte_eqb_eq in Ecd; subst d. rewrite Eac. intros _. exact Hac.
    + intros Hcd. pose proof (byte_ltb_trans _ _ _ Hac Hcd) as Had.
      destruct (byte_eqb a d) eqn:Ead; [|exact Had].
      apply byte_eqb_eq in Ead; subst d. rewrite byte_ltb_irrefl in Had. discriminate.
Qed.

Lemma bytes_ltb_total x y : x = y \/ bytes_ltb x y = true \/ bytes_ltb y x = true.
Proof.
  revert y; induction x as [|a x IH]; intros [|c y]; simpl; auto.
  destruct (byte_eqb a c) eqn:E.
  - apply byte_eqb_eq in E; subst c. rewrite byte_eqb_refl.
    destruct (IH y) as [->|[H|H]]; auto.
  - assert (byte_eqb c a = false) as ->.
    { destruct (byte_eqb c a) eqn:E2; [|reflexivity]. apply byte_eqb_eq in E2; subst.
      rewrite byte_eqb_refl in E; discriminate. }
    destruct (byte_ltb_total a c) as [->|[H|H]]; auto.
    rewrite byte_eqb_refl in E; discriminate.
Qed.

Lemma bytes_ltb_asym x y : bytes_ltb x y = true -> bytes_ltb y x = false.
Proof.
  intros H. destruct (bytes_ltb y x) eqn:E; [|reflexivity].
  pose proof (bytes_ltb_trans _ _ _ H E) as C. rewrite bytes_ltb_irrefl in C. discriminate.
Qed.

Lemma bytes_ltb_neq x y : bytes_ltb x y = true -> x <> y.
Proof. intros H ->. rewrite bytes_ltb_irrefl in H. discriminate. Qed.

Lemma bytes_leb_total x y : bytes_leb x y = true \/ bytes_leb y x = true.
Proof.
  unfold bytes_leb. destruct (bytes_ltb_total x y) as [->|[H|H]].
  - left. rewrite bytes_ltb_irrefl. reflexivity.
  - left. rewrite (bytes_ltb_asym _ _ H). reflexivity.
  - right. rewrite (bytes_ltb_asym _ _ H). reflexivity.
Qed.

(** a common prefix does not influence the order *)
Lemma bytes_ltb_app p x y : bytes_ltb (p ++ x) (p ++ y) = bytes_ltb x y.
Proof. induction p as [|a p IH]; simpl; [reflexivity|]. rewrite byte_eqb_refl. exact IH. Qed.

Local Open Scope N_scope.
(** ** Numbers <-> big-endian bytes *)
Definition byte_of_N_mod (n : N) : byte :=
  match Byte.of_N (n mod 256) with Some c => c | None => x00 end.

(** [be_bytes k n] : the [k] low-order bytes of [n], big-endian (n mod 256^k) *)
Fixpoint be_bytes (k : nat) (n : N) : bytes :=
  match k with
  | O => []
  | S k' => be_bytes k' (n / 256) ++ [byte_of_N_mod n]
  end%list.

Fixpoint be_value_acc (acc : N) (x : bytes) : N :=
  match x with
  | [] => acc
  | c :: x' => be_value_acc (acc * 256 + Byte.to_N c) x'
  end.
Definition be_value (x : bytes) : N := be_value_acc 0 x.

(** ** Hex and decimal text (used by the history-file driver and by the string form of keys) *)
Definition hex_digit (n : N) : byte :=
  match n with
  | 0 => "0" | 1 => "1" | 2 => "2" | 3 => "3" | 4 => "4" | 5 => "5" | 6 => "6" | 7 => "7"
  | 8 => "8" | 9 => "9" | 10 => "a" | 11 => "b" | 12 => "c" | 13 => "d" | 14 => "e" | _ => "f"
  end%N%byte.

Definition hex_val (c : byte) : option N :=
  let n := Byte.to_N c in
  if (48 <=? n) && (n <=? 57) then Some (n - 48)
  else if (97 <=? n) && (n <=? 102) then Some (n - 87)
  else if (65 <=? n) && (n <=? 70) then Some (n - 55)
  else None.

Fixpoint to_hex (x : bytes) : bytes :=
  match x with
  | [] => []
  | c :: x' => hex_digit (Byte.to_N c / 16) :: hex_digit (Byte.to_N c mod 16) :: to_hex x'
  end.

Fixpoint of_hex (x : bytes) : option bytes :=
  match x with
  | [] => Some []
  | h :: l :: x' =>
      match hex_val h, hex_val l, of_hex x' with
      | Some a, Some c, Some r =>
          match Byte.of_N (a * 16 + c) with Some v => Some (v :: r) | None => None end
      | _, _, _ => None
      end
  | _ => None
  end.

(** the token form: "-" stands for the empty byte string *)
Definition tok_of_bytes (x : bytes) : bytes :=
  match x with [] => b "-" | _ => to_hex x end.
Definition bytes_of_tok (t : bytes) : option bytes :=
  if bytes_eqb t (b "-") then Some [] else of_hex t.

Definition dec_digit_val (c : byte) : option N :=
  let n := Byte.to_N c in
  if (48 <=? n) && (n <=? 57) then Some (n - 48) else None.

Fixpoint parse_dec_acc (acc : N) (x : bytes) : option N :=
  match x with
  | [] => Some acc
  | c :: x' => match dec_digit_val c with
               | Some d => parse_dec_acc (acc * 10 + d) x'
               | None => None
               end
  end.
(** unbounded decimal parse; [None] for the empty string or a non-digit *)
Definition parse_dec (x : bytes) : option N :=
  match x with [] => None | _ => parse_dec_acc 0 x end.

Fixpoint print_dec_fuel (fuel : nat) (n : N) (acc : bytes) : bytes :=
  match fuel with
  | O => acc
  | S f => let d := byte_of_N_mod (48 + n mod 10) in
           if (n <? 10) then d :: acc else print_dec_fuel f (n / 10) (d :: acc)
  end.
Definition print_dec (n : N) : bytes := print_dec_fuel (S (N.to_nat (N.log2 n))) n [].

(** splitting on a separator byte (strings.Split with a one-byte separator) *)
Fixpoint split_on (sep : byte) (x : bytes) : list bytes :=
  match x with
  | [] => [[]]
  | c :: x' =>
      if byte_eqb c sep then [] :: split_on sep x'
      else match split_on sep x' with
           | [] => [[c]]        (* unreachable: split_on never returns [] *)
           | h :: t => (c :: h) :: t
           end
  end.

Fixpoint join_with (sep : byte) (xs : list bytes) : bytes :=
  match xs with
  | [] => []
  | [x] => x
  | x :: rest => x ++ sep :: join_with sep rest
  end.

Definition no_byte (sep : byte) (x : bytes) : Prop := ~ In sep x.

Lemma split_on_nonempty sep x : split_on sep x <> [].
Proof.
  induction x as [|c x IH]; simpl; [discriminate|].
  destruct (byte_eqb c sep); [discriminate|]. destruct (split_on sep x); discriminate.
Qed.

Lemma split_on_no_sep sep x : no_byte sep x -> split_on sep x = [x].
Proof.
  unfold no_byte. induction x as [|c x IH]; simpl; intros H; [reflexivity|].
  destruct (byte_eqb c sep) eqn:E.
  - apply byte_eqb_eq in E. exfalso. apply H. left. exact E.
  - rewrite IH; [reflexivity|]. intros Hin. apply H. right. exact Hin.
Qed.

Lemma split_on_app sep x rest :
  no_byte sep x ->
  split_on sep (x ++ sep :: rest) = x :: split_on sep rest.
Proof.
  unfold no_byte. induction x as [|c x IH]; simpl; intros H.
  - rewrite byte_eqb_refl. reflexivity.
  - destruct (byte_eqb c sep) eqn:E.
    + apply byte_eqb_eq in E. exfalso. apply H. left. exact E.
    + rewrite IH; [reflexivity|]. intros Hin. apply H. right. exact Hin.
Qed.

Lemma split_join sep xs :
  xs <> [] -> Forall (no_byte sep) xs -> split_on sep (join_with sep xs) = xs.
Proof.
  induction xs as [|x xs IH]; intros Hne Hall; [contradiction|].
  inversion Hall as [|? ? Hx Hxs]; subst.
  destruct xs as [|y ys].
  - simpl. apply split_on_no_sep. exact Hx.
  - change (join_with sep (x :: y :: ys)) with (x ++ sep :: join_with sep (y :: ys)).
    rewrite split_on_app by exact Hx. rewrite IH; [reflexivity|discriminate|exact Hxs].
Qed.
