(** Result of a modelled entry point: a value, an error (codespace, code), or a Go runtime panic. *)
From Coq Require Import NArith List.
From PV Require Import Base.Bytes.

Inductive outcome (A : Type) : Type :=
| Ok (a : A)
| Err (codespace : bytes) (code : N)
| Panic.
Arguments Ok {A} a.
Arguments Err {A} codespace code.
Arguments Panic {A}.

Definition bind {A B} (x : outcome A) (f : A -> outcome B) : outcome B :=
  match x with
  | Ok a => f a
  | Err cs c => Err cs c
  | Panic => Panic
  end.

Notation "'do' x <- e ; k" := (bind e (fun x => k)) (at level 200, x pattern, e at level 100, k at level 200).

Definition is_ok {A} (x : outcome A) : bool := match x with Ok _ => true | _ => false end.
Definition is_panic {A} (x : outcome A) : bool := match x with Panic => true | _ => false end.

Definition of_option {A} (cs : bytes) (code : N) (x : option A) : outcome A :=
  match x with Some a => Ok a | None => Err cs code end.
