(** base64: decoding what the encoder wrote gives the bytes back — a well-formed did_base64 field names exactly the
    identifier the client encoded. *)
From Coq Require Import Strings.String Strings.Byte.
From Coq Require Import List Arith NArith ZArith Bool Lia ZifyN ZifyBool.
From PV Require Import Base.Bytes Base.Base64.
Import ListNotations.
Local Open Scope N_scope.
Ltac Zify.zify_post_hook ::= Z.div_mod_to_equations.

Lemma byte_of_N_mod_to_N a : byte_of_N_mod (Byte.to_N a) = a.
Proof.
  unfold byte_of_N_mod. pose proof (Byte.to_N_bounded a) as Hb.
  rewrite N.mod_small by lia. rewrite Byte.of_to_N. reflexivity.
Qed.

(** the 64 characters: value of the n-th character is n; none of them is '=', CR or LF *)
Definition idx64 : list N := map N.of_nat (seq 0 64).

Lemma idx64_all n : n < 64 -> In n idx64.
Proof.
  intros H. unfold idx64. apply in_map_iff. exists (N.to_nat n). split; [lia|]. apply in_seq. lia.
Qed.

Lemma b64_chars_ok :
  forallb (fun n => match b64_val (b64_char n) with Some m => N.eqb m n | None => false end
                    && negb (byte_eqb (b64_char n) x3d) && negb (is_crlf (b64_char n))) idx64 = true.
Proof. vm_compute. reflexivity. Qed.

Lemma b64_char_facts n : n < 64 ->
  b64_val (b64_char n) = Some n /\ byte_eqb (b64_char n) x3d = false /\ is_crlf (b64_char n) = false.
Proof.
  intros H. pose proof (proj1 (forallb_forall _ _) b64_chars_ok n (idx64_all n H)) as F. cbv beta in F.
  apply andb_true_iff in F as [F F3]. apply andb_true_iff in F as [F1 F2].
  destruct (b64_val (b64_char n)) as [m|]; [|discriminate].
  apply N.eqb_eq in F1. subst m. apply negb_true_iff in F2, F3. auto.
Qed.

Lemma crlf_eq : is_crlf x3d = false. Proof. reflexivity. Qed.

(** the encoder never writes CR or LF *)
Lemma base64_no_crlf : forall n s, (length s <= n)%nat -> forallb (fun c => negb (is_crlf c)) (base64 s) = true.
Proof.
  induction n as [|n IH]; intros s Hl.
  - destruct s; [reflexivity | simpl in Hl; lia].
  - destruct s as [|a [|c [|d r]]]; [reflexivity| | |].
    + pose proof (Byte.to_N_bounded a). cbn [base64 forallb].
      rewrite (proj2 (proj2 (b64_char_facts (Byte.to_N a / 4) ltac:(lia)))).
      rewrite (proj2 (proj2 (b64_char_facts (Byte.to_N a mod 4 * 16) ltac:(lia)))). reflexivity.
    + pose proof (Byte.to_N_bounded a). pose proof (Byte.to_N_bounded c). cbn [base64 forallb].
      rewrite (proj2 (proj2 (b64_char_facts ((Byte.to_N a * 256 + Byte.to_N c) / 1024) ltac:(lia)))).
      rewrite (proj2 (proj2 (b64_char_facts ((Byte.to_N a * 256 + Byte.to_N c) / 16 mod 64) ltac:(lia)))).
      rewrite (proj2 (proj2 (b64_char_facts ((Byte.to_N a * 256 + Byte.to_N c) mod 16 * 4) ltac:(lia)))). reflexivity.
    + pose proof (Byte.to_N_bounded a). pose proof (Byte.to_N_bounded c). pose proof (Byte.to_N_bounded d).
      cbn [base64 forallb].
      set (m := Byte.to_N a * 65536 + Byte.to_N c * 256 + Byte.to_N d).
      assert (Hm : m < 16777216) by (unfold m; lia).
      rewrite (proj2 (proj2 (b64_char_facts (m / 262144) ltac:(lia)))).
      rewrite (proj2 (proj2 (b64_char_facts (m / 4096 mod 64) ltac:(lia)))).
      rewrite (proj2 (proj2 (b64_char_facts (m / 64 mod 64) ltac:(lia)))).
      rewrite (proj2 (proj2 (b64_char_facts (m mod 64) ltac:(lia)))). cbn [negb andb].
      apply IH. simpl in Hl. lia.
Qed.

Lemma filter_all_true {A} (f : A -> bool) l : forallb f l = true -> filter f l = l.
Proof.
  induction l as [|x l IH]; [reflexivity|]. cbn [forallb filter]. intros H. apply andb_true_iff in H as [H1 H2].
  rewrite H1, (IH H2). reflexivity.
Qed.

(** the quanta of an encoding decode to the encoded bytes *)
Lemma b64_quanta_base64 : forall n s, (length s <= n)%nat -> b64_quanta (base64 s) = Some s.
Proof.
  induction n as [|n IH]; intros s Hl.
  - destruct s; [reflexivity | simpl in Hl; lia].
  - destruct s as [|a [|c [|d r]]]; [reflexivity| | |].
    + pose proof (Byte.to_N_bounded a) as Ha. cbn [base64 b64_quanta].
      destruct (b64_char_facts (Byte.to_N a / 4) ltac:(lia)) as (V0 & _ & _).
      destruct (b64_char_facts (Byte.to_N a mod 4 * 16) ltac:(lia)) as (V1 & _ & _).
      rewrite V0, V1. change (byte_eqb x3d x3d) with true. cbv iota.
      replace ((Byte.to_N a / 4 * 4 + Byte.to_N a mod 4 * 16 / 16) mod 256) with (Byte.to_N a) by lia.
      rewrite byte_of_N_mod_to_N. reflexivity.
    + pose proof (Byte.to_N_bounded a) as Ha. pose proof (Byte.to_N_bounded c) as Hc. cbn [base64 b64_quanta].
      set (m := Byte.to_N a * 256 + Byte.to_N c).
      assert (Hm : m < 65536) by (unfold m; lia).
      destruct (b64_char_facts (m / 1024) ltac:(lia)) as (V0 & _ & _).
      destruct (b64_char_facts (m / 16 mod 64) ltac:(lia)) as (V1 & _ & _).
      destruct (b64_char_facts (m mod 16 * 4) ltac:(lia)) as (V2 & E2 & _).
      rewrite V0, V1, E2, V2. change (byte_eqb x3d x3d) with true. cbv iota.
      replace ((m / 1024 * 4 + m / 16 mod 64 / 16) mod 256) with (Byte.to_N a) by (unfold m; lia).
      replace ((m / 16 mod 64 mod 16 * 16 + m mod 16 * 4 / 4) mod 256) with (Byte.to_N c) by (unfold m; lia).
      rewrite !byte_of_N_mod_to_N. reflexivity.
    + pose proof (Byte.to_N_bounded a) as Ha. pose proof (Byte.to_N_bounded c) as Hc. pose proof (Byte.to_N_bounded d) as Hd.
      cbn [base64].
      set (m := Byte.to_N a * 65536 + Byte.to_N c * 256 + Byte.to_N d).
      assert (Hm : m < 16777216) by (unfold m; lia).
      destruct (b64_char_facts (m / 262144) ltac:(lia)) as (V0 & _ & _).
      destruct (b64_char_facts (m / 4096 mod 64) ltac:(lia)) as (V1 & _ & _).
      destruct (b64_char_facts (m / 64 mod 64) ltac:(lia)) as (V2 & E2 & _).
      destruct (b64_char_facts (m mod 64) ltac:(lia)) as (V3 & E3 & _).
      assert (B0 : (m / 262144 * 4 + m / 4096 mod 64 / 16) mod 256 = Byte.to_N a) by (unfold m; lia).
      assert (B1 : (m / 4096 mod 64 mod 16 * 16 + m / 64 mod 64 / 4) mod 256 = Byte.to_N c) by (unfold m; lia).
      assert (B2 : (m / 64 mod 64 mod 4 * 64 + m mod 64) mod 256 = Byte.to_N d) by (unfold m; lia).
      assert (IHr : b64_quanta (base64 r) = Some r) by (apply IH; simpl in Hl; lia).
      destruct (base64 r) as [|q qs] eqn:Er.
      * cbn [b64_quanta]. rewrite V0, V1, E2, V2, E3, V3, B0, B1, B2, !byte_of_N_mod_to_N.
        cbn [b64_quanta] in IHr. injection IHr as <-. reflexivity.
      * cbn [b64_quanta]. rewrite V0, V1, V2, V3. cbn [b64_quanta] in IHr. rewrite IHr.
        rewrite B0, B1, B2, !byte_of_N_mod_to_N. reflexivity.
Qed.

Theorem b64_decode_base64 s : b64_decode (base64 s) = Some s.
Proof.
  unfold b64_decode. rewrite filter_all_true by (apply (base64_no_crlf (length s)); lia).
  apply (b64_quanta_base64 (length s)). lia.
Qed.
