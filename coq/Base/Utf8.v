(** UTF-8 as Go's unicode/utf8 and encoding/json see it.  json.Marshal writes a string rune by rune; every byte that
    does not start a valid encoding becomes U+FFFD (EF BF BD), and json.Unmarshal gives those three bytes back.
    [coerce_utf8] is that round trip; it is the identity exactly on valid UTF-8.  Definitions only. *)
From Coq Require Import Strings.String Strings.Byte.
From Coq Require Import List Arith NArith Bool.
From PV Require Import Base.Bytes.
Import ListNotations.
Local Open Scope N_scope.

Definition in_range (lo hi : N) (c : byte) : bool := (lo <=? Byte.to_N c) && (Byte.to_N c <=? hi).
Definition cont (c : byte) : bool := in_range 128 191 c.     (* 80..BF *)

(** the length of the well-formed encoding at the head of [l] (Unicode table 3-7), if there is one *)
Definition utf8_len (l : bytes) : option nat :=
  match l with
  | [] => None
  | c0 :: r =>
      if in_range 0 127 c0 then Some 1%nat
      else if in_range 194 223 c0 then                                    (* C2..DF *)
        match r with c1 :: _ => if cont c1 then Some 2%nat else None | _ => None end
      else if in_range 224 239 c0 then                                    (* E0..EF *)
        match r with
        | c1 :: c2 :: _ =>
            let lo := if in_range 224 224 c0 then 160 else 128 in          (* E0: A0..BF *)
            let hi := if in_range 237 237 c0 then 159 else 191 in          (* ED: 80..9F (no surrogates) *)
            if in_range lo hi c1 && cont c2 then Some 3%nat else None
        | _ => None
        end
      else if in_range 240 244 c0 then                                    (* F0..F4 *)
        match r with
        | c1 :: c2 :: c3 :: _ =>
            let lo := if in_range 240 240 c0 then 144 else 128 in          (* F0: 90..BF *)
            let hi := if in_range 244 244 c0 then 143 else 191 in          (* F4: 80..8F *)
            if in_range lo hi c1 && cont c2 && cont c3 then Some 4%nat else None
        | _ => None
        end
      else None
  end.

Definition replacement : bytes := [xef; xbf; xbd].

Fixpoint coerce_fuel (fuel : nat) (l : bytes) : bytes :=
  match fuel with
  | O => []
  | S f =>
      match l with
      | [] => []
      | c0 :: r =>
          match utf8_len l with
          | Some n => firstn n l ++ coerce_fuel f (skipn n l)
          | None => replacement ++ coerce_fuel f r
          end
      end
  end.
Definition coerce_utf8 (l : bytes) : bytes := coerce_fuel (length l) l.

Fixpoint valid_fuel (fuel : nat) (l : bytes) : bool :=
  match fuel with
  | O => match l with [] => true | _ => false end
  | S f =>
      match l with
      | [] => true
      | _ :: _ => match utf8_len l with Some n => valid_fuel f (skipn n l) | None => false end
      end
  end.
Definition valid_utf8 (l : bytes) : bool := valid_fuel (length l) l.
