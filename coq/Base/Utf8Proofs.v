(** Facts about [coerce_utf8] (the json.Marshal / Unmarshal round trip of a Go string) and [valid_utf8]:
    the coercion is the identity exactly on valid UTF-8, its result is always valid (so it is idempotent:
    a second export/import changes nothing more), ASCII is valid, and an invalid byte triples in length. *)
From Coq Require Import Strings.String Strings.Byte.
From Coq Require Import List Arith NArith Bool Lia ZifyN ZifyNat.
From PV Require Import Base.Bytes Base.Utf8.
Import ListNotations.

(** * [utf8_len] looks at no more than the bytes it counts *)
Lemma utf8_len_bound : forall l n, utf8_len l = Some n -> 1 <= n /\ n <= length l.
Proof.
  intros l n H. destruct l as [|c0 r]; [discriminate H|]. unfold utf8_len in H.
  destruct (in_range 0 127 c0); [injection H as <-; cbn [length]; lia|].
  destruct (in_range 194 223 c0).
  { destruct r as [|c1 r]; [discriminate H|]. destruct (cont c1); [|discriminate H].
    injection H as <-. cbn [length]. lia. }
  destruct (in_range 224 239 c0).
  { destruct r as [|c1 [|c2 r]]; try discriminate H. cbv zeta in H.
    match type of H with (if ?c then _ else _) = _ => destruct c end; [|discriminate H].
    injection H as <-. cbn [length]. lia. }
  destruct (in_range 240 244 c0); [|discriminate H].
  destruct r as [|c1 [|c2 [|c3 r]]]; try discriminate H. cbv zeta in H.
  match type of H with (if ?c then _ else _) = _ => destruct c end; [|discriminate H].
  injection H as <-. cbn [length]. lia.
Qed.

Lemma utf8_len_firstn : forall l n rest, utf8_len l = Some n -> utf8_len (firstn n l ++ rest) = Some n.
Proof.
  intros l n rest H. destruct l as [|c0 r]; [discriminate H|]. unfold utf8_len in H.
  destruct (in_range 0 127 c0) eqn:E1.
  { injection H as <-. cbn [firstn app]. unfold utf8_len. rewrite E1. reflexivity. }
  destruct (in_range 194 223 c0) eqn:E2.
  { destruct r as [|c1 r]; [discriminate H|]. destruct (cont c1) eqn:C1; [|discriminate H].
    injection H as <-. cbn [firstn app]. unfold utf8_len. rewrite E1, E2, C1. reflexivity. }
  destruct (in_range 224 239 c0) eqn:E3.
  { destruct r as [|c1 [|c2 r]]; try discriminate H. cbv zeta in H.
    match type of H with (if ?c then _ else _) = _ => destruct c eqn:C1 end; [|discriminate H].
    injection H as <-. cbn [firstn app]. unfold utf8_len. rewrite E1, E2, E3. cbv zeta. rewrite C1. reflexivity. }
  destruct (in_range 240 244 c0) eqn:E4; [|discriminate H].
  destruct r as [|c1 [|c2 [|c3 r]]]; try discriminate H. cbv zeta in H.
  match type of H with (if ?c then _ else _) = _ => destruct c eqn:C1 end; [|discriminate H].
  injection H as <-. cbn [firstn app]. unfold utf8_len. rewrite E1, E2, E3, E4. cbv zeta. rewrite C1. reflexivity.
Qed.

Lemma utf8_len_app : forall l n rest, utf8_len l = Some n -> utf8_len (l ++ rest) = Some n.
Proof.
  intros l n rest H. rewrite <- (firstn_skipn n l) at 1. rewrite <- app_assoc. apply utf8_len_firstn. exact H.
Qed.

Lemma skipn_firstn_app : forall (l rest : bytes) n, n <= length l -> skipn n (firstn n l ++ rest) = rest.
Proof.
  intros l rest n H. rewrite skipn_app, firstn_length, Nat.min_l by exact H. rewrite Nat.sub_diag.
  rewrite skipn_all2 by (rewrite firstn_length; lia). reflexivity.
Qed.

Lemma skipn_app_le : forall (l rest : bytes) n, n <= length l -> skipn n (l ++ rest) = skipn n l ++ rest.
Proof.
  intros l rest n H. rewrite skipn_app. replace (n - length l) with 0 by lia. reflexivity.
Qed.

(** * the fuel is irrelevant once it covers the length *)
Lemma coerce_fuel_enough : forall f l f', length l <= f -> length l <= f' -> coerce_fuel f l = coerce_fuel f' l.
Proof.
  induction f as [|f IH]; intros l f' H H'.
  - destruct l; [|cbn [length] in H; lia]. destruct f'; reflexivity.
  - destruct l as [|c0 r]; [destruct f'; reflexivity|].
    destruct f' as [|f']; [cbn [length] in H'; lia|]. cbn [coerce_fuel].
    destruct (utf8_len (c0 :: r)) as [n|] eqn:E.
    + destruct (utf8_len_bound _ _ E) as [B1 B2]. f_equal.
      apply IH; rewrite skipn_length; cbn [length] in *; lia.
    + f_equal. apply IH; cbn [length] in *; lia.
Qed.

Lemma valid_fuel_enough : forall f l f', length l <= f -> length l <= f' -> valid_fuel f l = valid_fuel f' l.
Proof.
  induction f as [|f IH]; intros l f' H H'.
  - destruct l; [|cbn [length] in H; lia]. destruct f'; reflexivity.
  - destruct l as [|c0 r]; [destruct f'; reflexivity|].
    destruct f' as [|f']; [cbn [length] in H'; lia|]. cbn [valid_fuel].
    destruct (utf8_len (c0 :: r)) as [n|] eqn:E; [|reflexivity].
    destruct (utf8_len_bound _ _ E) as [B1 B2].
    apply IH; rewrite skipn_length; cbn [length] in *; lia.
Qed.

(** * the unfolding equations *)
Lemma coerce_nil : coerce_utf8 [] = [].
Proof. reflexivity. Qed.

Lemma valid_nil : valid_utf8 [] = true.
Proof. reflexivity. Qed.

Lemma coerce_step : forall l, l <> [] ->
  coerce_utf8 l = match utf8_len l with
                  | Some n => firstn n l ++ coerce_utf8 (skipn n l)
                  | None => replacement ++ coerce_utf8 (tl l)
                  end.
Proof.
  intros l Hne. destruct l as [|c0 r]; [contradiction Hne; reflexivity|].
  unfold coerce_utf8 at 1. cbn [length coerce_fuel tl].
  destruct (utf8_len (c0 :: r)) as [n|] eqn:E.
  - destruct (utf8_len_bound _ _ E) as [B1 B2]. f_equal. unfold coerce_utf8.
    apply coerce_fuel_enough; rewrite ?skipn_length; cbn [length] in *; lia.
  - reflexivity.
Qed.

Lemma valid_step : forall l, l <> [] ->
  valid_utf8 l = match utf8_len l with Some n => valid_utf8 (skipn n l) | None => false end.
Proof.
  intros l Hne. destruct l as [|c0 r]; [contradiction Hne; reflexivity|].
  unfold valid_utf8 at 1. cbn [length valid_fuel].
  destruct (utf8_len (c0 :: r)) as [n|] eqn:E; [|reflexivity].
  destruct (utf8_len_bound _ _ E) as [B1 B2]. unfold valid_utf8.
  apply valid_fuel_enough; rewrite ?skipn_length; cbn [length] in *; lia.
Qed.

(** induction on the length of a byte string *)
Lemma bytes_length_ind : forall P : list byte -> Prop,
  (forall l : list byte, (forall l' : list byte, length l' < length l -> P l') -> P l) -> forall l : list byte, P l.
Proof.
  intros P H l. remember (length l) as k eqn:Ek. revert l Ek.
  induction k as [k IH] using lt_wf_ind. intros l ->. apply H. intros l' Hl. exact (IH _ Hl l' eq_refl).
Qed.

(** * the coercion is the identity exactly on valid UTF-8 *)
Theorem coerce_valid : forall l, valid_utf8 l = true -> coerce_utf8 l = l.
Proof.
  induction l as [l IH] using bytes_length_ind. intros Hv.
  destruct l as [|c0 r]; [reflexivity|].
  rewrite valid_step in Hv by discriminate. rewrite coerce_step by discriminate.
  destruct (utf8_len (c0 :: r)) as [n|] eqn:E; [|discriminate Hv].
  destruct (utf8_len_bound _ _ E) as [B1 B2].
  rewrite IH; [apply firstn_skipn | rewrite skipn_length; lia | exact Hv].
Qed.

(** the coercion never shortens *)
Lemma coerce_length_ge : forall l, length l <= length (coerce_utf8 l).
Proof.
  induction l as [l IH] using bytes_length_ind.
  destruct l as [|c0 r]; [cbn [length]; lia|].
  rewrite coerce_step by discriminate.
  destruct (utf8_len (c0 :: r)) as [n|] eqn:E.
  - destruct (utf8_len_bound _ _ E) as [B1 B2].
    rewrite app_length, firstn_length, Nat.min_l by exact B2.
    assert (L : length (skipn n (c0 :: r)) <= length (coerce_utf8 (skipn n (c0 :: r)))).
    { apply IH. rewrite skipn_length. lia. }
    rewrite skipn_length in L. lia.
  - cbn [tl]. rewrite app_length. cbn [replacement length].
    assert (L : length r <= length (coerce_utf8 r)) by (apply IH; cbn [length]; lia). lia.
Qed.

(** the converse holds: a string that the round trip leaves unchanged is valid UTF-8 (the only way a
    replaced byte could survive is EF BF BD itself, which is valid; the length argument below makes it
    precise: a replacement adds two bytes and nothing ever removes any) *)
Theorem coerce_fixed_valid : forall l, coerce_utf8 l = l -> valid_utf8 l = true.
Proof.
  induction l as [l IH] using bytes_length_ind. intros Hc.
  destruct l as [|c0 r]; [reflexivity|].
  rewrite valid_step by discriminate. rewrite coerce_step in Hc by discriminate.
  destruct (utf8_len (c0 :: r)) as [n|] eqn:E.
  - destruct (utf8_len_bound _ _ E) as [B1 B2]. apply IH; [rewrite skipn_length; lia|].
    rewrite <- (firstn_skipn n (c0 :: r)) in Hc at 3. apply app_inv_head in Hc. exact Hc.
  - exfalso. cbn [tl] in Hc. apply (f_equal (@length byte)) in Hc.
    rewrite app_length in Hc. cbn [replacement length] in Hc.
    pose proof (coerce_length_ge r). lia.
Qed.

Corollary coerce_id_iff_valid : forall l, coerce_utf8 l = l <-> valid_utf8 l = true.
Proof. intros l. split; [apply coerce_fixed_valid | apply coerce_valid]. Qed.

(** * the result of the coercion is valid, hence a second coercion changes nothing *)
Lemma replacement_len : forall rest, utf8_len (replacement ++ rest) = Some 3.
Proof. intros rest. reflexivity. Qed.

Theorem coerce_is_valid : forall l, valid_utf8 (coerce_utf8 l) = true.
Proof.
  induction l as [l IH] using bytes_length_ind.
  destruct l as [|c0 r]; [reflexivity|].
  rewrite coerce_step by discriminate.
  destruct (utf8_len (c0 :: r)) as [n|] eqn:E.
  - destruct (utf8_len_bound _ _ E) as [B1 B2].
    rewrite valid_step.
    + rewrite (utf8_len_firstn _ _ _ E). rewrite skipn_firstn_app by exact B2.
      apply IH. rewrite skipn_length. lia.
    + destruct n; [lia|]. cbn [firstn app]. discriminate.
  - cbn [tl]. rewrite valid_step by (cbn [replacement app]; discriminate).
    rewrite replacement_len. cbn [replacement app skipn]. apply IH. cbn [length]. lia.
Qed.

Theorem coerce_idempotent : forall l, coerce_utf8 (coerce_utf8 l) = coerce_utf8 l.
Proof. intros l. apply coerce_valid. apply coerce_is_valid. Qed.

(** * sufficient conditions for validity *)
Lemma valid_app : forall a c, valid_utf8 a = true -> valid_utf8 c = true -> valid_utf8 (a ++ c) = true.
Proof.
  induction a as [a IH] using bytes_length_ind. intros c Ha Hc.
  destruct a as [|c0 r]; [exact Hc|].
  rewrite valid_step in Ha by discriminate. rewrite valid_step by discriminate.
  destruct (utf8_len (c0 :: r)) as [n|] eqn:E; [|discriminate Ha].
  destruct (utf8_len_bound _ _ E) as [B1 B2].
  rewrite (utf8_len_app _ _ c E). rewrite skipn_app_le by exact B2.
  apply IH; [rewrite skipn_length; lia | exact Ha | exact Hc].
Qed.

Definition is_ascii (c : byte) : Prop := (Byte.to_N c < 128)%N.

Lemma ascii_len1 : forall c r, is_ascii c -> utf8_len (c :: r) = Some 1.
Proof.
  intros c r H. unfold is_ascii in H. unfold utf8_len, in_range.
  destruct (N.leb_spec 0 (Byte.to_N c)); [|lia]. destruct (N.leb_spec (Byte.to_N c) 127); [|lia]. reflexivity.
Qed.

Theorem ascii_valid : forall l, Forall (fun c => (Byte.to_N c < 128)%N) l -> valid_utf8 l = true.
Proof.
  induction l as [|c r IH]; intros H; [reflexivity|].
  inversion H as [|? ? Hc Hr]; subst. rewrite valid_step by discriminate.
  rewrite (ascii_len1 c r Hc). cbn [skipn]. apply IH. exact Hr.
Qed.

Corollary ascii_coerce : forall l, Forall (fun c => (Byte.to_N c < 128)%N) l -> coerce_utf8 l = l.
Proof. intros l H. apply coerce_valid. apply ascii_valid. exact H. Qed.

Lemma valid_cons_ascii : forall c r, is_ascii c -> valid_utf8 r = true -> valid_utf8 (c :: r) = true.
Proof.
  intros c r Hc Hr. rewrite valid_step by discriminate. rewrite (ascii_len1 c r Hc). exact Hr.
Qed.

(** * witnesses: a byte that is not UTF-8 is replaced, and triples in length *)
Example coerce_ff : coerce_utf8 [xff] = [xef; xbf; xbd].
Proof. reflexivity. Qed.

Example replacement_is_valid : valid_utf8 [xef; xbf; xbd] = true /\ coerce_utf8 [xef; xbf; xbd] = [xef; xbf; xbd].
Proof. split; reflexivity. Qed.

Example ff_invalid : valid_utf8 [xff] = false.
Proof. reflexivity. Qed.

Lemma coerce_ff_cons : forall r, coerce_utf8 (xff :: r) = replacement ++ coerce_utf8 r.
Proof. intros r. rewrite coerce_step by discriminate. reflexivity. Qed.

Theorem coerce_repeat_ff : forall n, coerce_utf8 (repeat xff n) = concat (repeat replacement n).
Proof.
  induction n as [|n IH]; [reflexivity|]. cbn [repeat concat]. rewrite coerce_ff_cons, IH. reflexivity.
Qed.

Theorem coerce_repeat_ff_length : forall n, length (coerce_utf8 (repeat xff n)) = 3 * n.
Proof.
  induction n as [|n IH]; [reflexivity|]. cbn [repeat]. rewrite coerce_ff_cons, app_length, IH.
  cbn [replacement length]. lia.
Qed.

Print Assumptions coerce_valid.
Print Assumptions coerce_fixed_valid.
Print Assumptions coerce_id_iff_valid.
Print Assumptions coerce_is_valid.
Print Assumptions coerce_idempotent.
Print Assumptions valid_app.
Print Assumptions ascii_valid.
Print Assumptions coerce_ff.
Print Assumptions coerce_repeat_ff.
Print Assumptions coerce_repeat_ff_length.
