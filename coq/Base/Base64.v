(** base64.StdEncoding of Go's encoding/base64: the encoder (how encoding/json writes a []byte, how a client writes the
    did_base64 field of a DID query) and the decoder as [DecodeString] behaves in its default, non-strict mode:
    carriage returns and line feeds are skipped wherever they stand, every quantum has four characters, padding is
    required and allowed in the last quantum only, nothing may follow it, and the unused low bits of a padded quantum
    are not checked.  Definitions only; executable and extracted. *)
From Coq Require Import Strings.String Strings.Byte.
From Coq Require Import List Arith NArith Bool.
From PV Require Import Base.Bytes.
Import ListNotations.
Local Open Scope N_scope.

Definition b64_alphabet : bytes := b "ABCDEFGHIJKLMNOPQRSTUVWXYZabcdefghijklmnopqrstuvwxyz0123456789+/".
Definition b64_char (n : N) : byte := nth (N.to_nat n) b64_alphabet x3d.

Fixpoint base64 (s : bytes) : bytes :=
  match s with
  | [] => []
  | [a] =>
      let n := Byte.to_N a in
      [b64_char (n / 4); b64_char ((n mod 4) * 16); x3d; x3d]
  | [a; c] =>
      let n := Byte.to_N a * 256 + Byte.to_N c in
      [b64_char (n / 1024); b64_char ((n / 16) mod 64); b64_char ((n mod 16) * 4); x3d]
  | a :: c :: d :: r =>
      let n := Byte.to_N a * 65536 + Byte.to_N c * 256 + Byte.to_N d in
      b64_char (n / 262144) :: b64_char ((n / 4096) mod 64) :: b64_char ((n / 64) mod 64) :: b64_char (n mod 64)
      :: base64 r
  end.

(** the value of one character of the alphabet; [None] for every other byte, '=' included *)
Definition b64_val (c : byte) : option N :=
  let n := Byte.to_N c in
  if (65 <=? n) && (n <=? 90) then Some (n - 65)
  else if (97 <=? n) && (n <=? 122) then Some (n - 97 + 26)
  else if (48 <=? n) && (n <=? 57) then Some (n - 48 + 52)
  else if n =? 43 then Some 62
  else if n =? 47 then Some 63
  else None.

Definition is_crlf (c : byte) : bool := byte_eqb c x0a || byte_eqb c x0d.

(** the quanta of an input from which CR and LF have been removed *)
Fixpoint b64_quanta (l : bytes) : option bytes :=
  match l with
  | [] => Some []
  | [c0; c1; c2; c3] =>
      match b64_val c0, b64_val c1 with
      | Some v0, Some v1 =>
          if byte_eqb c2 x3d then
            if byte_eqb c3 x3d then Some [byte_of_N_mod ((v0 * 4 + v1 / 16) mod 256)] else None
          else
            match b64_val c2 with
            | Some v2 =>
                if byte_eqb c3 x3d then
                  Some [byte_of_N_mod ((v0 * 4 + v1 / 16) mod 256); byte_of_N_mod (((v1 mod 16) * 16 + v2 / 4) mod 256)]
                else
                  match b64_val c3 with
                  | Some v3 =>
                      Some [byte_of_N_mod ((v0 * 4 + v1 / 16) mod 256); byte_of_N_mod (((v1 mod 16) * 16 + v2 / 4) mod 256);
                            byte_of_N_mod (((v2 mod 4) * 64 + v3) mod 256)]
                  | None => None
                  end
            | None => None
            end
      | _, _ => None
      end
  | c0 :: c1 :: c2 :: c3 :: r =>
      match b64_val c0, b64_val c1, b64_val c2, b64_val c3, b64_quanta r with
      | Some v0, Some v1, Some v2, Some v3, Some out =>
          Some (byte_of_N_mod ((v0 * 4 + v1 / 16) mod 256) :: byte_of_N_mod (((v1 mod 16) * 16 + v2 / 4) mod 256)
                :: byte_of_N_mod (((v2 mod 4) * 64 + v3) mod 256) :: out)
      | _, _, _, _, _ => None
      end
  | _ => None
  end.

Definition b64_decode (s : bytes) : option bytes :=
  b64_quanta (filter (fun c => negb (is_crlf c)) s).

Example b64_decode_ex1 : b64_decode (b "aGVsbG8=") = Some (b "hello"). Proof. reflexivity. Qed.
Example b64_decode_ex2 : b64_decode (b "aGVsbG8") = None. Proof. reflexivity. Qed.
Example b64_decode_ex3 : b64_decode (base64 (b "did:panacea:7Prd74ry1Uct87nZqL3ny7aR7Cg46JamVbJgk8azVgUm")) = Some (b "did:panacea:7Prd74ry1Uct87nZqL3ny7aR7Cg46JamVbJgk8azVgUm").
Proof. reflexivity. Qed.
