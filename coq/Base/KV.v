(** A byte-keyed KV store kept sorted by key (the order of the SDK store iterators).
    [set] inserts in order, so that two stores with the same contents are equal as lists. *)
From Coq Require Import Strings.String Strings.Byte.
From Coq Require Import List Arith NArith Bool Lia.
From PV Require Import Base.Bytes.
Import ListNotations.

Section KV.
  Context {V : Type}.
  Definition store := list (bytes * V).

  Fixpoint get (k : bytes) (s : store) : option V :=
    match s with
    | [] => None
    | (k', v) :: r => if bytes_eqb k k' then Some v else get k r
    end.

  Definition has (k : bytes) (s : store) : bool :=
    match get k s with Some _ => true | None => false end.

  Fixpoint set (k : bytes) (v : V) (s : store) : store :=
    match s with
    | [] => [(k, v)]
    | (k', v') :: r =>
        if bytes_eqb k k' then (k, v) :: r
        else if bytes_ltb k k' then (k, v) :: (k', v') :: r
        else (k', v') :: set k v r
    end.

  Fixpoint del (k : bytes) (s : store) : store :=
    match s with
    | [] => []
    | (k', v') :: r => if bytes_eqb k k' then del k r else (k', v') :: del k r
    end.

  (** items whose key starts with [p] (prefix iteration), in store order *)
  Definition prefix_items (p : bytes) (s : store) : store :=
    filter (fun e => is_prefix p (fst e)) s.

  Definition keys (s : store) : list bytes := map fst s.

  (** ** sortedness *)
  Definition lb (k : bytes) (s : store) : Prop :=
    match s with [] => True | (k', _) :: _ => bytes_ltb k k' = true end.

  Fixpoint sorted (s : store) : Prop :=
    match s with [] => True | (k, _) :: r => lb k r /\ sorted r end.

  Lemma sorted_tail e r : sorted (e :: r) -> sorted r.
  Proof. destruct e; simpl; tauto. Qed.

  Lemma sorted_all_gt k v r : sorted ((k, v) :: r) -> forall k' v', In (k', v') r -> bytes_ltb k k' = true.
  Proof.
    revert k v; induction r as [|[k1 v1] r IH]; intros k v Hs k' v' Hin; [contradiction|].
    simpl in Hs. destruct Hs as [Hk [Hk1 Hr]].
    destruct Hin as [E|Hin].
    - inversion E; subst. exact Hk.
    - apply (bytes_ltb_trans _ k1); [exact Hk|]. apply (IH k1 v1 (conj Hk1 Hr) k' v' Hin).
  Qed.

  Lemma get_In k v s : get k s = Some v -> In (k, v) s.
  Proof.
    induction s as [|[k' v'] r IH]; simpl; [discriminate|].
    destruct (bytes_eqb k k') eqn:E.
    - apply bytes_eqb_eq in E; subst. intros [= ->]. left; reflexivity.
    - intros H. right. apply IH. exact H.
  Qed.

  Lemma get_None_notin k s : get k s = None -> forall v, ~ In (k, v) s.
  Proof.
    induction s as [|[k' v'] r IH]; simpl; intros H v Hin; [exact Hin|].
    destruct (bytes_eqb k k') eqn:E; [discriminate|].
    destruct Hin as [Heq|Hin]; [|exact (IH H v Hin)].
    inversion Heq; subst. rewrite bytes_eqb_refl in E. discriminate.
  Qed.

  Lemma In_get k v s : sorted s -> In (k, v) s -> get k s = Some v.
  Proof.
    induction s as [|[k' v'] r IH]; simpl; intros Hs Hin; [contradiction|].
    destruct Hin as [E|Hin].
    - inversion E; subst. rewrite bytes_eqb_refl. reflexivity.
    - destruct (bytes_eqb k k') eqn:E.
      + apply bytes_eqb_eq in E; subst k'.
        pose proof (sorted_all_gt k v' r Hs k v Hin) as C. rewrite bytes_ltb_irrefl in C. discriminate.
      + apply IH; [apply Hs | exact Hin].
  Qed.

  Lemma lb_get_None k s : lb k s -> sorted s -> get k s = None.
  Proof.
    intros Hlb Hs. destruct (get k s) as [v|] eqn:G; [|reflexivity].
    apply get_In in G. destruct s as [|[k' v'] r]; [contradiction|]. simpl in Hlb.
    destruct G as [E|Hin].
    - inversion E; subst. rewrite bytes_ltb_irrefl in Hlb. discriminate.
    - pose proof (sorted_all_gt _ _ _ Hs _ _ Hin) as C.
      pose proof (bytes_ltb_trans _ _ _ Hlb C) as C2. rewrite bytes_ltb_irrefl in C2. discriminate.
  Qed.

  (** ** get / set / del *)
  Lemma get_set_eq k v s : get k (set k v s) = Some v.
  Proof.
    induction s as [|[k' v'] r IH]; simpl.
    - rewrite bytes_eqb_refl. reflexivity.
    - destruct (bytes_eqb k k') eqn:E; simpl.
      + rewrite bytes_eqb_refl. reflexivity.
      + destruct (bytes_ltb k k'); simpl.
        * rewrite bytes_eqb_refl. reflexivity.
        * rewrite E. exact IH.
  Qed.

  Lemma get_set_neq k k2 v s : k2 <> k -> get k2 (set k v s) = get k2 s.
  Proof.
    intros Hne. induction s as [|[k' v'] r IH]; simpl.
    - apply bytes_eqb_neq in Hne. rewrite Hne. reflexivity.
    - destruct (bytes_eqb k k') eqn:E; simpl.
      + apply bytes_eqb_eq in E; subst k'. apply bytes_eqb_neq in Hne. rewrite Hne. reflexivity.
      + destruct (bytes_ltb k k'); simpl.
        * apply bytes_eqb_neq in Hne. rewrite Hne. reflexivity.
        * rewrite IH. reflexivity.
  Qed.

  Lemma get_set k k2 v s : get k2 (set k v s) = if bytes_eqb k2 k then Some v else get k2 s.
  Proof.
    destruct (bytes_eqb k2 k) eqn:E.
    - apply bytes_eqb_eq in E; subst. apply get_set_eq.
    - apply get_set_neq. apply bytes_eqb_neq. exact E.
  Qed.

  Lemma get_del_eq k s : get k (del k s) = None.
  Proof.
    induction s as [|[k' v'] r IH]; simpl; [reflexivity|].
    destruct (bytes_eqb k k') eqn:E; simpl; [exact IH|]. rewrite E. exact IH.
  Qed.

  Lemma get_del_neq k k2 s : k2 <> k -> get k2 (del k s) = get k2 s.
  Proof.
    intros Hne. induction s as [|[k' v'] r IH]; simpl; [reflexivity|].
    destruct (bytes_eqb k k') eqn:E; simpl.
    - apply bytes_eqb_eq in E; subst k'. apply bytes_eqb_neq in Hne. rewrite Hne. exact IH.
    - rewrite IH. reflexivity.
  Qed.

  Lemma get_del k k2 s : get k2 (del k s) = if bytes_eqb k2 k then None else get k2 s.
  Proof.
    destruct (bytes_eqb k2 k) eqn:E.
    - apply bytes_eqb_eq in E; subst. apply get_del_eq.
    - apply get_del_neq. apply bytes_eqb_neq. exact E.
  Qed.

  Lemma has_set k k2 v s : has k2 (set k v s) = bytes_eqb k2 k || has k2 s.
  Proof. unfold has. rewrite get_set. destruct (bytes_eqb k2 k); reflexivity. Qed.

  Lemma has_del k k2 s : has k2 (del k s) = negb (bytes_eqb k2 k) && has k2 s.
  Proof. unfold has. rewrite get_del. destruct (bytes_eqb k2 k); reflexivity. Qed.

  (** ** sortedness is preserved *)
  Lemma lb_set k0 k v s : bytes_ltb k0 k = true -> lb k0 s -> lb k0 (set k v s).
  Proof.
    intros Hk Hlb. destruct s as [|[k' v'] r]; simpl; [exact Hk|].
    destruct (bytes_eqb k k'); [exact Hk|]. destruct (bytes_ltb k k'); [exact Hk | exact Hlb].
  Qed.

  Lemma sorted_set k v s : sorted s -> sorted (set k v s).
  Proof.
    induction s as [|[k' v'] r IH]; simpl; intros Hs; [auto|].
    destruct Hs as [Hlb Hr].
    destruct (bytes_eqb k k') eqn:E.
    - apply bytes_eqb_eq in E; subst k'. simpl. auto.
    - destruct (bytes_ltb k k') eqn:L; simpl.
      + auto.
      + split; [|apply IH; exact Hr].
        apply lb_set; [|exact Hlb].
        destruct (bytes_ltb_total k k') as [->|[H|H]]; [rewrite bytes_eqb_refl in E; discriminate | congruence | exact H].
  Qed.

  Lemma lb_del k0 k s : sorted s -> lb k0 s -> lb k0 (del k s).
  Proof.
    induction s as [|[k' v'] r IH]; simpl; intros Hs Hlb; [exact I|].
    destruct Hs as [Hlb' Hr].
    destruct (bytes_eqb k k'); simpl; [|exact Hlb].
    apply IH; [exact Hr|]. destruct r as [|[k2 v2] r2]; simpl in *; [exact I|].
    apply (bytes_ltb_trans _ k'); assumption.
  Qed.

  Lemma sorted_del k s : sorted s -> sorted (del k s).
  Proof.
    induction s as [|[k' v'] r IH]; simpl; intros Hs; [exact I|].
    destruct Hs as [Hlb Hr]. destruct (bytes_eqb k k'); simpl; [apply IH; exact Hr|].
    split; [apply lb_del; assumption | apply IH; exact Hr].
  Qed.

  (** ** extensionality for sorted stores *)
  Lemma sorted_ext s1 : forall s2, sorted s1 -> sorted s2 -> (forall k, get k s1 = get k s2) -> s1 = s2.
  Proof.
    induction s1 as [|[k1 v1] r1 IH]; intros [|[k2 v2] r2] H1 H2 Hext.
    - reflexivity.
    - specialize (Hext k2). simpl in Hext. rewrite bytes_eqb_refl in Hext. discriminate.
    - specialize (Hext k1). simpl in Hext. rewrite bytes_eqb_refl in Hext. discriminate.
    - destruct H1 as [L1 S1]. destruct H2 as [L2 S2].
      assert (Hk : k1 = k2).
      { destruct (bytes_ltb_total k1 k2) as [E|[H|H]]; [exact E| |].
        - pose proof (Hext k1) as G. simpl in G. rewrite bytes_eqb_refl in G.
          destruct (bytes_eqb k1 k2) eqn:E; [apply bytes_eqb_eq in E; exact E|].
          rewrite lb_get_None in G; [discriminate| |exact S2].
          destruct r2 as [|[k3 v3] r3]; simpl in *; [exact I|]. apply (bytes_ltb_trans _ k2); assumption.
        - pose proof (Hext k2) as G. simpl in G. rewrite bytes_eqb_refl in G.
          destruct (bytes_eqb k2 k1) eqn:E; [apply bytes_eqb_eq in E; symmetry; exact E|].
          rewrite lb_get_None in G; [discriminate| |exact S1].
          destruct r1 as [|[k3 v3] r3]; simpl in *; [exact I|]. apply (bytes_ltb_trans _ k1); assumption. }
      subst k2.
      assert (Hv : v1 = v2).
      { pose proof (Hext k1) as G. simpl in G. rewrite bytes_eqb_refl in G. congruence. }
      subst v2. f_equal. apply IH; [exact S1 | exact S2|].
      intros k. pose proof (Hext k) as G. simpl in G.
      destruct (bytes_eqb k k1) eqn:E; [|exact G].
      apply bytes_eqb_eq in E; subst k. rewrite !lb_get_None; auto.
  Qed.

  Lemma set_comm k1 v1 k2 v2 s :
    sorted s -> k1 <> k2 -> set k1 v1 (set k2 v2 s) = set k2 v2 (set k1 v1 s).
  Proof.
    intros Hs Hne. apply sorted_ext; try (apply sorted_set; apply sorted_set; exact Hs).
    intros k. rewrite !get_set.
    destruct (bytes_eqb k k1) eqn:E1, (bytes_eqb k k2) eqn:E2; try reflexivity.
    apply bytes_eqb_eq in E1. apply bytes_eqb_eq in E2. congruence.
  Qed.

  Lemma set_set k v1 v2 s : sorted s -> set k v2 (set k v1 s) = set k v2 s.
  Proof.
    intros Hs. apply sorted_ext; try (repeat apply sorted_set; exact Hs).
    intros k'. rewrite !get_set. destruct (bytes_eqb k' k); reflexivity.
  Qed.

  (** membership in terms of get *)
  Lemma In_keys_get k s : In k (keys s) <-> exists v, In (k, v) s.
  Proof.
    unfold keys. rewrite in_map_iff. split.
    - intros [[k' v] [E H]]. simpl in E. subst. exists v. exact H.
    - intros [v H]. exists (k, v). auto.
  Qed.

  Lemma sorted_NoDup_keys s : sorted s -> NoDup (keys s).
  Proof.
    induction s as [|[k v] r IH]; simpl; intros Hs; [constructor|].
    constructor; [|apply IH; apply Hs].
    intros Hin. apply In_keys_get in Hin as [v' Hin].
    pose proof (sorted_all_gt k v r Hs _ _ Hin) as C. rewrite bytes_ltb_irrefl in C. discriminate.
  Qed.

  Lemma sorted_filter (f : bytes * V -> bool) s : sorted s -> sorted (filter f s).
  Proof.
    induction s as [|[k v] r IH]; simpl; intros Hs; [exact I|].
    destruct (f (k, v)); [|apply IH; apply Hs].
    simpl. split; [|apply IH; apply Hs].
    destruct (filter f r) as [|[k' v'] r'] eqn:F; simpl; [exact I|].
    assert (Hin : In (k', v') (filter f r)) by (rewrite F; left; reflexivity).
    apply filter_In in Hin as [Hin _]. apply (sorted_all_gt k v r Hs _ _ Hin).
  Qed.
End KV.

Arguments store : clear implicits.
