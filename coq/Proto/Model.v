(** Protobuf (proto3) wire format as produced by gogoproto-generated [Marshal] for flat messages.
    Definitions only; everything here is executable and meant to be extracted.

    Scope: wire types 0 (varint) and 2 (length-delimited).  Nested messages are encoded bottom-up:
    the inner message is marshalled to bytes first and then appears as a length-delimited field. *)
From Coq Require Import List NArith Bool.
From Coq Require Import Strings.Byte.
From PV Require Import Base.Bytes.
Import ListNotations.
Local Open Scope N_scope.

(** ** base-128 varints *)

(** [varint_fuel fuel n]: little-endian 7-bit groups, msb of a byte = "more bytes follow".
    [fuel] bounds the number of continuation bytes; [N.size n] (the bit length) is always enough. *)
Fixpoint varint_fuel (fuel : nat) (n : N) : bytes :=
  match fuel with
  | O => [byte_of_N_mod n]
  | S f => if n <? 128 then [byte_of_N_mod n]
           else byte_of_N_mod (128 + n mod 128) :: varint_fuel f (n / 128)
  end.

(** the canonical (shortest) base-128 varint of an unbounded [N] *)
Definition varint (n : N) : bytes := varint_fuel (N.to_nat (N.size n)) n.

(** value and rest; [None] iff the input ends before a byte with a clear msb is seen.
    Lenient like the Go decoders: non-canonical encodings (trailing zero groups, e.g. [x80; x00])
    are accepted; there is no 64-bit overflow check since values are unbounded. *)
Fixpoint decode_varint (bz : bytes) : option (N * bytes) :=
  match bz with
  | [] => None
  | c :: r =>
      let v := Byte.to_N c in
      if v <? 128 then Some (v, r)
      else match decode_varint r with
           | Some (hi, r') => Some (v - 128 + 128 * hi, r')
           | None => None
           end
  end.

(** ** fields *)

(** wire types 0 and 2 *)
Inductive fval := FVarint (n : N) | FBytes (b : bytes).

(** field number (>= 1), value *)
Definition field := (N * fval)%type.

Definition wire_type (v : fval) : N := match v with FVarint _ => 0 | FBytes _ => 2 end.

Definition encode_fval (v : fval) : bytes :=
  match v with
  | FVarint n => varint n
  | FBytes x => varint (N.of_nat (length x)) ++ x
  end.

(** tag = varint (num * 8 + wire type), then the value *)
Definition encode_field (f : field) : bytes :=
  varint (fst f * 8 + wire_type (snd f)) ++ encode_fval (snd f).

Definition encode_fields (fs : list field) : bytes := concat (map encode_field fs).

(** rejects: truncated input, field number 0, wire types other than 0 and 2,
    a length prefix larger than what remains *)
Fixpoint decode_fields_fuel (fuel : nat) (bz : bytes) : option (list field) :=
  match bz with
  | [] => Some []
  | _ :: _ =>
      match fuel with
      | O => None
      | S f =>
          match decode_varint bz with
          | None => None
          | Some (tag, r) =>
              let num := tag / 8 in
              let wt := tag mod 8 in
              if num =? 0 then None
              else if wt =? 0 then
                match decode_varint r with
                | None => None
                | Some (v, r') =>
                    match decode_fields_fuel f r' with
                    | Some fs => Some ((num, FVarint v) :: fs)
                    | None => None
                    end
                end
              else if wt =? 2 then
                match decode_varint r with
                | None => None
                | Some (len, r') =>
                    if len <=? N.of_nat (length r') then
                      let k := N.to_nat len in
                      match decode_fields_fuel f (skipn k r') with
                      | Some fs => Some ((num, FBytes (firstn k r')) :: fs)
                      | None => None
                      end
                    else None
                end
              else None
          end
      end
  end.

(** every field consumes at least two bytes, so [length bz] is ample fuel *)
Definition decode_fields (bz : bytes) : option (list field) := decode_fields_fuel (length bz) bz.

(** ** proto3 message layer

    A schema-less canonical message, as gogoproto emits it: ascending field numbers, scalar fields
    holding the default value (0 / empty) omitted, repeated length-delimited fields emitted as
    consecutive entries with the same number, in order, including empty elements. *)
Inductive pfield :=
| PUint (num : N) (v : N)                 (* uint64 / any varint scalar: omitted iff v = 0 *)
| PBytes (num : N) (v : bytes)            (* string / bytes: omitted iff v = [] *)
| PRepeated (num : N) (vs : list bytes)   (* repeated string / bytes / message: every element emitted *)
| PMsg (num : N) (present : bool) (v : bytes).
   (* embedded message / pointer field, already marshalled: emitted (even when v = []) iff present *)

Definition pfield_num (p : pfield) : N :=
  match p with
  | PUint n _ | PBytes n _ | PRepeated n _ | PMsg n _ _ => n
  end.

Definition fields_of_pfield (p : pfield) : list field :=
  match p with
  | PUint num v => if v =? 0 then [] else [(num, FVarint v)]
  | PBytes num v => match v with [] => [] | _ :: _ => [(num, FBytes v)] end
  | PRepeated num vs => map (fun v => (num, FBytes v)) vs
  | PMsg num present v => if present then [(num, FBytes v)] else []
  end.

Definition fields_of (m : list pfield) : list field := flat_map fields_of_pfield m.

Definition marshal (m : list pfield) : bytes := encode_fields (fields_of m).

(** ** instances *)

(** DID sign bytes: [DataWithSeq { bytes data = 1; uint64 sequence = 2; }] *)
Definition signbytes (data : bytes) (seq : N) : bytes := marshal [PBytes 1 data; PUint 2 seq].

(** [google.protobuf.Any { string type_url = 1; bytes value = 2; }] *)
Definition any (type_url value : bytes) : bytes := marshal [PBytes 1 type_url; PBytes 2 value].

(** the [messages] part of a [TxBody]: [repeated Any messages = 1], each already marshalled *)
Definition body (msgs : list bytes) : bytes := marshal [PRepeated 1 msgs].
