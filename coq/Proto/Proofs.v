(** Protobuf wire format: round trips and injectivity (see Proto/Model.v). *)
From Coq Require Import List Arith NArith ZArith Bool Lia.
From Coq Require Import Strings.Byte.
From Coq Require Import ZifyN ZifyNat. Ltac Zify.zify_post_hook ::= Z.div_mod_to_equations.
From PV Require Import Base.Bytes Proto.Model.
Import ListNotations.
Local Open Scope N_scope.

(** ** bytes <-> N (local copies, to keep this file independent of Compkey) *)
Lemma byte_of_N_mod_to_N n : Byte.to_N (byte_of_N_mod n) = n mod 256.
Proof.
  unfold byte_of_N_mod. destruct (Byte.of_N (n mod 256)) as [c|] eqn:E.
  - apply Byte.to_of_N. exact E.
  - apply Byte.of_N_None_iff in E. pose proof (N.mod_upper_bound n 256). lia.
Qed.

(** ** 1. varints *)

Lemma decode_varint_cons c r :
  decode_varint (c :: r) =
  if Byte.to_N c <? 128 then Some (Byte.to_N c, r)
  else match decode_varint r with
       | Some (hi, r') => Some (Byte.to_N c - 128 + 128 * hi, r')
       | None => None
       end.
Proof. reflexivity. Qed.

Lemma varint_fuel_S f n :
  varint_fuel (S f) n =
  if n <? 128 then [byte_of_N_mod n]
  else byte_of_N_mod (128 + n mod 128) :: varint_fuel f (n / 128).
Proof. reflexivity. Qed.

Lemma decode_varint_small n rest :
  n < 128 -> decode_varint (byte_of_N_mod n :: rest) = Some (n, rest).
Proof.
  intros Hn. rewrite decode_varint_cons, byte_of_N_mod_to_N.
  assert (E : n mod 256 = n) by lia. rewrite E.
  assert (L : (n <? 128) = true) by (apply N.ltb_lt; exact Hn). rewrite L. reflexivity.
Qed.

Lemma decode_varint_fuel_encode fuel : forall n rest,
  n < 2 ^ N.of_nat fuel ->
  decode_varint (varint_fuel fuel n ++ rest) = Some (n, rest).
Proof.
  induction fuel as [|f IH]; intros n rest Hn.
  - change (2 ^ N.of_nat 0) with 1 in Hn. cbn [varint_fuel app].
    apply decode_varint_small. lia.
  - rewrite varint_fuel_S. destruct (n <? 128) eqn:L.
    + apply N.ltb_lt in L. cbn [app]. apply decode_varint_small. exact L.
    + apply N.ltb_ge in L. rewrite Nat2N.inj_succ, N.pow_succ_r' in Hn.
      cbn [app]. rewrite decode_varint_cons, byte_of_N_mod_to_N.
      assert (E : (128 + n mod 128) mod 256 = 128 + n mod 128) by lia. rewrite E.
      assert (G : (128 + n mod 128 <? 128) = false) by (apply N.ltb_ge; lia). rewrite G.
      rewrite IH by (remember (2 ^ N.of_nat f) as p; lia).
      f_equal. f_equal. lia.
Qed.

Theorem decode_varint_encode : forall n rest, decode_varint (varint n ++ rest) = Some (n, rest).
Proof.
  intros n rest. unfold varint. apply decode_varint_fuel_encode.
  rewrite N2Nat.id. apply N.size_gt.
Qed.

Lemma varint_fuel_nonempty fuel n : varint_fuel fuel n <> [].
Proof.
  destruct fuel as [|f]; [discriminate|]. rewrite varint_fuel_S.
  destruct (n <? 128); discriminate.
Qed.

Theorem varint_nonempty : forall n, varint n <> [].
Proof. intros n. apply varint_fuel_nonempty. Qed.

(** a varint is self-delimiting: no need to know where it ends *)
Theorem varint_app_inj : forall a c ra rc, varint a ++ ra = varint c ++ rc -> a = c /\ ra = rc.
Proof.
  intros a c ra rc H.
  pose proof (decode_varint_encode a ra) as Ha. rewrite H, decode_varint_encode in Ha.
  inversion Ha. split; reflexivity.
Qed.

Theorem varint_inj : forall a c, varint a = varint c -> a = c.
Proof.
  intros a c H. apply (varint_app_inj a c [] []). rewrite H. reflexivity.
Qed.

(** ** 2. field lists *)

Lemma firstn_length_app {A} (x y : list A) : firstn (length x) (x ++ y) = x.
Proof. induction x as [|a x IH]; cbn [length firstn app]; [destruct y|rewrite IH]; reflexivity. Qed.

Lemma skipn_length_app {A} (x y : list A) : skipn (length x) (x ++ y) = y.
Proof. induction x as [|a x IH]; cbn [length skipn app]; [reflexivity|exact IH]. Qed.

Lemma encode_fields_cons f fs : encode_fields (f :: fs) = encode_field f ++ encode_fields fs.
Proof. reflexivity. Qed.

Lemma encode_fields_app fs gs : encode_fields (fs ++ gs) = encode_fields fs ++ encode_fields gs.
Proof. unfold encode_fields. rewrite map_app, concat_app. reflexivity. Qed.

Lemma encode_field_nonempty f : encode_field f <> [].
Proof.
  unfold encode_field. intros H. apply app_eq_nil in H as [H _]. exact (varint_nonempty _ H).
Qed.

(** one decoding step on a well-formed field followed by anything *)
Lemma decode_fields_fuel_step f num v rest :
  1 <= num ->
  decode_fields_fuel (S f) (encode_field (num, v) ++ rest) =
  match decode_fields_fuel f rest with
  | Some fs => Some ((num, v) :: fs)
  | None => None
  end.
Proof.
  intros Hnum. unfold encode_field. cbn [fst snd]. rewrite <- app_assoc.
  destruct (varint (num * 8 + wire_type v) ++ encode_fval v ++ rest) as [|c0 r0] eqn:E0.
  { apply app_eq_nil in E0 as [E0 _]. exfalso. exact (varint_nonempty _ E0). }
  cbn [decode_fields_fuel]. rewrite <- E0, decode_varint_encode.
  assert (Hwt : wire_type v = 0 \/ wire_type v = 2) by (destruct v; cbn [wire_type]; auto).
  assert (Enum : (num * 8 + wire_type v) / 8 = num) by lia.
  rewrite Enum.
  assert (Nz : (num =? 0) = false) by (apply N.eqb_neq; lia). rewrite Nz.
  destruct v as [n|x]; cbn [wire_type encode_fval].
  - assert (Ewt : (num * 8 + 0) mod 8 = 0) by lia. rewrite Ewt.
    cbn [N.eqb]. rewrite decode_varint_encode. reflexivity.
  - assert (Ewt : (num * 8 + 2) mod 8 = 2) by lia. rewrite Ewt.
    change (2 =? 0) with false. change (2 =? 2) with true. cbv iota.
    rewrite <- app_assoc, decode_varint_encode.
    assert (Hle : (N.of_nat (length x) <=? N.of_nat (length (x ++ rest))) = true).
    { apply N.leb_le. rewrite app_length. lia. }
    rewrite Hle, Nat2N.id, firstn_length_app, skipn_length_app. reflexivity.
Qed.

Lemma decode_fuel_encode_fields fs : forall fuel,
  Forall (fun f => 1 <= fst f) fs ->
  (length (encode_fields fs) <= fuel)%nat ->
  decode_fields_fuel fuel (encode_fields fs) = Some fs.
Proof.
  induction fs as [|[num v] fs IH]; intros fuel Hall Hfuel.
  - destruct fuel; reflexivity.
  - inversion Hall as [|? ? Hnum Hall']; subst. cbn [fst] in Hnum.
    rewrite encode_fields_cons in *. rewrite app_length in Hfuel.
    pose proof (encode_field_nonempty (num, v)) as Hne.
    destruct (encode_field (num, v)) as [|c0 e0] eqn:E; [contradiction|]. rewrite <- E.
    cbn [length] in Hfuel.
    destruct fuel as [|f]; [lia|].
    rewrite decode_fields_fuel_step by exact Hnum.
    rewrite IH; [reflexivity | exact Hall' | lia].
Qed.

Theorem decode_encode_fields : forall fs,
  Forall (fun f => 1 <= fst f) fs -> decode_fields (encode_fields fs) = Some fs.
Proof.
  intros fs Hall. unfold decode_fields. apply decode_fuel_encode_fields; [exact Hall|lia].
Qed.

Theorem encode_fields_inj : forall fs gs,
  Forall (fun f => 1 <= fst f) fs -> Forall (fun f => 1 <= fst f) gs ->
  encode_fields fs = encode_fields gs -> fs = gs.
Proof.
  intros fs gs Hf Hg H.
  pose proof (decode_encode_fields fs Hf) as Df. rewrite H, (decode_encode_fields gs Hg) in Df.
  inversion Df. reflexivity.
Qed.

(** ** 3. messages *)

(** same length, same constructor and same field number, position by position *)
Definition same_shape_pfield (p q : pfield) : Prop :=
  match p, q with
  | PUint n _, PUint n' _ => n = n'
  | PBytes n _, PBytes n' _ => n = n'
  | PRepeated n _, PRepeated n' _ => n = n'
  | PMsg n _ _, PMsg n' _ _ => n = n'
  | _, _ => False
  end.
Definition same_shape (m1 m2 : list pfield) : Prop := Forall2 same_shape_pfield m1 m2.

(** field numbers strictly increasing and all > lo *)
Fixpoint ascending_from (lo : N) (m : list pfield) : Prop :=
  match m with
  | [] => True
  | p :: m' => lo < pfield_num p /\ ascending_from (pfield_num p) m'
  end.
(** field numbers strictly increasing and all >= 1 *)
Definition ascending (m : list pfield) : Prop := ascending_from 0 m.

(** equality, except that an absent embedded message carries no information *)
Definition pfield_equiv (p q : pfield) : Prop :=
  match p, q with
  | PMsg n false _, PMsg n' false _ => n = n'
  | _, _ => p = q
  end.
Definition msg_equiv (m1 m2 : list pfield) : Prop := Forall2 pfield_equiv m1 m2.
Infix "≈" := msg_equiv (at level 70).

Lemma same_shape_num p q : same_shape_pfield p q -> pfield_num p = pfield_num q.
Proof. destruct p, q; cbn [same_shape_pfield pfield_num]; intros H; try contradiction; exact H. Qed.

Lemma ascending_from_weaken lo lo' m : lo' <= lo -> ascending_from lo m -> ascending_from lo' m.
Proof.
  destruct m as [|p m]; cbn [ascending_from]; [auto|]. intros Hle [H1 H2]. split; [lia|exact H2].
Qed.

Lemma ascending_from_shape m1 : forall m2 lo,
  same_shape m1 m2 -> ascending_from lo m1 -> ascending_from lo m2.
Proof.
  induction m1 as [|p m1 IH]; intros m2 lo Hs Ha; inversion Hs as [|? q ? m2' Hpq Hs']; subst.
  - exact I.
  - cbn [ascending_from] in *. destruct Ha as [H1 H2].
    rewrite <- (same_shape_num _ _ Hpq). split; [exact H1|]. apply IH; assumption.
Qed.

Lemma fields_of_cons p m : fields_of (p :: m) = fields_of_pfield p ++ fields_of m.
Proof. reflexivity. Qed.

Lemma fields_of_pfield_num p : Forall (fun f => fst f = pfield_num p) (fields_of_pfield p).
Proof.
  destruct p as [n v|n v|n vs|n pr v]; cbn [fields_of_pfield pfield_num].
  - destruct (v =? 0); repeat constructor.
  - destruct v; repeat constructor.
  - induction vs as [|v vs IH]; cbn [map]; constructor; [reflexivity|exact IH].
  - destruct pr; repeat constructor.
Qed.

Lemma fields_of_ascending m : forall lo,
  ascending_from lo m -> Forall (fun f => lo < fst f) (fields_of m).
Proof.
  induction m as [|p m IH]; intros lo Ha.
  - constructor.
  - cbn [ascending_from] in Ha. destruct Ha as [H1 H2]. rewrite fields_of_cons.
    apply Forall_app. split.
    + eapply Forall_impl; [|apply fields_of_pfield_num].
      intros f Hf. cbn beta in Hf. rewrite Hf. exact H1.
    + eapply Forall_impl; [|apply (IH _ H2)]. intros f Hf. cbn beta in *. lia.
Qed.

Lemma fields_of_ascending_ok m :
  ascending m -> Forall (fun f => 1 <= fst f) (fields_of m).
Proof.
  intros Ha. eapply Forall_impl; [|apply (fields_of_ascending m 0 Ha)].
  intros f Hf. cbn beta in *. lia.
Qed.

(** grouping by field number: a run of fields numbered [n] followed by fields numbered above [n]
    splits uniquely *)
Lemma split_run (n : N) (l1 : list field) : forall l2 r1 r2,
  Forall (fun f => fst f = n) l1 -> Forall (fun f => fst f = n) l2 ->
  Forall (fun f => n < fst f) r1 -> Forall (fun f => n < fst f) r2 ->
  l1 ++ r1 = l2 ++ r2 -> l1 = l2 /\ r1 = r2.
Proof.
  induction l1 as [|a l1 IH]; intros l2 r1 r2 H1 H2 G1 G2 E.
  - destruct l2 as [|c l2]; [split; [reflexivity|exact E]|].
    exfalso. cbn [app] in E. subst r1.
    inversion G1 as [|? ? Gc _]; subst. inversion H2 as [|? ? Hc _]; subst. lia.
  - destruct l2 as [|c l2].
    + exfalso. cbn [app] in E. subst r2.
      inversion G2 as [|? ? Ga _]; subst. inversion H1 as [|? ? Ha _]; subst. lia.
    + cbn [app] in E. inversion E; subst.
      inversion H1; subst. inversion H2; subst.
      destruct (IH l2 r1 r2) as [-> ->]; try assumption. split; reflexivity.
Qed.

Lemma map_FBytes_inj (n : N) (vs : list bytes) : forall ws,
  map (fun v => (n, FBytes v)) vs = map (fun v => (n, FBytes v)) ws -> vs = ws.
Proof.
  induction vs as [|v vs IH]; intros [|w ws] H; cbn [map] in H; try discriminate; [reflexivity|].
  inversion H; subst. f_equal. apply IH. assumption.
Qed.

(** the fields emitted for one pfield determine it (up to the payload of an absent message) *)
Lemma fields_of_pfield_inj p q :
  same_shape_pfield p q -> fields_of_pfield p = fields_of_pfield q -> pfield_equiv p q.
Proof.
  destruct p as [n v|n v|n vs|n pr v], q as [n' v'|n' v'|n' vs'|n' pr' v'];
    cbn [same_shape_pfield]; intros Hs; try contradiction; subst n';
    cbn [fields_of_pfield]; intros H.
  - cbn [pfield_equiv].
    destruct (v =? 0) eqn:E1, (v' =? 0) eqn:E2; try discriminate.
    + apply N.eqb_eq in E1, E2. subst. reflexivity.
    + inversion H. reflexivity.
  - cbn [pfield_equiv]. destruct v, v'; try discriminate; [reflexivity|].
    inversion H. reflexivity.
  - cbn [pfield_equiv]. apply map_FBytes_inj in H. subst. reflexivity.
  - destruct pr, pr'; try discriminate; cbn [pfield_equiv]; [|reflexivity].
    inversion H. reflexivity.
Qed.

Lemma fields_of_inj m1 : forall m2 lo,
  ascending_from lo m1 -> same_shape m1 m2 -> fields_of m1 = fields_of m2 -> m1 ≈ m2.
Proof.
  induction m1 as [|p m1 IH]; intros m2 lo Ha Hs E; inversion Hs as [|? q ? m2' Hpq Hs']; subst.
  - constructor.
  - pose proof (ascending_from_shape _ _ _ Hs Ha) as Ha2.
    cbn [ascending_from] in Ha, Ha2. destruct Ha as [_ Ha]. destruct Ha2 as [_ Ha2].
    rewrite !fields_of_cons in E.
    pose proof (same_shape_num _ _ Hpq) as Hn.
    destruct (split_run (pfield_num p) _ _ _ _
                (fields_of_pfield_num p)
                (eq_ind_r (fun k => Forall (fun f => fst f = k) (fields_of_pfield q))
                          (fields_of_pfield_num q) Hn)
                (fields_of_ascending _ _ Ha)
                (eq_ind_r (fun k => Forall (fun f => k < fst f) (fields_of m2'))
                          (fields_of_ascending _ _ Ha2) Hn)
                E) as [E1 E2].
    constructor.
    + apply fields_of_pfield_inj; assumption.
    + apply (IH m2' (pfield_num p)); assumption.
Qed.

Theorem marshal_fields_of : forall m, marshal m = encode_fields (fields_of m).
Proof. reflexivity. Qed.

Theorem marshal_inj : forall m1 m2,
  ascending m1 -> same_shape m1 m2 -> marshal m1 = marshal m2 -> m1 ≈ m2.
Proof.
  intros m1 m2 Ha Hs E. unfold marshal in E.
  apply (fields_of_inj m1 m2 0 Ha Hs).
  apply encode_fields_inj; [apply fields_of_ascending_ok; exact Ha | | exact E].
  apply fields_of_ascending_ok. exact (ascending_from_shape _ _ _ Hs Ha).
Qed.

(** when no embedded message is absent, [≈] is plain equality *)
Definition no_absent (p : pfield) : Prop := match p with PMsg _ false _ => False | _ => True end.

Lemma msg_equiv_eq m1 : forall m2, Forall no_absent m1 -> m1 ≈ m2 -> m1 = m2.
Proof.
  induction m1 as [|p m1 IH]; intros m2 Hall He; inversion He as [|? q ? m2' Hpq He']; subst.
  - reflexivity.
  - inversion Hall as [|? ? Hp Hall']; subst. f_equal; [|apply IH; assumption].
    destruct p as [n v|n v|n vs|n [|] v]; cbn [pfield_equiv no_absent] in *;
      try exact Hpq; contradiction.
Qed.

Corollary marshal_inj_eq : forall m1 m2,
  ascending m1 -> Forall no_absent m1 -> same_shape m1 m2 -> marshal m1 = marshal m2 -> m1 = m2.
Proof.
  intros m1 m2 Ha Hn Hs E. apply msg_equiv_eq; [exact Hn|]. apply marshal_inj; assumption.
Qed.

(** ** 4. DID sign bytes *)

Theorem signbytes_inj : forall d s d' s',
  signbytes d s = signbytes d' s' -> d = d' /\ s = s'.
Proof.
  intros d s d' s' H. unfold signbytes in H.
  apply marshal_inj_eq in H.
  - inversion H. split; reflexivity.
  - cbn [ascending ascending_from pfield_num]. lia.
  - repeat constructor.
  - repeat constructor.
Qed.

(** ** 5. Any and the message list of a transaction body *)

Theorem any_inj : forall t v t' v', any t v = any t' v' -> t = t' /\ v = v'.
Proof.
  intros t v t' v' H. unfold any in H.
  apply marshal_inj_eq in H.
  - inversion H. split; reflexivity.
  - cbn [ascending ascending_from pfield_num]. lia.
  - repeat constructor.
  - repeat constructor.
Qed.

Theorem body_inj : forall a c, body a = body c -> a = c.
Proof.
  intros a c H. unfold body in H.
  apply marshal_inj_eq in H.
  - inversion H. reflexivity.
  - cbn [ascending ascending_from pfield_num]. lia.
  - repeat constructor.
  - repeat constructor.
Qed.

(** ** examples *)

Example varint_300 : varint 300 = [xac; x02].
Proof. vm_compute. reflexivity. Qed.

Example varint_0 : varint 0 = [x00].
Proof. vm_compute. reflexivity. Qed.

Example varint_max_uint64 :
  varint 18446744073709551615 = [xff; xff; xff; xff; xff; xff; xff; xff; xff; x01].
Proof. vm_compute. reflexivity. Qed.

(** data = 0a 01 61, sequence = 1  ->  0a 03 0a 01 61 10 01 *)
Example signbytes_ex : signbytes [x0a; x01; x61] 1 = [x0a; x03; x0a; x01; x61; x10; x01].
Proof. vm_compute. reflexivity. Qed.

(** defaults are omitted: empty data, sequence 0 -> empty message *)
Example signbytes_defaults : signbytes [] 0 = [].
Proof. vm_compute. reflexivity. Qed.

(** a repeated field keeps its empty elements *)
Example repeated_with_empty :
  body [[x01]; []; [x02; x03]] = [x0a; x01; x01; x0a; x00; x0a; x02; x02; x03].
Proof. vm_compute. reflexivity. Qed.

Example repeated_with_empty_decodes :
  decode_fields (body [[x01]; []; [x02; x03]])
  = Some [(1, FBytes [x01]); (1, FBytes []); (1, FBytes [x02; x03])].
Proof. vm_compute. reflexivity. Qed.

(** a present-but-empty embedded message is emitted, an absent one is not *)
Example pmsg_present_empty : marshal [PMsg 3 true []] = [x1a; x00].
Proof. vm_compute. reflexivity. Qed.
Example pmsg_absent : marshal [PMsg 3 false [x01]] = [].
Proof. vm_compute. reflexivity. Qed.

(** the decoder is lenient on non-canonical varints, strict on everything else *)
Example decode_varint_noncanonical : decode_varint [x80; x00] = Some (0, []).
Proof. vm_compute. reflexivity. Qed.
Example decode_fields_rejects_wt5 : decode_fields [x0d; x00] = None.
Proof. vm_compute. reflexivity. Qed.
Example decode_fields_rejects_num0 : decode_fields [x00; x00] = None.
Proof. vm_compute. reflexivity. Qed.
Example decode_fields_rejects_short : decode_fields [x0a; x02; x00] = None.
Proof. vm_compute. reflexivity. Qed.

Print Assumptions decode_varint_encode.
Print Assumptions varint_nonempty.
Print Assumptions varint_inj.
Print Assumptions varint_app_inj.
Print Assumptions decode_encode_fields.
Print Assumptions encode_fields_inj.
Print Assumptions marshal_inj.
Print Assumptions marshal_inj_eq.
Print Assumptions signbytes_inj.
Print Assumptions any_inj.
Print Assumptions body_inj.
