(** C18 — Composite keys: lossless, collision-free and prefix-exact.
    This file contains only the property theorems; each is closed by [exact <lemma>]. *)
From Coq Require Import Strings.String Strings.Byte.
From Coq Require Import List Arith NArith Bool.
From PV Require Import Base.Bytes Base.Outcome Compkey.Model Compkey.Proofs.
From PV Require Generated.GenConst.
Import ListNotations.

(** encode then decode returns the same tuple, for every tuple whose components are at most 255 bytes *)
Theorem C18_roundtrip : forall vs bz, encode vs = Some bz -> decode bz = Some vs.
Proof. exact decode_encode. Qed.
Print Assumptions C18_roundtrip.

Theorem C18_encodes_iff_short : forall vs, (exists bz, encode vs = Some bz) <-> Forall (fun v => length v <= 255) vs.
Proof. exact encode_Some_iff. Qed.
Print Assumptions C18_encodes_iff_short.

(** components longer than 255 bytes are rejected, never truncated *)
Theorem C18_reject_long : forall vs, encode vs = None <-> Exists (fun v => 255 < length v) vs.
Proof. exact encode_None_iff. Qed.
Print Assumptions C18_reject_long.

(** every byte string the decoder accepts is the canonical encoding of what it returns;
    every other byte string is rejected *)
Theorem C18_decode_sound : forall bz vs, decode bz = Some vs -> encode vs = Some bz.
Proof. exact decode_sound. Qed.
Print Assumptions C18_decode_sound.

Theorem C18_decode_total_or_reject : forall bz,
  (exists vs, decode bz = Some vs /\ encode vs = Some bz) \/ (decode bz = None /\ forall vs, encode vs <> Some bz).
Proof. exact decode_total_or_reject. Qed.
Print Assumptions C18_decode_total_or_reject.

(** two different tuples never encode to the same bytes *)
Theorem C18_injective : forall a c x, encode a = Some x -> encode c = Some x -> a = c.
Proof. exact encode_injective. Qed.
Print Assumptions C18_injective.

(** the encoding of the first k components of [a] is a byte-prefix of the encoding of [c]
    exactly when the first k components of [c] are those of [a] *)
Theorem C18_prefix_exact : forall (k : nat) a c p q,
  k <= length a ->
  encode (firstn k a) = Some p -> encode c = Some q ->
  (is_prefix p q = true <-> k <= length c /\ firstn k c = firstn k a).
Proof. exact prefix_exact. Qed.
Print Assumptions C18_prefix_exact.

(** the four AOL key types *)
Theorem C18_typed_roundtrip : forall strict k bz,
  wf_key k -> encode_key k = Some bz -> decode_key strict (kind_of k) bz = Ok k.
Proof. exact typed_roundtrip. Qed.
Print Assumptions C18_typed_roundtrip.

Theorem C18_typed_encodes : forall k, wf_key k -> exists bz, encode_key k = Some bz.
Proof. exact wf_key_encodes. Qed.
Print Assumptions C18_typed_encodes.

Theorem C18_typed_decode_sound : forall kind bz k,
  decode_key true kind bz = Ok k -> encode_key k = Some bz /\ kind_of k = kind /\ wf_key k.
Proof. exact typed_decode_sound. Qed.
Print Assumptions C18_typed_decode_sound.

Theorem C18_typed_decode_never_panics : forall kind bz, decode_key true kind bz <> Panic.
Proof. exact typed_decode_never_panics. Qed.
Print Assumptions C18_typed_decode_never_panics.

(** why the record-key decoder needed the 8-byte check (finding F12, repaired) *)
Theorem C18_record_decode_lenient_refuted :
  (exists bz k, decode_key false KRecord bz = Ok k /\ encode_key k <> Some bz) /\
  (exists bz1 bz2 k, bz1 <> bz2 /\ decode_key false KRecord bz1 = Ok k /\ decode_key false KRecord bz2 = Ok k) /\
  (exists bz, decode_key false KRecord bz = Panic).
Proof. exact record_decode_lenient_refuted. Qed.
Print Assumptions C18_record_decode_lenient_refuted.

(** the string form used as genesis map keys; the two premises about bech32 are part of the
    trusted base and are proved for the table-based instance used by the correspondence check *)
Theorem C18_string_roundtrip :
  forall (bech : bytes -> bytes) (unbech : bytes -> option bytes),
  (forall a, verify_address_format a = true -> unbech (bech a) = Some a) ->
  (forall a, no_byte sep (bech a)) ->
  forall k, wf_key k ->
    (match k with
     | OwnerKey _ => True
     | TopicKey _ t | WriterKey _ t _ | RecordKey _ t _ => no_byte sep t
     end) ->
    decode_from_string unbech (kind_of k) (encode_to_string bech k) = Some k.
Proof. exact string_roundtrip. Qed.
Print Assumptions C18_string_roundtrip.

Theorem C18_decimal_roundtrip : forall n, parse_dec (print_dec n) = Some n.
Proof. exact parse_print_dec. Qed.
Print Assumptions C18_decimal_roundtrip.

(** tie to the source (regenerated on every run): the separator used by the genesis code is the one
    the string-form theorems are about *)
Theorem C18_separator_is_slash : GenConst.genesis_key_separator = [sep].
Proof. reflexivity. Qed.
Print Assumptions C18_separator_is_slash.

(** non-vacuity: a tuple with a 255-byte component, an empty one and one holding the others' length bytes *)
Example C18_nonvacuous :
  let vs := [repeat x01 255; []; [xff; x00; x01]] in
  exists bz, encode vs = Some bz /\ decode bz = Some vs /\ length bz = 261.
Proof. eexists. split; [vm_compute; reflexivity|]. split; vm_compute; reflexivity. Qed.
