(** C11 — A DID resolves to a document about itself; proofs are bound to one DID.
    Only property theorems; each is closed by [exact <lemma>]. *)
From Coq Require Import Strings.String Strings.Byte.
From Coq Require Import List Arith NArith ZArith Bool.
From PV Require Import Base.Bytes Base.Outcome Base.KV Did.Model Did.Props.
From PV Require Import Chain.Model Chain.Run Chain.DidProps Chain.ExampleDid.
From PV Require Base.Base64 Chain.DidGenesisInv.
Import ListNotations.

(** whatever the read operation returns for [did], after any history from a registry satisfying the
    invariant (in particular from the empty one), is a document whose id is [did] *)
Theorem C11_key_equals_doc_id : forall o bs c did doc seq,
  Inv_did (c_did c) -> q_did (c_did (run o c bs)) did = DFound doc seq -> doc_id doc = did.
Proof. exact resolves_to_itself_along_histories. Qed.
Print Assumptions C11_key_equals_doc_id.

(** stateless validation (as repaired, F3) only lets through create/update messages whose document is
    about the DID the message names — so a proof made for one DID cannot write under another *)
Theorem C11_proof_bound_to_did : forall unbech did doc sig from,
  vb_create_update unbech true did doc sig from = Ok tt ->
  validate_did did = true /\ exists d, doc = Some d /\ doc_id d = did /\ doc_empty d = false.
Proof. exact vb_create_update_strict. Qed.
Print Assumptions C11_proof_bound_to_did.

(** the unrepaired validator (strict = false) admitted a document about another DID and an empty-id
    document: the two shapes of finding F3 *)
Theorem C11_lenient_refuted :
  exists unbech did doc sig from,
    vb_create_update unbech false did (Some doc) sig from = Ok tt /\ doc_id doc <> did.
Proof.
  exists (fun _ => Some [x01]), D1, empty_doc, [x01], [x01]. split; [vm_compute; reflexivity | discriminate].
Qed.
Print Assumptions C11_lenient_refuted.

Example C11_nonvacuous :
  forall doc seq, q_did (c_did (run did_oracles empty_chain (firstn 2 did_history))) D1 = DFound doc seq ->
                  doc_id doc = D1 /\ seq = 2%N.
Proof.
  intros doc seq H. vm_compute in H. inversion H; subst. split; reflexivity.
Qed.

(** the start of a chain: InitGenesis of a DID genesis that GenesisState.Validate (as repaired, F14) accepts establishes
    the registry invariant the history theorems start from *)
Theorem C11_validated_genesis_establishes_invariant : forall g,
  validate_did_genesis g = true -> Inv_did (init_did g []).
Proof. exact Chain.DidGenesisInv.did_genesis_establishes_inv. Qed.
Print Assumptions C11_validated_genesis_establishes_invariant.

Theorem C11_validated_genesis_then_any_history : forall o bs c g did doc seq,
  validate_did_genesis g = true -> c_did c = init_did g [] ->
  q_did (c_did (run o c bs)) did = DFound doc seq -> doc_id doc = did.
Proof. exact Chain.DidGenesisInv.did_genesis_then_history_resolves. Qed.
Print Assumptions C11_validated_genesis_then_any_history.

(** the original validation accepted a genesis that files a document under another identifier (F14) *)
Theorem C11_genesis_lenient_refuted :
  validate_did_genesis_gen false Chain.DidGenesisInv.foreign_genesis = true /\
  validate_did_genesis Chain.DidGenesisInv.foreign_genesis = false /\
  exists doc seq, q_did (init_did Chain.DidGenesisInv.foreign_genesis []) Chain.DidGenesisInv.D2 = DFound doc seq /\
                  doc_id doc <> Chain.DidGenesisInv.D2.
Proof. exact Chain.DidGenesisInv.did_genesis_lenient_refuted. Qed.
Print Assumptions C11_genesis_lenient_refuted.

(** the read operation as clients call it (did_base64 field, Go's base64.StdEncoding.DecodeString modelled in Base/Base64.v and
    compared with the real handler on padded, unpadded, URL-alphabet, broken and over-long fields): a document comes back
    only for a field that decodes, and it is about the decoded identifier; the standard encoding of a DID reads that DID *)
Theorem C11_read_returns_document_about_decoded_request : forall st raw doc seq,
  Inv_did st -> q_did64 st raw = Some (DFound doc seq) ->
  exists did, Base.Base64.b64_decode raw = Some did /\ doc_id doc = did.
Proof. exact Chain.DidGenesisInv.q_did64_about_the_request. Qed.
Print Assumptions C11_read_returns_document_about_decoded_request.

Theorem C11_wellformed_request_reads_its_did : forall st did, q_did64 st (Base.Base64.base64 did) = Some (q_did st did).
Proof. exact Chain.DidGenesisInv.q_did64_wellformed. Qed.
Print Assumptions C11_wellformed_request_reads_its_did.
