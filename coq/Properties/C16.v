(** C16 — Stateless acceptance equals the documented limits, for every field value.
    Only property theorems; each is closed by [exact <lemma>]. *)
From Coq Require Import Strings.String Strings.Byte.
From Coq Require Import List Arith NArith ZArith Bool.
From PV Require Import Base.Bytes Base.Outcome Base.KV Compkey.Model.
From PV Require Import Aol.Model Aol.Spec Aol.StoredSpec Valid.Aol Did.Model Pnft.Model Valid.Spec Valid.Iff.
From PV Require Import Chain.Model Chain.Run Chain.StoredProps.
From PV Require Generated.GenConst.
Import ListNotations.

(** ties to the source, regenerated on every run: the regular expressions and limits the model's
    character classes and bounds stand for *)
Theorem C16_regex_ties :
  GenConst.regex_topic_name = b "^[A-Za-z0-9._-]+$" /\ GenConst.regex_moniker = b "^[A-Za-z0-9._-]*$" /\
  GenConst.regex_vm_id_suffix = b "^\S+$" /\ GenConst.regex_did_format = b "did:%s:[%s]{32,44}" /\
  GenConst.regex_did_anchor_format = b "^%s$" /\ GenConst.regex_pubkey_format = b "^[%s]+$".
Proof. exact regex_ties. Qed.
Print Assumptions C16_regex_ties.

Theorem C16_limits_ties :
  GenConst.max_topic_length = 70%N /\ GenConst.max_moniker_length = 70%N /\ GenConst.max_description_length = 5000%N /\
  GenConst.max_record_key_length = 70%N /\ GenConst.max_record_value_length = 5000%N /\ GenConst.max_vm_id_len = 128%N /\
  GenConst.did_method = b "panacea" /\
  GenConst.base58_charset = b "123456789ABCDEFGHJKLMNPQRSTUVWXYZabcdefghijkmnopqrstuvwxyz" /\
  GenConst.context_did_v1 = b "https://www.w3.org/ns/did/v1".
Proof. exact limits_ties. Qed.
Print Assumptions C16_limits_ties.

(** AOL *)
Theorem C16_create_topic_iff : forall unbech t d o, vb_create_topic unbech t d o = Ok tt <-> spec_create_topic unbech t d o.
Proof. exact Valid.Iff.C16_create_topic_iff. Qed.
Print Assumptions C16_create_topic_iff.
Theorem C16_add_writer_iff : forall unbech t m d w o, vb_add_writer unbech t m d w o = Ok tt <-> spec_add_writer unbech t m d w o.
Proof. exact Valid.Iff.C16_add_writer_iff. Qed.
Print Assumptions C16_add_writer_iff.
Theorem C16_delete_writer_iff : forall unbech t w o, vb_delete_writer unbech t w o = Ok tt <-> spec_delete_writer unbech t w o.
Proof. exact Valid.Iff.C16_delete_writer_iff. Qed.
Print Assumptions C16_delete_writer_iff.
Theorem C16_add_record_iff : forall unbech t k v w o f, vb_add_record unbech t k v w o f = Ok tt <-> spec_add_record unbech t k v w o f.
Proof. exact Valid.Iff.C16_add_record_iff. Qed.
Print Assumptions C16_add_record_iff.

(** DID (the repaired validators) *)
Theorem C16_did_create_update_iff : forall unbech did doc sig from,
  vb_create_update unbech true did doc sig from = Ok tt <-> spec_did_create_update unbech did doc sig from.
Proof. exact Valid.Iff.C16_did_create_update_iff. Qed.
Print Assumptions C16_did_create_update_iff.
Theorem C16_did_deactivate_iff : forall unbech did sig from,
  vb_deactivate unbech did sig from = Ok tt <-> spec_did_deactivate unbech did sig from.
Proof. exact Valid.Iff.C16_did_deactivate_iff. Qed.
Print Assumptions C16_did_deactivate_iff.
Theorem C16_doc_valid_iff : forall d, doc_empty d = false -> (doc_valid d = true <-> doc_ok d).
Proof. exact doc_valid_iff. Qed.
Print Assumptions C16_doc_valid_iff.

(** PNFT (the repaired validators) *)
Theorem C16_pnft_create_denom_iff : forall unbech id name symbol creator,
  vb_create_denom unbech true id name symbol creator = Ok tt <-> spec_pnft_create_denom unbech id name symbol creator.
Proof. exact Valid.Iff.C16_pnft_create_denom_iff. Qed.
Print Assumptions C16_pnft_create_denom_iff.
Theorem C16_pnft_update_denom_iff : forall unbech id updater, vb_update_denom unbech id updater = Ok tt <-> spec_pnft_update_denom unbech id updater.
Proof. exact Valid.Iff.C16_pnft_update_denom_iff. Qed.
Print Assumptions C16_pnft_update_denom_iff.
Theorem C16_pnft_delete_denom_iff : forall unbech id remover, vb_delete_denom unbech id remover = Ok tt <-> spec_pnft_delete_denom unbech id remover.
Proof. exact Valid.Iff.C16_pnft_delete_denom_iff. Qed.
Print Assumptions C16_pnft_delete_denom_iff.
Theorem C16_pnft_transfer_denom_iff : forall unbech id sender receiver,
  vb_transfer_denom unbech id sender receiver = Ok tt <-> spec_pnft_transfer_denom unbech id sender receiver.
Proof. exact Valid.Iff.C16_pnft_transfer_denom_iff. Qed.
Print Assumptions C16_pnft_transfer_denom_iff.
Theorem C16_pnft_mint_iff : forall unbech denom_id id name creator,
  vb_mint_pnft unbech true denom_id id name creator = Ok tt <-> spec_pnft_mint unbech denom_id id name creator.
Proof. exact Valid.Iff.C16_pnft_mint_iff. Qed.
Print Assumptions C16_pnft_mint_iff.
Theorem C16_pnft_transfer_iff : forall unbech denom_id id sender receiver,
  vb_transfer_pnft unbech denom_id id sender receiver = Ok tt <-> spec_pnft_transfer unbech denom_id id sender receiver.
Proof. exact Valid.Iff.C16_pnft_transfer_iff. Qed.
Print Assumptions C16_pnft_transfer_iff.
Theorem C16_pnft_burn_iff : forall unbech denom_id id burner,
  vb_burn_pnft unbech denom_id id burner = Ok tt <-> spec_pnft_burn unbech denom_id id burner.
Proof. exact Valid.Iff.C16_pnft_burn_iff. Qed.
Print Assumptions C16_pnft_burn_iff.

(** nothing outside the limits is ever stored: along every history the AOL store stays within them *)
Theorem C16_stored_within_limits : forall o bs c,
  unbech_wf (o_unbech o) -> Inv (c_aol c) -> Stored_ok (c_aol c) ->
  Inv (c_aol (run o c bs)) /\ Stored_ok (c_aol (run o c bs)).
Proof. exact stored_within_limits. Qed.
Print Assumptions C16_stored_within_limits.

(** ... and a DID document, when stored, is valid per the method specification and about its DID *)
Theorem C16_did_stored_valid : forall e c did doc vmid sg from c' a (upd : bool),
  let m := if upd then DUpdate did (Some doc) vmid sg from else DCreate did (Some doc) vmid sg from in
  vb_did e m = Ok tt -> exec_did e c m = Ok (c', a) ->
  en_doc (get_entry (c_did c') did) = Some doc /\ doc_valid doc = true /\ doc_id doc = did.
Proof. exact did_stored_valid. Qed.
Print Assumptions C16_did_stored_valid.

(** why the two repairs were needed: the original validators accepted what the limits exclude *)
Theorem C16_lenient_did_refuted :
  exists unbech did doc sig from,
    vb_create_update unbech false did (Some doc) sig from = Ok tt /\ ~ spec_did_create_update unbech did (Some doc) sig from.
Proof. exact vb_lenient_accepts_foreign_doc. Qed.
Print Assumptions C16_lenient_did_refuted.
