(** C20 — Concurrent readers see committed snapshots; shared code cannot deadlock.
    Only property theorems; each is closed by [exact <lemma>]. *)
From Coq Require Import Strings.String Strings.Byte.
From Coq Require Import List Arith NArith ZArith Bool.
From PV Require Import Base.Bytes Keystore.Locks Keystore.Load.
From PV Require Generated.GenKeystore.
Import ListNotations.

(** Go's sync.RWMutex as a transition system (a pending writer blocks new readers): if no thread's program
    acquires the mutex while holding it, no reachable state of any number of threads is stuck *)
Theorem C20_rwmutex_deadlock_free : forall progs, forallb nonreentrant progs = true ->
  forall s, reachable (init progs) s -> ~ stuck s.
Proof. exact nonreentrant_deadlock_free. Qed.
Print Assumptions C20_rwmutex_deadlock_free.

(** the mutex programs of KeyStore's exported methods are regenerated from /repo's source on every run (T1);
    none of them re-acquires the mutex while holding it *)
Theorem C20_keystore_programs_nonreentrant : programs_ok (map snd GenKeystore.lock_programs) = true.
Proof. exact keystore_programs_nonreentrant. Qed.
Print Assumptions C20_keystore_programs_nonreentrant.
Theorem C20_keystore_programs_present : (3 <=? length GenKeystore.lock_programs)%nat = true.
Proof. exact keystore_programs_present. Qed.
Print Assumptions C20_keystore_programs_present.

(** hence: any number of concurrent Save / Load / LoadByAddress calls, in every interleaving, never deadlock *)
Theorem C20_keystore_no_deadlock : forall calls,
  (forall p, In p calls -> In p (map snd GenKeystore.lock_programs)) ->
  forall s, reachable (init calls) s -> ~ stuck s.
Proof. exact keystore_calls_deadlock_free. Qed.
Print Assumptions C20_keystore_no_deadlock.

(** the lock is a lock: at most one writer, and no reader while a writer holds it *)
Theorem C20_mutual_exclusion : forall progs, forallb nonreentrant progs = true ->
  forall s, reachable (init progs) s ->
    count is_whold (threads s) <= 1 /\ (0 < count is_whold (threads s) -> count is_rhold (threads s) = 0).
Proof. exact nonreentrant_mutual_exclusion. Qed.
Print Assumptions C20_mutual_exclusion.

(** the original LoadByAddress took the read lock and called Load, which takes it again (finding F5, repaired):
    with one concurrent Save that program deadlocks *)
Theorem C20_reentrant_refuted : exists s,
  reachable (init [[OpRLock; OpRLock; OpRUnlock; OpRUnlock]; [OpLock; OpUnlock]]) s /\ stuck s.
Proof. exact reentrant_can_deadlock. Qed.
Print Assumptions C20_reentrant_refuted.
