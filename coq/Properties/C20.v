(** C20 — Concurrent readers see committed snapshots; shared code cannot deadlock.
    Only property theorems; each is closed by [exact <lemma>]. *)
From Coq Require Import Strings.String Strings.Byte.
From Coq Require Import List Arith NArith ZArith Bool.
From PV Require Import Base.Bytes Keystore.Locks Keystore.Load.
From PV Require Generated.GenKeystore Generated.GenSchema.
From PV Require Import Chain.SchemaProps.
From PV Require Import Chain.Model Chain.Run Node.Model Node.Proofs Node.Chain.
From PV Require Import Driver.Tok Driver.Driver Node.DriverTie.
Import ListNotations.

(** Go's sync.RWMutex as a transition system (a pending writer blocks new readers): if no thread's program
    acquires the mutex while holding it, no reachable state of any number of threads is stuck *)
Theorem C20_rwmutex_deadlock_free : forall progs, forallb nonreentrant progs = true ->
  forall s, reachable (init progs) s -> ~ stuck s.
Proof. exact nonreentrant_deadlock_free. Qed.
Print Assumptions C20_rwmutex_deadlock_free.

(** the mutex programs of KeyStore's exported methods are regenerated from /repo's source on every run (T1);
    none of them re-acquires the mutex while holding it *)
Theorem C20_keystore_programs_nonreentrant : programs_ok (map snd GenKeystore.lock_programs) = true.
Proof. exact keystore_programs_nonreentrant. Qed.
Print Assumptions C20_keystore_programs_nonreentrant.
Theorem C20_keystore_programs_present : (3 <=? length GenKeystore.lock_programs)%nat = true.
Proof. exact keystore_programs_present. Qed.
Print Assumptions C20_keystore_programs_present.

(** hence: any number of concurrent Save / Load / LoadByAddress calls, in every interleaving, never deadlock *)
Theorem C20_keystore_no_deadlock : forall calls,
  (forall p, In p calls -> In p (map snd GenKeystore.lock_programs)) ->
  forall s, reachable (init calls) s -> ~ stuck s.
Proof. exact keystore_calls_deadlock_free. Qed.
Print Assumptions C20_keystore_no_deadlock.

(** the lock is a lock: at most one writer, and no reader while a writer holds it *)
Theorem C20_mutual_exclusion : forall progs, forallb nonreentrant progs = true ->
  forall s, reachable (init progs) s ->
    count is_whold (threads s) <= 1 /\ (0 < count is_whold (threads s) -> count is_rhold (threads s) = 0).
Proof. exact nonreentrant_mutual_exclusion. Qed.
Print Assumptions C20_mutual_exclusion.

(** the original LoadByAddress took the read lock and called Load, which takes it again (finding F5, repaired):
    with one concurrent Save that program deadlocks *)
Theorem C20_reentrant_refuted : exists s,
  reachable (init [[OpRLock; OpRLock; OpRUnlock; OpRUnlock]; [OpLock; OpUnlock]]) s /\ stuck s.
Proof. exact reentrant_can_deadlock. Qed.
Print Assumptions C20_reentrant_refuted.

(** ** snapshot reads (Node/Model.v: the versioned multistore and the deliver/check branches of baseapp) *)
(** every query, whatever is executing when it arrives, is answered from a committed version: the state [run]
    computes from the blocks completed so far (height 0 = latest) or from the first k+1 of them (height k+1);
    never from a deliver or check branch *)
Theorem C20_queries_read_committed : forall o Q A (query : chain -> Q -> A) g es i h q,
  nth_error es i = Some (EQuery h q) ->
  nth_error (snd (cexec o Q A query (cstart g) es)) i =
  Some (OAnswer (option_map (fun c => query c q) (committed_state o g (ccompleted Q (firstn i es)) h))).
Proof. exact node_queries_read_committed. Qed.
Print Assumptions C20_queries_read_committed.

(** repeated queries at a fixed height return identical answers no matter what happens in between *)
Theorem C20_fixed_height_stable : forall o Q A (query : chain -> Q -> A) (n : cnode) es i j k q a,
  i <= j ->
  nth_error es i = Some (EQuery (S k) q) -> nth_error es j = Some (EQuery (S k) q) ->
  nth_error (snd (cexec o Q A query n es)) i = Some (OAnswer (Some a)) ->
  nth_error (snd (cexec o Q A query n es)) j = Some (OAnswer (Some a)).
Proof. exact node_fixed_height_stable. Qed.
Print Assumptions C20_fixed_height_stable.

(** source tie (T1): every path of KeyStore.Save that touches the mutex takes the write lock *)
Theorem C20_keystore_save_takes_write_lock : save_paths_write_locked = true.
Proof. exact keystore_save_takes_write_lock. Qed.
Print Assumptions C20_keystore_save_takes_write_lock.

(** source tie (T1): no keeper struct has a field that could carry state from one call to the next (a query must be a
    function of the committed version it reads) *)
Theorem C20_keepers_hold_no_state : forallb keeper_field_stateless GenSchema.keeper_fields = true.
Proof. exact keepers_stateless. Qed.
Print Assumptions C20_keepers_hold_no_state.

Local Open Scope string_scope.
Local Open Scope list_scope.
(** the tie to what is run: a QH line of the history-file interpreter (a query at a height, served at any point of any
    protocol-respecting history, inside a block or not) is answered from the committed version — the state [run] computes from
    the completed blocks — never from the block in progress *)
Theorem C20_driver_query_reads_committed : forall st (ls : list (list tok)) ht h q k,
  d_versions st = [] -> legal_run (st, false) ls = true ->
  parse_dec ht = Some h -> qheight (d_base st) h = Some k ->
  snd (step_line (drive st ls) (b "QH" :: ht :: q)) =
  match committed_state (oracles_of st) (d_chain st) (ccompleted (list tok) (events_of st ls)) k with
  | Some c => dquery (frame_of st) c q
  | None => [b "Q err height"]
  end.
Proof. exact driver_query_reads_committed. Qed.
Print Assumptions C20_driver_query_reads_committed.
