(** C10 — Restart equivalence: committed state survives, uncommitted work leaves no trace.
    Only property theorems; each is closed by [exact <lemma>].  Node/Model.v: the life cycle of a node (ABCI events on
    the consensus, mempool and query connections, plus ECrash = stop at this point and restart on the same database);
    Node/Chain.v instantiates it with the chain model, so [run] below is the [run] of every other property. *)
From Coq Require Import Strings.String Strings.Byte.
From Coq Require Import List Arith NArith ZArith Bool.
From PV Require Import Base.Bytes Base.Outcome Chain.Model Chain.Run.
From PV Require Import Node.Model Node.Proofs Node.Chain Chain.SchemaProps.
From PV Require Generated.GenSchema.
From PV Require Import Driver.Tok Driver.Driver Node.DriverTie.
Import ListNotations.

(** after ANY sequence of events (blocks begun, partly executed, ended, committed or not, crashes, mempool and query
    traffic) the committed versions are exactly those of the blocks that completed, and the latest state is [run] of them *)
Theorem C10_committed_is_run : forall o Q A (query : chain -> Q -> A) g es,
  committed (fst (cexec o Q A query (cstart g) es)) = cversions o g (ccompleted Q es) /\
  latest (fst (cexec o Q A query (cstart g) es)) = run o g (ccompleted Q es).
Proof. exact node_committed_is_run. Qed.
Print Assumptions C10_committed_is_run.

(** stop at ANY point since the last Commit (after BeginBlock, after any prefix of the transactions, after EndBlock):
    the node is exactly the node that stopped right after that Commit *)
Theorem C10_uncommitted_work_leaves_no_trace : forall o Q A (query : chain -> Q -> A) (n : cnode) mid,
  forallb (fun e => negb (is_commit tx Z Q e)) mid = true ->
  fst (cexec o Q A query n (mid ++ [ECrash])) = fst (cexec o Q A query n [ECrash]).
Proof. exact node_crash_leaves_no_trace. Qed.
Print Assumptions C10_uncommitted_work_leaves_no_trace.

(** stop after any event list, restart, process the blocks [bs]: the versions, the latest state and the
    per-transaction results are those of a node that never stopped and processed the completed blocks and then [bs] *)
Theorem C10_restart_equivalence : forall o Q A (query : chain -> Q -> A) g es1 bs,
  let r := cexec o Q A query (cstart g) (es1 ++ [ECrash] ++ flat_map (cblock_events Q) bs) in
  committed (fst r) = cversions o g (ccompleted Q es1 ++ bs) /\
  latest (fst r) = run o g (ccompleted Q es1 ++ bs) /\
  tx_results tx_result A (snd r) =
    tx_results tx_result A (snd (cexec o Q A query (cstart g) es1)) ++
    concat (run_results o (run o g (ccompleted Q es1)) bs).
Proof. exact node_restart_equivalence. Qed.
Print Assumptions C10_restart_equivalence.

(** source tie (T1, regenerated from /repo on every run): every field of the four keeper structs is a store key, a
    codec or another keeper — no keeper holds state of its own that a restart could lose *)
Theorem C10_keepers_hold_no_state : forallb keeper_field_stateless GenSchema.keeper_fields = true.
Proof. exact keepers_stateless. Qed.
Print Assumptions C10_keepers_hold_no_state.

Local Open Scope string_scope.
Local Open Scope list_scope.
(** the tie to what is run: the history-file interpreter (Driver/Driver.v, extracted and compared with the real application
    on every check) refines the node model on every protocol-respecting history; so for the interpreter itself: after any
    history that ends with a CRASH, the committed versions are those of the completed blocks and the working state is
    [run] of them *)
Theorem C10_driver_crash_keeps_completed_only : forall st (ls : list (list bytes)),
  d_versions st = [] -> legal_run (st, false) (ls ++ [[b "CRASH"]]) = true ->
  let o := oracles_of st in
  let st' := fst (run_cmds (st, false) (ls ++ [[b "CRASH"]])) in
  versions_view st' = d_chain st :: cversions o (d_chain st) (ccompleted (list tok) (events_of st ls)) /\
  d_chain st' = run o (d_chain st) (ccompleted (list tok) (events_of st ls)).
Proof. exact driver_crash_keeps_completed_only. Qed.
Print Assumptions C10_driver_crash_keeps_completed_only.

Theorem C10_driver_versions_are_run : forall st (ls : list (list tok)),
  d_versions st = [] -> legal_run (st, false) ls = true ->
  let o := oracles_of st in
  let es := events_of st ls in
  let w' := run_cmds (st, false) ls in
  let n' := fst (nexec (frame_of st) (cstart (d_chain st)) es) in
  versions_view (fst w') = d_chain st :: committed n' /\
  committed n' = cversions o (d_chain st) (ccompleted (list tok) es) /\
  last (versions_view (fst w')) (d_chain st) = run o (d_chain st) (ccompleted (list tok) es) /\
  (snd w' = false -> d_chain (fst w') = run o (d_chain st) (ccompleted (list tok) es)) /\
  oracles_of (fst w') = o.
Proof. exact driver_versions_are_run. Qed.
Print Assumptions C10_driver_versions_are_run.
