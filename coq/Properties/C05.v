(** C05 — A DID is created at most once and deactivation is permanent.
    Only property theorems; each is closed by [exact <lemma>]. *)
From Coq Require Import Strings.String Strings.Byte.
From Coq Require Import List Arith NArith ZArith Bool.
From PV Require Import Base.Bytes Base.Outcome Base.KV Did.Model Did.Props.
From PV Require Import Chain.Model Chain.Run Chain.DidProps Chain.ExampleDid.
Import ListNotations.
Local Open Scope N_scope.

(** creating a DID that has an entry fails (2 = exists, 13 = deactivated), now and after any history,
    with any document, key and signature; failing handlers return no state, so nothing changes *)
Theorem C05_create_once : forall o bs c did,
  Inv_did (c_did c) -> entry_empty (get_entry (c_did c) did) = false ->
  forall b58key verify doc vmid sig,
  exists code, create_did b58key verify marshal_doc (c_did (run o c bs)) did doc vmid sig = Err cs_did code /\ (code = 2 \/ code = 13).
Proof. exact create_once. Qed.
Print Assumptions C05_create_once.

(** once deactivated: after any history the entry is still a tombstone, the read says "deactivated",
    and create, update and deactivate are refused with any key, document and signature *)
Theorem C05_tombstone_forever : forall o bs c did,
  Inv_did (c_did c) -> entry_deactivated (get_entry (c_did c) did) = true ->
  let st := c_did (run o c bs) in
  entry_deactivated (get_entry st did) = true /\ q_did st did = DDeactivated /\
  forall b58key verify,
    (forall doc vmid sig, create_did b58key verify marshal_doc st did doc vmid sig = Err cs_did 13) /\
    (forall doc vmid sig, update_did b58key verify marshal_doc st did doc vmid sig = Err cs_did 13) /\
    (forall vmid sig, deactivate_did b58key verify marshal_doc st did vmid sig = Err cs_did 13).
Proof. exact tombstone_forever. Qed.
Print Assumptions C05_tombstone_forever.

(** the registry invariant (every entry is an active document about its key or a tombstone with a
    non-zero sequence — never mistaken for "absent") holds from the empty registry on *)
Theorem C05_invariant : forall o bs, Inv_did (c_did (run o empty_chain bs)).
Proof. intros o bs. exact (proj1 (did_run o bs empty_chain Inv_did_empty)). Qed.
Print Assumptions C05_invariant.

Example C05_nonvacuous :
  entry_deactivated (get_entry (c_did did_final) D1) = true /\
  run_results did_oracles empty_chain did_history =
    [[ROk []; RMsg 0 (b "did") 2];
     [ROk []; RMsg 0 (b "did") 9; RMsg 0 (b "did") 9; ROk []];
     [ROk []; RMsg 0 (b "did") 13; RMsg 0 (b "did") 13]].
Proof. split; [vm_compute; reflexivity | exact (proj1 did_history_results)]. Qed.
