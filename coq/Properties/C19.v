(** C19 — Software upgrades run to completion and preserve custom-module data.
    Only property theorems; each is closed by [exact <lemma>].
    Configuration half: Upgrade/Model.v models rootmulti's loadVersion with StoreUpgrades and the disk reached by upgrading
    through the releases in order; [GenUpgrade] (mounted stores, descriptors, registered handlers) is regenerated from the
    application linked against /repo on every run.  Dynamic half: in the chain model an upgrade block is a block without
    custom-module effects, so the node theorems (restart at any point, C10) cover "restart before, at or after that
    height"; that the real upgrade handler has no custom-module effect is decided by the upgrade profile (correspondence of
    the dumps across the upgrade block + monitors). *)
From Coq Require Import Strings.String List Bool Arith.
From PV Require Import Upgrade.Model Upgrade.Proofs Upgrade.Repo.
From PV Require Generated.GenUpgrade.
Import ListNotations.
Open Scope string_scope.

(** every store the binary mounts either predates the first descriptor or is introduced, and not later removed *)
Theorem C19_every_mounted_store_accounted : accounted baseline GenUpgrade.upgrades GenUpgrade.mounted_stores = true.
Proof. exact repo_accounted. Qed.
Print Assumptions C19_every_mounted_store_accounted.

(** what the accounting check means, for ANY baseline, descriptor list and mounted set: it holds exactly when every
    mounted store is on the disk reached by applying the descriptors in order *)
Theorem C19_accounted_iff : forall baseline ds mounted,
  accounted baseline ds mounted = true <-> (forall s, In s mounted -> In s (upgrade_path baseline ds)).
Proof. exact accounted_iff. Qed.
Print Assumptions C19_accounted_iff.

(** so a node upgrading through the releases in order never meets an undeclared store: the load at the last upgrade
    height (UpgradeStoreLoader with the last descriptor) succeeds, and so does every later plain restart *)
Theorem C19_last_upgrade_loads :
  load_ok GenUpgrade.mounted_stores (upgrade_path baseline (removelast GenUpgrade.upgrades)) (last_opt GenUpgrade.upgrades) = true.
Proof. exact repo_last_upgrade_loads. Qed.
Print Assumptions C19_last_upgrade_loads.
Theorem C19_restart_after_upgrade_loads :
  load_ok GenUpgrade.mounted_stores (upgrade_path baseline GenUpgrade.upgrades) None = true.
Proof. exact repo_restart_after_upgrade_loads. Qed.
Print Assumptions C19_restart_after_upgrade_loads.

(** the path ends exactly at the mounted set: no orphaned store either *)
Theorem C19_disk_is_mounted : forall s, In s (upgrade_path baseline GenUpgrade.upgrades) <-> In s GenUpgrade.mounted_stores.
Proof. exact repo_disk_is_mounted. Qed.
Print Assumptions C19_disk_is_mounted.

(** no descriptor both introduces and removes a store *)
Theorem C19_descriptors_wf : forallb desc_wf GenUpgrade.upgrades = true.
Proof. exact repo_descriptors_wf. Qed.
Print Assumptions C19_descriptors_wf.

(** a handler is registered for every entry of app.Upgrades (regenerated from the running application) *)
Theorem C19_handlers_registered : map d_name GenUpgrade.upgrades = GenUpgrade.handlers_registered.
Proof. exact repo_handlers_registered. Qed.
Print Assumptions C19_handlers_registered.

(** a mounted store that is neither in the baseline nor introduced by any descriptor is rejected by the check *)
Theorem C19_accounted_complete : forall baseline ds mounted s,
  In s mounted -> ~ In s baseline -> (forall d, In d ds -> introduces d s = false) ->
  accounted baseline ds mounted = false /\ ~ In s (upgrade_path baseline ds).
Proof. exact accounted_complete. Qed.
Print Assumptions C19_accounted_complete.

(** this binary can be started (store loader from upgrade-info.json) exactly at the heights of the upgrades from which all
    its stores are declared: v2.2.0 and v2.2.1; the real binary is started at every height in a child process and must
    answer the same (UPROBE lines of the upgrade profile) *)
Theorem C19_loadable_heights : map loadable_at (seq 0 (length GenUpgrade.upgrades)) = [false; false; false; true; true].
Proof. exact repo_loadable_heights. Qed.
Print Assumptions C19_loadable_heights.

(** the custom modules' consensus versions in this binary are the ones the previous releases recorded: at the upgrade
    height RunMigrations finds no version step for them, hence needs no migration (none is registered) and cannot halt on
    "no migrations found"; the upgrade profile runs the plan on a chain whose version map is shaped to that baseline *)
Theorem C19_custom_versions_need_no_migration : GenUpgrade.custom_consensus_versions = baseline_custom_versions.
Proof. exact repo_custom_versions_need_no_migration. Qed.
Print Assumptions C19_custom_versions_need_no_migration.
