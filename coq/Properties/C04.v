(** C04 — DID sequence is strictly monotonic; an accepted proof is never accepted again.
    Only property theorems; each is closed by [exact <lemma>]. *)
From Coq Require Import Strings.String Strings.Byte.
From Coq Require Import List Arith NArith ZArith Bool.
From PV Require Import Base.Bytes Base.Outcome Base.KV Proto.Model Proto.Proofs Did.Model Did.Props.
From PV Require Import Chain.Model Chain.Run Chain.DidProps Chain.ExampleDid.
From PV Require Chain.DidGenesisInv.
Import ListNotations.
Local Open Scope N_scope.

(** the sequence starts at 0 on creation, grows by exactly one with every accepted update or
    deactivation (the proof is made over the stored sequence, which is the one the read returns) *)
Theorem C04_seq_steps : forall e c m c' a,
  exec_did e c m = Ok (c', a) ->
  match m with
  | DCreate did (Some doc) vmid sg _ =>
      entry_empty (get_entry (c_did c) did) = true /\
      proof_ok (e_b58key e) (e_verify e) doc doc 0 vmid sg /\
      c_did c' = set (did_key did) {| en_doc := Some doc; en_seq := 0 |} (c_did c)
  | DUpdate did (Some doc) vmid sg _ =>
      exists stored, en_doc (get_entry (c_did c) did) = Some stored /\
        entry_empty (get_entry (c_did c) did) = false /\ entry_deactivated (get_entry (c_did c) did) = false /\
        proof_ok (e_b58key e) (e_verify e) stored doc (en_seq (get_entry (c_did c) did)) vmid sg /\
        c_did c' = set (did_key did) {| en_doc := Some doc; en_seq := en_seq (get_entry (c_did c) did) + 1 |} (c_did c)
  | DDeactivate did vmid sg _ =>
      exists stored, en_doc (get_entry (c_did c) did) = Some stored /\
        entry_empty (get_entry (c_did c) did) = false /\ entry_deactivated (get_entry (c_did c) did) = false /\
        proof_ok (e_b58key e) (e_verify e) stored (id_only did) (en_seq (get_entry (c_did c) did)) vmid sg /\
        c_did c' = set (did_key did) {| en_doc := Some empty_doc; en_seq := en_seq (get_entry (c_did c) did) + 1 |} (c_did c)
  | _ => False
  end.
Proof. exact did_accept_needs_proof. Qed.
Print Assumptions C04_seq_steps.

(** ... and never otherwise: along every history entries never disappear, sequences never decrease and
    tombstones stay (any messages of any kind, accepted or not) *)
Theorem C04_monotone : forall o bs c,
  Inv_did (c_did c) -> Inv_did (c_did (run o c bs)) /\ did_mono (c_did c) (c_did (run o c bs)).
Proof. exact did_run. Qed.
Print Assumptions C04_monotone.

(** the signed bytes determine the (serialised) content and the sequence *)
Theorem C04_signbytes_injective : forall d s d' s', signbytes d s = signbytes d' s' -> d = d' /\ s = s'.
Proof. exact signbytes_inj. Qed.
Print Assumptions C04_signbytes_injective.

(** replay: a create/update/deactivate message that was accepted once is rejected whenever it is
    submitted again — after any history [bs], at any block time, from any relaying account.
    [sig_binds] (a signature value verifies for at most one message) is the cryptographic premise. *)
Theorem C04_no_replay : forall o bs c c1 a m,
  sig_binds (o_verify o) -> Inv_did (c_did c) ->
  forall t0, vb_did (env_at o t0) m = Ok tt -> exec_did (env_at o t0) c m = Ok (c1, a) ->
  forall t1 from',
    let m' := match m with
              | DCreate did doc vmid sg _ => DCreate did doc vmid sg from'
              | DUpdate did doc vmid sg _ => DUpdate did doc vmid sg from'
              | DDeactivate did vmid sg _ => DDeactivate did vmid sg from'
              end in
    forall c2 a2, exec_did (env_at o t1) (run o c1 bs) m' <> Ok (c2, a2).
Proof. exact no_replay. Qed.
Print Assumptions C04_no_replay.

(** non-vacuity: the ideal signature scheme of the example satisfies the premise, and in the example
    history the replayed rotation is refused with did/9 *)
Example C04_nonvacuous :
  sig_binds (o_verify did_oracles) /\
  run_results did_oracles empty_chain did_history =
    [[ROk []; RMsg 0 (b "did") 2];
     [ROk []; RMsg 0 (b "did") 9; RMsg 0 (b "did") 9; ROk []];
     [ROk []; RMsg 0 (b "did") 13; RMsg 0 (b "did") 13]].
Proof. split; [exact ideal_verify_binds | exact (proj1 did_history_results)]. Qed.

(** the stored sequence is a uint64 in the code and an unbounded natural number in the model: they never part, because a
    proof over the last uint64 value is refused (as repaired, F15 — the increment used to wrap around to the initial
    sequence), so an accepted proof over [s <= max_seq] answers [s + 1 <= max_seq] *)
Theorem C04_sequence_never_wraps : forall b58key verify data s doc vmid sig n,
  s <= max_seq -> verify_ownership b58key verify marshal_doc data s doc vmid sig = Ok n -> n = s + 1 /\ n <= max_seq.
Proof. exact Chain.DidGenesisInv.accepted_sequence_stays_uint64. Qed.
Print Assumptions C04_sequence_never_wraps.
