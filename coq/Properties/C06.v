(** C06 — PNFT authorization: only current owners act on denoms and tokens.
    Only property theorems; each is closed by [exact <lemma>]. *)
From Coq Require Import Strings.String Strings.Byte.
From Coq Require Import List Arith NArith ZArith Bool.
From PV Require Import Base.Bytes Base.Outcome Base.KV Aol.Spec Pnft.Model Pnft.Spec Pnft.Inv.
From PV Require Import Chain.Model Chain.Run Chain.AolProps Chain.PnftProps Chain.Example.
From PV Require Chain.AcceptIff.
Import ListNotations.

(** the invariant of the PNFT store holds along every history (any blocks, any transactions) *)
Theorem C06_inv_along_histories : forall o bs c,
  unbech_wf (o_unbech o) -> Inv_pnft (c_pnft c) -> Inv_pnft (c_pnft (run o c bs)).
Proof. exact pnft_run. Qed.
Print Assumptions C06_inv_along_histories.

Theorem C06_inv_initial : Inv_pnft (c_pnft empty_chain).
Proof. exact Inv_pnft_empty. Qed.
Print Assumptions C06_inv_initial.

(** an accepted request names, as its actor, the stored current owner: of the denom for update / delete /
    hand-over / mint, of the token for transfer / burn; mint goes to the creator, transfer to the receiver *)
Theorem C06_accept_needs_owner : forall e c m c' a,
  Inv_pnft (c_pnft c) -> exec_pnft e c m = Ok (c', a) ->
  match m with
  | PCreateDenom id _ _ _ _ _ creator _ =>
      get_class (c_pnft c) id = None /\ denom_owner (c_pnft c') id = Some creator
  | PUpdateDenom id _ _ _ _ _ updater _ => denom_owner (c_pnft c) id = Some updater
  | PDeleteDenom id remover => denom_owner (c_pnft c) id = Some remover /\ get_supply (c_pnft c) id = 0%N
  | PTransferDenom id sender receiver =>
      denom_owner (c_pnft c) id = Some sender /\ denom_owner (c_pnft c') id = Some receiver
  | PMint denom_id id _ _ _ _ _ creator =>
      denom_owner (c_pnft c) denom_id = Some creator /\ get_nft (c_pnft c) denom_id id = None /\
      exists r, e_unbech e creator = Some r /\ get_owner (c_pnft c') denom_id id = r
  | PTransfer denom_id id sender receiver =>
      (exists p, get_pnft (e_bech e) (c_pnft c) denom_id id = Some p /\ p_owner p = sender) /\
      exists r, e_unbech e receiver = Some r /\ get_owner (c_pnft c') denom_id id = r
  | PBurn denom_id id burner =>
      exists p, get_pnft (e_bech e) (c_pnft c) denom_id id = Some p /\ p_owner p = burner
  end.
Proof. exact pnft_accept_needs_owner. Qed.
Print Assumptions C06_accept_needs_owner.

(** ... and that actor is the message's single signer, so it signed the transaction (or delegated it
    through authz: theorems C02_signers_signed and C02_delegation_rule apply to every message kind) *)
Theorem C06_signer_is_actor : forall e m a,
  e_unbech e (pnft_actor m) = Some a -> signers_base e (BPnft m) = Ok [a].
Proof. exact pnft_signer_is_actor. Qed.
Print Assumptions C06_signer_is_actor.

(** denom ownership changes only through create / delete / hand-over of that denom *)
Theorem C06_denom_owner_changes : forall e c m c' a id',
  Inv_pnft (c_pnft c) -> exec_pnft e c m = Ok (c', a) ->
  denom_owner (c_pnft c') id' <> denom_owner (c_pnft c) id' ->
  match m with
  | PCreateDenom id _ _ _ _ _ _ _ | PDeleteDenom id _ | PTransferDenom id _ _ => id = id'
  | _ => False
  end.
Proof. exact denom_owner_changes_only_by_its_messages. Qed.
Print Assumptions C06_denom_owner_changes.

(** token ownership changes only through mint / transfer / burn of that token *)
Theorem C06_token_owner_changes : forall e c m c' a c0 i0,
  Inv_pnft (c_pnft c) -> id_ok c0 -> id_ok i0 -> exec_pnft e c m = Ok (c', a) ->
  get_owner (c_pnft c') c0 i0 <> get_owner (c_pnft c) c0 i0 ->
  match m with
  | PMint d i _ _ _ _ _ _ | PTransfer d i _ _ | PBurn d i _ => (d, i) = (c0, i0)
  | _ => False
  end.
Proof. exact token_owner_changes_only_by_its_messages. Qed.
Print Assumptions C06_token_owner_changes.

(** messages of other modules never touch the PNFT store; a refused transaction changes nothing *)
Theorem C06_other_messages_frame : forall e c m c' a,
  exec_base e c m = Ok (c', a) -> (forall pm, m <> BPnft pm) -> c_pnft c' = c_pnft c.
Proof. exact exec_base_pnft_frame. Qed.
Print Assumptions C06_other_messages_frame.

Theorem C06_refused_is_noop : forall e c t,
  (forall acks, snd (deliver_tx e c t) <> ROk acks) -> c_pnft (fst (deliver_tx e c t)) = c_pnft c.
Proof. exact refused_is_noop_pnft. Qed.
Print Assumptions C06_refused_is_noop.

(** non-vacuity: A creates a denom, mints a token, hands the denom over to X; the former owner A can no
    longer mint (pnft/6), a stranger cannot transfer A's token (pnft/7), A can *)
Definition pnft_history : list block :=
  [ (100%Z, [ mk_tx A [BPnft (PCreateDenom (b "d") (b "N") (b "S") [] [] [] A [])];
              mk_tx A [BPnft (PMint (b "d") (b "t1") (b "n") [] [] [] [] A)];
              mk_tx A [BPnft (PTransferDenom (b "d") A X)];
              mk_tx A [BPnft (PMint (b "d") (b "t2") (b "n") [] [] [] [] A)];
              mk_tx X [BPnft (PTransfer (b "d") (b "t1") X W)];
              mk_tx A [BPnft (PTransfer (b "d") (b "t1") A W)] ]) ].

Example C06_nonvacuous :
  run_results toy_oracles empty_chain pnft_history =
    [[ROk []; ROk []; ROk []; RMsg 0 (b "pnft") 6; RMsg 0 (b "pnft") 7; ROk []]] /\
  get_owner (c_pnft (run toy_oracles empty_chain pnft_history)) (b "d") (b "t1") = W /\
  denom_owner (c_pnft (run toy_oracles empty_chain pnft_history)) (b "d") = Some X.
Proof. vm_compute. repeat split; reflexivity. Qed.

(** completeness (Chain/AcceptIff.v): the current owner CAN transfer its token (to any decodable receiver), keeping the
    token's metadata; and minting is accepted only from the denom owner *)
Theorem C06_token_owner_can_transfer : forall unbech bech st denom_id id t receiver r,
  Inv_pnft st -> get_nft st denom_id id = Some t -> unbech receiver = Some r ->
  exists st', transfer_pnft unbech bech st denom_id id (bech (get_owner st denom_id id)) receiver = Ok st' /\
    get_owner st' denom_id id = r /\ get_nft st' denom_id id = Some t.
Proof. exact Chain.AcceptIff.token_owner_can_transfer. Qed.
Print Assumptions C06_token_owner_can_transfer.

Theorem C06_only_denom_owner_can_mint : forall unbech st now denom_id id name description uri uri_hash data creator d st',
  get_class st denom_id = Some d ->
  mint_pnft unbech st now denom_id id name description uri uri_hash data creator = Ok st' -> creator = dn_owner d.
Proof. exact Chain.AcceptIff.only_denom_owner_can_mint. Qed.
Print Assumptions C06_only_denom_owner_can_mint.
