(** C02 — AOL write authorization. Only property theorems; each is closed by [exact <lemma>]. *)
From Coq Require Import Strings.String Strings.Byte.
From Coq Require Import List Arith NArith ZArith Bool.
From PV Require Import Base.Bytes Base.Outcome Base.KV Compkey.Model Aol.Model Aol.Spec Aol.Inv.
From PV Require Import Chain.Model Chain.Run Chain.AolProps Chain.Example Chain.SchemaProps.
From PV Require Generated.GenApp.
From PV Require Chain.AcceptIff.
Import ListNotations.

(** a record is appended only if the named writer is, at that moment, in the topic's writer list *)
Theorem C02_append_needs_listed_writer : forall e c t k v ws os fp c' acks,
  env_ok e -> Inv (c_aol c) ->
  exec_base e c (BAol (AAddRecord t k v ws os fp)) = Ok (c', acks) ->
  exists ow w n d nw,
    e_unbech e os = Some ow /\ e_unbech e ws = Some w /\ acks = [n] /\
    topic_info (c_aol c) ow t = Some (d, n, nw) /\
    n = N.of_nat (length (records_of (c_aol c) ow t)) /\
    has_key (c_aol c) (WriterKey ow t w) = true /\
    lookup (c_aol c) (RecordKey ow t n) = None /\
    lookup (c_aol c') (RecordKey ow t n) = Some (VRecord k v (e_now e) ws) /\
    topic_info (c_aol c') ow t = Some (d, (n + 1)%N, nw).
Proof. exact add_record_accepted. Qed.
Print Assumptions C02_append_needs_listed_writer.

(** ... and every signer of every top-level message of an accepted transaction has signed it
    (for AddRecord the signers are the writer, preceded by the fee payer if one is named) *)
Theorem C02_signers_signed : forall e c t c1 m ss x,
  ante e c t = Some c1 -> In m (tx_msgs t) -> signers e m = Ok ss -> In x ss -> In x (tx_signed_by t).
Proof. exact ante_all_signers_signed. Qed.
Print Assumptions C02_signers_signed.

(** ... or, inside MsgExec, the grantee signed and the single signer of the inner message is the
    grantee itself or holds an unexpired grant of exactly this message type to the grantee *)
Theorem C02_delegation_rule : forall e c g m r acks0 res,
  dispatch e c g (m :: r) acks0 = Ok res ->
  exists granter c1 a1,
    signers_base e m = Ok [granter] /\
    (granter = g \/ exists gr, find_grant (c_grants c) granter g (type_url m) = Some gr /\
                                match gr_exp gr with Some t => (t <? e_now e)%Z = false | None => True end) /\
    exec_base e c m = Ok (c1, a1) /\ dispatch e c1 g r (acks0 ++ a1) = Ok res.
Proof. exact dispatch_step. Qed.
Print Assumptions C02_delegation_rule.

(** the writer list of a topic changes only by AddWriter/DeleteWriter for exactly that entry, and the
    (single) signer of such a message is the topic's owner *)
Theorem C02_writers_change_only_by_owner : forall e c m c' acks ow t w,
  env_ok e -> Inv (c_aol c) -> exec_base e c m = Ok (c', acks) ->
  has_key (c_aol c') (WriterKey ow t w) <> has_key (c_aol c) (WriterKey ow t w) ->
  exists ws os, e_unbech e os = Some ow /\ e_unbech e ws = Some w /\ signers_base e m = Ok [ow] /\
    ((exists mo d, m = BAol (AAddWriter t mo d ws os)) \/ m = BAol (ADeleteWriter t ws os)).
Proof. exact writers_change_only_by_owner. Qed.
Print Assumptions C02_writers_change_only_by_owner.

(** a topic is only ever created under the address that signs the creating message *)
Theorem C02_topic_created_under_signer : forall e c m c' acks ow t,
  env_ok e -> Inv (c_aol c) -> exec_base e c m = Ok (c', acks) ->
  has_key (c_aol c') (TopicKey ow t) <> has_key (c_aol c) (TopicKey ow t) ->
  exists d os, m = BAol (ACreateTopic t d os) /\ e_unbech e os = Some ow /\ signers_base e m = Ok [ow].
Proof. exact topic_created_under_signer. Qed.
Print Assumptions C02_topic_created_under_signer.

(** removing a writer takes effect immediately (and by the two theorems above it stays removed until
    the owner adds it again, while an append needs the entry to be present) *)
Theorem C02_delete_is_immediate : forall e c t ws os c' acks,
  env_ok e -> Inv (c_aol c) -> exec_base e c (BAol (ADeleteWriter t ws os)) = Ok (c', acks) ->
  exists ow w, e_unbech e os = Some ow /\ e_unbech e ws = Some w /\ has_key (c_aol c') (WriterKey ow t w) = false.
Proof. exact delete_writer_immediate. Qed.
Print Assumptions C02_delete_is_immediate.

(** every transaction that is not accepted leaves topics, writers and records (and DIDs) untouched *)
Theorem C02_reject_is_noop : forall e c t,
  (forall acks, snd (deliver_tx e c t) <> ROk acks) ->
  c_aol (fst (deliver_tx e c t)) = c_aol c /\ c_did (fst (deliver_tx e c t)) = c_did c.
Proof. exact reject_is_noop. Qed.
Print Assumptions C02_reject_is_noop.

(** the invariant that the statements above assume holds along every history *)
Theorem C02_inv_along_histories : forall o bs c,
  unbech_wf (o_unbech o) -> Inv (c_aol c) ->
  Inv (c_aol (run o c bs)) /\ records_preserved (c_aol c) (c_aol (run o c bs)).
Proof. exact aol_run. Qed.
Print Assumptions C02_inv_along_histories.

(** non-vacuity: in the toy history the stranger's append and the removed writer's append are refused
    with "writer not authorized" (aol/9), the listed writer's appends are accepted *)
Example C02_nonvacuous :
  run_results toy_oracles empty_chain toy_history =
    [[ROk []; ROk [0%N]]; [RMsg 0 (b "aol") 9; ROk [1%N]; ROk []; RMsg 0 (b "aol") 9]] /\
  has_key (c_aol toy_final) (WriterKey (b "A") (b "t") (b "W")) = false.
Proof. vm_compute. split; reflexivity. Qed.

(** source tie (T1): the decorators of app/ante.go, in order, are the ones the model's [ante] abstracts (fee deduction
    from the payer, signature verification for the required signers, sequence increment) *)
Theorem C02_ante_chain_as_modelled : GenApp.ante_decorators = modelled_ante_chain.
Proof. exact ante_chain_as_modelled. Qed.
Print Assumptions C02_ante_chain_as_modelled.

(** completeness (exact characterisation of acceptance, Chain/AcceptIff.v): a listed writer CAN append — the handler
    refuses nothing it must accept — and the owner can always add a writer that is not listed yet *)
Theorem C02_listed_writer_can_append : forall unbech now st topic key value writer_s owner_s o w d nr nw,
  Inv st -> unbech owner_s = Some o -> unbech writer_s = Some w ->
  topic_info st o topic = Some (d, nr, nw) -> has_key st (WriterKey o topic w) = true ->
  (nr + 1 < Compkey.Model.two64)%N ->
  exists st', add_record unbech now st topic key value writer_s owner_s = Ok (st', nr) /\
    lookup st' (RecordKey o topic nr) = Some (VRecord key value now writer_s) /\
    nr = N.of_nat (length (records_of st o topic)).
Proof. exact Chain.AcceptIff.listed_writer_can_append. Qed.
Print Assumptions C02_listed_writer_can_append.

Theorem C02_owner_can_always_add_writer : forall unbech, unbech_wf unbech ->
  forall now st topic moniker desc writer_s owner_s o w,
  Inv st -> unbech owner_s = Some o -> unbech writer_s = Some w ->
  has_key st (TopicKey o topic) = true -> has_key st (WriterKey o topic w) = false ->
  exists st', add_writer unbech now st topic moniker desc writer_s owner_s = Ok st' /\
    has_key st' (WriterKey o topic w) = true.
Proof. exact Chain.AcceptIff.owner_can_always_add_writer. Qed.
Print Assumptions C02_owner_can_always_add_writer.
