(** C03 — DID control: only a holder of a current authentication key changes a DID.
    Only property theorems; each is closed by [exact <lemma>]. *)
From Coq Require Import Strings.String Strings.Byte.
From Coq Require Import List Arith NArith ZArith Bool.
From PV Require Import Base.Bytes Base.Outcome Base.KV Proto.Model Did.Model Did.Props.
From PV Require Import Chain.Model Chain.Run Chain.AolProps Chain.DidProps Chain.ExampleDid.
From PV Require Chain.AcceptIff.
Import ListNotations.
Local Open Scope N_scope.

(** an accepted create / update / deactivate carries a signature that verifies, over the protobuf of
    (new content, current sequence), under a secp256k1 key that the *stored* document (for create: the
    submitted document) lists under authentication; and it writes exactly (new document, sequence+1)
    — for create (document, 0), for deactivate (tombstone, sequence+1) — under that DID *)
Theorem C03_accept_needs_current_auth_key : forall e c m c' a,
  exec_did e c m = Ok (c', a) ->
  match m with
  | DCreate did (Some doc) vmid sg _ =>
      entry_empty (get_entry (c_did c) did) = true /\
      proof_ok (e_b58key e) (e_verify e) doc doc 0 vmid sg /\
      c_did c' = set (did_key did) {| en_doc := Some doc; en_seq := 0 |} (c_did c)
  | DUpdate did (Some doc) vmid sg _ =>
      exists stored, en_doc (get_entry (c_did c) did) = Some stored /\
        entry_empty (get_entry (c_did c) did) = false /\ entry_deactivated (get_entry (c_did c) did) = false /\
        proof_ok (e_b58key e) (e_verify e) stored doc (en_seq (get_entry (c_did c) did)) vmid sg /\
        c_did c' = set (did_key did) {| en_doc := Some doc; en_seq := en_seq (get_entry (c_did c) did) + 1 |} (c_did c)
  | DDeactivate did vmid sg _ =>
      exists stored, en_doc (get_entry (c_did c) did) = Some stored /\
        entry_empty (get_entry (c_did c) did) = false /\ entry_deactivated (get_entry (c_did c) did) = false /\
        proof_ok (e_b58key e) (e_verify e) stored (id_only did) (en_seq (get_entry (c_did c) did)) vmid sg /\
        c_did c' = set (did_key did) {| en_doc := Some empty_doc; en_seq := en_seq (get_entry (c_did c) did) + 1 |} (c_did c)
  | _ => False
  end.
Proof. exact did_accept_needs_proof. Qed.
Print Assumptions C03_accept_needs_current_auth_key.

(** the account that relays and pays confers no rights: the handlers do not look at it *)
Theorem C03_account_irrelevant : forall e c did doc vmid sg f1 f2,
  exec_did e c (DCreate did doc vmid sg f1) = exec_did e c (DCreate did doc vmid sg f2) /\
  exec_did e c (DUpdate did doc vmid sg f1) = exec_did e c (DUpdate did doc vmid sg f2) /\
  exec_did e c (DDeactivate did vmid sg f1) = exec_did e c (DDeactivate did vmid sg f2).
Proof. exact account_irrelevant. Qed.
Print Assumptions C03_account_irrelevant.

(** a DID message touches only the DID it names; any other message touches no DID at all *)
Theorem C03_only_its_did : forall e c m c' a did',
  exec_did e c m = Ok (c', a) ->
  did' <> (match m with DCreate d _ _ _ _ | DUpdate d _ _ _ _ | DDeactivate d _ _ _ => d end) ->
  get_entry (c_did c') did' = get_entry (c_did c) did'.
Proof. exact did_msg_touches_only_its_did. Qed.
Print Assumptions C03_only_its_did.

Theorem C03_other_messages_leave_registry : forall e c m c' a,
  exec_base e c m = Ok (c', a) -> (forall dm, m <> BDid dm) -> c_did c' = c_did c.
Proof. exact exec_base_did_frame. Qed.
Print Assumptions C03_other_messages_leave_registry.

(** a transaction that is not accepted leaves the registry untouched *)
Theorem C03_else_noop : forall e c t,
  (forall acks, snd (deliver_tx e c t) <> ROk acks) ->
  c_aol (fst (deliver_tx e c t)) = c_aol c /\ c_did (fst (deliver_tx e c t)) = c_did c.
Proof. exact reject_is_noop. Qed.
Print Assumptions C03_else_noop.

(** non-vacuity: creation, key rotation, refusal of the rotated-out key (did/9), acceptance of the new
    key from another relayer, deactivation *)
Example C03_nonvacuous :
  run_results did_oracles empty_chain did_history =
    [[ROk []; RMsg 0 (b "did") 2];
     [ROk []; RMsg 0 (b "did") 9; RMsg 0 (b "did") 9; ROk []];
     [ROk []; RMsg 0 (b "did") 13; RMsg 0 (b "did") 13]] /\
  q_did (c_did did_final) D1 = DDeactivated /\
  en_seq (get_entry (c_did did_final) D1) = 3%N.
Proof. exact did_history_results. Qed.

(** exact characterisation (Chain/AcceptIff.v): an update of an active DID is accepted if and only if the proof is valid —
    a key listed under authentication in the STORED document, over the new document and the stored sequence *)
Theorem C03_update_accepted_iff_proof : forall b58key verify st did stored seq doc vmid sig,
  q_did st did = DFound stored seq ->
  (exists st', update_did b58key verify marshal_doc st did doc vmid sig = Ok st') <->
  proof_ok b58key verify stored doc seq vmid sig.
Proof. exact Chain.AcceptIff.update_did_accepted_iff_proof. Qed.
Print Assumptions C03_update_accepted_iff_proof.
