(** C12 — PNFT tokens: unique, immutable, isolated per denom, consistently indexed.
    Only property theorems; each is closed by [exact <lemma>]. *)
From Coq Require Import Strings.String Strings.Byte.
From Coq Require Import List Arith NArith ZArith Bool.
From PV Require Import Base.Bytes Base.Outcome Base.KV Compkey.Model Aol.Spec Aol.Query Pnft.Model Pnft.Spec Pnft.Inv Pnft.Listing.
From PV Require Pagination.Model Pagination.Proofs Generated.GenNft.
From PV Require Import Chain.Model Chain.Run Chain.PnftProps Chain.Example.
Import ListNotations.

(** the invariant behind all statements holds along every history *)
Theorem C12_inv_along_histories : forall o bs c,
  unbech_wf (o_unbech o) -> Inv_pnft (c_pnft c) -> Inv_pnft (c_pnft (run o c bs)).
Proof. exact pnft_run. Qed.
Print Assumptions C12_inv_along_histories.

(** unique: minting an existing (denom, token) is refused *)
Theorem C12_unique : forall unbech st denom_id id,
  Inv_pnft st -> get_nft st denom_id id <> None ->
  forall now name description uri uri_hash data creator,
  mint_pnft unbech st now denom_id id name description uri uri_hash data creator = Err cs_pnft 6.
Proof. exact mint_existing_fails. Qed.
Print Assumptions C12_unique.

(** immutable: name, description, uri, hash, data, creator and creation time of a token never change;
    the token disappears only through its own Burn *)
Theorem C12_metadata_immutable : forall e c m c' a c0 i0 t,
  Inv_pnft (c_pnft c) -> exec_pnft e c m = Ok (c', a) -> get_nft (c_pnft c) c0 i0 = Some t ->
  get_nft (c_pnft c') c0 i0 = Some t \/
  (exists burner, m = PBurn c0 i0 burner /\ get_nft (c_pnft c') c0 i0 = None).
Proof. exact token_metadata_immutable. Qed.
Print Assumptions C12_metadata_immutable.

(** every existing token belongs to an existing denom, is stored under its own ids, and those ids are
    well-formed (non-empty, no 0x00) *)
Theorem C12_token_has_denom : forall st, Inv_pnft st -> forall c i t,
  get_nft st c i = Some t -> has_class st c = true /\ tk_class t = c /\ tk_id t = i /\ id_ok c /\ id_ok i.
Proof. exact token_has_denom. Qed.
Print Assumptions C12_token_has_denom.

(** distinct (denom, token) pairs of well-formed ids never alias one another ... *)
Theorem C12_no_alias : forall c i c' i',
  id_ok c -> id_ok c' -> has_nul i = false -> has_nul i' = false -> nft_key c i = nft_key c' i' -> c = c' /\ i = i'.
Proof. exact nft_key_inj. Qed.
Print Assumptions C12_no_alias.

(** ... which is why identifiers containing 0x00 had to be refused (finding F9, repaired) *)
Theorem C12_alias_with_nul_refuted : exists c i c' i', (c, i) <> (c', i') /\ nft_key c i = nft_key c' i'.
Proof. exact nft_key_alias_example. Qed.
Print Assumptions C12_alias_with_nul_refuted.

(** listings agree with the single-item views, each item once *)
Theorem C12_pnfts_of_denom : forall bech st, Inv_pnft st -> forall c p,
  In p (pnfts_of_class bech st c) <-> (exists i, get_pnft bech st c i = Some p).
Proof. exact pnfts_of_class_spec. Qed.
Print Assumptions C12_pnfts_of_denom.

Theorem C12_pnfts_of_denom_once : forall bech st, Inv_pnft st -> forall c,
  NoDup (map (fun p => tk_id (p_token p)) (pnfts_of_class bech st c)).
Proof. exact pnfts_of_class_NoDup. Qed.
Print Assumptions C12_pnfts_of_denom_once.

Theorem C12_pnfts_by_owner : forall bech st, Inv_pnft st -> forall c o p, verify_address_format o = true ->
  (In p (pnfts_of_class_by_owner bech st c o) <-> exists i, get_pnft bech st c i = Some p /\ get_owner st c i = o).
Proof. exact pnfts_by_owner_spec. Qed.
Print Assumptions C12_pnfts_by_owner.

Theorem C12_pnfts_by_owner_once : forall bech st, Inv_pnft st -> forall c o, verify_address_format o = true ->
  NoDup (map (fun p => tk_id (p_token p)) (pnfts_of_class_by_owner bech st c o)).
Proof. exact pnfts_by_owner_NoDup. Qed.
Print Assumptions C12_pnfts_by_owner_once.

Theorem C12_denoms_by_owner : forall st, Inv_pnft st -> forall o d,
  In d (denoms_by_owner true st o) <-> get_class st (dn_id d) = Some d /\ dn_owner d = o.
Proof. exact denoms_by_owner_spec. Qed.
Print Assumptions C12_denoms_by_owner.

Theorem C12_denoms_by_owner_once : forall st, Inv_pnft st -> forall o, NoDup (map dn_id (denoms_by_owner true st o)).
Proof. exact denoms_by_owner_NoDup. Qed.
Print Assumptions C12_denoms_by_owner_once.

(** the original DenomsByOwner ignored the owner (finding F7, repaired) *)
Theorem C12_denoms_by_owner_unfiltered_refuted :
  exists st o d, Inv_pnft st /\ In d (denoms_by_owner false st o) /\ dn_owner d <> o.
Proof. exact denoms_by_owner_unfiltered_refuted. Qed.
Print Assumptions C12_denoms_by_owner_unfiltered_refuted.

(** paging through Denoms yields every denom once *)
Theorem C12_denoms_paging : forall st limit ct reverse fuel, Inv_pnft st -> (0 < limit < Pagination.Model.two64)%N ->
  (N.of_nat (length (all_denoms st)) < Pagination.Model.two64)%N -> (length (all_denoms st) < fuel)%nat ->
  exists items, Pagination.Model.pages_by_key fuel (sub_store GenNft.nft_class_key st) limit ct reverse None = Ok items /\
                map snd items = map VClass (if reverse then rev (all_denoms st) else all_denoms st).
Proof. exact denoms_paging_complete. Qed.
Print Assumptions C12_denoms_paging.

(** the x/nft supply counter is the number of listed tokens *)
Theorem C12_supply_is_listed : forall bech st, Inv_pnft st -> forall c,
  get_supply st c = N.of_nat (length (pnfts_of_class bech st c)).
Proof. exact supply_is_listed. Qed.
Print Assumptions C12_supply_is_listed.

(** deleting a denom that still has tokens is refused (finding F8, repaired): an accepted delete had supply 0 *)
Theorem C12_delete_needs_empty : forall st id remover st',
  delete_denom true st id remover = Ok st' ->
  exists dn, get_class st id = Some dn /\ dn_owner dn = remover /\ get_supply st id = 0%N.
Proof. exact delete_denom_owner. Qed.
Print Assumptions C12_delete_needs_empty.
