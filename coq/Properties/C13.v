(** C13 — AOL counters and listings equal the real contents, with no cross-talk.
    Only property theorems; each is closed by [exact <lemma>]. *)
From Coq Require Import Strings.String Strings.Byte.
From Coq Require Import List Arith NArith ZArith Bool.
From PV Require Import Base.Bytes Base.Outcome Base.KV Compkey.Model Aol.Model Aol.Spec Aol.Inv Aol.Query Aol.Listing.
From PV Require Pagination.Model Pagination.Proofs.
From PV Require Import Chain.Model Chain.Run Chain.AolProps Chain.Example.
Import ListNotations.

(** counters: at every state reachable by any history the owner's counter is the number of its
    topics, a topic's counters are the numbers of its writers and records, and the record offsets
    present are exactly 0 .. total_records-1 *)
Theorem C13_counters : forall o bs c,
  unbech_wf (o_unbech o) -> Inv (c_aol c) ->
  let st := c_aol (run o c bs) in
  (forall ow n, owner_total st ow = Some n -> n = N.of_nat (length (topics_of st ow))) /\
  (forall ow t d nr nw, topic_info st ow t = Some (d, nr, nw) ->
      nw = N.of_nat (length (writers_of st ow t)) /\ nr = N.of_nat (length (records_of st ow t)) /\
      (forall n, (n < two64)%N -> (has_key st (RecordKey ow t n) = true <-> (n < nr)%N))).
Proof. exact counters_exact. Qed.
Print Assumptions C13_counters.

(** no cross-talk: the prefix store that Query/Topics iterates for owner [o] contains exactly the topic
    entries of [o] (for owners of any legal length, names that are prefixes of one another) *)
Theorem C13_topics_prefix_exact : forall st, Inv st -> forall o cp,
  verify_address_format o = true -> partial_encode [o; []] 1 = Some cp ->
  forall k v, In (k, v) (sub_store (GenConst.aol_topic_prefix ++ cp) st) <->
              exists t, encode [t] = Some k /\ lookup st (TopicKey o t) = Some v.
Proof. exact topics_sub_store_spec. Qed.
Print Assumptions C13_topics_prefix_exact.

Theorem C13_writers_prefix_exact : forall st, Inv st -> forall o t cp,
  verify_address_format o = true -> partial_encode [o; t; []] 2 = Some cp ->
  forall k v, In (k, v) (sub_store (GenConst.aol_writer_prefix ++ cp) st) <->
              exists w, encode [w] = Some k /\ lookup st (WriterKey o t w) = Some v.
Proof. exact writers_sub_store_spec. Qed.
Print Assumptions C13_writers_prefix_exact.

(** paging through the topics of an owner by handed-out next keys, with any page size, direction and
    with or without count_total, yields exactly the owner's topics, each once (no bound on their number
    other than 2^64) *)
Theorem C13_topics_paging_by_key : forall unbech st owner_s o limit ct reverse fuel,
  Inv st -> unbech_wf unbech -> unbech owner_s = Some o -> (0 < limit < Pagination.Model.two64)%N ->
  (N.of_nat (length (topics_of st o)) < Pagination.Model.two64)%N -> (length (topics_of st o) < fuel)%nat ->
  exists out, topics_by_key fuel unbech st owner_s limit ct reverse None = Ok out /\
              NoDup out /\ forall t, In t out <-> has_key st (TopicKey o t) = true.
Proof. exact topics_paging_exact. Qed.
Print Assumptions C13_topics_paging_by_key.

Theorem C13_topics_paging_by_offset : forall unbech st owner_s o limit ct reverse fuel,
  Inv st -> unbech_wf unbech -> unbech owner_s = Some o -> (0 < limit)%N ->
  (N.of_nat (length (topics_of st o)) + limit < Pagination.Model.two64)%N -> (length (topics_of st o) < fuel)%nat ->
  topics_by_offset fuel unbech st owner_s limit ct reverse 0 = Ok (if reverse then rev (topics_of st o) else topics_of st o).
Proof. exact topics_paging_by_offset_complete. Qed.
Print Assumptions C13_topics_paging_by_offset.

Theorem C13_writers_paging_by_key : forall unbech bech st owner_s o t limit ct reverse fuel,
  Inv st -> unbech_wf unbech -> unbech owner_s = Some o -> length t <= 255 -> (0 < limit < Pagination.Model.two64)%N ->
  (N.of_nat (length (writers_of st o t)) < Pagination.Model.two64)%N -> (length (writers_of st o t) < fuel)%nat ->
  exists ws, writers_by_key fuel unbech bech st owner_s t limit ct reverse None =
               Ok (map bech (if reverse then rev ws else ws)) /\
             NoDup ws /\
             forall w, verify_address_format w = true -> (In w ws <-> has_key st (WriterKey o t w) = true).
Proof. exact writers_paging_exact. Qed.
Print Assumptions C13_writers_paging_by_key.

Theorem C13_writers_paging_by_offset : forall unbech bech st owner_s o t limit ct reverse fuel,
  Inv st -> unbech_wf unbech -> unbech owner_s = Some o -> length t <= 255 -> (0 < limit)%N ->
  (N.of_nat (length (writers_of st o t)) + limit < Pagination.Model.two64)%N -> (length (writers_of st o t) < fuel)%nat ->
  writers_by_offset fuel unbech bech st owner_s t limit ct reverse 0
    = Ok (if reverse then rev (map bech (writers_of st o t)) else map bech (writers_of st o t)).
Proof. exact writers_paging_by_offset_complete. Qed.
Print Assumptions C13_writers_paging_by_offset.

(** the reported total of a count_total request is the number of the owner's topics *)
Theorem C13_topics_total : forall unbech st owner_s o offset limit reverse,
  Inv st -> unbech_wf unbech -> unbech owner_s = Some o ->
  (0 < limit)%N -> (offset + limit < Pagination.Model.two64)%N -> (N.of_nat (length (topics_of st o)) < Pagination.Model.two64)%N ->
  exists names next, q_topics unbech st owner_s (Some (Pagination.Model.mk_page_req None offset limit true reverse))
    = Ok (names, Pagination.Model.mk_page_res next (N.of_nat (length (topics_of st o)))).
Proof. exact topics_total. Qed.
Print Assumptions C13_topics_total.

(** the SDK's reverse-iteration panic (known finding K2) is a property of query.Paginate itself *)
Theorem C13_paginate_panic_exactly : forall (V : Type) (items : list (bytes * V)) req,
  Pagination.Model.paginate items (Some req) = Panic <->
  Pagination.Model.pr_reverse req = true /\ Pagination.Model.pr_offset req = 0%N /\
  exists k x, Pagination.Model.pr_key req = Some k /\ k <> [] /\ Pagination.Model.range items k None = [x].
Proof. exact (@Pagination.Proofs.paginate_panic_iff). Qed.
Print Assumptions C13_paginate_panic_exactly.

(** non-vacuity: the toy history's final state satisfies the hypotheses and lists one topic *)
Example C13_nonvacuous :
  topics_of (c_aol toy_final) (b "A") = [b "t"] /\
  topics_by_key 5 toy_unbech (c_aol toy_final) (b "A") 1 true true None = Ok [b "t"] /\
  owner_total (c_aol toy_final) (b "A") = Some 1%N.
Proof. vm_compute. repeat split; reflexivity. Qed.
