(** C01 — AOL records are append-only: immutable, never deleted, densely numbered.
    Only property theorems; each is closed by [exact <lemma>]. *)
From Coq Require Import Strings.String Strings.Byte.
From Coq Require Import List Arith NArith ZArith Bool.
From PV Require Import Base.Bytes Base.Outcome Base.KV Compkey.Model Aol.Model Aol.Spec Aol.Inv.
From PV Require Import Chain.Model Chain.Run Chain.AolProps Chain.Example.
Import ListNotations.

(** along every history (any blocks, any transactions of any kind, accepted or not) from a state that
    satisfies the invariant, the invariant holds again and no record entry is changed or removed *)
Theorem C01_inv_and_immutable : forall o bs c,
  unbech_wf (o_unbech o) -> Inv (c_aol c) ->
  Inv (c_aol (run o c bs)) /\ records_preserved (c_aol c) (c_aol (run o c bs)).
Proof. exact aol_run. Qed.
Print Assumptions C01_inv_and_immutable.

(** the empty store (a chain started from the default genesis) satisfies the invariant *)
Theorem C01_inv_initial : Inv (c_aol empty_chain).
Proof. exact Inv_empty. Qed.
Print Assumptions C01_inv_initial.

(** the gRPC answer for (owner, topic, n), once given, is given after every further history *)
Theorem C01_query_stable : forall o bs c os t n v,
  unbech_wf (o_unbech o) -> Inv (c_aol c) -> (n < two64)%N ->
  q_record (o_unbech o) true (c_aol c) os t n = Ok v ->
  q_record (o_unbech o) true (c_aol (run o c bs)) os t n = Ok v.
Proof. exact q_record_stable. Qed.
Print Assumptions C01_query_stable.

(** an accepted append in any state satisfying the invariant: the acknowledged offset is the number of
    records the topic held, that offset was free, it now holds exactly the submitted key, value, writer
    string and block time, and the topic's counter moved to offset+1 *)
Theorem C01_ack_is_count : forall e c t k v ws os fp c' acks,
  env_ok e -> Inv (c_aol c) ->
  exec_base e c (BAol (AAddRecord t k v ws os fp)) = Ok (c', acks) ->
  exists ow w n d nw,
    e_unbech e os = Some ow /\ e_unbech e ws = Some w /\ acks = [n] /\
    topic_info (c_aol c) ow t = Some (d, n, nw) /\
    n = N.of_nat (length (records_of (c_aol c) ow t)) /\
    has_key (c_aol c) (WriterKey ow t w) = true /\
    lookup (c_aol c) (RecordKey ow t n) = None /\
    lookup (c_aol c') (RecordKey ow t n) = Some (VRecord k v (e_now e) ws) /\
    topic_info (c_aol c') ow t = Some (d, (n + 1)%N, nw).
Proof. exact add_record_accepted. Qed.
Print Assumptions C01_ack_is_count.

(** offsets are dense and never reused: at every reachable state the offsets present for a topic are
    exactly 0 .. total_records-1 and their number is total_records *)
Theorem C01_dense : forall o bs c,
  unbech_wf (o_unbech o) -> Inv (c_aol c) ->
  let st := c_aol (run o c bs) in
  (forall ow n, owner_total st ow = Some n -> n = N.of_nat (length (topics_of st ow))) /\
  (forall ow t d nr nw, topic_info st ow t = Some (d, nr, nw) ->
      nw = N.of_nat (length (writers_of st ow t)) /\ nr = N.of_nat (length (records_of st ow t)) /\
      (forall n, (n < two64)%N -> (has_key st (RecordKey ow t n) = true <-> (n < nr)%N))).
Proof. exact counters_exact. Qed.
Print Assumptions C01_dense.

(** non-vacuity: a two-block history with two accepted appends, a rejected stranger, a writer removal
    and a rejected append afterwards; the two records are there with their data and block times *)
Example C01_nonvacuous :
  run_results toy_oracles empty_chain toy_history =
    [[ROk []; ROk [0%N]]; [RMsg 0 (b "aol") 9; ROk [1%N]; ROk []; RMsg 0 (b "aol") 9]] /\
  lookup (c_aol toy_final) (RecordKey (b "A") (b "t") 0) = Some (VRecord (b "k0") (b "v0") 100 (b "W")) /\
  lookup (c_aol toy_final) (RecordKey (b "A") (b "t") 1) = Some (VRecord (b "k1") (b "v1") 200 (b "W")) /\
  topic_info (c_aol toy_final) (b "A") (b "t") = Some (b "desc", 2%N, 0%N).
Proof. vm_compute. repeat split; reflexivity. Qed.
