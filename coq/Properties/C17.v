(** C17 — Totality: no message, query or key file makes the code panic.
    Only property theorems; each is closed by [exact <lemma>].  [Panic] is an explicit outcome of the model:
    every Go operation that can abort (Must* functions, nil dereference, index out of range, slicing beyond the
    length, NewUint on a negative, make with a negative size) is mapped to it. *)
From Coq Require Import Strings.String Strings.Byte.
From Coq Require Import List Arith NArith ZArith Bool.
From PV Require Import Base.Bytes Base.Outcome Base.KV Compkey.Model Aol.Model Aol.Query Bank.Model Did.Model Pnft.Model.
From PV Require Import Chain.Model Chain.AolProps Chain.TotalProps Chain.BankProps Keystore.Load.
From PV Require Pagination.Model Pnft.Query.
From PV Require Generated.GenConst Generated.GenNft.
Import ListNotations.

(** stateless validation of every message of the alphabet, for every field value *)
Theorem C17_validate_basic_total : forall e m, validate_basic e m <> Panic.
Proof. exact validate_basic_total. Qed.
Print Assumptions C17_validate_basic_total.

(** signer extraction after successful validation *)
Theorem C17_signers_after_validation : forall e m, validate_basic e m = Ok tt -> exists l, signers e m = Ok l.
Proof. exact signers_msg_after_validation. Qed.
Print Assumptions C17_signers_after_validation.

(** message handlers, on every state *)
Theorem C17_handlers_total : forall e c m, env_ok e -> validate_basic e m = Ok tt -> exec_msg e c m <> Panic.
Proof. exact exec_msg_total. Qed.
Print Assumptions C17_handlers_total.

(** a whole transaction: neither validation nor any handler aborts *)
Theorem C17_deliver_tx_total : forall e c t, env_ok e ->
  snd (deliver_tx e c t) <> RVbPanic /\ snd (deliver_tx e c t) <> RMsgPanic.
Proof. exact deliver_tx_total. Qed.
Print Assumptions C17_deliver_tx_total.

(** single-item query handlers, for every request and state *)
Theorem C17_query_record_total : forall unbech st o t n, q_record unbech true st o t n <> Panic.
Proof. exact q_record_total. Qed.
Print Assumptions C17_query_record_total.
Theorem C17_query_topic_total : forall unbech st o t, q_topic unbech true st o t <> Panic.
Proof. exact q_topic_total. Qed.
Print Assumptions C17_query_topic_total.
Theorem C17_query_writer_total : forall unbech st o t w, q_writer unbech true st o t w <> Panic.
Proof. exact q_writer_total. Qed.
Print Assumptions C17_query_writer_total.
Theorem C17_query_did_total : forall st did,
  q_did st did = DNotFound \/ q_did st did = DDeactivated \/
  exists d, en_doc (get_entry st did) = Some d /\ q_did st did = DFound d (en_seq (get_entry st did)).
Proof. exact q_did_total. Qed.
Print Assumptions C17_query_did_total.

(** paginated query handlers: the full statement ("never Panic") is false of the faithful model, because the
    SDK's query.Paginate aborts on one request shape (known finding K2).  Proved instead, exactly: the handler
    panics if and only if the request is reverse, offset 0, with a non-empty key above all stored keys but one *)
Theorem C17_query_topics_partial : forall unbech st owner_s req,
  q_topics unbech st owner_s req = Panic <->
  exists o cp r k x,
    unbech owner_s = Some o /\ encode [o] = Some cp /\ req = Some r /\
    Pagination.Model.pr_reverse r = true /\ Pagination.Model.pr_offset r = 0%N /\
    Pagination.Model.pr_key r = Some k /\ k <> [] /\
    Pagination.Model.range (sub_store (GenConst.aol_topic_prefix ++ cp) st) k None = [x].
Proof. exact q_topics_panic_iff. Qed.
Print Assumptions C17_query_topics_partial.
Theorem C17_query_writers_partial : forall unbech bech st owner_s topic req,
  q_writers unbech bech st owner_s topic req = Panic <->
  exists o cp r k x,
    unbech owner_s = Some o /\ encode [o; topic] = Some cp /\ req = Some r /\
    Pagination.Model.pr_reverse r = true /\ Pagination.Model.pr_offset r = 0%N /\
    Pagination.Model.pr_key r = Some k /\ k <> [] /\
    Pagination.Model.range (sub_store (GenConst.aol_writer_prefix ++ cp) st) k None = [x].
Proof. exact q_writers_panic_iff. Qed.
Print Assumptions C17_query_writers_partial.
Theorem C17_query_denoms_partial : forall st req,
  Pnft.Query.q_denoms st req = Panic <->
  exists r k x, req = Some r /\ Pagination.Model.pr_reverse r = true /\ Pagination.Model.pr_offset r = 0%N /\
                Pagination.Model.pr_key r = Some k /\ k <> [] /\
                Pagination.Model.range (sub_store GenNft.nft_class_key st) k None = [x].
Proof. exact q_denoms_panic_iff. Qed.
Print Assumptions C17_query_denoms_partial.
(** ... so forward, nil and offset-style requests never panic ... *)
Theorem C17_query_topics_forward : forall unbech st owner_s r,
  Pagination.Model.pr_reverse r = false -> q_topics unbech st owner_s (Some r) <> Panic.
Proof. exact q_topics_total_forward. Qed.
Print Assumptions C17_query_topics_forward.
Theorem C17_query_writers_forward : forall unbech bech st owner_s topic r,
  Pagination.Model.pr_reverse r = false -> q_writers unbech bech st owner_s topic (Some r) <> Panic.
Proof. exact q_writers_total_forward. Qed.
Print Assumptions C17_query_writers_forward.
Theorem C17_query_denoms_forward : forall st r,
  Pagination.Model.pr_reverse r = false -> Pnft.Query.q_denoms st (Some r) <> Panic.
Proof. exact q_denoms_total_forward. Qed.
Print Assumptions C17_query_denoms_forward.
(** ... and the witness of K2 *)
Theorem C17_query_topics_refuted : exists st, q_topics (fun _ => Some [x01]) st [] (Some k2_req) = Panic.
Proof. exact q_topics_refuted. Qed.
Print Assumptions C17_query_topics_refuted.

(** loading any key-store file with any password *)
Theorem C17_keystore_load_total : forall f, load true f <> LPanic.
Proof. exact load_total. Qed.
Print Assumptions C17_keystore_load_total.

(** end-of-block processing returns normally on every bank state *)
Theorem C17_end_block_total : forall e c, burn_end_block (e_now e) (c_bank c) <> Panic.
Proof. exact end_block_never_halts. Qed.
Print Assumptions C17_end_block_total.

(** the original code did panic (findings F1, F2, F4, repaired): the lenient variants of the same model functions *)
Theorem C17_lenient_query_refuted : exists unbech st o t n, q_record unbech false st o t n = Panic.
Proof. exact lenient_query_panics. Qed.
Print Assumptions C17_lenient_query_refuted.
Theorem C17_lenient_validate_refuted : exists unbech did sig from, vb_create_update unbech false did None sig from = Panic.
Proof. exact lenient_validate_panics. Qed.
Print Assumptions C17_lenient_validate_refuted.
Theorem C17_lenient_keystore_refuted :
  load false (with_dklen good_file 0) = LPanic /\ load false (with_iv_len good_file 1) = LPanic /\ load true good_file = LOk /\
  load true (with_dklen good_file 0) = LErr /\ load true (with_iv_len good_file 1) = LErr.
Proof. exact load_lenient_refuted. Qed.
Print Assumptions C17_lenient_keystore_refuted.
