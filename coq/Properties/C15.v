(** C15 — Custom-module transactions move no coins except the fee, charged to the payer; all-or-nothing.
    Only property theorems; each is closed by [exact <lemma>]. *)
From Coq Require Import Strings.String Strings.Byte.
From Coq Require Import List Arith NArith ZArith Bool.
From PV Require Import Base.Bytes Base.Outcome Base.KV Aol.Model Bank.Model Did.Model Pnft.Model.
From PV Require Import Chain.Model Chain.Run Chain.FeeProps Chain.SchemaProps Chain.Example.
From PV Require Generated.GenSchema Generated.GenApp.
Import ListNotations.

(** after a transaction made only of AOL / DID / PNFT messages (directly or inside MsgExec) the bank is the bank
    after the ante handler when that accepted — whatever the messages did — and the old bank otherwise *)
Theorem C15_balances : forall e c t,
  forallb custom_msg (tx_msgs t) = true ->
  c_bank (fst (deliver_tx e c t)) =
    match tx_msgs t, vb_msgs e (tx_msgs t), ante e c t with
    | _ :: _, Ok _, Some c1 => c_bank c1
    | _, _, _ => c_bank c
    end.
Proof. exact custom_tx_bank. Qed.
Print Assumptions C15_balances.

(** the ante handler moves exactly the declared fee from the first required signer (who signed first) to
    the fee collector, or nothing when no fee is declared *)
Theorem C15_fee_from_first_signer : forall e c t c1,
  ante e c t = Some c1 ->
  exists payer rest, required_signers e t = Ok (payer :: rest) /\ tx_signed_by t = payer :: rest /\
    (tx_fee t = [] /\ c_bank c1 = c_bank c \/
     tx_fee t <> [] /\ send (c_bank c) (e_now e) payer (e_fee_collector e) (tx_fee t) = Some (c_bank c1)).
Proof. exact ante_moves_fee. Qed.
Print Assumptions C15_fee_from_first_signer.

(** an add-record transaction that names a fee payer is charged to that address, never to the writer *)
Theorem C15_addrecord_payer : forall e t topic k v w o fp r fpa,
  tx_msgs t = MBase (BAol (AAddRecord topic k v w o fp)) :: r -> fp <> [] -> e_unbech e fp = Some fpa ->
  forall l, required_signers e t = Ok l -> exists rest, l = fpa :: rest.
Proof. exact addrecord_payer. Qed.
Print Assumptions C15_addrecord_payer.

(** total supply is unchanged *)
Theorem C15_supply_unchanged : forall e c t,
  forallb custom_msg (tx_msgs t) = true -> supply (c_bank (fst (deliver_tx e c t))) = supply (c_bank c).
Proof. exact custom_tx_supply. Qed.
Print Assumptions C15_supply_unchanged.

(** if any message of a transaction fails, none of its messages has any effect on AOL, DID or PNFT state *)
Theorem C15_atomic : forall e c t,
  (forall acks, snd (deliver_tx e c t) <> ROk acks) ->
  c_aol (fst (deliver_tx e c t)) = c_aol c /\ c_did (fst (deliver_tx e c t)) = c_did c /\
  c_pnft (fst (deliver_tx e c t)) = c_pnft c.
Proof. exact custom_state_atomic. Qed.
Print Assumptions C15_atomic.

(** ties to the source, regenerated on every run: the model's signer extraction answers every GetSigners
    probe (all message kinds, all patterns of equal / different / empty address fields) like the Go code, and
    the AOL and DID keepers hold no bank keeper *)
Theorem C15_signer_probes_agree : probes_agree = true.
Proof. exact signer_probes_agree. Qed.
Print Assumptions C15_signer_probes_agree.

Theorem C15_handlers_have_no_bank : keeper_has_bank (b "aol") = false /\ keeper_has_bank (b "did") = false.
Proof. exact aol_did_keepers_have_no_bank. Qed.
Print Assumptions C15_handlers_have_no_bank.

(** non-vacuity: a two-message transaction whose second message fails charges the fee and changes no custom state *)
Definition fee_tx : tx :=
  {| tx_msgs := [MBase (BAol (ACreateTopic (b "t") [] A)); MBase (BAol (AAddRecord (b "t") [] [] W A []))];
     tx_signed_by := [A; W]; tx_fee := [(b "umed", 7%N)] |}.
Definition fee_chain : chain := with_bank empty_chain (set_balance (c_bank empty_chain) A (b "umed") 100%N).
Example C15_nonvacuous :
  snd (deliver_tx (env_at toy_oracles 5%Z) fee_chain fee_tx) = RMsg 1 (b "aol") 9 /\
  balance (c_bank (fst (deliver_tx (env_at toy_oracles 5%Z) fee_chain fee_tx))) A (b "umed") = 93%N /\
  balance (c_bank (fst (deliver_tx (env_at toy_oracles 5%Z) fee_chain fee_tx))) [xff] (b "umed") = 7%N /\
  c_aol (fst (deliver_tx (env_at toy_oracles 5%Z) fee_chain fee_tx)) = [].
Proof. vm_compute. repeat split; reflexivity. Qed.

(** source tie (T1): the decorators of app/ante.go, in order, are the ones the model's [ante] abstracts (fee deduction
    from the payer, signature verification for the required signers, sequence increment) *)
Theorem C15_ante_chain_as_modelled : GenApp.ante_decorators = modelled_ante_chain.
Proof. exact ante_chain_as_modelled. Qed.
Print Assumptions C15_ante_chain_as_modelled.
