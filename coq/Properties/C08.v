(** C08 — Genesis export then import reproduces the custom-module state exactly.
    Only property theorems; each is closed by [exact <lemma>].  [export_import_json] is the model of
    ExportGenesis -> JSON -> ValidateGenesis -> InitGenesis for the custom modules (Chain/Model.v). *)
From Coq Require Import Strings.String Strings.Byte.
From Coq Require Import List Arith NArith ZArith Bool Permutation.
From PV Require Import Base.Bytes Base.Utf8 Base.Outcome Base.KV Compkey.Model Aol.Model Aol.Spec Aol.StoredSpec Aol.Genesis Valid.Aol.
From PV Require Import Did.Model Did.Props Did.Genesis Pnft.Model Pnft.Spec Pnft.Genesis.
From PV Require Import Chain.Model Chain.Run Chain.GenesisProps Chain.GenesisJson.
From PV Require Chain.DidExportValid.
Import ListNotations.

(** every state reachable from the empty chain by any history of blocks whose text is valid UTF-8: the export
    validates and imports; AOL, DID, bank and authz state come back identical; the PNFT store comes back without the
    zero supply counters x/nft leaves behind (identical when there are none); the three exports of the imported
    chain are identical to the first ones; a second export/import is the identity *)
Theorem C08_roundtrip_along_histories : forall o : oracles,
  unbech_wf (o_unbech o) ->
  (forall a, verify_address_format a = true -> o_unbech o (o_bech o a) = Some a) ->
  (forall a, no_byte sep (o_bech o a)) ->
  (forall a, verify_address_format a = true -> o_bech o a <> []) ->
  forall bs, let c := run o empty_chain bs in
  utf8_ok_chain (o_bech o) c ->
  exists c', export_import_json (o_bech o) (o_unbech o) c = Ok c' /\
    c_aol c' = c_aol c /\ c_did c' = c_did c /\ c_pnft c' = strip_zero_supply (c_pnft c) /\
    c_bank c' = c_bank c /\ c_grants c' = c_grants c /\
    (no_zero_supply (c_pnft c) -> c' = c) /\
    export_genesis (o_bech o) (c_aol c') = export_genesis (o_bech o) (c_aol c) /\
    export_did (c_did c') = export_did (c_did c) /\
    export_pnft (o_bech o) (c_pnft c') = export_pnft (o_bech o) (c_pnft c) /\
    export_import_json (o_bech o) (o_unbech o) c' = Ok c'.
Proof. exact export_import_json_along_histories. Qed.
Print Assumptions C08_roundtrip_along_histories.

(** every PNFT keeper read (hence every PNFT query: denoms, tokens, owners, creators, creation times, supply)
    answers on the imported chain exactly as before — the dropped zero counters are invisible *)
Theorem C08_pnft_queries_unchanged : forall bech unbech,
  (forall a, verify_address_format a = true -> unbech (bech a) = Some a) ->
  (forall a, no_byte sep (bech a)) ->
  (forall a, verify_address_format a = true -> bech a <> []) ->
  forall c c', json_ok bech unbech c -> export_import_json bech unbech c = Ok c' ->
  (forall id, get_class (c_pnft c') id = get_class (c_pnft c) id) /\
  (forall id i, get_pnft bech (c_pnft c') id i = get_pnft bech (c_pnft c) id i) /\
  (forall id i, get_owner (c_pnft c') id i = get_owner (c_pnft c) id i) /\
  (forall id, get_supply (c_pnft c') id = get_supply (c_pnft c) id) /\
  all_denoms (c_pnft c') = all_denoms (c_pnft c) /\
  (forall id, pnfts_of_class bech (c_pnft c') id = pnfts_of_class bech (c_pnft c) id).
Proof. exact export_import_json_chain_pnft_reads. Qed.
Print Assumptions C08_pnft_queries_unchanged.

(** a sufficient condition on the stored values for the UTF-8 premise *)
Theorem C08_text_ok_suffices : forall o : oracles, unbech_wf (o_unbech o) ->
  forall bs, let c := run o empty_chain bs in
  (forall a, vu (o_bech o a)) -> text_ok c ->
  export_import_json (o_bech o) (o_unbech o) c = export_import (o_bech o) (o_unbech o) c.
Proof. exact export_import_json_text_ok. Qed.
Print Assumptions C08_text_ok_suffices.

(** the genesis maps are Go maps: importing the exported entries in ANY order gives the same state *)
Theorem C08_did_import_order_irrelevant : forall st, Inv_did st ->
  forall g, Permutation g (export_did st) -> init_did g [] = st.
Proof. exact did_export_import_perm. Qed.
Print Assumptions C08_did_import_order_irrelevant.

(** the JSON layer is the identity exactly on valid UTF-8 *)
Theorem C08_json_text_identity_iff_valid : forall l, coerce_utf8 l = l <-> valid_utf8 l = true.
Proof. exact Base.Utf8Proofs.coerce_id_iff_valid. Qed.
Print Assumptions C08_json_text_identity_iff_valid.

(** the original PNFT import (mint to the creator, finding F10, repaired) did not restore a transferred token *)
Theorem C08_pnft_import_to_creator_refuted : exists st,
  Inv_pnft st /\ Pnft_stored_ok st /\ no_zero_supply st /\
  init_pnft_genesis id_unbech false (export_pnft id_bech st) = Ok st /\
  init_pnft_genesis id_unbech true (export_pnft id_bech st) <> Ok st /\
  exists st', init_pnft_genesis id_unbech true (export_pnft id_bech st) = Ok st' /\
    get_owner st (b "a") (b "i") = b "B" /\ get_owner st' (b "a") (b "i") = b "A".
Proof. exact pnft_import_to_creator_refuted. Qed.
Print Assumptions C08_pnft_import_to_creator_refuted.

(** the full statement without the UTF-8 premise is FALSE of the faithful model (known finding K3): one accepted
    CreateTopic whose description is the byte 0xff — the imported description is EF BF BD; with 5000 such bytes the
    exported genesis fails its own validation (15000 > 5000) *)
Theorem C08_invalid_utf8_refuted :
  let c := run ex_oracles empty_chain (k3_history [xff]) in
  let bech := o_bech ex_oracles in let unbech := o_unbech ex_oracles in
  run_results ex_oracles empty_chain (k3_history [xff]) = [[ROk []]] /\
  genesis_ok c /\ writers_decode unbech (c_aol c) /\
  c_aol c = k3_aol [xff] /\
  export_import bech unbech c = Ok c /\
  ~ utf8_ok_chain bech c /\
  exists c', export_import_json bech unbech c = Ok c' /\
    c_aol c' = k3_aol [xef; xbf; xbd] /\ c_aol c' <> c_aol c /\ c' <> c /\
    export_import_json bech unbech c' = Ok c'.
Proof. exact export_import_json_state_not_preserved. Qed.
Print Assumptions C08_invalid_utf8_refuted.

Theorem C08_invalid_utf8_genesis_refused_refuted :
  let d := repeat xff 5000 in
  let c := run ex_oracles empty_chain (k3_history d) in
  let bech := o_bech ex_oracles in let unbech := o_unbech ex_oracles in
  validate_description d = Ok tt /\
  run_results ex_oracles empty_chain (k3_history d) = [[ROk []]] /\
  genesis_ok c /\ writers_decode unbech (c_aol c) /\
  c_aol c = k3_aol d /\
  export_import bech unbech c = Ok c /\
  blen (cu d) = 15000%N /\ validate_description (cu d) = Err cs_aol 2 /\
  export_import_json bech unbech c = Err (b "aol") 0.
Proof. exact export_import_json_genesis_refused. Qed.
Print Assumptions C08_invalid_utf8_genesis_refused_refuted.

(** "passes the custom modules' genesis validation", x/did: whatever history the chain has gone through — from the empty
    registry or from a genesis that itself passed GenesisState.Validate (as repaired, F14: tombstone or document about its
    own key) — the DID genesis it exports passes that validation again *)
Theorem C08_did_export_passes_validation : forall o bs c g,
  validate_did_genesis g = true -> c_did c = init_did g [] ->
  validate_did_genesis (export_did (c_did (run o c bs))) = true.
Proof. exact Chain.DidExportValid.export_of_any_history_passes_validation. Qed.
Print Assumptions C08_did_export_passes_validation.

Theorem C08_did_export_from_empty_passes_validation : forall o bs c,
  c_did c = [] -> validate_did_genesis (export_did (c_did (run o c bs))) = true.
Proof. exact Chain.DidExportValid.export_from_empty_passes_validation. Qed.
Print Assumptions C08_did_export_from_empty_passes_validation.
