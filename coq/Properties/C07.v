(** C07 — The burn address is a sink: emptied at the end of every block, the supply shrinks by exactly that.
    Only property theorems; each is closed by [exact <lemma>]. *)
From Coq Require Import Strings.String Strings.Byte.
From Coq Require Import List Arith NArith ZArith Bool.
From PV Require Import Base.Bytes Base.Outcome Base.KV Bank.Model Bank.Props.
From PV Require Import Chain.Model Chain.Run Chain.BankProps.
From PV Require Generated.GenApp.
From PV Require Import Chain.SchemaProps.
Import ListNotations.

(** one end-of-block: the invariant (bank accounting identity + the burn module account holds nothing) is kept,
    afterwards nothing is spendable at the burn address, the supply of every denomination went down by exactly
    what was spendable there, and no other account's balance changed *)
Theorem C07_end_block : forall e c, bank_env_ok e -> BI c ->
  BI (end_block e c) /\
  spendable_coins (c_bank (end_block e c)) (e_now e) GenApp.burn_address = [] /\
  (forall d, denom_ok d -> supply_of (c_bank (end_block e c)) d
     = (supply_of (c_bank c) d - amount_of (spendable_coins (c_bank c) (e_now e) GenApp.burn_address) d)%N) /\
  (forall a d, addr_ok a -> denom_ok d -> a <> GenApp.burn_address ->
     balance (c_bank (end_block e c)) a d = balance (c_bank c) a d).
Proof. exact end_block_BI_sink. Qed.
Print Assumptions C07_end_block.

(** a whole block (begin-block, any transactions — sends, multi-sends, vesting-account creation at any address, authz,
    custom-module messages, accepted or not — then end-block) *)
Theorem C07_block : forall e c txs, bank_env_ok e -> fees_ok_txs txs -> BI c ->
  let c' := fst (run_block e c txs) in
  BI c' /\ spendable_coins (c_bank c') (e_now e) GenApp.burn_address = [].
Proof. exact run_block_BI_sink. Qed.
Print Assumptions C07_block.

Theorem C07_block_supply : forall e c txs, bank_env_ok e -> fees_ok_txs txs -> BI c ->
  forall d, denom_ok d ->
    supply_of (c_bank (fst (run_block e c txs))) d
    = (supply_of (c_bank (fst (deliver_txs e (begin_block e c) txs))) d
       - amount_of (spendable_coins (c_bank (fst (deliver_txs e (begin_block e c) txs))) (e_now e) GenApp.burn_address) d)%N.
Proof. exact run_block_supply. Qed.
Print Assumptions C07_block_supply.

(** every history of blocks: at the end of the last block nothing is spendable at the burn address ... *)
Theorem C07_sink_after_every_block : forall o bs t txs c,
  (forall t, bank_env_ok (env_at o t)) -> fees_ok (bs ++ [(t, txs)]) -> BI c ->
  spendable_coins (c_bank (run o c (bs ++ [(t, txs)]))) t GenApp.burn_address = [].
Proof. exact run_sink. Qed.
Print Assumptions C07_sink_after_every_block.

(** ... and the bank-wide accounting identity holds: total supply = sum of all balances, per denomination *)
Theorem C07_accounting_after_every_block : forall o bs c,
  (forall t, bank_env_ok (env_at o t)) -> fees_ok bs -> BI c ->
  Bank_inv (c_bank (run o c bs)) /\
  (forall d, denom_ok d -> total_balance (c_bank (run o c bs)) d = supply_of (c_bank (run o c bs)) d) /\
  (forall d, balance (c_bank (run o c bs)) GenApp.burn_module_account d = 0%N).
Proof. exact run_accounting. Qed.
Print Assumptions C07_accounting_after_every_block.

(** the multi-send route: a multi-send whose outputs sum to its input keeps the accounting identity, the supply and
    the total balance of every denomination, and touches only the sender and the output addresses *)
Theorem C07_multi_send_conserves : forall bk now from cs outs bk',
  Bank_inv bk -> addr_ok from -> Forall (fun c => denom_ok (fst c)) cs ->
  Forall (fun o => addr_ok (fst o) /\ Forall (fun c => denom_ok (fst c)) (snd o)) outs ->
  (forall d, amount_of cs d = amount_of (outs_coins outs) d) ->
  multi_send bk now from cs outs = Some bk' ->
  Bank_inv bk' /\ (forall d, supply_of bk' d = supply_of bk d) /\
  (forall d, denom_ok d -> total_balance bk' d = total_balance bk d) /\
  (forall a d, addr_ok a -> denom_ok d -> a <> from -> ~ In a (map fst outs) -> balance bk' a d = balance bk a d).
Proof. exact multi_send_conserves. Qed.
Print Assumptions C07_multi_send_conserves.

(** non-vacuity of that route: a validated multi-send with an output at the burn address is accepted, and the
    end-blocker of the block burns exactly that output *)
Theorem C07_multi_send_reaches_burn_address :
  let c := with_bank empty_chain ms_bank in
  bank_env_ok ms_env /\ BI c /\ vb_base ms_env ms_msg = Ok tt /\
  exists c', exec_base ms_env c ms_msg = Ok (c', []) /\
    balance (c_bank c') ms_A umed = 0%N /\ balance (c_bank c') GenApp.burn_address umed = 7%N /\
    balance (c_bank c') ms_B umed = 3%N /\ supply_of (c_bank c') umed = 10%N /\
    balance (c_bank (end_block ms_env c')) GenApp.burn_address umed = 0%N /\
    supply_of (c_bank (end_block ms_env c')) umed = 3%N.
Proof. exact multi_send_reaches_burn_address. Qed.
Print Assumptions C07_multi_send_reaches_burn_address.

(** the end-blocker returns normally whatever the state of the burn address (locked coins included) *)
Theorem C07_never_halts : forall e c, burn_end_block (e_now e) (c_bank c) <> Panic.
Proof. exact end_block_never_halts. Qed.
Print Assumptions C07_never_halts.

(** the original end-blocker (all balances instead of spendable coins, finding F6, repaired) failed on locked
    coins and left the burn address non-empty; the repaired one succeeds on the same state *)
Theorem C07_all_balances_refuted : exists bk now,
  Bank_inv bk /\ spendable_coins bk now GenApp.burn_address <> [] /\
  send bk now GenApp.burn_address GenApp.burn_module_account
       (map (fun d => (d, balance bk GenApp.burn_address d)) (denoms_of bk GenApp.burn_address)) = None.
Proof. exact burn_all_balances_fails_when_locked. Qed.
Print Assumptions C07_all_balances_refuted.

(** non-vacuity: the empty chain satisfies the invariant *)
Theorem C07_invariant_initially : BI empty_chain.
Proof. exact BI_empty. Qed.
Print Assumptions C07_invariant_initially.

(** source tie (T1): in app.go's end-blocker order only custom modules with an empty EndBlock come after the burn module,
    so "after end_block" in the theorems above is "at the end of the block" of the application *)
Theorem C07_burn_is_last_coin_mover : GenApp.burn_in_end_blockers = true /\ after_burn_harmless = true.
Proof. exact burn_is_last_coin_mover. Qed.
Print Assumptions C07_burn_is_last_coin_mover.

(** source tie (T1): the burn module account is on the bank's blocklist, so no transaction can put coins — and with them an
    ordinary account — at its address before the first burn creates the module account there (the burn would panic on an
    account of the wrong kind); the burn profile sends coins to the module accounts before the first burn and expects a refusal *)
Theorem C07_burn_module_account_cannot_receive : GenApp.burn_module_account_blocked = true.
Proof. exact burn_module_account_blocked_fact. Qed.
Print Assumptions C07_burn_module_account_cannot_receive.
