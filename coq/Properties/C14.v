(** C14 — A signature authorizes exactly one message: sign bytes are injective.
    Only property theorems; each is closed by [exact <lemma>].  Sign/Model.v computes, byte for byte (checked against the real
    SignModeHandler on every run), the bytes an account signs in the three enabled modes. *)
From Coq Require Import Strings.String Strings.Byte.
From Coq Require Import List Arith NArith ZArith Bool.
From PV Require Import Base.Bytes Base.Outcome Aol.Model Did.Model Pnft.Model Bank.Model Chain.Model.
From PV Require Import Sign.Model Sign.JsonProofs Sign.Proofs Chain.SchemaProps.
From PV Require Generated.GenApp.
Import ListNotations.

(** SIGN_MODE_DIRECT: equal sign bytes force equal message lists (every type, every field), chain id, account number,
    memo and auth info — for all parameter values on both sides *)
Theorem C14_direct_injective : forall c a s memo gas fee ai pk msgs c' a' s' memo' gas' fee' ai' pk' msgs' bz,
  sign_bytes mode_direct c a s memo gas fee ai pk msgs = Some bz ->
  sign_bytes mode_direct c' a' s' memo' gas' fee' ai' pk' msgs' = Some bz ->
  msgs = msgs' /\ c = c' /\ a = a' /\ memo = memo' /\ ai = ai'.
Proof. exact C14_direct. Qed.
Print Assumptions C14_direct_injective.

(** SIGN_MODE_DIRECT_AUX: the same, with the sequence and the public key *)
Theorem C14_direct_aux_injective : forall c a s memo gas fee ai pk msgs c' a' s' memo' gas' fee' ai' pk' msgs' bz,
  sign_bytes mode_aux c a s memo gas fee ai pk msgs = Some bz ->
  sign_bytes mode_aux c' a' s' memo' gas' fee' ai' pk' msgs' = Some bz ->
  msgs = msgs' /\ c = c' /\ a = a' /\ s = s' /\ memo = memo' /\ pk = pk'.
Proof. exact C14_aux. Qed.
Print Assumptions C14_direct_aux_injective.

(** the protobuf Any of a custom message determines the message: type URL and every field *)
Theorem C14_message_encoding_injective : forall m m', custom m = true -> custom m' = true -> msg_any m = msg_any m' -> m = m'.
Proof. exact msg_any_inj. Qed.
Print Assumptions C14_message_encoding_injective.

(** SIGN_MODE_LEGACY_AMINO_JSON.  The full statement is FALSE (known finding K1, witnesses below).  What holds:
    (a) messages of the same types with valid UTF-8 text (and no present-but-empty controller list): equal sign bytes force
    equal messages *)
Theorem C14_amino_partial : forall c a s memo gas fee ai pk msgs msgs' bz,
  Forall2 (fun m m' => type_url m = type_url m') msgs msgs' ->
  Forall (fun m => utf8_ok m /\ canon m) msgs -> Forall (fun m => utf8_ok m /\ canon m) msgs' ->
  sign_bytes mode_amino c a s memo gas fee ai pk msgs = Some bz ->
  sign_bytes mode_amino c a s memo gas fee ai pk msgs' = Some bz -> msgs = msgs'.
Proof. exact C14_amino_same_types. Qed.
Print Assumptions C14_amino_partial.

(** (b) across types: two validated messages with equal amino JSON are equal, or their kinds are one of exactly four pairs *)
Theorem C14_amino_collisions_classified : forall e m m' k k',
  e_unbech e [] = None -> kind_of m = Some k -> kind_of m' = Some k' ->
  vb_base e m = Ok tt -> vb_base e m' = Ok tt -> utf8_ok m -> utf8_ok m' -> canon m -> canon m' ->
  amino_msg_json m = amino_msg_json m' -> m = m' \/ In (k, k') unseparated_pairs.
Proof. exact amino_collision_classification. Qed.
Print Assumptions C14_amino_collisions_classified.

Theorem C14_amino_unseparated_pairs : unseparated_pairs =
  [(KAddWriter, KDeleteWriter); (KAddWriter, KAddRecord); (KDeleteWriter, KAddWriter); (KDeleteWriter, KAddRecord);
   (KAddRecord, KAddWriter); (KAddRecord, KDeleteWriter); (KCreateDID, KUpdateDID); (KUpdateDID, KCreateDID)].
Proof. exact unseparated_pairs_are. Qed.
Print Assumptions C14_amino_unseparated_pairs.

(** (c) the JSON of a message is a function of its sorted, U+FFFD-coerced, non-empty (key, value) view — nothing else *)
Theorem C14_amino_view : forall m m', amino_msg_json m = amino_msg_json m' <-> amino_view m = amino_view m'.
Proof. exact amino_json_view. Qed.
Print Assumptions C14_amino_view.

(** K1, refutations: pairs of different, validated messages with equal amino sign bytes (and different direct sign bytes) *)
Theorem C14_amino_refuted_addwriter_deletewriter :
  collide (BAol (AAddWriter (b "t") [] [] (b "w") (b "o"))) (BAol (ADeleteWriter (b "t") (b "w") (b "o"))).
Proof. exact K1_addwriter_deletewriter. Qed.
Print Assumptions C14_amino_refuted_addwriter_deletewriter.
Theorem C14_amino_refuted_createdid_updatedid :
  collide (BDid (DCreate did0 (Some doc0) vmid0 (b "s") (b "f"))) (BDid (DUpdate did0 (Some doc0) vmid0 (b "s") (b "f"))).
Proof. exact K1_createdid_updatedid. Qed.
Print Assumptions C14_amino_refuted_createdid_updatedid.
Theorem C14_amino_refuted_invalid_utf8 :
  collide (BAol (ACreateTopic (b "t") [xff] (b "o"))) (BAol (ACreateTopic (b "t") [xfe] (b "o"))).
Proof. exact K1_invalid_utf8_collapses. Qed.
Print Assumptions C14_amino_refuted_invalid_utf8.
Theorem C14_amino_refuted_empty_controller :
  collide (BDid (DCreate did0 (Some doc0) vmid0 (b "s") (b "f"))) (BDid (DCreate did0 (Some doc0_empty_controller) vmid0 (b "s") (b "f"))).
Proof. exact amino_controller_nil_vs_empty. Qed.
Print Assumptions C14_amino_refuted_empty_controller.

(** the sign bytes are a function of the transaction: the same on every node, every time *)
Theorem C14_deterministic : forall mode c a s memo gas fee ai pk msgs x y,
  sign_bytes mode c a s memo gas fee ai pk msgs = x -> sign_bytes mode c a s memo gas fee ai pk msgs = y -> x = y.
Proof. exact sign_bytes_deterministic. Qed.
Print Assumptions C14_deterministic.

(** source tie (T1): the ante chain of app/ante.go contains, in order, the signature verification against these sign bytes
    (and the public-key, signature-count and sequence decorators around it): "hence a signature collected for one message
    can never validate a transaction carrying a different message" rests on it *)
Theorem C14_ante_chain_as_modelled : GenApp.ante_decorators = modelled_ante_chain.
Proof. exact ante_chain_as_modelled. Qed.
Print Assumptions C14_ante_chain_as_modelled.
