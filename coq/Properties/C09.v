(** C09 — State transitions are deterministic: replicas agree on every block.
    Only property theorems; each is closed by [exact <lemma>].  The model's block transition [run_block] is a Gallina
    function of (state, block time, transactions) only: two replicas that start from the same state and see the same
    blocks compute the same states and results by construction.  What can break this in the code and is decided
    here: (1) traffic on the other ABCI connections (CheckTx, simulate, queries) and restarts must not influence
    consensus state; (2) Go map iteration order at genesis must not reach the state; (3) the state-machine code must not
    read the clock, randomness, the environment, or run goroutines (source tie). *)
From Coq Require Import Strings.String Strings.Byte.
From Coq Require Import List Arith NArith ZArith Bool Permutation.
From PV Require Import Base.Bytes Base.Outcome Base.KV Compkey.Model Aol.Model Aol.Spec Aol.StoredSpec Aol.Genesis.
From PV Require Import Did.Model Did.Props Did.Genesis Chain.Model Chain.Run.
From PV Require Import Node.Model Node.Proofs Node.Chain Chain.Footprint.
From PV Require Generated.GenFootprint Generated.GenSchema.
From PV Require Import Chain.SchemaProps.
From PV Require Import Driver.Tok Driver.Driver Node.DriverTie.
Import ListNotations.

(** (1) whatever CheckTx / simulate / query calls are interleaved anywhere, the committed versions, the protocol phase
    and every DeliverTx result and commit height are those of the node that received the consensus events alone *)
Theorem C09_mempool_and_queries_do_not_matter : forall o Q A (query : chain -> Q -> A) (n : cnode) es,
  let n1 := fst (cexec o Q A query n es) in
  let n2 := fst (cexec o Q A query n (consensus_only tx Z Q es)) in
  committed n1 = committed n2 /\ ph n1 = ph n2 /\ genesis n1 = genesis n2 /\
  consensus_outputs tx_result A (snd (cexec o Q A query n es)) = snd (cexec o Q A query n (consensus_only tx Z Q es)) /\
  tx_height_outputs tx_result A (snd (cexec o Q A query n es)) =
    tx_height_outputs tx_result A (snd (cexec o Q A query n (consensus_only tx Z Q es))) /\
  tx_results tx_result A (snd (cexec o Q A query n es)) =
    tx_results tx_result A (snd (cexec o Q A query n (consensus_only tx Z Q es))).
Proof. exact node_ignores_mempool_and_queries. Qed.
Print Assumptions C09_mempool_and_queries_do_not_matter.

(** a replica with any history of crashes and side traffic holds, as committed versions, exactly the states [run]
    computes from the completed blocks: so does every other replica that completed the same blocks *)
Theorem C09_replicas_agree : forall o Q A (query : chain -> Q -> A) g es es',
  ccompleted Q es = ccompleted Q es' ->
  committed (fst (cexec o Q A query (cstart g) es)) = committed (fst (cexec o Q A query (cstart g) es')) /\
  latest (fst (cexec o Q A query (cstart g) es)) = latest (fst (cexec o Q A query (cstart g) es')).
Proof. exact node_replicas_agree. Qed.
Print Assumptions C09_replicas_agree.

(** (2) the AOL genesis maps and the DID genesis map may be imported in any iteration order *)
Theorem C09_aol_genesis_order_irrelevant : forall bech unbech,
  (forall a, verify_address_format a = true -> unbech (bech a) = Some a) ->
  (forall a, no_byte sep (bech a)) ->
  forall st, Inv st -> Stored_ok st ->
  exists g, export_genesis bech st = Ok g /\
    forall lo lt lw lr, Permutation lo (g_owners g) -> Permutation lt (g_topics g) ->
                        Permutation lw (g_writers g) -> Permutation lr (g_records g) ->
      init_genesis unbech {| g_owners := lo; g_topics := lt; g_writers := lw; g_records := lr |} = Ok st.
Proof. exact export_import_identity. Qed.
Print Assumptions C09_aol_genesis_order_irrelevant.

Theorem C09_did_genesis_order_irrelevant : forall g g' : did_genesis,
  Permutation g g' -> NoDup (map fst g) -> init_did g' [] = init_did g [].
Proof. exact init_did_perm. Qed.
Print Assumptions C09_did_genesis_order_irrelevant.

(** (3) source tie (T1): the footprint regenerated from /repo on every run *)
Theorem C09_no_clock_randomness_goroutines : GenFootprint.forbidden_uses = [].
Proof. exact footprint_no_forbidden_use. Qed.
Print Assumptions C09_no_clock_randomness_goroutines.
Theorem C09_map_ranges_accounted : map_ranges_accounted = true.
Proof. exact footprint_map_ranges_accounted. Qed.
Print Assumptions C09_map_ranges_accounted.
Theorem C09_footprint_scanned : (100 <=? GenFootprint.scanned_files)%nat = true.
Proof. exact footprint_scanned. Qed.
Print Assumptions C09_footprint_scanned.

(** ... and no keeper struct has a field that could carry process-local state from one call (a simulation, a rolled-back
    transaction, an earlier block before a restart) to the next: every field is a store key, a codec or another keeper *)
Theorem C09_keepers_hold_no_state : forallb keeper_field_stateless GenSchema.keeper_fields = true.
Proof. exact keepers_stateless. Qed.
Print Assumptions C09_keepers_hold_no_state.

Local Open Scope string_scope.
Local Open Scope list_scope.
(** the tie to what is run: for the history-file interpreter itself (extracted and compared with the real application),
    the committed versions after any protocol-respecting history are those of the node that saw the consensus events only *)
Theorem C09_driver_ignores_mempool_and_queries : forall st (ls : list (list tok)),
  d_versions st = [] -> legal_run (st, false) ls = true ->
  versions_view (fst (run_cmds (st, false) ls)) =
  d_chain st :: committed (fst (nexec (frame_of st) (cstart (d_chain st))
                                      (consensus_only tx Z (list tok) (events_of st ls)))).
Proof. exact driver_ignores_mempool_and_queries. Qed.
Print Assumptions C09_driver_ignores_mempool_and_queries.
