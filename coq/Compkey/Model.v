(** Model of types/compkey/compkey.go and of the four AOL key types of x/aol/types/keys.go.
    Definitions only (extracted and run against the Go code). *)
From Coq Require Import Strings.String Strings.Byte.
From Coq Require Import List Arith NArith Bool.
From PV Require Import Base.Bytes Base.Outcome.
Import ListNotations.

(** compkey.encode: [size_1][value_1][size_2][value_2]...; error iff some value is longer than 255 *)
Fixpoint encode (vs : list bytes) : option bytes :=
  match vs with
  | [] => Some []
  | v :: r =>
      match Byte.of_nat (length v), encode r with
      | Some l, Some e => Some (l :: v ++ e)
      | _, _ => None
      end
  end.

(** compkey.PartialEncode *)
Definition partial_encode (vs : list bytes) (k : nat) : option bytes :=
  if length vs <? k then None else encode (firstn k vs).

(** compkey.Decode (the generic part): fuel = length of the input is always enough *)
Fixpoint decode_fuel (fuel : nat) (bz : bytes) : option (list bytes) :=
  match bz with
  | [] => Some []
  | l :: rest =>
      match fuel with
      | O => None
      | S f =>
          let n := Byte.to_nat l in
          if length rest <? n then None
          else match decode_fuel f (skipn n rest) with
               | Some vs => Some (firstn n rest :: vs)
               | None => None
               end
      end
  end.
Definition decode (bz : bytes) : option (list bytes) := decode_fuel (length bz) bz.

(** sdk.VerifyAddressFormat without a custom verifier: 1..255 bytes *)
Definition verify_address_format (a : bytes) : bool :=
  (1 <=? length a) && (length a <=? 255).

(** ** The four typed keys *)
Inductive key_kind := KOwner | KTopic | KWriter | KRecord.

Inductive typed_key :=
| OwnerKey (owner : bytes)
| TopicKey (owner topic : bytes)
| WriterKey (owner topic writer : bytes)
| RecordKey (owner topic : bytes) (offset : N).

Definition two64 : N := 18446744073709551616%N.

(** ByteSlices() *)
Definition byte_slices (k : typed_key) : list bytes :=
  match k with
  | OwnerKey o => [o]
  | TopicKey o t => [o; t]
  | WriterKey o t w => [o; t; w]
  | RecordKey o t n => [o; t; be_bytes 8 n]
  end.

(** FromByteSlices(): an error is [Err], the Go slice-index panic of BigEndianToUint64 is [Panic].
    [strict_offset] = the record key requires exactly 8 offset bytes (the repaired code);
    with [false] it is the original code: 0 bytes -> 0, 1..7 -> panic, >8 -> first 8 bytes. *)
Definition from_byte_slices (strict_offset : bool) (kind : key_kind) (vs : list bytes) : outcome typed_key :=
  let err := Err (b "compkey") 1 in
  match kind, vs with
  | KOwner, [o] => if verify_address_format o then Ok (OwnerKey o) else err
  | KTopic, [o; t] => if verify_address_format o then Ok (TopicKey o t) else err
  | KWriter, [o; t; w] =>
      if verify_address_format o && verify_address_format w then Ok (WriterKey o t w) else err
  | KRecord, [o; t; off] =>
      if verify_address_format o then
        if strict_offset then
          if length off =? 8 then Ok (RecordKey o t (be_value off)) else err
        else
          if length off =? 0 then Ok (RecordKey o t 0)
          else if length off <? 8 then Panic
          else Ok (RecordKey o t (be_value (firstn 8 off)))
      else err
  | _, _ => err
  end.

Definition encode_key (k : typed_key) : option bytes := encode (byte_slices k).

Definition decode_key (strict_offset : bool) (kind : key_kind) (bz : bytes) : outcome typed_key :=
  match decode bz with
  | Some vs => from_byte_slices strict_offset kind vs
  | None => Err (b "compkey") 1
  end.

(** ** String form (genesis map keys): Strings(), FromStrings(), EncodeToString, DecodeFromString *)
Section Strings.
  (** bech32 is modelled by two functions supplied from outside (see trusted base) *)
  Variable bech : bytes -> bytes.            (* AccAddress.String() *)
  Variable unbech : bytes -> option bytes.   (* AccAddressFromBech32 *)

  Definition sep : byte := "/"%byte.

  Definition key_strings (k : typed_key) : list bytes :=
    match k with
    | OwnerKey o => [bech o]
    | TopicKey o t => [bech o; t]
    | WriterKey o t w => [bech o; t; bech w]
    | RecordKey o t n => [bech o; t; print_dec n]
    end.

  (** strconv.ParseUint(s, 10, 64) *)
  Definition parse_uint64 (s : bytes) : option N :=
    match parse_dec s with
    | Some n => if (n <? two64)%N then Some n else None
    | None => None
    end.

  Definition from_strings (kind : key_kind) (ss : list bytes) : option typed_key :=
    match kind, ss with
    | KOwner, [o] => match unbech o with Some a => Some (OwnerKey a) | None => None end
    | KTopic, [o; t] => match unbech o with Some a => Some (TopicKey a t) | None => None end
    | KWriter, [o; t; w] =>
        match unbech o, unbech w with
        | Some a, Some c => Some (WriterKey a t c)
        | _, _ => None
        end
    | KRecord, [o; t; n] =>
        match unbech o, parse_uint64 n with
        | Some a, Some m => Some (RecordKey a t m)
        | _, _ => None
        end
    | _, _ => None
    end.

  Definition encode_to_string (k : typed_key) : bytes := join_with sep (key_strings k).
  Definition decode_from_string (kind : key_kind) (s : bytes) : option typed_key :=
    from_strings kind (split_on sep s).
End Strings.

Definition kind_of (k : typed_key) : key_kind :=
  match k with
  | OwnerKey _ => KOwner | TopicKey _ _ => KTopic | WriterKey _ _ _ => KWriter | RecordKey _ _ _ => KRecord
  end.
