(** Proofs about the composite-key codec (C18) *)
From Coq Require Import Strings.String Strings.Byte.
From Coq Require Import List Arith NArith ZArith Bool Lia.
From Coq Require Import ZifyN ZifyNat. Ltac Zify.zify_post_hook ::= Z.div_mod_to_equations.
From PV Require Import Base.Bytes Base.Outcome Compkey.Model.
Import ListNotations.

Lemma to_nat_inj x y : Byte.to_nat x = Byte.to_nat y -> x = y.
Proof.
  intros H. assert (E : Byte.of_nat (Byte.to_nat x) = Byte.of_nat (Byte.to_nat y)) by (rewrite H; reflexivity).
  rewrite !Byte.of_to_nat in E. congruence.
Qed.

(** ** encode succeeds exactly on tuples whose components fit one length byte *)
Lemma encode_Some_iff vs : (exists bz, encode vs = Some bz) <-> Forall (fun v => length v <= 255) vs.
Proof.
  induction vs as [|v r IH]; simpl.
  - split; [constructor | intros _; eexists; reflexivity].
  - split.
    + intros [bz H]. destruct (Byte.of_nat (length v)) as [l|] eqn:El; [|discriminate].
      destruct (encode r) as [e|] eqn:Ee; [|discriminate].
      constructor.
      * apply Byte.to_of_nat in El. rewrite <- El. apply Byte.to_nat_bounded.
      * apply IH. eexists; reflexivity.
    + intros H. inversion H as [|? ? Hv Hr]; subst.
      apply IH in Hr as [e He]. rewrite He.
      destruct (Byte.of_nat (length v)) as [l|] eqn:El.
      * eexists; reflexivity.
      * apply Byte.of_nat_None_iff in El. lia.
Qed.

Lemma encode_None_iff vs : encode vs = None <-> Exists (fun v => 255 < length v) vs.
Proof.
  split.
  - intros H. apply Exists_exists.
    induction vs as [|v r IH]; simpl in H; [discriminate|].
    destruct (Byte.of_nat (length v)) as [l|] eqn:El.
    + destruct (encode r) as [e|] eqn:Ee; [discriminate|].
      destruct (IH eq_refl) as [x [Hin Hx]]. exists x. split; [right; exact Hin | exact Hx].
    + apply Byte.of_nat_None_iff in El. exists v. split; [left; reflexivity | exact El].
  - intros H. destruct (encode vs) as [bz|] eqn:E; [|reflexivity].
    assert (Hall : Forall (fun v => length v <= 255) vs) by (apply encode_Some_iff; eexists; exact E).
    apply Exists_exists in H as [x [Hin Hx]]. rewrite Forall_forall in Hall. specialize (Hall x Hin). lia.
Qed.

Lemma encode_app a c ea ec :
  encode a = Some ea -> encode c = Some ec -> encode (a ++ c) = Some (ea ++ ec).
Proof.
  revert ea; induction a as [|v r IH]; simpl; intros ea Ha Hc.
  - inversion Ha; subst. exact Hc.
  - destruct (Byte.of_nat (length v)) as [l|]; [|discriminate].
    destruct (encode r) as [e|] eqn:Ee; [|discriminate].
    inversion Ha; subst. rewrite (IH e eq_refl Hc). simpl. rewrite <- app_assoc. reflexivity.
Qed.

Lemma encode_app_inv a c bz :
  encode (a ++ c) = Some bz -> exists ea ec, encode a = Some ea /\ encode c = Some ec /\ bz = ea ++ ec.
Proof.
  revert bz; induction a as [|v r IH]; simpl; intros bz H.
  - exists [], bz. auto.
  - destruct (Byte.of_nat (length v)) as [l|]; [|discriminate].
    destruct (encode (r ++ c)) as [e|] eqn:Ee; [|discriminate].
    destruct (IH e eq_refl) as [ea [ec [H1 [H2 H3]]]]. rewrite H1.
    inversion H; subst. exists (l :: v ++ ea), ec.
    split; [reflexivity|]. split; [exact H2|]. simpl. rewrite <- app_assoc. reflexivity.
Qed.

Lemma encode_length vs bz : encode vs = Some bz -> length bz = length vs + length (concat vs).
Proof.
  revert bz; induction vs as [|v r IH]; simpl; intros bz H.
  - inversion H; reflexivity.
  - destruct (Byte.of_nat (length v)) as [l|]; [|discriminate].
    destruct (encode r) as [e|] eqn:Ee; [|discriminate].
    inversion H; subst. simpl. rewrite !app_length, (IH e eq_refl). lia.
Qed.

(** ** round trip *)
Lemma decode_fuel_encode vs : forall bz fuel,
  encode vs = Some bz -> length bz <= fuel -> decode_fuel fuel bz = Some vs.
Proof.
  induction vs as [|v r IH]; simpl; intros bz fuel H Hf.
  - inversion H; subst. destruct fuel; reflexivity.
  - destruct (Byte.of_nat (length v)) as [l|] eqn:El; [|discriminate].
    destruct (encode r) as [e|] eqn:Ee; [|discriminate].
    inversion H; subst bz. simpl in Hf. destruct fuel as [|f]; [lia|].
    simpl. apply Byte.to_of_nat in El. rewrite El.
    rewrite app_length in *.
    destruct (Nat.ltb_spec (length v + length e) (length v)) as [Hlt|_]; [lia|].
    rewrite skipn_app, skipn_all, Nat.sub_diag. simpl.
    rewrite (IH e f eq_refl) by lia.
    rewrite firstn_app, firstn_all, Nat.sub_diag. simpl. rewrite app_nil_r. reflexivity.
Qed.

Theorem decode_encode vs bz : encode vs = Some bz -> decode bz = Some vs.
Proof. intros H. unfold decode. apply decode_fuel_encode; [exact H | lia]. Qed.

Lemma decode_fuel_sound : forall fuel bz vs, decode_fuel fuel bz = Some vs -> encode vs = Some bz.
Proof.
  induction fuel as [|f IH]; intros bz vs H.
  - destruct bz; simpl in H; [|discriminate]. inversion H; reflexivity.
  - destruct bz as [|l rest]; simpl in H; [inversion H; reflexivity|].
    destruct (Nat.ltb_spec (length rest) (Byte.to_nat l)) as [_|Hge]; [discriminate|].
    destruct (decode_fuel f (skipn (Byte.to_nat l) rest)) as [vs'|] eqn:Ed; [|discriminate].
    inversion H; subst vs. simpl.
    rewrite firstn_length_le by exact Hge. rewrite Byte.of_to_nat.
    rewrite (IH _ _ Ed). rewrite firstn_skipn. reflexivity.
Qed.

Theorem decode_sound bz vs : decode bz = Some vs -> encode vs = Some bz.
Proof. apply decode_fuel_sound. Qed.

Theorem encode_injective a c x : encode a = Some x -> encode c = Some x -> a = c.
Proof.
  intros Ha Hc. apply decode_encode in Ha. apply decode_encode in Hc. congruence.
Qed.

(** a byte string is either the canonical encoding of exactly one tuple, or rejected *)
Theorem decode_total_or_reject bz :
  (exists vs, decode bz = Some vs /\ encode vs = Some bz) \/ (decode bz = None /\ forall vs, encode vs <> Some bz).
Proof.
  destruct (decode bz) as [vs|] eqn:E.
  - left. exists vs. split; [reflexivity | apply decode_sound; exact E].
  - right. split; [reflexivity|]. intros vs H. apply decode_encode in H. congruence.
Qed.

(** ** prefix exactness *)
Lemma is_prefix_app_same_length v w e e' :
  length v = length w ->
  (is_prefix (v ++ e) (w ++ e') = true <-> v = w /\ is_prefix e e' = true).
Proof.
  revert w; induction v as [|a v IH]; intros [|c w] Hlen; simpl in *; try discriminate.
  - split; [intros H; split; [reflexivity | exact H] | intros [_ H]; exact H].
  - rewrite andb_true_iff, byte_eqb_eq, IH by lia. split.
    + intros [-> [-> H]]. split; [reflexivity | exact H].
    + intros [E H]. inversion E; subst. auto.
Qed.

Lemma prefix_exact_aux a : forall c p q,
  encode a = Some p -> encode c = Some q ->
  (is_prefix p q = true <-> firstn (length a) c = a).
Proof.
  induction a as [|v r IH]; intros c p q Ha Hc; simpl in *.
  - inversion Ha; subst. simpl. split; reflexivity.
  - destruct (Byte.of_nat (length v)) as [l|] eqn:El; [|discriminate].
    destruct (encode r) as [e|] eqn:Ee; [|discriminate]. inversion Ha; subst p.
    destruct c as [|w s]; simpl in Hc.
    + inversion Hc; subst. simpl. split; discriminate.
    + destruct (Byte.of_nat (length w)) as [l'|] eqn:El'; [|discriminate].
      destruct (encode s) as [e'|] eqn:Ee'; [|discriminate]. inversion Hc; subst q.
      simpl. rewrite andb_true_iff, byte_eqb_eq.
      apply Byte.to_of_nat in El. apply Byte.to_of_nat in El'.
      split.
      * intros [Hl Hp]. subst l'. assert (Hlen : length v = length w) by congruence.
        apply (is_prefix_app_same_length _ _ _ _ Hlen) in Hp as [-> Hp].
        f_equal. apply (IH s e e' eq_refl Ee'). exact Hp.
      * intros H. inversion H as [[Hw Hs]]. subst w.
        assert (l = l') by (apply to_nat_inj; congruence). subst l'.
        split; [reflexivity|].
        apply is_prefix_app_same_length; [reflexivity|]. split; [reflexivity|].
        apply (IH s e e' eq_refl Ee'). exact Hs.
Qed.

Theorem prefix_exact (k : nat) a c p q :
  k <= length a ->
  encode (firstn k a) = Some p -> encode c = Some q ->
  (is_prefix p q = true <-> k <= length c /\ firstn k c = firstn k a).
Proof.
  intros Hk Hp Hq.
  pose proof (prefix_exact_aux (firstn k a) c p q Hp Hq) as H.
  rewrite firstn_length_le in H by exact Hk. rewrite H. split.
  - intros E. split; [|exact E].
    assert (L : length (firstn k c) = length (firstn k a)) by (rewrite E; reflexivity).
    rewrite (firstn_length_le a Hk) in L. rewrite firstn_length in L. lia.
  - intros [_ E]. exact E.
Qed.

(** ** partial encoding *)
Lemma partial_encode_spec vs k :
  partial_encode vs k = (if length vs <? k then None else encode (firstn k vs)).
Proof. reflexivity. Qed.

(** ** big-endian numbers *)
Local Open Scope N_scope.

Lemma byte_of_N_mod_to_N n : Byte.to_N (byte_of_N_mod n) = n mod 256.
Proof.
  unfold byte_of_N_mod. destruct (Byte.of_N (n mod 256)) as [c|] eqn:E.
  - apply Byte.to_of_N. exact E.
  - apply Byte.of_N_None_iff in E. pose proof (N.mod_upper_bound n 256). lia.
Qed.

Lemma byte_of_N_mod_of_to c : byte_of_N_mod (Byte.to_N c) = c.
Proof.
  unfold byte_of_N_mod. pose proof (Byte.to_N_bounded c).
  rewrite N.mod_small by lia. rewrite Byte.of_to_N. reflexivity.
Qed.

Lemma be_bytes_length k n : length (be_bytes k n) = k.
Proof.
  revert n; induction k as [|k IH]; intros n; simpl; [reflexivity|].
  rewrite app_length, IH. simpl. lia.
Qed.

Lemma be_value_acc_app acc x y : be_value_acc acc (x ++ y) = be_value_acc (be_value_acc acc x) y.
Proof. revert acc; induction x as [|c x IH]; intros acc; simpl; [reflexivity | apply IH]. Qed.

Lemma be_value_acc_be_bytes k : forall n acc,
  be_value_acc acc (be_bytes k n) = acc * 256 ^ (N.of_nat k) + n mod 256 ^ (N.of_nat k).
Proof.
  induction k as [|k IH]; intros n acc.
  - simpl. rewrite N.mod_1_r. lia.
  - cbn [be_bytes]. rewrite be_value_acc_app, IH. cbn [be_value_acc].
    rewrite byte_of_N_mod_to_N.
    rewrite Nat2N.inj_succ, N.pow_succ_r'.
    rewrite (N.mod_mul_r n 256 (256 ^ N.of_nat k)) by (try apply N.pow_nonzero; lia).
    lia.
Qed.

Lemma be_value_be_bytes k n : be_value (be_bytes k n) = n mod 256 ^ (N.of_nat k).
Proof. unfold be_value. rewrite be_value_acc_be_bytes. lia. Qed.

Lemma two64_eq : two64 = 256 ^ (N.of_nat 8).
Proof. reflexivity. Qed.

Lemma be_value_be_bytes8 n : n < two64 -> be_value (be_bytes 8 n) = n.
Proof. intros H. rewrite be_value_be_bytes, <- two64_eq. apply N.mod_small. exact H. Qed.

Lemma be_value_snoc x c : be_value (x ++ [c]) = be_value x * 256 + Byte.to_N c.
Proof. unfold be_value. rewrite be_value_acc_app. reflexivity. Qed.

Lemma be_bytes_be_value x : be_bytes (length x) (be_value x) = x.
Proof.
  induction x as [|c x IH] using rev_ind; [reflexivity|].
  rewrite app_length. simpl length. rewrite Nat.add_1_r. cbn [be_bytes].
  rewrite be_value_snoc. pose proof (Byte.to_N_bounded c).
  replace ((be_value x * 256 + Byte.to_N c) / 256) with (be_value x) by lia.
  rewrite IH. f_equal. f_equal.
  unfold byte_of_N_mod.
  replace ((be_value x * 256 + Byte.to_N c) mod 256) with (Byte.to_N c) by lia.
  rewrite Byte.of_to_N. reflexivity.
Qed.

Lemma be_value_bound x : be_value x < 256 ^ N.of_nat (length x).
Proof.
  induction x as [|c x IH] using rev_ind; [reflexivity|].
  rewrite be_value_snoc, app_length. simpl length. rewrite Nat.add_1_r, Nat2N.inj_succ, N.pow_succ_r'.
  pose proof (Byte.to_N_bounded c). lia.
Qed.

Local Close Scope N_scope.

(** ** typed keys *)
Definition wf_key (k : typed_key) : Prop :=
  match k with
  | OwnerKey o => verify_address_format o = true
  | TopicKey o t => verify_address_format o = true /\ length t <= 255
  | WriterKey o t w => verify_address_format o = true /\ length t <= 255 /\ verify_address_format w = true
  | RecordKey o t n => verify_address_format o = true /\ length t <= 255 /\ (n < two64)%N
  end.

Lemma vaf_le a : verify_address_format a = true -> length a <= 255.
Proof. unfold verify_address_format. rewrite andb_true_iff, !Nat.leb_le. lia. Qed.

Lemma wf_key_encodes k : wf_key k -> exists bz, encode_key k = Some bz.
Proof.
  intros H. apply encode_Some_iff. destruct k; cbn [byte_slices]; cbn [wf_key] in H;
    repeat match goal with
           | H : _ /\ _ |- _ => destruct H
           | H : verify_address_format _ = true |- _ => apply vaf_le in H
           end; repeat (constructor; try assumption).
Qed.

Theorem typed_roundtrip strict k bz :
  wf_key k -> encode_key k = Some bz -> decode_key strict (kind_of k) bz = Ok k.
Proof.
  intros Hwf He. unfold decode_key, encode_key in *. rewrite (decode_encode _ _ He).
  destruct k; cbn [byte_slices kind_of from_byte_slices wf_key] in *.
  - rewrite Hwf. reflexivity.
  - destruct Hwf as [-> _]. reflexivity.
  - destruct Hwf as [-> [_ ->]]. reflexivity.
  - destruct Hwf as [-> [_ Hn]]. rewrite !be_bytes_length. cbn [Nat.eqb Nat.ltb Nat.leb].
    rewrite firstn_all2 by (rewrite be_bytes_length; lia).
    rewrite be_value_be_bytes8 by exact Hn. destruct strict; reflexivity.
Qed.

(** with the strict offset check every accepted byte string is the canonical encoding of the
    returned key (so no two byte strings decode to the same key) and decoding never panics *)
Lemma forall_le3 (a c d : bytes) bz : encode [a; c; d] = Some bz -> length a <= 255 /\ length c <= 255 /\ length d <= 255.
Proof.
  intros H. assert (Hall : Forall (fun v => length v <= 255) [a; c; d]) by (apply encode_Some_iff; eauto).
  inversion Hall as [|? ? Ha Hall1]; subst. inversion Hall1 as [|? ? Hc Hall2]; subst.
  inversion Hall2 as [|? ? Hd _]; subst. auto.
Qed.

Lemma forall_le2 (a c : bytes) bz : encode [a; c] = Some bz -> length a <= 255 /\ length c <= 255.
Proof.
  intros H. assert (Hall : Forall (fun v => length v <= 255) [a; c]) by (apply encode_Some_iff; eauto).
  inversion Hall as [|? ? Ha Hall1]; subst. inversion Hall1 as [|? ? Hc Hall2]; subst. auto.
Qed.

Theorem typed_decode_sound kind bz k :
  decode_key true kind bz = Ok k -> encode_key k = Some bz /\ kind_of k = kind /\ wf_key k.
Proof.
  unfold decode_key, encode_key. destruct (decode bz) as [vs|] eqn:Ed; [|discriminate].
  apply decode_sound in Ed. intros H.
  destruct kind; destruct vs as [|o [|t [|w [|x r]]]]; simpl in H; try discriminate.
  - destruct (verify_address_format o) eqn:V; [|discriminate]. inversion H; subst. simpl. auto.
  - destruct (verify_address_format o) eqn:V; [|discriminate]. inversion H; subst. simpl.
    split; [exact Ed|]. split; [reflexivity|]. split; [exact V|].
    apply forall_le2 in Ed. tauto.
  - destruct (verify_address_format o && verify_address_format w) eqn:V; [|discriminate].
    apply andb_true_iff in V as [V1 V2]. inversion H; subst. simpl.
    split; [exact Ed|]. split; [reflexivity|]. split; [exact V1|]. split; [|exact V2].
    apply forall_le3 in Ed. tauto.
  - destruct (verify_address_format o) eqn:V; [|discriminate].
    destruct (Nat.eqb_spec (length w) 8) as [L|_]; [|discriminate]. inversion H; subst.
    cbn [byte_slices kind_of wf_key].
    assert (E : be_bytes 8 (be_value w) = w) by (rewrite <- L; apply be_bytes_be_value).
    rewrite E. split; [exact Ed|]. split; [reflexivity|]. split; [exact V|].
    split.
    + apply forall_le3 in Ed. tauto.
    + pose proof (be_value_bound w) as Hb. rewrite L in Hb. exact Hb.
Qed.

Theorem typed_decode_never_panics kind bz : decode_key true kind bz <> Panic.
Proof.
  unfold decode_key. destruct (decode bz) as [vs|]; [|discriminate].
  destruct kind; destruct vs as [|o [|t [|w [|x r]]]]; simpl; try discriminate;
    repeat (match goal with |- (if ?c then _ else _) <> _ => destruct c; try discriminate end).
Qed.

(** the original (lenient) record-key decoder is not sound: three witnesses *)
Definition addr1 : bytes := [x01].
Theorem record_decode_lenient_refuted :
  (* an empty offset component is accepted as offset 0 but does not re-encode to the input *)
  (exists bz k, decode_key false KRecord bz = Ok k /\ encode_key k <> Some bz) /\
  (* a 9-byte offset component is silently truncated *)
  (exists bz1 bz2 k, bz1 <> bz2 /\ decode_key false KRecord bz1 = Ok k /\ decode_key false KRecord bz2 = Ok k) /\
  (* a short offset component panics *)
  (exists bz, decode_key false KRecord bz = Panic).
Proof.
  split; [|split].
  - exists [x01; x01; x01; "a"; x00]%byte. eexists. split; [vm_compute; reflexivity | vm_compute; discriminate].
  - exists [x01; x01; x01; "a"; x09; x00; x00; x00; x00; x00; x00; x00; x05; x07]%byte,
           [x01; x01; x01; "a"; x08; x00; x00; x00; x00; x00; x00; x00; x05]%byte.
    eexists. split; [discriminate|]. split; vm_compute; reflexivity.
  - exists [x01; x01; x01; "a"; x03; x00; x00; x01]%byte. vm_compute. reflexivity.
Qed.

(** ** decimal numbers *)
Local Open Scope N_scope.

Definition is_digit (c : byte) : Prop := 48 <= Byte.to_N c <= 57.

Lemma dec_digit_val_digit n : n < 10 -> dec_digit_val (byte_of_N_mod (48 + n)) = Some n.
Proof.
  intros H. unfold dec_digit_val. rewrite byte_of_N_mod_to_N. rewrite N.mod_small by lia.
  destruct (N.leb_spec 48 (48 + n)); [|lia]. destruct (N.leb_spec (48 + n) 57); [|lia].
  cbn [andb]. f_equal. lia.
Qed.

Lemma digit_is_digit n : n < 10 -> is_digit (byte_of_N_mod (48 + n)).
Proof. intros H. unfold is_digit. rewrite byte_of_N_mod_to_N. rewrite N.mod_small by lia. lia. Qed.

Lemma parse_dec_acc_app x y a :
  parse_dec_acc a (x ++ y) = match parse_dec_acc a x with Some a' => parse_dec_acc a' y | None => None end.
Proof.
  revert a; induction x as [|c x IH]; intros a; simpl; [reflexivity|].
  destruct (dec_digit_val c); [apply IH | reflexivity].
Qed.

Lemma print_dec_fuel_spec f : forall n acc,
  n < 2 ^ N.of_nat f -> (0 < f)%nat ->
  exists ds, print_dec_fuel f n acc = (ds ++ acc)%list /\ ds <> [] /\ Forall is_digit ds /\
             forall a, parse_dec_acc a ds = Some (a * 10 ^ N.of_nat (length ds) + n).
Proof.
  induction f as [|f IH]; intros n acc Hn Hf; [lia|].
  cbn [print_dec_fuel].
  assert (Hm : n mod 10 < 10) by (apply N.mod_upper_bound; lia).
  destruct (N.ltb_spec n 10) as [Hlt|Hge].
  - exists [byte_of_N_mod (48 + n mod 10)]. rewrite N.mod_small by exact Hlt.
    split; [reflexivity|]. split; [discriminate|]. split; [constructor; [apply digit_is_digit; exact Hlt | constructor]|].
    intros a. cbn [parse_dec_acc length N.of_nat Pos.of_succ_nat].
    rewrite dec_digit_val_digit by exact Hlt. rewrite N.pow_1_r. reflexivity.
  - assert (Hf' : (0 < f)%nat).
    { destruct f; [|lia]. simpl in Hn. lia. }
    assert (Hn' : n / 10 < 2 ^ N.of_nat f).
    { rewrite Nat2N.inj_succ, N.pow_succ_r' in Hn.
      apply N.div_lt_upper_bound; lia. }
    destruct (IH (n / 10) (byte_of_N_mod (48 + n mod 10) :: acc) Hn' Hf') as [ds [E [Hne [Hd Hp]]]].
    exists (ds ++ [byte_of_N_mod (48 + n mod 10)])%list. rewrite E, <- app_assoc. split; [reflexivity|].
    split; [destruct ds; discriminate|]. split.
    + apply Forall_app. split; [exact Hd|]. constructor; [apply digit_is_digit; exact Hm | constructor].
    + intros a. rewrite parse_dec_acc_app, Hp. cbn [parse_dec_acc]. rewrite dec_digit_val_digit by exact Hm.
      f_equal. rewrite app_length. simpl length. rewrite Nat.add_1_r, Nat2N.inj_succ, N.pow_succ_r'.
      pose proof (N.div_mod n 10). lia.
Qed.

Lemma print_dec_spec n :
  exists ds, print_dec n = ds /\ ds <> [] /\ Forall is_digit ds /\ parse_dec_acc 0 ds = Some n.
Proof.
  unfold print_dec.
  destruct (print_dec_fuel_spec (S (N.to_nat (N.log2 n))) n []) as [ds [E [Hne [Hd Hp]]]].
  - rewrite Nat2N.inj_succ, N2Nat.id.
    destruct n as [|p]; [simpl; lia|]. apply N.log2_spec. lia.
  - lia.
  - exists ds. rewrite app_nil_r in E. split; [exact E|]. split; [exact Hne|]. split; [exact Hd|].
    rewrite Hp. f_equal.
Qed.

Theorem parse_print_dec n : parse_dec (print_dec n) = Some n.
Proof.
  destruct (print_dec_spec n) as [ds [E [Hne [_ Hp]]]]. rewrite E.
  unfold parse_dec. destruct ds; [contradiction | exact Hp].
Qed.

Theorem print_dec_no_slash n : no_byte sep (print_dec n).
Proof.
  destruct (print_dec_spec n) as [ds [E [_ [Hd _]]]]. rewrite E.
  unfold no_byte. intros Hin. rewrite Forall_forall in Hd. apply Hd in Hin.
  unfold is_digit, sep in Hin. simpl in Hin. lia.
Qed.

Local Close Scope N_scope.

(** ** string form *)
Section StringsProofs.
  Variable bech : bytes -> bytes.
  Variable unbech : bytes -> option bytes.
  (** premises about bech32 (trusted base): decoding inverts encoding on legal addresses, and the
      bech32 alphabet does not contain the separator *)
  Hypothesis unbech_bech : forall a, verify_address_format a = true -> unbech (bech a) = Some a.
  Hypothesis bech_no_slash : forall a, no_byte sep (bech a).

  Theorem string_roundtrip k :
    wf_key k ->
    (match k with
     | OwnerKey _ => True
     | TopicKey _ t | WriterKey _ t _ | RecordKey _ t _ => no_byte sep t
     end) ->
    decode_from_string unbech (kind_of k) (encode_to_string bech k) = Some k.
  Proof.
    intros Hwf Ht. unfold decode_from_string, encode_to_string.
    rewrite split_join.
    - destruct k; simpl in *.
      + rewrite unbech_bech by exact Hwf. reflexivity.
      + destruct Hwf as [V _]. rewrite unbech_bech by exact V. reflexivity.
      + destruct Hwf as [V [_ V2]]. rewrite !unbech_bech by assumption. reflexivity.
      + destruct Hwf as [V [_ Hn]]. rewrite unbech_bech by exact V.
        unfold parse_uint64. rewrite parse_print_dec.
        destruct (N.ltb_spec offset two64); [reflexivity | lia].
    - destruct k; discriminate.
    - destruct k; simpl; repeat constructor; try apply bech_no_slash; try exact Ht; apply print_dec_no_slash.
  Qed.
End StringsProofs.
