(** The history-file interpreter [Driver.step_line] (the code that is extracted and run against the real
    application) is a refinement of the node life cycle of [Node.Model] instantiated as in [Node.Chain]:
    the node theorems (C10 restart, C09 mempool/query independence, C20 snapshot reads) therefore speak about
    the model that is actually executed.

    Layer 1 (tokens -> actions): for every line whose command word belongs to the node subset
      BLOCK / TX M X XEND SIGMOD / ENDTX / ENDBLOCK / CRASH / ENDCHECK / ENDSIM / QH  (and the inert # MODE UPGRADE Q DUMP)
    [step_line] satisfies an explicit specification [step_spec] (no token left).
    Layer 2 (actions -> node events): every specified step is simulated by the node events of [line_events].
    End to end: [driver_refines_node], [driver_versions_are_run], [driver_outputs_refine], [driver_tx_results].

    What is NOT proved / does not hold is listed at the end of the file (section "Discrepancies"). *)
From Coq Require Import Strings.String Strings.Byte.
From Coq Require Import List Arith NArith ZArith Bool Lia.
From PV Require Import Base.Bytes Base.Outcome Bank.Model Did.Model Chain.Model Chain.Run.
From PV Require Import Node.Model Node.Proofs Node.Chain Driver.Tok Driver.Driver.
Import ListNotations.

(** * 0. The part of the driver state that the node commands never change, and the oracles built from it *)

Record frame := {
  f_unbech : list (bytes * bytes); f_bech : list (bytes * bytes); f_fee_collector : bytes; f_blocked : list bytes;
  f_docs : list (bytes * did_doc); f_keys58 : list (bytes * bytes); f_sigs : list (bytes * (bytes * bytes));
  f_watch : list bytes; f_denoms : list bytes; f_base : N }.

Definition frame_of (st : dstate) : frame :=
  {| f_unbech := d_unbech st; f_bech := d_bech st; f_fee_collector := d_fee_collector st; f_blocked := d_blocked st;
     f_docs := d_docs st; f_keys58 := d_keys58 st; f_sigs := d_sigs st; f_watch := d_watch st; f_denoms := d_denoms st;
     f_base := d_base st |}.

Definition mk_state (fr : frame) (c : chain) (now : Z) (p : option pending) (vs : list chain) : dstate :=
  {| d_unbech := f_unbech fr; d_bech := f_bech fr; d_chain := c; d_now := now; d_fee_collector := f_fee_collector fr;
     d_blocked := f_blocked fr; d_tx := p; d_docs := f_docs fr; d_keys58 := f_keys58 fr; d_sigs := f_sigs fr;
     d_watch := f_watch fr; d_denoms := f_denoms fr; d_versions := vs; d_base := f_base fr |}.

Lemma dstate_eta st : st = mk_state (frame_of st) (d_chain st) (d_now st) (d_tx st) (d_versions st).
Proof. destruct st; reflexivity. Qed.

(** the [oracles] of [Chain.Run] derived from the driver tables.  Every field of [Driver.env_of] is covered:
    nothing is missing in [oracles]/[env_at]. *)
Definition oracles_of_frame (fr : frame) : oracles :=
  {| o_unbech := fun s => lookup s (f_unbech fr);
     o_bech := fun a => match lookup a (f_bech fr) with Some s => s | None => b "?" ++ to_hex a end;
     o_fee_collector := f_fee_collector fr;
     o_blocked := f_blocked fr;
     o_b58key := fun s => lookup s (f_keys58 fr);
     o_verify := fun pk msg sg =>
       existsb (fun e => bytes_eqb (fst e) pk && bytes_eqb (fst (snd e)) msg && bytes_eqb (snd (snd e)) sg) (f_sigs fr) |}.
Definition oracles_of (st : dstate) : oracles := oracles_of_frame (frame_of st).

(** the environment the driver uses is [env_at] of these oracles at the current block time *)
Lemma env_of_env_at st : env_of st = env_at (oracles_of st) (d_now st).
Proof. reflexivity. Qed.

(** queries: [q_cmd] reads the tables and [d_chain] only *)
Definition dquery (fr : frame) (c : chain) (q : list tok) : list bytes := q_cmd (mk_state fr c 0%Z None []) q.
Lemma q_cmd_frame st q : q_cmd st q = dquery (frame_of st) (d_chain st) q.
Proof. destruct st; reflexivity. Qed.

(** * 1. Tokens -> actions *)

Definition tx_of (p : pending) : tx :=
  {| tx_msgs := rev (p_msgs p); tx_signed_by := p_signers p; tx_fee := p_fee p |}.

Inductive action :=
| ABegin (z : Z)                 (* BLOCK <nanos> *)
| APend                          (* TX / M / X / XEND / SIGMOD: assemble the pending transaction *)
| AEndTx                         (* ENDTX: deliver the pending transaction *)
| AEndBlock                      (* ENDBLOCK: EndBlock + Commit *)
| ACrash                         (* CRASH *)
| AEndCheck | AEndSim            (* ENDCHECK / ENDSIM: the pending transaction went to CheckTx / simulate *)
| AQH (h : N) (q : list tok)     (* QH <height> <query> *)
| ANoop.                         (* comment, MODE, UPGRADE, Q, DUMP, ill-formed BLOCK / QH: the state is unchanged *)

(** purely syntactic *)
Definition action_of (l : list tok) : option action :=
  match l with
  | [] => Some ANoop
  | cmd :: args =>
      if tok_is cmd "#" then Some ANoop
      else if tok_is cmd "MODE" then Some ANoop
      else if tok_is cmd "BLOCK" then
        Some (match args with
              | [t] => match z_of_tok t with Some z => ABegin z | None => ANoop end
              | _ => ANoop end)
      else if tok_is cmd "TX" then Some APend
      else if tok_is cmd "M" then Some APend
      else if tok_is cmd "SIGMOD" then Some APend
      else if tok_is cmd "X" then Some APend
      else if tok_is cmd "XEND" then Some APend
      else if tok_is cmd "ENDTX" then Some AEndTx
      else if tok_is cmd "ENDBLOCK" then Some AEndBlock
      else if tok_is cmd "UPGRADE" then Some ANoop
      else if tok_is cmd "ENDCHECK" then Some AEndCheck
      else if tok_is cmd "ENDSIM" then Some AEndSim
      else if tok_is cmd "CRASH" then Some ACrash
      else if tok_is cmd "QH" then
        Some (match args with
              | h :: q => match parse_dec h with Some h' => AQH h' q | None => ANoop end
              | [] => ANoop end)
      else if tok_is cmd "Q" then Some ANoop
      else if tok_is cmd "DUMP" then Some ANoop
      else None
  end.

(** ** the specification of [step_line] on these lines *)

Definition begin_state (st : dstate) (z : Z) : dstate :=
  let st0 := match d_versions st with [] => upd_versions st [d_chain st] (d_base st) | _ => st end in
  let st1 := upd_env st0 z (d_fee_collector st0) (d_blocked st0) in
  upd_chain st1 (begin_block (env_of st1) (d_chain st1)).

Definition unchanged_but_tx (st st' : dstate) : Prop :=
  frame_of st' = frame_of st /\ d_chain st' = d_chain st /\ d_now st' = d_now st /\ d_versions st' = d_versions st.

Definition end_block_line (st : dstate) (c' : chain) : bytes :=
  let c := d_chain st in
  join_toks (b "B" :: coins_tok (sort_coins (spendable_coins (c_bank c) (d_now st) Generated.GenApp.burn_address))
               :: map (fun d => print_z (Z.of_N (supply_of (c_bank c') d) - Z.of_N (supply_of (c_bank c) d))) (d_denoms st)).

Definition height_line (h : N) : bytes := join_toks [b "H"; print_dec h].

(** the version a [QH h] reads (None: "Q err height") *)
Definition qh_version (st : dstate) (h : N) : option chain :=
  if (h =? 0)%N then (match d_versions st with [] => Some (d_chain st) | v :: vs => Some (last vs v) end)
  else if (h <? d_base st)%N then None
  else nth_error (d_versions st) (N.to_nat (h - d_base st)).

Definition step_spec (st : dstate) (a : action) (st' : dstate) (out : list bytes) : Prop :=
  match a with
  | ABegin z => st' = begin_state st z /\ out = []
  | APend => unchanged_but_tx st st'
  | AEndTx =>
      match d_tx st with
      | Some p => let cr := deliver_tx (env_of st) (d_chain st) (tx_of p) in
                  st' = upd_tx (upd_chain st (fst cr)) None /\
                  out = [result_line (snd cr); delta_line st (c_bank (d_chain st)) (c_bank (fst cr))]
      | None => st' = st /\ out = bad
      end
  | AEndBlock =>
      let c' := end_block (env_of st) (d_chain st) in
      st' = upd_versions (upd_chain st c') (d_versions st ++ [c']) (d_base st) /\ out = [end_block_line st c']
  | ACrash =>
      match d_versions st with
      | [] => st' = st /\ out = [height_line (d_base st)]
      | v :: vs => st' = upd_tx (upd_chain st (last vs v)) None /\ out = [height_line (d_base st + N.of_nat (length vs))]
      end
  | AEndCheck | AEndSim => st' = upd_tx st None /\ out = []
  | AQH h q =>
      st' = st /\
      out = match qh_version st h with Some c => q_cmd (upd_chain st c) q | None => [b "Q err height"] end
  | ANoop => st' = st
  end.

(** ** evaluation of the dispatcher on concrete command words *)

Definition pre_chain (cmd : tok) : bool :=
  tok_is cmd "#" || tok_is cmd "ADDR" || tok_is cmd "BECH" || tok_is cmd "RESET" || tok_is cmd "MODE" || tok_is cmd "CK".

Lemma step_line_chain st cmd args r :
  chain_cmd st cmd args = Some r -> pre_chain cmd = false -> step_line st (cmd :: args) = r.
Proof.
  unfold pre_chain. intros Hc Hpre.
  repeat (apply orb_false_iff in Hpre; destruct Hpre as [Hpre ?Hp]).
  unfold step_line. rewrite Hpre, Hp, Hp0, Hp1, Hp2, Hp3, Hc. reflexivity.
Qed.

Lemma cc_BLOCK st args : chain_cmd st (b "BLOCK") args =
  match args with
  | [t] => match z_of_tok t with
           | Some z => Some (begin_state st z, [])
           | None => Some (st, bad) end
  | _ => Some (st, bad)
  end.
Proof. reflexivity. Qed.

Lemma cc_TX st args : chain_cmd st (b "TX") args =
  match args with
  | [fee; sg] =>
      match coins_of_tok fee, addrs_of_tok sg with
      | Some f, Some s => Some (upd_tx st (Some {| p_fee := f; p_signers := s; p_msgs := []; p_exec := None |}), [])
      | _, _ => Some (st, bad)
      end
  | _ => Some (st, bad)
  end.
Proof. reflexivity. Qed.

Lemma cc_M st args : chain_cmd st (b "M") args =
  match d_tx st, (match did_msg_of_toks st args with
                 | Some m => Some m
                 | None => match pnft_msg_of_toks args with Some m => Some m | None => base_msg_of_toks2 args end
                 end) with
  | Some p, Some m =>
      match p_exec p with
      | Some (g, inner) =>
          Some (upd_tx st (Some {| p_fee := p_fee p; p_signers := p_signers p; p_msgs := p_msgs p;
                                   p_exec := Some (g, m :: inner) |}), [])
      | None =>
          Some (upd_tx st (Some {| p_fee := p_fee p; p_signers := p_signers p; p_msgs := MBase m :: p_msgs p;
                                   p_exec := None |}), [])
      end
  | _, _ => Some (st, bad)
  end.
Proof. reflexivity. Qed.

Lemma cc_SIGMOD st args : chain_cmd st (b "SIGMOD") args =
  match d_tx st with
  | Some p => Some (upd_tx st (Some {| p_fee := p_fee p; p_signers := []; p_msgs := p_msgs p; p_exec := p_exec p |}), [])
  | None => Some (st, bad)
  end.
Proof. reflexivity. Qed.

Lemma cc_X st args : chain_cmd st (b "X") args =
  match d_tx st, args with
  | Some p, [g] =>
      match bytes_of_tok g with
      | Some g' => Some (upd_tx st (Some {| p_fee := p_fee p; p_signers := p_signers p; p_msgs := p_msgs p;
                                            p_exec := Some (g', []) |}), [])
      | None => Some (st, bad) end
  | _, _ => Some (st, bad)
  end.
Proof. reflexivity. Qed.

Lemma cc_XEND st args : chain_cmd st (b "XEND") args =
  match d_tx st with
  | Some p =>
      match p_exec p with
      | Some (g, inner) =>
          Some (upd_tx st (Some {| p_fee := p_fee p; p_signers := p_signers p;
                                   p_msgs := MExec g (rev inner) :: p_msgs p; p_exec := None |}), [])
      | None => Some (st, bad)
      end
  | None => Some (st, bad)
  end.
Proof. reflexivity. Qed.

Lemma cc_ENDTX st args : chain_cmd st (b "ENDTX") args =
  match d_tx st with
  | Some p =>
      let '(c', r) := deliver_tx (env_of st) (d_chain st) (tx_of p) in
      Some (upd_tx (upd_chain st c') None, [result_line r; delta_line st (c_bank (d_chain st)) (c_bank c')])
  | None => Some (st, bad)
  end.
Proof. reflexivity. Qed.

Lemma cc_ENDBLOCK st args : chain_cmd st (b "ENDBLOCK") args =
  let c' := end_block (env_of st) (d_chain st) in
  Some (upd_versions (upd_chain st c') (d_versions st ++ [c']) (d_base st), [end_block_line st c']).
Proof. reflexivity. Qed.

Lemma cc_UPGRADE st args : chain_cmd st (b "UPGRADE") args = Some (st, [b "U scheduled"]).
Proof. reflexivity. Qed.
Lemma cc_ENDCHECK st args : chain_cmd st (b "ENDCHECK") args = Some (upd_tx st None, []).
Proof. reflexivity. Qed.
Lemma cc_ENDSIM st args : chain_cmd st (b "ENDSIM") args = Some (upd_tx st None, []).
Proof. reflexivity. Qed.

Lemma cc_CRASH st args : chain_cmd st (b "CRASH") args =
  match d_versions st with
  | [] => Some (st, [height_line (d_base st)])
  | v :: vs => Some (upd_tx (upd_chain st (last vs v)) None, [height_line (d_base st + N.of_nat (length vs))])
  end.
Proof. reflexivity. Qed.

Lemma cc_QH st args : chain_cmd st (b "QH") args =
  match args with
  | h :: qargs =>
      match parse_dec h with
      | Some h' =>
          match qh_version st h' with
          | Some c => Some (st, q_cmd (upd_chain st c) qargs)
          | None => Some (st, [b "Q err height"])
          end
      | None => Some (st, bad)
      end
  | [] => Some (st, bad)
  end.
Proof. reflexivity. Qed.

Lemma cc_Q st args : chain_cmd st (b "Q") args = Some (st, q_cmd st args).
Proof. reflexivity. Qed.

Lemma cc_DUMP st args : exists out, chain_cmd st (b "DUMP") args = Some (st, out).
Proof.
  change (chain_cmd st (b "DUMP") args) with
    (match args with
     | [which] =>
        if tok_is which "aol" then
          Some (st, [join_toks [b "D"; b "aol"; join_with ";"%byte (map dump_entry (c_aol (d_chain st)))]])
        else if tok_is which "pnft" then
          Some (st, [join_toks [b "D"; b "pnft"; join_with ";"%byte (map pnft_entry_str (c_pnft (d_chain st)))]])
        else if tok_is which "did" then
          Some (st, [join_toks [b "D"; b "did"; join_with ";"%byte (map did_entry_str (c_did (d_chain st)))]])
        else Some (st, bad)
     | _ => Some (st, bad)
     end).
  destruct args as [|w [|? ?]]; try (eexists; reflexivity).
  destruct (tok_is w "aol"); [eexists; reflexivity|].
  destruct (tok_is w "pnft"); [eexists; reflexivity|].
  destruct (tok_is w "did"); eexists; reflexivity.
Qed.

Ltac tok_case cmd s :=
  let E := fresh "E" in
  destruct (tok_is cmd s) eqn:E;
  [ unfold tok_is in E; apply bytes_eqb_eq in E; subst cmd | ].

Ltac by_chain H := rewrite (step_line_chain _ _ _ _ H eq_refl).

Lemma unchanged_refl st : unchanged_but_tx st st.
Proof. repeat split. Qed.
Lemma unchanged_upd_tx st p : unchanged_but_tx st (upd_tx st p).
Proof. repeat split. Qed.

(** Layer 1: the dispatcher satisfies the specification on every line of the subset *)
Theorem step_line_spec st l a :
  action_of l = Some a ->
  step_spec st a (fst (step_line st l)) (snd (step_line st l)).
Proof.
  intros Ha. destruct l as [|cmd args].
  { injection Ha as <-. reflexivity. }
  unfold action_of in Ha.
  tok_case cmd "#"%string. { injection Ha as <-. reflexivity. }
  tok_case cmd "MODE"%string. { injection Ha as <-. reflexivity. }
  tok_case cmd "BLOCK"%string.
  { injection Ha as <-. pose proof (cc_BLOCK st args) as Hc.
    destruct args as [|t [|? ?]]; try (by_chain Hc; reflexivity).
    destruct (z_of_tok t) as [z|]; by_chain Hc; [split; reflexivity | reflexivity]. }
  tok_case cmd "TX"%string.
  { injection Ha as <-. pose proof (cc_TX st args) as Hc.
    destruct args as [|fee [|sg [|? ?]]]; try (by_chain Hc; apply unchanged_refl).
    destruct (coins_of_tok fee); [destruct (addrs_of_tok sg)|]; by_chain Hc;
      first [apply unchanged_refl | apply unchanged_upd_tx]. }
  tok_case cmd "M"%string.
  { injection Ha as <-. pose proof (cc_M st args) as Hc.
    destruct (d_tx st) as [p|]; [|by_chain Hc; apply unchanged_refl].
    destruct (match did_msg_of_toks st args with
              | Some m => Some m
              | None => match pnft_msg_of_toks args with Some m => Some m | None => base_msg_of_toks2 args end
              end) as [m|]; [|by_chain Hc; apply unchanged_refl].
    destruct (p_exec p) as [[g inner]|]; by_chain Hc; apply unchanged_upd_tx. }
  tok_case cmd "SIGMOD"%string.
  { injection Ha as <-. pose proof (cc_SIGMOD st args) as Hc.
    destruct (d_tx st) as [p|]; by_chain Hc; [apply unchanged_upd_tx | apply unchanged_refl]. }
  tok_case cmd "X"%string.
  { injection Ha as <-. pose proof (cc_X st args) as Hc.
    destruct (d_tx st) as [p|]; [|by_chain Hc; apply unchanged_refl].
    destruct args as [|g [|? ?]]; try (by_chain Hc; apply unchanged_refl).
    destruct (bytes_of_tok g); by_chain Hc; [apply unchanged_upd_tx | apply unchanged_refl]. }
  tok_case cmd "XEND"%string.
  { injection Ha as <-. pose proof (cc_XEND st args) as Hc.
    destruct (d_tx st) as [p|]; [|by_chain Hc; apply unchanged_refl].
    destruct (p_exec p) as [[g inner]|]; by_chain Hc; [apply unchanged_upd_tx | apply unchanged_refl]. }
  tok_case cmd "ENDTX"%string.
  { injection Ha as <-. pose proof (cc_ENDTX st args) as Hc. unfold step_spec.
    destruct (d_tx st) as [p|]; [|by_chain Hc; split; reflexivity].
    cbv zeta. destruct (deliver_tx (env_of st) (d_chain st) (tx_of p)) as [c' r].
    by_chain Hc. split; reflexivity. }
  tok_case cmd "ENDBLOCK"%string.
  { injection Ha as <-. pose proof (cc_ENDBLOCK st args) as Hc. cbv zeta in Hc. by_chain Hc. split; reflexivity. }
  tok_case cmd "UPGRADE"%string. { injection Ha as <-. by_chain (cc_UPGRADE st args). reflexivity. }
  tok_case cmd "ENDCHECK"%string. { injection Ha as <-. by_chain (cc_ENDCHECK st args). split; reflexivity. }
  tok_case cmd "ENDSIM"%string. { injection Ha as <-. by_chain (cc_ENDSIM st args). split; reflexivity. }
  tok_case cmd "CRASH"%string.
  { injection Ha as <-. pose proof (cc_CRASH st args) as Hc. unfold step_spec.
    destruct (d_versions st) as [|v vs]; by_chain Hc; split; reflexivity. }
  tok_case cmd "QH"%string.
  { injection Ha as <-. pose proof (cc_QH st args) as Hc.
    destruct args as [|h q]; [by_chain Hc; reflexivity|].
    destruct (parse_dec h) as [h'|]; [|by_chain Hc; reflexivity].
    unfold step_spec. destruct (qh_version st h'); by_chain Hc; split; reflexivity. }
  tok_case cmd "Q"%string. { injection Ha as <-. by_chain (cc_Q st args). reflexivity. }
  tok_case cmd "DUMP"%string. { injection Ha as <-. destruct (cc_DUMP st args) as [out Hc]. by_chain Hc. reflexivity. }
  discriminate.
Qed.

(** * 2. Actions -> node events *)

(** the node of [Node.Chain] for the tables [fr]: S := chain, T := tx, H := Z (block time), Q := query tokens,
    A := answer lines, Begin/Deliver/End := [cbegin]/[cdeliver]/[cend] of the oracles of [fr] *)
Notation nevent := (cevent (list tok)).
Notation noutput := (coutput (list bytes)).
Definition nstep (fr : frame) : cnode -> nevent -> cnode * noutput :=
  cstep (oracles_of_frame fr) (list tok) (list bytes) (dquery fr).
Definition nexec (fr : frame) : cnode -> list nevent -> cnode * list noutput :=
  cexec (oracles_of_frame fr) (list tok) (list bytes) (dquery fr).

(** driver heights -> node heights.  The driver numbers [d_versions] from [d_base] (element 0 = the genesis
    version); node height k >= 1 is element k-1 of [committed] = element k of [d_versions]; 0 = latest on both
    sides.  The genesis version (driver height [d_base]) and the heights below it have no node height. *)
Definition qheight (base h : N) : option nat :=
  if (h =? 0)%N then Some 0%nat else if (base <? h)%N then Some (N.to_nat (h - base)) else None.

Definition line_events (p : option pending) (base : N) (a : action) : list nevent :=
  match a with
  | ABegin z => [EBegin z]
  | AEndTx => match p with Some p => [EDeliver (tx_of p)] | None => [] end
  | AEndBlock => [EEnd; ECommit]
  | ACrash => [ECrash]
  | AEndCheck => match p with Some p => [ECheck (tx_of p)] | None => [] end
  | AEndSim => match p with Some p => [ESimulate (tx_of p)] | None => [] end
  | AQH h q => match qheight base h with Some k => [EQuery k q] | None => [] end
  | APend | ANoop => []
  end.

(** the protocol: BeginBlock only between blocks, DeliverTx / EndBlock only inside one *)
Definition legal (inb : bool) (p : option pending) (a : action) : bool :=
  match a with
  | ABegin _ => negb inb
  | AEndTx => match p with Some _ => inb | None => true end
  | AEndBlock => inb
  | _ => true
  end.
Definition next_inb (inb : bool) (a : action) : bool :=
  match a with ABegin _ => true | AEndBlock | ACrash => false | _ => inb end.

(** the abstraction: [d_versions] = genesis :: committed (empty before the first BLOCK, when the genesis is
    still [d_chain]); "in block" is the flag of the wrapper; the check state is not represented in the driver *)
Definition node_of (st : dstate) (inb : bool) : cnode :=
  {| genesis := hd (d_chain st) (d_versions st);
     committed := tl (d_versions st);
     ph := if inb then InBlock (d_now st) (d_chain st) else Idle;
     checkst := d_chain st |}.

Definition Rel (fr : frame) (st : dstate) (inb : bool) (n : cnode) : Prop :=
  frame_of st = fr /\
  (inb = false -> d_chain st = last (tl (d_versions st)) (hd (d_chain st) (d_versions st))) /\
  (inb = true -> d_versions st <> []) /\
  same_consensus chain Z n (node_of st inb).

Definition out_ok (fr : frame) (st : dstate) (a : action) (st' : dstate) (out : list bytes) (os : list noutput) : Prop :=
  match a with
  | ABegin _ => os = [ONone] /\ out = []
  | APend | ANoop => os = []
  | AEndTx =>
      match d_tx st with
      | Some _ => exists r, os = [OTx r] /\
                            out = [result_line r; delta_line st (c_bank (d_chain st)) (c_bank (d_chain st'))]
      | None => os = [] /\ out = bad
      end
  | AEndBlock => os = [ONone; OHeight (length (d_versions st))] /\ out = [end_block_line st (d_chain st')]
  | ACrash => exists k, os = [OHeight k] /\ out = [height_line (d_base st + N.of_nat k)] /\
                        k = length (tl (d_versions st))
  | AEndCheck | AEndSim =>
      out = [] /\ match d_tx st with Some _ => exists r, os = [OCheck r] | None => os = [] end
  | AQH h q =>
      match qheight (d_base st) h with
      | Some k => exists a, os = [OAnswer a] /\ out = match a with Some x => x | None => [b "Q err height"] end
      | None => os = [] /\
                out = match (if (h <? d_base st)%N then None else hd_error (d_versions st)) with
                      | Some c => dquery fr c q | None => [b "Q err height"] end
      end
  end.

Ltac dsimp :=
  cbn [d_unbech d_bech d_chain d_now d_fee_collector d_blocked d_tx d_docs d_keys58 d_sigs d_watch d_denoms
       d_versions d_base upd_tables upd_chain upd_versions upd_tx upd_env frame_of node_of] in *.
Ltac nsimp :=
  unfold nexec, cexec;
  cbn [Node.Model.exec Node.Model.step Node.Model.with_ph Node.Model.latest Node.Model.version
       ph genesis committed checkst fst snd option_map];
  unfold Node.Model.latest; cbn [ph genesis committed checkst].

Lemma qh_version_node st inb k h :
  (inb = false -> d_chain st = last (tl (d_versions st)) (hd (d_chain st) (d_versions st))) ->
  (inb = true -> d_versions st <> []) ->
  qheight (d_base st) h = Some k ->
  qh_version st h = version (node_of st inb) k.
Proof.
  intros Hidle Hinb. unfold qheight, qh_version.
  destruct (h =? 0)%N.
  - intros [= <-]. unfold version, latest, node_of. cbn [genesis committed].
    destruct (d_versions st) as [|v vs]; reflexivity.
  - destruct (d_base st <? h)%N eqn:Hlt; [|discriminate]. intros [= <-].
    apply N.ltb_lt in Hlt.
    assert ((h <? d_base st)%N = false) as -> by (apply N.ltb_ge; lia).
    destruct (N.to_nat (h - d_base st)) as [|k'] eqn:Hk; [lia|].
    unfold version, node_of. cbn [committed].
    destruct (d_versions st) as [|v vs]; [destruct k'; reflexivity | reflexivity].
Qed.

Lemma qh_version_genesis st h :
  qheight (d_base st) h = None ->
  qh_version st h = if (h <? d_base st)%N then None else hd_error (d_versions st).
Proof.
  unfold qheight, qh_version. destruct (h =? 0)%N eqn:H0; [discriminate|].
  destruct (d_base st <? h)%N eqn:Hlt; [discriminate|]. intros _.
  destruct (h <? d_base st)%N eqn:Hlt2; [reflexivity|].
  apply N.ltb_ge in Hlt, Hlt2. replace (N.to_nat (h - d_base st)) with 0%nat by lia.
  destruct (d_versions st); reflexivity.
Qed.

Ltac expose := nsimp; cbn [genesis committed ph checkst node_of]; dsimp.
Ltac fin := repeat split; intros; try reflexivity; try assumption; try discriminate; auto.

(** Layer 2: one specified driver step is simulated by the node events of the action *)
Theorem sim_action fr st inb n a st' out :
  Rel fr st inb n -> legal inb (d_tx st) a = true -> step_spec st a st' out ->
  Rel fr st' (next_inb inb a) (fst (nexec fr n (line_events (d_tx st) (d_base st) a))) /\
  out_ok fr st a st' out (snd (nexec fr n (line_events (d_tx st) (d_base st) a))).
Proof.
  intros (Hf & Hidle & Hinb & Hg & Hc & Hp) Hlegal Hspec. subst fr.
  destruct n as [g cm p cs]. cbn [genesis committed ph node_of] in Hg, Hc, Hp. subst g cm p.
  unfold Rel, same_consensus.
  destruct a; cbn [line_events next_inb legal step_spec out_ok] in *.
  - (* BLOCK *)
    destruct inb; [discriminate|]. destruct Hspec as [-> ->]. specialize (Hidle eq_refl).
    expose. rewrite <- Hidle. unfold begin_state.
    destruct st as [u bb c now fc bl tx docs k58 sg w dn vs base]. dsimp.
    destruct vs as [|v vs]; dsimp; cbn [hd tl]; fin.
  - (* TX / M / X / XEND / SIGMOD *)
    destruct Hspec as (Hf' & Hc' & Hn' & Hv'). expose.
    rewrite Hc', Hn', Hv'. fin.
  - (* ENDTX *)
    destruct (d_tx st) as [p|].
    + destruct inb; [|discriminate]. cbv zeta in Hspec. destruct Hspec as [-> ->]. specialize (Hinb eq_refl).
      expose.
      change (cdeliver (oracles_of_frame (frame_of st)) (d_now st) (d_chain st) (tx_of p))
        with (deliver_tx (env_of st) (d_chain st) (tx_of p)).
      destruct (deliver_tx (env_of st) (d_chain st) (tx_of p)) as [c' r].
      expose. destruct (d_versions st) as [|v vs] eqn:Ev; [contradiction|]. cbn [hd tl]. fin.
      exists r. split; reflexivity.
    + destruct Hspec as [-> ->]. expose. fin.
  - (* ENDBLOCK *)
    destruct inb; [|discriminate]. cbv zeta in Hspec. destruct Hspec as [-> ->]. specialize (Hinb eq_refl).
    expose.
    change (cend (oracles_of_frame (frame_of st)) (d_now st) (d_chain st)) with (end_block (env_of st) (d_chain st)).
    destruct (d_versions st) as [|v vs] eqn:Ev; [contradiction|].
    cbn [hd tl app length]. fin.
    rewrite last_last. reflexivity.
  - (* CRASH *)
    destruct (d_versions st) as [|v vs] eqn:Ev.
    + destruct Hspec as [-> ->]. destruct inb; [exfalso; apply Hinb; reflexivity|].
      expose. rewrite Ev. cbn [hd tl length N.of_nat]. fin.
      exists 0%nat. rewrite N.add_0_r. repeat split; reflexivity.
    + destruct Hspec as [-> ->].
      destruct inb; expose; rewrite Ev; cbn [hd tl]; fin;
         exists (length vs); repeat split; reflexivity.
  - (* ENDCHECK *)
    destruct Hspec as [-> ->]. destruct (d_tx st) as [p|]; expose.
    + destruct (ccheck (oracles_of_frame (frame_of st)) cs (tx_of p)) as [s' r]. expose. fin.
      exists r. reflexivity.
    + fin.
  - (* ENDSIM *)
    destruct Hspec as [-> ->]. destruct (d_tx st) as [p|]; expose; fin.
    eexists. reflexivity.
  - (* QH *)
    destruct Hspec as [-> ->].
    destruct (qheight (d_base st) h) as [k|] eqn:Hk.
    + rewrite (qh_version_node st inb k h Hidle Hinb Hk).
      unfold nexec, cexec. cbn [Node.Model.exec]. rewrite (step_query chain tx tx_result Z (list tok) (list bytes)).
      cbn [fst snd]. fin.
      eexists. split; [reflexivity|].
      assert (Hv : version {| genesis := hd (d_chain st) (d_versions st); committed := tl (d_versions st);
                ph := if inb then InBlock (d_now st) (d_chain st) else Idle; checkst := cs |} k
                   = version (node_of st inb) k) by (destruct k; reflexivity).
      rewrite Hv.
      destruct (version (node_of st inb) k) as [c|]; [|reflexivity].
      cbn [option_map]. rewrite q_cmd_frame. reflexivity.
    + expose. fin.
      rewrite (qh_version_genesis st h Hk).
      destruct (if (h <? d_base st)%N then None else hd_error (d_versions st)) as [c|]; [|reflexivity].
      rewrite q_cmd_frame. reflexivity.
  - (* no-op *)
    subst st'. expose. fin.
Qed.

(** the two layers together: one line of the subset, processed by the extracted [step_line] *)
Definition events_of_line (st : dstate) (l : list tok) : list nevent :=
  match action_of l with Some a => line_events (d_tx st) (d_base st) a | None => [] end.

Theorem sim_line fr st inb n l a :
  Rel fr st inb n -> action_of l = Some a -> legal inb (d_tx st) a = true ->
  Rel fr (fst (step_line st l)) (next_inb inb a) (fst (nexec fr n (events_of_line st l))) /\
  out_ok fr st a (fst (step_line st l)) (snd (step_line st l)) (snd (nexec fr n (events_of_line st l))).
Proof.
  intros HR Ha Hl. unfold events_of_line. rewrite Ha.
  apply sim_action; [exact HR | exact Hl | apply step_line_spec; exact Ha].
Qed.

(** * 3. Whole histories *)

(** the wrapper: the driver state and the "a block is in progress" flag (the driver itself has none) *)
Definition wstate := (dstate * bool)%type.
Definition step_cmd (w : wstate) (l : list tok) : wstate * list bytes :=
  ((fst (step_line (fst w) l), match action_of l with Some a => next_inb (snd w) a | None => snd w end),
   snd (step_line (fst w) l)).
Fixpoint run_cmds (w : wstate) (ls : list (list tok)) : wstate :=
  match ls with [] => w | l :: r => run_cmds (fst (step_cmd w l)) r end.

(** the driver state alone does not depend on the flag *)
Fixpoint drive (st : dstate) (ls : list (list tok)) : dstate :=
  match ls with [] => st | l :: r => drive (fst (step_line st l)) r end.
Lemma run_cmds_drive w ls : fst (run_cmds w ls) = drive (fst w) ls.
Proof. revert w. induction ls as [|l r IH]; intros w; [reflexivity|]. cbn [run_cmds drive]. rewrite IH. reflexivity. Qed.

(** the translation of a history into node events.  It reads the driver state only through [d_tx] (the
    transaction assembled by the TX / M / X / XEND / SIGMOD lines, delivered by ENDTX) and [d_base]. *)
Fixpoint events_of (st : dstate) (ls : list (list tok)) : list nevent :=
  match ls with
  | [] => []
  | l :: r => events_of_line st l ++ events_of (fst (step_line st l)) r
  end.

Lemma events_of_app st l1 l2 : events_of st (l1 ++ l2) = events_of st l1 ++ events_of (drive st l1) l2.
Proof.
  revert st. induction l1 as [|l r IH]; intros st; [reflexivity|].
  cbn [app events_of drive]. rewrite IH, app_assoc. reflexivity.
Qed.

(** every line belongs to the subset and respects the ABCI protocol (decidable) *)
Definition legal_line (w : wstate) (l : list tok) : bool :=
  match action_of l with Some a => legal (snd w) (d_tx (fst w)) a | None => false end.
Fixpoint legal_run (w : wstate) (ls : list (list tok)) : bool :=
  match ls with [] => true | l :: r => legal_line w l && legal_run (fst (step_cmd w l)) r end.

Lemma nexec_app fr n es1 es2 :
  nexec fr n (es1 ++ es2) =
  (fst (nexec fr (fst (nexec fr n es1)) es2), snd (nexec fr n es1) ++ snd (nexec fr (fst (nexec fr n es1)) es2)).
Proof. unfold nexec, cexec. apply exec_app. Qed.

(** the driver refines the node: the abstraction relation is preserved along every legal history *)
Theorem driver_refines_node fr w n ls :
  Rel fr (fst w) (snd w) n -> legal_run w ls = true ->
  Rel fr (fst (run_cmds w ls)) (snd (run_cmds w ls)) (fst (nexec fr n (events_of (fst w) ls))).
Proof.
  revert w n. induction ls as [|l r IH]; intros [st inb] n HR Hl; [exact HR|].
  cbn [fst snd] in HR. cbn [legal_run] in Hl. apply andb_true_iff in Hl. destruct Hl as [Hl Hr].
  unfold legal_line in Hl. cbn [fst snd] in Hl. destruct (action_of l) as [a|] eqn:Ha; [|discriminate].
  destruct (sim_line fr st inb n l a HR Ha Hl) as [HR' _].
  cbn [run_cmds events_of fst]. rewrite nexec_app. cbn [fst].
  specialize (IH (fst (step_cmd (st, inb) l)) (fst (nexec fr n (events_of_line st l)))).
  unfold step_cmd in IH, Hr |- *. cbn [fst snd] in IH, Hr |- *. rewrite Ha in IH, Hr |- *.
  apply IH; assumption.
Qed.

(** ** outputs *)

Fixpoint outs_ok (fr : frame) (w : wstate) (n : cnode) (ls : list (list tok)) : Prop :=
  match ls with
  | [] => True
  | l :: r =>
      let os := nexec fr n (events_of_line (fst w) l) in
      match action_of l with
      | Some a => out_ok fr (fst w) a (fst (step_line (fst w) l)) (snd (step_line (fst w) l)) (snd os)
      | None => True
      end /\ outs_ok fr (fst (step_cmd w l)) (fst os) r
  end.

(** every answer printed by the driver is the rendering of the output of the corresponding node events *)
Theorem driver_outputs_refine fr w n ls :
  Rel fr (fst w) (snd w) n -> legal_run w ls = true -> outs_ok fr w n ls.
Proof.
  revert w n. induction ls as [|l r IH]; intros [st inb] n HR Hl; [exact I|].
  cbn [fst snd] in HR. cbn [legal_run] in Hl. apply andb_true_iff in Hl. destruct Hl as [Hl Hr].
  unfold legal_line in Hl. cbn [fst snd] in Hl. destruct (action_of l) as [a|] eqn:Ha; [|discriminate].
  destruct (sim_line fr st inb n l a HR Ha Hl) as [HR' Ho].
  cbn [outs_ok fst snd]. rewrite Ha. split; [exact Ho|].
  apply IH.
  - unfold step_cmd. cbn [fst snd]. rewrite Ha. exact HR'.
  - exact Hr.
Qed.

(** the result lines ("R ...") of the delivered transactions, in order *)
Fixpoint r_lines (st : dstate) (ls : list (list tok)) : list bytes :=
  match ls with
  | [] => []
  | l :: r =>
      match action_of l, d_tx st with
      | Some AEndTx, Some _ => [hd [] (snd (step_line st l))]
      | _, _ => []
      end ++ r_lines (fst (step_line st l)) r
  end.

Lemma out_ok_tx_results fr st a st' out os :
  out_ok fr st a st' out os ->
  match a, d_tx st with
  | AEndTx, Some _ => [hd [] out]
  | _, _ => []
  end = map result_line (tx_results tx_result (list bytes) os).
Proof.
  unfold out_ok. destruct a.
  - intros [-> _]. reflexivity.
  - intros ->. reflexivity.
  - destruct (d_tx st); [intros (r & -> & ->) | intros [-> _]]; reflexivity.
  - intros [-> _]. reflexivity.
  - intros (k & -> & _). reflexivity.
  - intros [_ Hos]. destruct (d_tx st); [destruct Hos as (r & ->) | subst os]; reflexivity.
  - intros [_ Hos]. destruct (d_tx st); [destruct Hos as (r & ->) | subst os]; reflexivity.
  - destruct (qheight (d_base st) h); [intros (x & -> & _) | intros [-> _]]; reflexivity.
  - intros ->. reflexivity.
Qed.

Theorem driver_tx_results fr w n ls :
  Rel fr (fst w) (snd w) n -> legal_run w ls = true ->
  r_lines (fst w) ls = map result_line (tx_results tx_result (list bytes) (snd (nexec fr n (events_of (fst w) ls)))).
Proof.
  revert w n. induction ls as [|l r IH]; intros [st inb] n HR Hl; [reflexivity|].
  cbn [fst snd] in HR. cbn [legal_run] in Hl. apply andb_true_iff in Hl. destruct Hl as [Hl Hr].
  unfold legal_line in Hl. cbn [fst snd] in Hl. destruct (action_of l) as [a|] eqn:Ha; [|discriminate].
  destruct (sim_line fr st inb n l a HR Ha Hl) as [HR' Ho].
  cbn [r_lines events_of fst]. rewrite nexec_app. cbn [snd]. rewrite tx_results_app, map_app.
  rewrite Ha. rewrite (out_ok_tx_results _ _ _ _ _ _ Ho). f_equal.
  specialize (IH (fst (step_cmd (st, inb) l)) (fst (nexec fr n (events_of_line st l)))).
  unfold step_cmd in IH, Hr. cbn [fst snd] in IH, Hr. rewrite Ha in IH, Hr.
  apply IH; assumption.
Qed.

(** ** from a fresh driver state: the versions are [run] of the completed blocks *)

(** [d_versions] with the genesis version made explicit before the first BLOCK *)
Definition versions_view (st : dstate) : list chain :=
  match d_versions st with [] => [d_chain st] | l => l end.

Lemma Rel_start st : d_versions st = [] -> Rel (frame_of st) st false (cstart (d_chain st)).
Proof.
  intros Hv. unfold Rel, same_consensus, node_of, cstart, start. rewrite Hv. cbn [genesis committed ph hd tl last].
  repeat split; try reflexivity. discriminate.
Qed.

Lemma Rel_versions_view fr st inb n : Rel fr st inb n -> versions_view st = genesis n :: committed n.
Proof.
  intros (_ & _ & _ & Hg & Hc & _). rewrite Hg, Hc. unfold versions_view, node_of. cbn [genesis committed].
  destruct (d_versions st); reflexivity.
Qed.

Lemma Rel_idle_latest fr st n : Rel fr st false n -> d_chain st = latest n.
Proof.
  intros (_ & Hidle & _ & Hg & Hc & _). unfold latest. rewrite Hg, Hc. apply Hidle. reflexivity.
Qed.

Lemma Rel_frame fr st inb n : Rel fr st inb n -> frame_of st = fr.
Proof. intros [H _]. exact H. Qed.

(** MAIN COROLLARY.  Start the extracted interpreter in a state [st] that has not begun a block yet (its
    [d_chain] is the genesis state), feed it any legal history [ls] of the subset.  Then
    - its committed versions are the genesis followed by the node's committed versions after the translated
      events, i.e. (node_committed_is_run) the reference versions of the completed blocks of these events;
    - between blocks its working state [d_chain] is [run] of the completed blocks;
    - the tables (hence the oracles) did not change. *)
Theorem driver_versions_are_run st ls :
  d_versions st = [] -> legal_run (st, false) ls = true ->
  let o := oracles_of st in
  let es := events_of st ls in
  let w' := run_cmds (st, false) ls in
  let n' := fst (nexec (frame_of st) (cstart (d_chain st)) es) in
  versions_view (fst w') = d_chain st :: committed n' /\
  committed n' = cversions o (d_chain st) (ccompleted (list tok) es) /\
  last (versions_view (fst w')) (d_chain st) = run o (d_chain st) (ccompleted (list tok) es) /\
  (snd w' = false -> d_chain (fst w') = run o (d_chain st) (ccompleted (list tok) es)) /\
  oracles_of (fst w') = o.
Proof.
  intros Hv Hl. cbv zeta.
  pose proof (driver_refines_node (frame_of st) (st, false) (cstart (d_chain st)) ls (Rel_start st Hv) Hl) as HR.
  cbn [fst snd] in HR.
  set (n' := fst (nexec (frame_of st) (cstart (d_chain st)) (events_of st ls))) in *.
  assert (Hcm : committed n' = cversions (oracles_of st) (d_chain st) (ccompleted (list tok) (events_of st ls)))
    by exact (proj1 (node_committed_is_run (oracles_of st) (list tok) (list bytes) (dquery (frame_of st)) (d_chain st) (events_of st ls))).
  assert (Hlat : latest n' = run (oracles_of st) (d_chain st) (ccompleted (list tok) (events_of st ls)))
    by exact (proj2 (node_committed_is_run (oracles_of st) (list tok) (list bytes) (dquery (frame_of st)) (d_chain st) (events_of st ls))).
  assert (Hgen : genesis n' = d_chain st)
    by exact (genesis_constant chain tx tx_result Z (list tok) (list bytes) _ _ _ _ _ (cstart (d_chain st)) (events_of st ls)).
  rewrite (Rel_versions_view _ _ _ _ HR), Hgen.
  split; [reflexivity|]. split; [exact Hcm|]. split.
  - rewrite last_cons_default. rewrite <- Hlat. unfold latest. rewrite Hgen. reflexivity.
  - split.
    + intros Hidle. rewrite Hidle in HR. rewrite (Rel_idle_latest _ _ _ HR). exact Hlat.
    + unfold oracles_of. rewrite (Rel_frame _ _ _ _ HR). reflexivity.
Qed.

(** the same from any driver state between blocks whose [d_chain] is its latest version (what ENDBLOCK and
    CRASH leave): the new versions are the reference versions of the completed blocks, from [d_chain] *)
Theorem driver_versions_from st ls :
  d_chain st = last (tl (d_versions st)) (hd (d_chain st) (d_versions st)) ->
  legal_run (st, false) ls = true ->
  let o := oracles_of st in
  let es := events_of st ls in
  let st' := fst (run_cmds (st, false) ls) in
  versions_view st' = versions_view st ++ cversions o (d_chain st) (ccompleted (list tok) es).
Proof.
  intros Hidle Hl. cbv zeta.
  assert (HR0 : Rel (frame_of st) st false (node_of st false)).
  { unfold Rel, same_consensus. repeat split; try reflexivity; [intros _; exact Hidle | discriminate]. }
  pose proof (driver_refines_node (frame_of st) (st, false) (node_of st false) ls HR0 Hl) as HR.
  cbn [fst snd] in HR. rewrite (Rel_versions_view _ _ _ _ HR).
  set (n' := fst (nexec (frame_of st) (node_of st false) (events_of st ls))).
  assert (Hgen : genesis n' = genesis (node_of st false))
    by exact (genesis_constant chain tx tx_result Z (list tok) (list bytes) _ _ _ _ _ (node_of st false) (events_of st ls)).
  assert (Hcm : committed n' = committed (node_of st false) ++
                cversions (oracles_of st) (latest (node_of st false)) (ccompleted (list tok) (events_of st ls)))
    by exact (committed_is_versions_from chain tx tx_result Z (list tok) (list bytes) _ _ _ _ _
                (node_of st false) (events_of st ls) eq_refl).
  rewrite Hgen, Hcm. unfold latest, node_of. cbn [genesis committed]. rewrite <- Hidle.
  unfold versions_view. destruct (d_versions st); reflexivity.
Qed.

(** C10 transported to the driver: a CRASH line at any point of a legal history leaves the committed versions
    of the completed blocks only (the block in progress leaves no trace) *)
Corollary driver_crash_keeps_completed_only st ls :
  d_versions st = [] -> legal_run (st, false) (ls ++ [[b "CRASH"]]) = true ->
  let o := oracles_of st in
  let st' := fst (run_cmds (st, false) (ls ++ [[b "CRASH"]])) in
  versions_view st' = d_chain st :: cversions o (d_chain st) (ccompleted (list tok) (events_of st ls)) /\
  d_chain st' = run o (d_chain st) (ccompleted (list tok) (events_of st ls)).
Proof.
  intros Hv Hl. cbv zeta.
  destruct (driver_versions_are_run st _ Hv Hl) as (H1 & H2 & _ & H4 & _). cbv zeta in *.
  assert (Hes : events_of st (ls ++ [[b "CRASH"]]) = events_of st ls ++ [ECrash]).
  { rewrite events_of_app. reflexivity. }
  assert (Hcomp : ccompleted (list tok) (events_of st (ls ++ [[b "CRASH"]])) = ccompleted (list tok) (events_of st ls)).
  { rewrite Hes. unfold ccompleted, completed. rewrite completed_from_app. cbn [completed_from].
    destruct (scan_after _ _ _ _ _); cbn; rewrite app_nil_r; reflexivity. }
  rewrite Hcomp in *. split.
  - rewrite H1, H2. reflexivity.
  - apply H4. clear. generalize (st, false) as w. induction ls as [|l r IH]; intros w; [reflexivity|]. apply IH.
Qed.

(** C09 transported to the driver: the committed versions are those of the consensus events alone (the
    ENDCHECK / ENDSIM / QH lines of the history do not count) *)
Corollary driver_ignores_mempool_and_queries st ls :
  d_versions st = [] -> legal_run (st, false) ls = true ->
  versions_view (fst (run_cmds (st, false) ls)) =
  d_chain st :: committed (fst (nexec (frame_of st) (cstart (d_chain st))
                                  (consensus_only tx Z (list tok) (events_of st ls)))).
Proof.
  intros Hv Hl. destruct (driver_versions_are_run st ls Hv Hl) as (H1 & _). cbv zeta in H1. rewrite H1.
  f_equal.
  exact (proj1 (node_ignores_mempool_and_queries (oracles_of st) (list tok) (list bytes) (dquery (frame_of st))
                  (cstart (d_chain st)) (events_of st ls))).
Qed.

Lemma drive_app st l1 l2 : drive st (l1 ++ l2) = drive (drive st l1) l2.
Proof. revert st. induction l1 as [|l r IH]; intros st; [reflexivity | apply IH]. Qed.

(** C20 transported to the driver: after any legal history, a [QH h q] line (h = 0, or a height above the
    genesis version) prints the query evaluated on the reference state of the completed blocks -- all of them
    for h = 0, the first h - d_base of them otherwise -- and "Q err height" when that version does not exist.
    The block in progress is never read. *)
Theorem driver_query_reads_committed st ls ht h q k :
  d_versions st = [] -> legal_run (st, false) ls = true ->
  parse_dec ht = Some h -> qheight (d_base st) h = Some k ->
  snd (step_line (drive st ls) (b "QH" :: ht :: q)) =
  match committed_state (oracles_of st) (d_chain st) (ccompleted (list tok) (events_of st ls)) k with
  | Some c => dquery (frame_of st) c q
  | None => [b "Q err height"]
  end.
Proof.
  intros Hv Hl Hp Hk.
  pose proof (driver_refines_node (frame_of st) (st, false) (cstart (d_chain st)) ls (Rel_start st Hv) Hl) as HR.
  cbn [fst snd] in HR. rewrite run_cmds_drive in HR. cbn [fst] in HR.
  set (st' := drive st ls) in *. set (inb := snd (run_cmds (st, false) ls)) in *.
  set (n' := fst (nexec (frame_of st) (cstart (d_chain st)) (events_of st ls))) in *.
  assert (Ha : action_of (b "QH" :: ht :: q) = Some (AQH h q)).
  { change (action_of (b "QH" :: ht :: q)) with
      (Some (match parse_dec ht with Some h' => AQH h' q | None => ANoop end)). rewrite Hp. reflexivity. }
  destruct (sim_line _ _ _ _ _ _ HR Ha eq_refl) as [_ Ho].
  assert (Hb : d_base st' = d_base st).
  { pose proof (Rel_frame _ _ _ _ HR) as Hf. exact (f_equal f_base Hf). }
  unfold out_ok, events_of_line in Ho. rewrite Ha in Ho. cbn [line_events] in Ho. rewrite Hb, Hk in Ho.
  destruct Ho as (a & Hos & ->).
  assert (Hans : a = option_map (fun c => dquery (frame_of st) c q) (version n' k)).
  { unfold nexec, cexec in Hos. cbn [Node.Model.exec] in Hos.
    rewrite (step_query chain tx tx_result Z (list tok) (list bytes)) in Hos. cbn [snd] in Hos.
    injection Hos as <-. reflexivity. }
  assert (Hver : version n' k =
                 committed_state (oracles_of st) (d_chain st) (ccompleted (list tok) (events_of st ls)) k).
  { unfold n', nexec, cexec, cstart.
    rewrite (version_after chain tx tx_result Z (list tok) (list bytes)).
    unfold committed_state. fold (cversions (oracles_of_frame (frame_of st))). fold (ccompleted (list tok)).
    destruct k as [|k].
    - rewrite versions_is_run. reflexivity.
    - destruct (k <? _) eqn:Hlt.
      + apply versions_nth. apply Nat.ltb_lt. exact Hlt.
      + apply versions_nth_none. apply Nat.ltb_ge. exact Hlt. }
  rewrite Hans, Hver.
  destruct (committed_state _ _ _ k); reflexivity.
Qed.

(** * 4. The simulation, command by command (instances of [sim_line] on the concrete lines) *)

Lemma nexec1 fr n e : nexec fr n [e] = (fst (nstep fr n e), [snd (nstep fr n e)]).
Proof. unfold nexec, nstep, cexec, cstep. cbn [Node.Model.exec]. destruct (Node.Model.step _ _ _ _ _ _ _ _ _ _ _ n e). reflexivity. Qed.

(** BLOCK t ~ EBegin t *)
Lemma sim_BLOCK fr st n t z :
  Rel fr st false n -> z_of_tok t = Some z ->
  Rel fr (fst (step_line st [b "BLOCK"; t])) true (fst (nstep fr n (EBegin z))) /\
  snd (step_line st [b "BLOCK"; t]) = [] /\ snd (nstep fr n (EBegin z)) = ONone.
Proof.
  intros HR Hz.
  assert (Ha : action_of [b "BLOCK"; t] = Some (ABegin z)).
  { change (action_of [b "BLOCK"; t]) with (Some (match z_of_tok t with Some z => ABegin z | None => ANoop end)).
    rewrite Hz. reflexivity. }
  destruct (sim_line _ _ _ _ _ _ HR Ha eq_refl) as [H1 H2].
  unfold events_of_line in H1, H2. rewrite Ha in H1, H2. cbn [line_events next_inb out_ok] in H1, H2.
  rewrite nexec1 in H1, H2. cbn [fst snd] in H1, H2. destruct H2 as [H2 H3]. injection H2 as H2. auto.
Qed.

(** TX .. / M .. / ENDTX ~ EDeliver of the transaction assembled from the pending lines *)
Lemma sim_ENDTX fr st n p args :
  Rel fr st true n -> d_tx st = Some p ->
  let st' := fst (step_line st (b "ENDTX" :: args)) in
  Rel fr st' true (fst (nstep fr n (EDeliver (tx_of p)))) /\
  exists r, snd (nstep fr n (EDeliver (tx_of p))) = OTx r /\
            snd (step_line st (b "ENDTX" :: args)) =
            [result_line r; delta_line st (c_bank (d_chain st)) (c_bank (d_chain st'))].
Proof.
  intros HR Hp. cbv zeta.
  assert (Ha : action_of (b "ENDTX" :: args) = Some AEndTx) by reflexivity.
  assert (Hl : legal true (d_tx st) AEndTx = true) by (rewrite Hp; reflexivity).
  destruct (sim_line _ _ _ _ _ _ HR Ha Hl) as [H1 H2].
  unfold events_of_line in H1, H2. rewrite Ha in H1, H2. cbn [line_events next_inb out_ok] in H1, H2.
  rewrite Hp in H1, H2. rewrite nexec1 in H1, H2. cbn [fst snd] in H1, H2.
  split; [exact H1|]. destruct H2 as (r & H2 & H3). exists r. injection H2 as H2. auto.
Qed.

(** ENDBLOCK ~ EEnd; ECommit *)
Lemma sim_ENDBLOCK fr st n args :
  Rel fr st true n ->
  let st' := fst (step_line st (b "ENDBLOCK" :: args)) in
  let r := nexec fr n [EEnd; ECommit] in
  Rel fr st' false (fst r) /\
  snd r = [ONone; OHeight (length (d_versions st))] /\
  snd (step_line st (b "ENDBLOCK" :: args)) = [end_block_line st (d_chain st')] /\
  d_versions st' = d_versions st ++ [d_chain st'].
Proof.
  intros HR. cbv zeta.
  assert (Ha : action_of (b "ENDBLOCK" :: args) = Some AEndBlock) by reflexivity.
  destruct (sim_line _ _ _ _ _ _ HR Ha eq_refl) as [H1 H2].
  unfold events_of_line in H1, H2. rewrite Ha in H1, H2. cbn [line_events next_inb out_ok] in H1, H2.
  destruct H2 as [H2 H3]. split; [exact H1|]. split; [exact H2|]. split; [exact H3|].
  pose proof (step_line_spec st _ _ Ha) as Hs. cbn [step_spec] in Hs. destruct Hs as [Hs _]. rewrite Hs. reflexivity.
Qed.

(** CRASH ~ ECrash; the answer is "H h" with h = d_base + (number of committed node versions)
    = d_base + length d_versions - 1 (h = d_base when nothing was recorded yet) *)
Lemma sim_CRASH fr st inb n args :
  Rel fr st inb n ->
  let st' := fst (step_line st (b "CRASH" :: args)) in
  Rel fr st' false (fst (nstep fr n ECrash)) /\
  snd (nstep fr n ECrash) = OHeight (length (committed n)) /\
  snd (step_line st (b "CRASH" :: args)) = [height_line (d_base st + N.of_nat (length (committed n)))] /\
  length (committed n) = (length (d_versions st) - 1)%nat /\
  d_chain st' = latest n.
Proof.
  intros HR. cbv zeta.
  assert (Ha : action_of (b "CRASH" :: args) = Some ACrash) by reflexivity.
  destruct (sim_line _ _ _ _ _ _ HR Ha eq_refl) as [H1 H2].
  unfold events_of_line in H1, H2. rewrite Ha in H1, H2. cbn [line_events next_inb out_ok] in H1, H2.
  rewrite nexec1 in H1, H2. cbn [fst snd] in H1, H2.
  destruct H2 as (k & H2 & H3 & H4). injection H2 as H2.
  assert (Hc : committed n = tl (d_versions st)) by (destruct HR as (_ & _ & _ & _ & Hc & _); exact Hc).
  assert (Hk : k = length (committed n)) by (rewrite Hc; exact H4). subst k.
  split; [exact H1|]. split.
  - unfold nstep, cstep. rewrite (step_crash chain tx tx_result Z (list tok) (list bytes)). reflexivity.
  - split; [exact H3|]. split.
    + rewrite Hc. destruct (d_versions st); cbn [tl length]; lia.
    + rewrite (Rel_idle_latest _ _ _ H1). unfold nstep, cstep.
      rewrite (step_crash chain tx tx_result Z (list tok) (list bytes)). reflexivity.
Qed.

(** ENDCHECK / ENDSIM ~ no consensus event: only the pending transaction is dropped; on the node side the
    corresponding ECheck / ESimulate leaves genesis, committed versions and phase unchanged *)
Lemma sim_ENDCHECK fr st inb n args :
  Rel fr st inb n ->
  let st' := fst (step_line st (b "ENDCHECK" :: args)) in
  st' = upd_tx st None /\ snd (step_line st (b "ENDCHECK" :: args)) = [] /\
  Rel fr st' inb n /\
  forall t, Rel fr st' inb (fst (nstep fr n (ECheck t))).
Proof.
  intros HR. cbv zeta.
  assert (Ha : action_of (b "ENDCHECK" :: args) = Some AEndCheck) by reflexivity.
  pose proof (step_line_spec st _ _ Ha) as Hs. cbn [step_spec] in Hs. destruct Hs as [Hs Ho].
  rewrite Hs. split; [reflexivity|]. split; [exact Ho|].
  destruct HR as (Hf & Hi & Hb & Hg0 & Hc0 & Hp0).
  assert (HR' : Rel fr (upd_tx st None) inb n) by (unfold Rel, same_consensus; repeat split; assumption).
  split; [exact HR'|]. intros t.
  destruct (step_non_consensus chain tx tx_result Z (list tok) (list bytes)
              (cbegin (oracles_of_frame fr)) (cdeliver (oracles_of_frame fr)) (cend (oracles_of_frame fr))
              (ccheck (oracles_of_frame fr)) (dquery fr) n (ECheck t) eq_refl) as [(Hg & Hc & Hp) _].
  destruct HR' as (Hf' & Hi' & Hb' & Hg' & Hc' & Hp').
  split; [exact Hf'|]. split; [exact Hi'|]. split; [exact Hb'|].
  split; [exact (eq_trans Hg Hg') | split; [exact (eq_trans Hc Hc') | exact (eq_trans Hp Hp')]].
Qed.

Lemma sim_ENDSIM fr st inb n args :
  Rel fr st inb n ->
  let st' := fst (step_line st (b "ENDSIM" :: args)) in
  st' = upd_tx st None /\ snd (step_line st (b "ENDSIM" :: args)) = [] /\
  Rel fr st' inb n /\
  forall t, fst (nstep fr n (ESimulate t)) = n.
Proof.
  intros HR. cbv zeta.
  assert (Ha : action_of (b "ENDSIM" :: args) = Some AEndSim) by reflexivity.
  pose proof (step_line_spec st _ _ Ha) as Hs. cbn [step_spec] in Hs. destruct Hs as [Hs Ho].
  rewrite Hs. split; [reflexivity|]. split; [exact Ho|].
  destruct HR as (Hf & Hi & Hb & Hg0 & Hc0 & Hp0).
  split; [unfold Rel, same_consensus; repeat split; assumption|].
  intros t. unfold nstep, cstep, Node.Model.step. destruct (ph n); reflexivity.
Qed.

(** QH h q ~ EQuery on the committed version: the answer is the query evaluated on the node's version *)
Lemma sim_QH fr st inb n ht h q k :
  Rel fr st inb n -> parse_dec ht = Some h -> qheight (d_base st) h = Some k ->
  fst (step_line st (b "QH" :: ht :: q)) = st /\
  fst (nstep fr n (EQuery k q)) = n /\
  snd (nstep fr n (EQuery k q)) = OAnswer (option_map (fun c => dquery fr c q) (version n k)) /\
  snd (step_line st (b "QH" :: ht :: q)) =
    match version n k with Some c => dquery fr c q | None => [b "Q err height"] end.
Proof.
  intros HR Hp Hk.
  assert (Ha : action_of (b "QH" :: ht :: q) = Some (AQH h q)).
  { change (action_of (b "QH" :: ht :: q)) with
      (Some (match parse_dec ht with Some h' => AQH h' q | None => ANoop end)). rewrite Hp. reflexivity. }
  pose proof (step_line_spec st _ _ Ha) as Hs. cbn [step_spec] in Hs. destruct Hs as [Hs _].
  destruct (sim_line _ _ _ _ _ _ HR Ha eq_refl) as [_ H2].
  unfold events_of_line in H2. rewrite Ha in H2. cbn [line_events out_ok] in H2. rewrite Hk in H2.
  rewrite nexec1 in H2. cbn [snd] in H2. destruct H2 as (a & H2 & H3). injection H2 as H2.
  assert (Hst : nstep fr n (EQuery k q) = (n, OAnswer (option_map (fun c => dquery fr c q) (version n k)))).
  { unfold nstep, cstep. apply (step_query chain tx tx_result Z (list tok) (list bytes)). }
  rewrite Hst in *. cbn [fst snd] in *. subst a.
  repeat split; try assumption. rewrite H3. destruct (version n k); reflexivity.
Qed.

(** ** the tables, hence the oracles, are constant along the subset (no protocol hypothesis needed) *)
Lemma frame_preserved st l a : action_of l = Some a -> frame_of (fst (step_line st l)) = frame_of st.
Proof.
  intros Ha. pose proof (step_line_spec st l a Ha) as Hs. destruct a; cbn [step_spec] in Hs.
  - destruct Hs as [-> _]. unfold begin_state.
    destruct st as [u bb c now fc bl tx docs k58 sg w dn vs base]. dsimp. destruct vs; reflexivity.
  - destruct Hs as [Hs _]. exact Hs.
  - destruct (d_tx st); cbv zeta in Hs; destruct Hs as [-> _]; reflexivity.
  - cbv zeta in Hs. destruct Hs as [-> _]. reflexivity.
  - destruct (d_versions st); destruct Hs as [-> _]; reflexivity.
  - destruct Hs as [-> _]. reflexivity.
  - destruct Hs as [-> _]. reflexivity.
  - destruct Hs as [-> _]. reflexivity.
  - rewrite Hs. reflexivity.
Qed.

Corollary oracles_preserved st l a : action_of l = Some a -> oracles_of (fst (step_line st l)) = oracles_of st.
Proof. intros Ha. unfold oracles_of. rewrite (frame_preserved st l a Ha). reflexivity. Qed.

(** after [BLOCK t] the environment of the driver is [env_at] of the (unchanged) oracles at time t; it stays so
    until the next BLOCK since no other line of the subset touches [d_now] or the tables *)
Lemma env_after_BLOCK st t z :
  z_of_tok t = Some z -> env_of (fst (step_line st [b "BLOCK"; t])) = env_at (oracles_of st) z.
Proof.
  intros Hz.
  assert (Ha : action_of [b "BLOCK"; t] = Some (ABegin z)).
  { change (action_of [b "BLOCK"; t]) with (Some (match z_of_tok t with Some z => ABegin z | None => ANoop end)).
    rewrite Hz. reflexivity. }
  pose proof (step_line_spec st _ _ Ha) as Hs. cbn [step_spec] in Hs. destruct Hs as [Hs _]. rewrite Hs.
  unfold begin_state. destruct st as [u bb c now fc bl tx docs k58 sg w dn vs base]. dsimp.
  destruct vs; reflexivity.
Qed.

(** ** the hypotheses are satisfiable: a small history evaluated inside Coq *)
Definition ex_lines : list (list tok) :=
  [ [b "BLOCK"; b "10"]; [b "TX"; b "-"; b "-"]; [b "ENDTX"]; [b "TX"; b "-"; b "-"]; [b "ENDCHECK"]; [b "ENDBLOCK"];
    [b "BLOCK"; b "20"]; [b "TX"; b "-"; b "-"]; [b "ENDTX"]; [b "CRASH"];
    [b "QH"; b "0"; b "did.DID"; b "00"]; [b "QH"; b "2"; b "did.DID"; b "00"]; [b "QH"; b "1"; b "did.DID"; b "00"] ].
Example ex_legal : legal_run (dinit, false) ex_lines = true.
Proof. vm_compute. reflexivity. Qed.
Example ex_events :
  let x := {| tx_msgs := []; tx_signed_by := []; tx_fee := [] |} in
  events_of dinit ex_lines =
  [EBegin 10%Z; EDeliver x; ECheck x; EEnd; ECommit; EBegin 20%Z; EDeliver x; ECrash;
   EQuery 0 [b "did.DID"; b "00"]; EQuery 1 [b "did.DID"; b "00"]].   (* QH 1 = the genesis version: no node event *)
Proof. vm_compute. reflexivity. Qed.

(** * 5. Discrepancies between the driver and the node model (outside the legal protocol)

    The driver does NOT ignore calls that are illegal at that point of the protocol, the node model does.
    [legal_run] is therefore a genuine hypothesis of the theorems above.  Formally: *)

(** the node ignores EndBlock/Commit between blocks ... *)
Lemma node_idle_ignores_end_commit fr (n : cnode) : ph n = Idle -> fst (nexec fr n [EEnd; ECommit]) = n.
Proof.
  intros Hp. unfold nexec, cexec. destruct n as [g cm p cs]. cbn [ph] in Hp. subst p. reflexivity.
Qed.
(** ... the driver commits a new version whatever the phase *)
Lemma driver_ENDBLOCK_always_commits st args :
  d_versions (fst (step_line st (b "ENDBLOCK" :: args))) = d_versions st ++ [end_block (env_of st) (d_chain st)].
Proof.
  assert (Ha : action_of (b "ENDBLOCK" :: args) = Some AEndBlock) by reflexivity.
  pose proof (step_line_spec st _ _ Ha) as Hs. cbn [step_spec] in Hs. destruct Hs as [Hs _]. rewrite Hs. reflexivity.
Qed.

(** the node ignores a BeginBlock inside a block (it keeps the block time) ... *)
Lemma node_inblock_ignores_begin fr (n : cnode) h s z : ph n = InBlock h s -> fst (nstep fr n (EBegin z)) = n.
Proof.
  intros Hp. unfold nstep, cstep. destruct n as [g cm p cs]. cbn [ph] in Hp. subst p. reflexivity.
Qed.
(** ... the driver runs the begin blocker again on the state in progress, at the new time *)
Lemma driver_BLOCK_always_begins st t z :
  z_of_tok t = Some z ->
  let st' := fst (step_line st [b "BLOCK"; t]) in
  d_now st' = z /\ d_chain st' = begin_block (env_at (oracles_of st) z) (d_chain st).
Proof.
  intros Hz. cbv zeta.
  assert (Ha : action_of [b "BLOCK"; t] = Some (ABegin z)).
  { change (action_of [b "BLOCK"; t]) with (Some (match z_of_tok t with Some z => ABegin z | None => ANoop end)).
    rewrite Hz. reflexivity. }
  pose proof (step_line_spec st _ _ Ha) as Hs. cbn [step_spec] in Hs. destruct Hs as [Hs _]. rewrite Hs.
  unfold begin_state. destruct st as [u bb c now fc bl tx docs k58 sg w dn vs base]. dsimp.
  destruct vs; split; reflexivity.
Qed.

(** the node ignores a DeliverTx between blocks ... *)
Lemma node_idle_ignores_deliver fr (n : cnode) x : ph n = Idle -> fst (nstep fr n (EDeliver x)) = n.
Proof.
  intros Hp. unfold nstep, cstep. destruct n as [g cm p cs]. cbn [ph] in Hp. subst p. reflexivity.
Qed.
(** ... the driver executes it on its working state (from which the next BLOCK starts) *)
Lemma driver_ENDTX_always_delivers st p args :
  d_tx st = Some p ->
  d_chain (fst (step_line st (b "ENDTX" :: args))) = fst (deliver_tx (env_of st) (d_chain st) (tx_of p)).
Proof.
  intros Hp.
  assert (Ha : action_of (b "ENDTX" :: args) = Some AEndTx) by reflexivity.
  pose proof (step_line_spec st _ _ Ha) as Hs. cbn [step_spec] in Hs. rewrite Hp in Hs. cbv zeta in Hs.
  destruct Hs as [Hs _]. rewrite Hs. reflexivity.
Qed.

(** a plain [Q] inside a block reads the state in progress ([d_chain]), which no node query can do
    (node queries read committed versions only: [node_queries_read_committed]) *)
Lemma driver_Q_reads_working_state st args :
  step_line st (b "Q" :: args) = (st, dquery (frame_of st) (d_chain st) args).
Proof. rewrite <- q_cmd_frame. exact (step_line_chain _ _ _ _ (cc_Q st args) eq_refl). Qed.

Print Assumptions step_line_spec.
Print Assumptions sim_action.
Print Assumptions sim_line.
Print Assumptions driver_refines_node.
Print Assumptions driver_outputs_refine.
Print Assumptions driver_tx_results.
Print Assumptions driver_versions_are_run.
Print Assumptions driver_versions_from.
Print Assumptions driver_crash_keeps_completed_only.
Print Assumptions driver_ignores_mempool_and_queries.
Print Assumptions driver_query_reads_committed.
Print Assumptions frame_preserved.
Print Assumptions env_after_BLOCK.
Print Assumptions sim_BLOCK.
Print Assumptions sim_ENDTX.
Print Assumptions sim_ENDBLOCK.
Print Assumptions sim_CRASH.
Print Assumptions sim_ENDCHECK.
Print Assumptions sim_ENDSIM.
Print Assumptions sim_QH.
Print Assumptions driver_ENDBLOCK_always_commits.
Print Assumptions driver_BLOCK_always_begins.
Print Assumptions driver_ENDTX_always_delivers.

(** * Summary of what is NOT proved here
    - Nothing is claimed about histories that violate the protocol (BLOCK inside a block, ENDTX / ENDBLOCK outside):
      there the driver and the node model differ (section 5); [legal_run] excludes them.
    - Lines outside the subset (ADDR BECH ENV BAL G DOC.. KEY58 SIGT RESET EXPORTIMPORT ENDSIGN VB KS UPROBE CK) are
      not covered: ADDR/BECH/ENV/KEY58/SIGT change the oracles, ENV account/BAL/G edit [d_chain] directly (legitimate
      only before the first BLOCK, when [d_chain] is still the genesis), EXPORTIMPORT rebases [d_versions].
    - [QH h] with h = [d_base] (the genesis version) and 0 < h < [d_base] have no node event ([Node.Model.version]
      cannot address the genesis by height; 0 means latest): their answer is specified in [out_ok] only.
    - the node's check state and the OCheck results have no counterpart in the driver (ENDCHECK / ENDSIM print nothing).
    - the translation [events_of] reads the transaction assembled by the driver itself ([d_tx]); that the TX / M lines
      denote the transaction the real application receives is the business of the harness, not of this file. *)
