(** The life cycle of a node (baseapp + the versioned multistore), generic in the application:
    - [committed]: the immutable versions written by Commit, oldest first (version h is element h-1);
      version 0 is the genesis state [genesis];
    - [deliver]: the deliver state, a cache branch over the latest version that exists only between
      BeginBlock and Commit and is written through only by Commit;
    - [checkst]: the check state, a second branch reset to the latest version by every Commit (and restart).
    Events are the ABCI calls the node receives on its three connections plus a crash/restart.  Calls that are
    illegal at that point of the protocol (DeliverTx without a block, a second BeginBlock ...) are ignored.
    Definitions only. *)
From Coq Require Import List Arith NArith ZArith Bool.
Import ListNotations.

Section Node.
  Variables (S T R H Q A : Type).
  Variable beginb : H -> S -> S.
  Variable deliver : H -> S -> T -> S * R.
  Variable endb : H -> S -> S.
  Variable check : S -> T -> S * R.        (* CheckTx: ante handler on the check state *)
  Variable query : S -> Q -> A.

  Inductive phase := Idle | InBlock (h : H) (s : S) | Ended (h : H) (s : S).

  Record node := { genesis : S; committed : list S; ph : phase; checkst : S }.

  Definition latest (n : node) : S := last (committed n) (genesis n).
  (** the state of version [h]; [0%nat] = "latest" as in the ABCI query interface *)
  Definition version (n : node) (h : nat) : option S :=
    match h with
    | O => Some (latest n)
    | Datatypes.S k => nth_error (committed n) k
    end.

  Inductive event :=
  | EBegin (h : H) | EDeliver (t : T) | EEnd | ECommit       (* consensus connection *)
  | ECheck (t : T) | ESimulate (t : T)                       (* mempool connection / simulate endpoint *)
  | EQuery (height : nat) (q : Q)                            (* query connection *)
  | ECrash.                                                  (* stop at this point and restart on the same database *)

  Inductive output :=
  | ONone | OTx (r : R) | OCheck (r : R) | OAnswer (a : option A) | OHeight (h : nat).

  Definition with_ph (n : node) (p : phase) : node :=
    {| genesis := genesis n; committed := committed n; ph := p; checkst := checkst n |}.

  Definition step (n : node) (e : event) : node * output :=
    match e, ph n with
    | EBegin h, Idle => (with_ph n (InBlock h (beginb h (latest n))), ONone)
    | EDeliver t, InBlock h s => let '(s', r) := deliver h s t in (with_ph n (InBlock h s'), OTx r)
    | EEnd, InBlock h s => (with_ph n (Ended h (endb h s)), ONone)
    | ECommit, Ended h s =>
        ({| genesis := genesis n; committed := committed n ++ [s]; ph := Idle; checkst := s |},
         OHeight (Datatypes.S (length (committed n))))
    | ECheck t, _ => let '(s', r) := check (checkst n) t in
                     ({| genesis := genesis n; committed := committed n; ph := ph n; checkst := s' |}, OCheck r)
    | ESimulate t, _ => (n, OCheck (snd (check (checkst n) t)))
    | EQuery h q, _ => (n, OAnswer (option_map (fun s => query s q) (version n h)))
    | ECrash, _ => ({| genesis := genesis n; committed := committed n; ph := Idle; checkst := latest n |},
                    OHeight (length (committed n)))
    | _, _ => (n, ONone)
    end.

  Fixpoint exec (n : node) (es : list event) : node * list output :=
    match es with
    | [] => (n, [])
    | e :: r => let '(n1, o) := step n e in let '(n2, os) := exec n1 r in (n2, o :: os)
    end.

  Definition start (g : S) : node := {| genesis := g; committed := []; ph := Idle; checkst := g |}.

  (** the reference: a node that never stops and serves nothing but consensus *)
  Definition block := (H * list T)%type.
  Fixpoint deliver_all (h : H) (s : S) (ts : list T) : S * list R :=
    match ts with
    | [] => (s, [])
    | t :: r => let '(s1, x) := deliver h s t in let '(s2, xs) := deliver_all h s1 r in (s2, x :: xs)
    end.
  Definition run_block (h : H) (s : S) (ts : list T) : S * list R :=
    let '(s1, rs) := deliver_all h (beginb h s) ts in (endb h s1, rs).
  (** the versions produced by a sequence of blocks, oldest first *)
  Fixpoint versions (s : S) (bs : list block) : list S :=
    match bs with
    | [] => []
    | (h, ts) :: r => let s' := fst (run_block h s ts) in s' :: versions s' r
    end.
  Definition block_events (b : block) : list event := EBegin (fst b) :: map EDeliver (snd b) ++ [EEnd; ECommit].
End Node.
