(** The node life cycle instantiated with the chain model: the application state is [chain], a block is its
    header time and its transactions, Begin/Deliver/End are [begin_block]/[deliver_tx]/[end_block] in the
    environment of that time.  The reference versions of the node are the prefixes of [Chain.Run.run], so
    the node-level theorems (C10 restart, C09 mempool/query independence, C20 snapshot reads) speak about
    the same [run] as every other property theorem. *)
From Coq Require Import List Arith NArith ZArith Bool Lia.
From PV Require Import Base.Bytes Base.Outcome Chain.Model Chain.Run.
From PV Require Import Node.Model Node.Proofs.
Import ListNotations.

Section ChainNode.
  Variable o : oracles.
  Variables (Q A : Type).
  Variable query : chain -> Q -> A.

  Definition cbegin (t : Z) (c : chain) : chain := begin_block (env_at o t) c.
  Definition cdeliver (t : Z) (c : chain) (x : tx) : chain * tx_result := deliver_tx (env_at o t) c x.
  Definition cend (t : Z) (c : chain) : chain := end_block (env_at o t) c.
  (** CheckTx: the ante handler on the check state (irrelevant to the theorems) *)
  Definition ccheck (c : chain) (x : tx) : chain * tx_result :=
    match ante (env_at o 0) c x with Some c' => (c', ROk []) | None => (c, RAnte) end.

  Definition cnode := Node.Model.node chain Z.
  Definition cevent := Node.Model.event tx Z Q.
  Definition coutput := Node.Model.output tx_result A.
  Definition cstep :=
    Node.Model.step chain tx tx_result Z Q A cbegin cdeliver cend ccheck query.
  Definition cexec :=
    Node.Model.exec chain tx tx_result Z Q A cbegin cdeliver cend ccheck query.
  Definition cversions :=
    Node.Model.versions chain tx tx_result Z cbegin cdeliver cend.
  Definition ccompleted := completed tx Z Q.
  Definition cblock_events := @Node.Model.block_events tx Z Q.
  Definition cstart (g : chain) := @start chain Z g.

  (** ** the reference of the node is the chain model's [run_block] / [run] / [run_results] *)

  Lemma deliver_all_is_deliver_txs t c ts :
    Node.Model.deliver_all chain tx tx_result Z cdeliver t c ts = deliver_txs (env_at o t) c ts.
  Proof.
    revert c. induction ts as [|x r IH]; intros c; simpl; [reflexivity|].
    unfold cdeliver at 1. destruct (deliver_tx (env_at o t) c x) as [c1 res]. rewrite IH. reflexivity.
  Qed.

  Lemma run_block_is_run_block t c ts :
    Node.Model.run_block chain tx tx_result Z cbegin cdeliver cend t c ts =
    Chain.Model.run_block (env_at o t) c ts.
  Proof.
    unfold Node.Model.run_block, Chain.Model.run_block. rewrite deliver_all_is_deliver_txs.
    unfold cbegin, cend. reflexivity.
  Qed.

  Theorem versions_is_run g bs : last (cversions g bs) g = run o g bs.
  Proof.
    revert g. induction bs as [|[t txs] r IH]; intros g; [reflexivity|].
    unfold cversions in *. cbn [Node.Model.versions run]. rewrite last_cons_default.
    rewrite run_block_is_run_block. apply IH.
  Qed.

  (** version [k+1] is the state after the first [k+1] blocks *)
  Theorem versions_nth g bs k :
    k < length bs -> nth_error (cversions g bs) k = Some (run o g (firstn (Datatypes.S k) bs)).
  Proof.
    revert g k. induction bs as [|[t txs] r IH]; intros g k Hk; [simpl in Hk; lia|].
    unfold cversions in *. cbn [Node.Model.versions]. rewrite run_block_is_run_block.
    destruct k as [|k].
    - reflexivity.
    - cbn [nth_error]. rewrite IH by (simpl in Hk; lia). reflexivity.
  Qed.

  Lemma versions_nth_none g bs k : length bs <= k -> nth_error (cversions g bs) k = None.
  Proof.
    intros Hk. apply nth_error_None. unfold cversions. rewrite versions_length. exact Hk.
  Qed.

  Lemma ref_results_is_run_results g bs :
    ref_results chain tx tx_result Z cbegin cdeliver cend g bs = run_results o g bs.
  Proof.
    revert g. induction bs as [|[t txs] r IH]; intros g; [reflexivity|].
    cbn [ref_results run_results]. rewrite run_block_is_run_block.
    destruct (Chain.Model.run_block (env_at o t) g txs) as [c' rs]. cbn [fst snd]. rewrite IH. reflexivity.
  Qed.

  (** the state a query at height [h] may read when the completed blocks are [bs] *)
  Definition committed_state (g : chain) (bs : list Chain.Run.block) (h : nat) : option chain :=
    match h with
    | O => Some (run o g bs)
    | Datatypes.S k => if k <? length bs then Some (run o g (firstn (Datatypes.S k) bs)) else None
    end.

  (** ** C10 *)

  Theorem node_committed_is_run g es :
    committed (fst (cexec (cstart g) es)) = cversions g (ccompleted es) /\
    latest (fst (cexec (cstart g) es)) = run o g (ccompleted es).
  Proof.
    unfold cexec, cstart, cversions, ccompleted. split.
    - apply committed_is_versions.
    - exact (eq_trans (latest_is_last_version chain tx tx_result Z Q A cbegin cdeliver cend ccheck query g es)
                      (versions_is_run g (completed tx Z Q es))).
  Qed.

  (** stop the node after ANY event list [es1] (in the middle of a block or not), restart it, feed it the
      blocks [bs]: its versions are those of the never-stopped reference that processed exactly the blocks
      completed in [es1] and then [bs]; its latest state is [run] of these; the transaction results are those
      of [run_results] from the last committed state *)
  Theorem node_restart_equivalence g es1 bs :
    let r := cexec (cstart g) (es1 ++ [ECrash] ++ flat_map cblock_events bs) in
    committed (fst r) = cversions g (ccompleted es1 ++ bs) /\
    latest (fst r) = run o g (ccompleted es1 ++ bs) /\
    tx_results tx_result A (snd r) =
      tx_results tx_result A (snd (cexec (cstart g) es1)) ++ concat (run_results o (run o g (ccompleted es1)) bs).
  Proof.
    cbv zeta. unfold cexec, cstart, cblock_events, ccompleted, cversions.
    destruct (restart_equivalence chain tx tx_result Z Q A cbegin cdeliver cend ccheck query g es1 bs)
      as (_ & Hc & _ & Ht).
    cbv zeta in Hc, Ht.
    split; [exact Hc|]. split.
    - unfold latest. rewrite genesis_constant. cbn [genesis start]. rewrite Hc.
      exact (versions_is_run g _).
    - rewrite Ht. f_equal. rewrite ref_results_is_run_results.
      exact (f_equal (fun c => concat (run_results o c bs)) (proj2 (node_committed_is_run g es1))).
  Qed.

  (** a crash at any point since the last Commit leaves exactly the node a crash right after that Commit leaves *)
  Theorem node_crash_leaves_no_trace (n : cnode) mid :
    forallb (fun e => negb (is_commit tx Z Q e)) mid = true ->
    fst (cexec n (mid ++ [ECrash])) = fst (cexec n [ECrash]).
  Proof. apply crash_leaves_no_trace. Qed.

  (** ** C09 *)

  Theorem node_ignores_mempool_and_queries (n : cnode) es :
    let n1 := fst (cexec n es) in
    let n2 := fst (cexec n (consensus_only tx Z Q es)) in
    committed n1 = committed n2 /\ ph n1 = ph n2 /\ genesis n1 = genesis n2 /\
    consensus_outputs tx_result A (snd (cexec n es)) = snd (cexec n (consensus_only tx Z Q es)) /\
    tx_height_outputs tx_result A (snd (cexec n es)) =
      tx_height_outputs tx_result A (snd (cexec n (consensus_only tx Z Q es))) /\
    tx_results tx_result A (snd (cexec n es)) = tx_results tx_result A (snd (cexec n (consensus_only tx Z Q es))).
  Proof. apply mempool_query_independence. Qed.

  (** ** C20 *)

  Theorem node_queries_read_committed g es i h q :
    nth_error es i = Some (EQuery h q) ->
    nth_error (snd (cexec (cstart g) es)) i =
    Some (OAnswer (option_map (fun c => query c q) (committed_state g (ccompleted (firstn i es)) h))).
  Proof.
    intros Hnth. unfold cexec, cstart. rewrite (query_answer_explicit _ _ _ _ _ _ _ _ _ _ _ g es i h q Hnth).
    cbv zeta. f_equal. f_equal. f_equal. unfold committed_state.
    fold cversions. fold ccompleted. destruct h as [|k].
    - rewrite versions_is_run. reflexivity.
    - destruct (k <? _) eqn:Hk.
      + apply versions_nth. apply Nat.ltb_lt. exact Hk.
      + apply versions_nth_none. apply Nat.ltb_ge. exact Hk.
  Qed.

  Theorem node_fixed_height_stable (n : cnode) es i j k q a :
    i <= j ->
    nth_error es i = Some (EQuery (Datatypes.S k) q) ->
    nth_error es j = Some (EQuery (Datatypes.S k) q) ->
    nth_error (snd (cexec n es)) i = Some (OAnswer (Some a)) ->
    nth_error (snd (cexec n es)) j = Some (OAnswer (Some a)).
  Proof. apply same_height_same_answer. Qed.
End ChainNode.

Print Assumptions versions_is_run.
Print Assumptions versions_nth.
Print Assumptions node_committed_is_run.
Print Assumptions node_restart_equivalence.
Print Assumptions node_crash_leaves_no_trace.
Print Assumptions node_ignores_mempool_and_queries.
Print Assumptions node_queries_read_committed.
Print Assumptions node_fixed_height_stable.

(** two replicas that completed the same blocks — whatever else happened to each of them — hold the same versions *)
Theorem node_replicas_agree : forall o Q A (query : chain -> Q -> A) g es es',
  ccompleted Q es = ccompleted Q es' ->
  committed (fst (cexec o Q A query (cstart g) es)) = committed (fst (cexec o Q A query (cstart g) es')) /\
  latest (fst (cexec o Q A query (cstart g) es)) = latest (fst (cexec o Q A query (cstart g) es')).
Proof.
  intros o Q A query g es es' H.
  destruct (node_committed_is_run o Q A query g es) as [H1 H2].
  destruct (node_committed_is_run o Q A query g es') as [H3 H4].
  rewrite H1, H2, H3, H4, H. split; reflexivity.
Qed.
Print Assumptions node_replicas_agree.
