(** Theorems about the node life cycle of [Node.Model], generic in the application, for ALL event lists:
    - C10: a stop at any point leaves no trace; the committed versions are exactly the reference [versions]
      of the blocks that were completely processed ([completed]); after a restart the node continues like
      the reference from the last committed version, with the same per-transaction results;
    - C09: CheckTx / simulate / query traffic never influences committed versions, phase or deliver results;
    - C20: queries are answered from committed versions only; a fixed height always returns the same answer. *)
From Coq Require Import List Arith Lia Bool.
From PV Require Import Node.Model.
Import ListNotations.

(** the type parameters of the constructors / projections are inferred (presentation only) *)
Arguments Idle {S H}.
Arguments InBlock {S H} h s.
Arguments Ended {S H} h s.
Arguments EBegin {T H Q} h.
Arguments EDeliver {T H Q} t.
Arguments EEnd {T H Q}.
Arguments ECommit {T H Q}.
Arguments ECheck {T H Q} t.
Arguments ESimulate {T H Q} t.
Arguments EQuery {T H Q} height q.
Arguments ECrash {T H Q}.
Arguments ONone {R A}.
Arguments OTx {R A} r.
Arguments OCheck {R A} r.
Arguments OAnswer {R A} a.
Arguments OHeight {R A} h.
Arguments Build_node {S H} genesis committed ph checkst.
Arguments genesis {S H} n.
Arguments committed {S H} n.
Arguments ph {S H} n.
Arguments checkst {S H} n.
Arguments latest {S H} n.
Arguments version {S H} n h.
Arguments with_ph {S H} n p.
Arguments start {S H} g.
Arguments block_events {T H Q} b.

Section NodeProofs.
  Variables (S T R H Q A : Type).
  Variable beginb : H -> S -> S.
  Variable deliver : H -> S -> T -> S * R.
  Variable endb : H -> S -> S.
  Variable check : S -> T -> S * R.
  Variable query : S -> Q -> A.

  Local Notation node := (node S H).
  Local Notation event := (event T H Q).
  Local Notation output := (output R A).
  Local Notation block := (block T H).
  Local Notation step := (step S T R H Q A beginb deliver endb check query).
  Local Notation exec := (exec S T R H Q A beginb deliver endb check query).
  Local Notation deliver_all := (deliver_all S T R H deliver).
  Local Notation run_block := (run_block S T R H beginb deliver endb).
  Local Notation versions := (versions S T R H beginb deliver endb).
  Local Notation block_events := (@Model.block_events T H Q).
  Local Notation Suc := Datatypes.S.

  (** * Generalities on lists, [exec], [versions] *)

  Lemma last_cons_default (X : Type) (l : list X) (a d : X) : last (a :: l) d = last l a.
  Proof.
    revert a d. induction l as [|b l IH]; intros a d; [reflexivity|].
    change (last (a :: b :: l) d) with (last (b :: l) d). rewrite !IH. reflexivity.
  Qed.

  Lemma last_app_default (X : Type) (l1 l2 : list X) (d : X) : last (l1 ++ l2) d = last l2 (last l1 d).
  Proof.
    revert d. induction l1 as [|a l1 IH]; intros d; [reflexivity|].
    rewrite <- app_comm_cons. rewrite !last_cons_default. apply IH.
  Qed.

  Lemma exec_cons n e r :
    exec n (e :: r) = (fst (exec (fst (step n e)) r), snd (step n e) :: snd (exec (fst (step n e)) r)).
  Proof. simpl. destruct (step n e) as [n1 o]. simpl. destruct (exec n1 r) as [n2 os]. reflexivity. Qed.

  Lemma exec_app n es1 es2 :
    exec n (es1 ++ es2) =
    (fst (exec (fst (exec n es1)) es2), snd (exec n es1) ++ snd (exec (fst (exec n es1)) es2)).
  Proof.
    revert n. induction es1 as [|e r IH]; intros n.
    - simpl. destruct (exec n es2); reflexivity.
    - rewrite <- app_comm_cons. rewrite !exec_cons. rewrite IH. simpl. reflexivity.
  Qed.

  Lemma exec_length n es : length (snd (exec n es)) = length es.
  Proof.
    revert n. induction es as [|e r IH]; intros n; [reflexivity|].
    rewrite exec_cons. simpl. rewrite IH. reflexivity.
  Qed.

  (** the output at position [i] is the output of the step taken from the node reached by the first [i] events *)
  Lemma exec_nth n es i e :
    nth_error es i = Some e ->
    nth_error (snd (exec n es)) i = Some (snd (step (fst (exec n (firstn i es))) e)).
  Proof.
    revert n i. induction es as [|e0 r IH]; intros n i Hnth.
    - destruct i; discriminate.
    - destruct i as [|i].
      + simpl in Hnth. injection Hnth as ->. rewrite exec_cons. reflexivity.
      + simpl in Hnth. change (firstn (Suc i) (e0 :: r)) with (e0 :: firstn i r).
        rewrite !exec_cons. cbn [fst snd nth_error]. apply IH. exact Hnth.
  Qed.

  Lemma versions_app s bs1 bs2 :
    versions s (bs1 ++ bs2) = versions s bs1 ++ versions (last (versions s bs1) s) bs2.
  Proof.
    revert s. induction bs1 as [|[h ts] r IH]; intros s; [reflexivity|].
    simpl. rewrite IH. f_equal. f_equal. f_equal. symmetry.
    apply (last_cons_default _ (versions (fst (run_block h s ts)) r) (fst (run_block h s ts)) s).
  Qed.

  Lemma versions_length s bs : length (versions s bs) = length bs.
  Proof. revert s. induction bs as [|[h ts] r IH]; intros s; simpl; [reflexivity | rewrite IH; reflexivity]. Qed.

  Lemma deliver_all_snoc h s ts t :
    fst (deliver_all h s (ts ++ [t])) = fst (deliver h (fst (deliver_all h s ts)) t).
  Proof.
    revert s. induction ts as [|t0 r IH]; intros s; simpl.
    - destruct (deliver h s t); reflexivity.
    - destruct (deliver h s t0) as [s1 x]. specialize (IH s1).
      destruct (deliver_all h s1 (r ++ [t])); destruct (deliver_all h s1 r); simpl in *. exact IH.
  Qed.

  (** * C10.  The completed blocks of an event list *)

  (** the scanner mirrors the protocol state of the node without looking at any state *)
  Inductive scan := SIdle | SIn (h : H) (ts : list T) | SEnd (h : H) (ts : list T).

  Definition scan_step (p : scan) (e : event) : scan * list block :=
    match e, p with
    | EBegin h, SIdle => (SIn h [], [])
    | EDeliver t, SIn h ts => (SIn h (ts ++ [t]), [])
    | EEnd, SIn h ts => (SEnd h ts, [])
    | ECommit, SEnd h ts => (SIdle, [(h, ts)])
    | ECrash, _ => (SIdle, [])
    | _, _ => (p, [])
    end.

  Fixpoint completed_from (p : scan) (es : list event) : list block :=
    match es with
    | [] => []
    | e :: r => let '(p', b) := scan_step p e in b ++ completed_from p' r
    end.

  Fixpoint scan_after (p : scan) (es : list event) : scan :=
    match es with
    | [] => p
    | e :: r => scan_after (fst (scan_step p e)) r
    end.

  Definition completed (es : list event) : list block := completed_from SIdle es.

  Lemma completed_from_app p es1 es2 :
    completed_from p (es1 ++ es2) = completed_from p es1 ++ completed_from (scan_after p es1) es2.
  Proof.
    revert p. induction es1 as [|e r IH]; intros p; [reflexivity|].
    simpl. destruct (scan_step p e) as [p' b]. simpl. rewrite IH. rewrite app_assoc. reflexivity.
  Qed.

  Lemma scan_after_app p es1 es2 : scan_after p (es1 ++ es2) = scan_after (scan_after p es1) es2.
  Proof. revert p. induction es1 as [|e r IH]; intros p; [reflexivity | simpl; apply IH]. Qed.

  (** a crash forgets the block in progress, whatever the point *)
  Lemma completed_from_crash p es1 es2 :
    completed_from p (es1 ++ ECrash :: es2) = completed_from p es1 ++ completed es2.
  Proof.
    rewrite completed_from_app. f_equal.
  Qed.

  Lemma completed_from_delivers h ts0 ts es :
    completed_from (SIn h ts0) (map EDeliver ts ++ EEnd :: ECommit :: es) = (h, ts0 ++ ts) :: completed es.
  Proof.
    revert ts0. induction ts as [|t r IH]; intros ts0.
    - simpl. rewrite app_nil_r. reflexivity.
    - simpl. rewrite IH. rewrite <- app_assoc. reflexivity.
  Qed.

  (** [completed] inverts [block_events]: the scanner recognises exactly the well-formed blocks *)
  Lemma completed_blocks_app bs es : completed (flat_map block_events bs ++ es) = bs ++ completed es.
  Proof.
    induction bs as [|[h ts] r IH]; [reflexivity|].
    simpl flat_map. unfold block_events at 1. cbn [fst]; cbn [snd].
    unfold completed. simpl. rewrite <- !app_assoc. simpl.
    rewrite completed_from_delivers. simpl. f_equal. exact IH.
  Qed.

  Lemma completed_blocks bs : completed (flat_map block_events bs) = bs.
  Proof.
    pose proof (completed_blocks_app bs []) as Hc. rewrite !app_nil_r in Hc. exact Hc.
  Qed.

  (** the invariant relating the node to the scanner *)
  Definition agree (n : node) (p : scan) : Prop :=
    match p, ph n with
    | SIdle, Idle => True
    | SIn h ts, InBlock h' s => h' = h /\ s = fst (deliver_all h (beginb h (latest n)) ts)
    | SEnd h ts, Ended h' s => h' = h /\ s = fst (run_block h (latest n) ts)
    | _, _ => False
    end.

  Lemma agree_idle n : ph n = Idle -> agree n SIdle.
  Proof. intros Hph. unfold agree. rewrite Hph. exact I. Qed.

  Lemma agree_SIdle_inv n : agree n SIdle -> ph n = Idle.
  Proof. unfold agree. destruct (ph n); intros Hag; [reflexivity | contradiction | contradiction]. Qed.

  Lemma run_block_fst h s ts : fst (run_block h s ts) = endb h (fst (deliver_all h (beginb h s) ts)).
  Proof. unfold Model.run_block. destruct (deliver_all h (beginb h s) ts); reflexivity. Qed.

  Lemma step_agree n p e :
    agree n p ->
    agree (fst (step n e)) (fst (scan_step p e)) /\
    committed (fst (step n e)) = committed n ++ versions (latest n) (snd (scan_step p e)) /\
    genesis (fst (step n e)) = genesis n.
  Proof.
    intros Hag. destruct n as [g c p0 cs]. unfold agree, latest in *. unfold Model.step. simpl in *.
    destruct e as [h|t| | |t|t|k q| ].
    - (* EBegin *)
      destruct p as [|h1 ts1|h1 ts1], p0 as [|h2 s2|h2 s2]; simpl; try contradiction;
        rewrite ?app_nil_r; auto.
    - (* EDeliver *)
      destruct p as [|h1 ts1|h1 ts1], p0 as [|h2 s2|h2 s2]; simpl; try contradiction;
        rewrite ?app_nil_r; auto.
      destruct Hag as [-> ->].
      destruct (deliver h1 (fst (deliver_all h1 (beginb h1 (last c g)) ts1)) t) as [s' r] eqn:Ed.
      simpl. repeat split.
      rewrite deliver_all_snoc. rewrite Ed. reflexivity.
    - (* EEnd *)
      destruct p as [|h1 ts1|h1 ts1], p0 as [|h2 s2|h2 s2]; simpl; try contradiction;
        rewrite ?app_nil_r; auto.
      destruct Hag as [-> ->]. repeat split. rewrite run_block_fst. reflexivity.
    - (* ECommit *)
      destruct p as [|h1 ts1|h1 ts1], p0 as [|h2 s2|h2 s2]; simpl; try contradiction;
        rewrite ?app_nil_r; auto.
      destruct Hag as [-> ->]. repeat split.
    - (* ECheck *)
      destruct (check cs t) as [s' r].
      destruct p as [|h1 ts1|h1 ts1], p0 as [|h2 s2|h2 s2]; simpl; try contradiction;
        rewrite ?app_nil_r; auto.
    - (* ESimulate *)
      destruct p as [|h1 ts1|h1 ts1], p0 as [|h2 s2|h2 s2]; simpl; try contradiction;
        rewrite ?app_nil_r; auto.
    - (* EQuery *)
      destruct p as [|h1 ts1|h1 ts1], p0 as [|h2 s2|h2 s2]; simpl; try contradiction;
        rewrite ?app_nil_r; auto.
    - (* ECrash *)
      destruct p as [|h1 ts1|h1 ts1], p0 as [|h2 s2|h2 s2]; simpl; try contradiction;
        rewrite ?app_nil_r; auto.
  Qed.

  Lemma step_latest n p e :
    agree n p ->
    latest (fst (step n e)) = last (versions (latest n) (snd (scan_step p e))) (latest n).
  Proof.
    intros Hag. destruct (step_agree n p e Hag) as (_ & Hc & Hg).
    unfold latest at 1. rewrite Hc, Hg. rewrite last_app_default. reflexivity.
  Qed.

  (** the main invariant, for every event list and every node/scanner pair that agree *)
  Theorem exec_agree n p es :
    agree n p ->
    agree (fst (exec n es)) (scan_after p es) /\
    committed (fst (exec n es)) = committed n ++ versions (latest n) (completed_from p es) /\
    genesis (fst (exec n es)) = genesis n.
  Proof.
    revert n p. induction es as [|e r IH]; intros n p Hag.
    - simpl. rewrite app_nil_r. auto.
    - rewrite exec_cons. cbn [fst].
      destruct (step_agree n p e Hag) as (Hag1 & Hc1 & Hg1).
      pose proof (step_latest n p e Hag) as Hl1.
      destruct (IH _ _ Hag1) as (Hag2 & Hc2 & Hg2).
      simpl scan_after. simpl completed_from.
      destruct (scan_step p e) as [p' b]. simpl in *.
      split; [exact Hag2|]. split; [|congruence].
      rewrite Hc2, Hc1, Hl1. rewrite versions_app. rewrite app_assoc. reflexivity.
  Qed.

  (** C10, general form: from any node between blocks *)
  Theorem committed_is_versions_from n es :
    ph n = Idle ->
    committed (fst (exec n es)) = committed n ++ versions (latest n) (completed es).
  Proof. intros Hph. apply (exec_agree n SIdle es (agree_idle n Hph)). Qed.

  (** C10: the committed versions of a node are the reference versions of its completed blocks *)
  Theorem committed_is_versions g es :
    committed (fst (exec (start g) es)) = versions g (completed es).
  Proof. rewrite committed_is_versions_from; reflexivity. Qed.

  Theorem genesis_constant n es : genesis (fst (exec n es)) = genesis n.
  Proof.
    revert n. induction es as [|e r IH]; intros n; [reflexivity|].
    rewrite exec_cons. cbn [fst]. rewrite IH.
    destruct n as [g c p0 cs]. unfold Model.step. simpl.
    destruct e, p0; simpl; try reflexivity;
      repeat match goal with |- context [let '(_, _) := ?x in _] => destruct x end; reflexivity.
  Qed.

  Corollary latest_is_last_version g es :
    latest (fst (exec (start g) es)) = last (versions g (completed es)) g.
  Proof. unfold latest. rewrite committed_is_versions, genesis_constant. reflexivity. Qed.

  (** ** crash *)

  Definition restarted (n : node) : node :=
    {| genesis := genesis n; committed := committed n; ph := Idle; checkst := latest n |}.

  Lemma step_crash n : step n ECrash = (restarted n, OHeight (length (committed n))).
  Proof. unfold Model.step. destruct (ph n); reflexivity. Qed.

  (** after a crash the node is between blocks and its check state is the latest committed version *)
  Lemma crash_state n :
    let n' := fst (step n ECrash) in
    ph n' = Idle /\ checkst n' = latest n' /\ committed n' = committed n /\ genesis n' = genesis n.
  Proof. rewrite step_crash. simpl. auto. Qed.

  Lemma exec_crash_last n es :
    fst (exec n (es ++ [ECrash])) = restarted (fst (exec n es)).
  Proof. rewrite exec_app. cbn [fst]. rewrite exec_cons, step_crash. reflexivity. Qed.

  Definition is_commit (e : event) : bool := match e with ECommit => true | _ => false end.

  Lemma no_commit_committed n es :
    forallb (fun e => negb (is_commit e)) es = true -> committed (fst (exec n es)) = committed n.
  Proof.
    revert n. induction es as [|e r IH]; intros n Hnc; [reflexivity|].
    simpl in Hnc. apply andb_true_iff in Hnc. destruct Hnc as [He Hr].
    rewrite exec_cons. cbn [fst]. rewrite (IH _ Hr).
    destruct n as [g c p0 cs]. unfold Model.step. simpl.
    destruct e, p0; simpl; try reflexivity; try discriminate;
      repeat match goal with |- context [let '(_, _) := ?x in _] => destruct x end; reflexivity.
  Qed.

  (** C10 (a): whatever happened since the last Commit (a begun block, any prefix of its transactions, its
      EndBlock, any mempool/query traffic), a crash leaves exactly the node that a crash right after that
      Commit would have left.  No premise on [n]. *)
  Theorem crash_leaves_no_trace n mid :
    forallb (fun e => negb (is_commit e)) mid = true ->
    fst (exec n (mid ++ [ECrash])) = fst (exec n [ECrash]).
  Proof.
    intros Hnc. rewrite exec_crash_last. rewrite (exec_cons n ECrash []), step_crash. simpl.
    unfold restarted, latest. rewrite (no_commit_committed n mid Hnc), genesis_constant. reflexivity.
  Qed.

  Corollary crash_leaves_no_trace_fields n mid :
    forallb (fun e => negb (is_commit e)) mid = true ->
    let n' := fst (exec n (mid ++ [ECrash])) in
    ph n' = Idle /\ genesis n' = genesis n /\ committed n' = committed n /\ checkst n' = latest n /\
    latest n' = latest n.
  Proof.
    intros Hnc. cbv zeta. rewrite (crash_leaves_no_trace n mid Hnc), (exec_cons n ECrash []), step_crash.
    unfold latest. simpl. auto.
  Qed.

  (** the same without the syntactic premise: only completed blocks count *)
  Theorem crash_keeps_completed_only n es :
    ph n = Idle ->
    committed (fst (exec n (es ++ [ECrash]))) = committed n ++ versions (latest n) (completed es).
  Proof. intros Hph. rewrite exec_crash_last. simpl. apply committed_is_versions_from, Hph. Qed.

  (** ** the reference outputs of a sequence of blocks *)

  Fixpoint ref_results (s : S) (bs : list block) : list (list R) :=
    match bs with
    | [] => []
    | (h, ts) :: r => snd (run_block h s ts) :: ref_results (fst (run_block h s ts)) r
    end.

  (** [k] = number of versions committed so far *)
  Fixpoint ref_outputs (k : nat) (s : S) (bs : list block) : list output :=
    match bs with
    | [] => []
    | (h, ts) :: r =>
        (ONone :: map OTx (snd (run_block h s ts)) ++ [ONone; OHeight (Suc k)])
        ++ ref_outputs (Suc k) (fst (run_block h s ts)) r
    end.

  Definition tx_results (os : list output) : list R :=
    flat_map (fun o => match o with OTx r => [r] | _ => [] end) os.

  Lemma tx_results_app os1 os2 : tx_results (os1 ++ os2) = tx_results os1 ++ tx_results os2.
  Proof. unfold tx_results. apply flat_map_app. Qed.

  Lemma tx_results_map_OTx rs : tx_results (map OTx rs) = rs.
  Proof. induction rs as [|r rs IH]; [reflexivity | simpl; rewrite IH; reflexivity]. Qed.

  Lemma tx_results_cons o os : tx_results (o :: os) = tx_results [o] ++ tx_results os.
  Proof. unfold tx_results. simpl. rewrite app_nil_r. reflexivity. Qed.

  Lemma tx_results_ref_outputs k s bs : tx_results (ref_outputs k s bs) = concat (ref_results s bs).
  Proof.
    revert k s. induction bs as [|[h ts] r IH]; intros k s; [reflexivity|].
    simpl ref_outputs. cbn [ref_results concat].
    rewrite tx_results_cons, !tx_results_app, tx_results_map_OTx, IH. simpl. rewrite app_nil_r. reflexivity.
  Qed.

  Lemma step_deliver g c cs h s t :
    step {| genesis := g; committed := c; ph := InBlock h s; checkst := cs |} (EDeliver t) =
    ({| genesis := g; committed := c; ph := InBlock h (fst (deliver h s t)); checkst := cs |},
     OTx (snd (deliver h s t))).
  Proof. unfold Model.step. simpl. destruct (deliver h s t); reflexivity. Qed.

  Lemma deliver_all_cons h s t r :
    deliver_all h s (t :: r) =
    (fst (deliver_all h (fst (deliver h s t)) r), snd (deliver h s t) :: snd (deliver_all h (fst (deliver h s t)) r)).
  Proof. simpl. destruct (deliver h s t) as [s1 x]. simpl. destruct (deliver_all h s1 r); reflexivity. Qed.

  Lemma exec_delivers g c cs h s ts es :
    exec {| genesis := g; committed := c; ph := InBlock h s; checkst := cs |} (map EDeliver ts ++ es) =
    (fst (exec {| genesis := g; committed := c; ph := InBlock h (fst (deliver_all h s ts)); checkst := cs |} es),
     map OTx (snd (deliver_all h s ts)) ++
     snd (exec {| genesis := g; committed := c; ph := InBlock h (fst (deliver_all h s ts)); checkst := cs |} es)).
  Proof.
    revert s. induction ts as [|t r IH]; intros s.
    - simpl. destruct (exec _ es); reflexivity.
    - change (map EDeliver (t :: r) ++ es) with (EDeliver t :: map EDeliver r ++ es).
      rewrite exec_cons, step_deliver, deliver_all_cons. cbn [fst snd]. rewrite IH. reflexivity.
  Qed.

  Lemma step_begin g c cs h :
    step {| genesis := g; committed := c; ph := Idle; checkst := cs |} (EBegin h) =
    ({| genesis := g; committed := c; ph := InBlock h (beginb h (last c g)); checkst := cs |}, ONone).
  Proof. reflexivity. Qed.

  Lemma exec_block n h ts :
    ph n = Idle ->
    exec n (block_events (h, ts)) =
    ({| genesis := genesis n; committed := committed n ++ [fst (run_block h (latest n) ts)]; ph := Idle;
        checkst := fst (run_block h (latest n) ts) |},
     ONone :: map OTx (snd (run_block h (latest n) ts)) ++ [ONone; OHeight (Suc (length (committed n)))]).
  Proof.
    intros Hph. destruct n as [g c p0 cs]. simpl in Hph. subst p0.
    unfold block_events. cbn [fst snd genesis committed].
    rewrite exec_cons, step_begin. cbn [fst snd]. rewrite exec_delivers.
    unfold Model.run_block, latest. cbn [genesis committed].
    destruct (deliver_all h (beginb h (last c g)) ts) as [s1 rs]. simpl. reflexivity.
  Qed.

  (** a node between blocks fed with well-formed blocks behaves like the reference, outputs included *)
  Theorem exec_blocks n bs :
    ph n = Idle ->
    let n' := fst (exec n (flat_map block_events bs)) in
    ph n' = Idle /\ genesis n' = genesis n /\
    committed n' = committed n ++ versions (latest n) bs /\
    snd (exec n (flat_map block_events bs)) = ref_outputs (length (committed n)) (latest n) bs.
  Proof.
    revert n. induction bs as [|[h ts] r IH]; intros n Hph.
    - simpl. rewrite app_nil_r. auto.
    - cbv zeta.
      change (flat_map block_events ((h, ts) :: r)) with (block_events (h, ts) ++ flat_map block_events r).
      rewrite exec_app. rewrite (exec_block n h ts Hph). cbn [fst snd].
      set (n1 := {| genesis := genesis n; committed := committed n ++ [fst (run_block h (latest n) ts)];
                    ph := Idle; checkst := fst (run_block h (latest n) ts) |}).
      destruct (IH n1 eq_refl) as (Hp & Hg & Hc & Ho).
      assert (Hl : latest n1 = fst (run_block h (latest n) ts)).
      { unfold latest, n1. simpl. rewrite last_app_default. reflexivity. }
      assert (Hlen : length (committed n1) = Suc (length (committed n))).
      { unfold n1. simpl. rewrite app_length. simpl. lia. }
      split; [exact Hp|]. split; [rewrite Hg; reflexivity|]. split.
      + rewrite Hc, Hl. unfold n1. simpl. rewrite <- app_assoc. reflexivity.
      + rewrite Ho, Hl, Hlen. simpl. reflexivity.
  Qed.

  (** C10 (b), from any node, stopped at any point (no premise on [n] nor on [es1]) *)
  Theorem restart_equivalence_from n es1 bs :
    let n1 := fst (exec n es1) in
    let r := exec n (es1 ++ [ECrash] ++ flat_map block_events bs) in
    ph (fst r) = Idle /\
    committed (fst r) = committed n1 ++ versions (latest n1) bs /\
    snd r = snd (exec n es1) ++ [OHeight (length (committed n1))]
            ++ ref_outputs (length (committed n1)) (latest n1) bs /\
    tx_results (snd r) = tx_results (snd (exec n es1)) ++ concat (ref_results (latest n1) bs).
  Proof.
    cbv zeta. rewrite exec_app. cbn [fst snd].
    set (n1 := fst (exec n es1)).
    rewrite exec_app. rewrite (exec_cons n1 ECrash []), step_crash. cbn [fst snd].
    change (exec (restarted n1) []) with (restarted n1, @nil output). cbn [fst snd].
    destruct (exec_blocks (restarted n1) bs eq_refl) as (Hp & Hg & Hc & Ho).
    assert (Hl : latest (restarted n1) = latest n1) by reflexivity.
    rewrite Hl in *. simpl committed in *.
    split; [exact Hp|]. split; [exact Hc|]. split.
    - rewrite Ho. reflexivity.
    - rewrite Ho. rewrite tx_results_app. f_equal.
      change (OHeight (length (committed n1)) :: ref_outputs (length (committed n1)) (latest n1) bs)
        with ([OHeight (length (committed n1))] ++ ref_outputs (length (committed n1)) (latest n1) bs).
      rewrite tx_results_app. simpl. apply tx_results_ref_outputs.
  Qed.

  (** C10 (b): a node started at genesis, stopped after ANY event list, restarted, and then fed blocks [bs]:
      it commits what the reference commits from the last committed version, with the same results *)
  Theorem restart_equivalence g es1 bs :
    let n1 := fst (exec (start g) es1) in
    let r := exec (start g) (es1 ++ [ECrash] ++ flat_map block_events bs) in
    committed (fst r) = committed n1 ++ versions (latest n1) bs /\
    committed (fst r) = versions g (completed es1 ++ bs) /\
    snd r = snd (exec (start g) es1) ++ [OHeight (length (committed n1))]
            ++ ref_outputs (length (committed n1)) (latest n1) bs /\
    tx_results (snd r) = tx_results (snd (exec (start g) es1)) ++ concat (ref_results (latest n1) bs).
  Proof.
    destruct (restart_equivalence_from (start g) es1 bs) as (_ & Hc & Ho & Ht).
    simpl in *. repeat split; try assumption.
    rewrite Hc. rewrite versions_app. rewrite latest_is_last_version, committed_is_versions. reflexivity.
  Qed.

  (** * C09.  Independence from mempool / query traffic *)

  Definition is_consensus (e : event) : bool :=
    match e with ECheck _ | ESimulate _ | EQuery _ _ => false | _ => true end.
  Definition consensus_only (es : list event) : list event := filter is_consensus es.

  (** outputs of the consensus connection (and of restarts) *)
  Definition consensus_outputs (os : list output) : list output :=
    filter (fun o => match o with OCheck _ | OAnswer _ => false | _ => true end) os.
  Definition tx_height_outputs (os : list output) : list output :=
    filter (fun o => match o with OTx _ | OHeight _ => true | _ => false end) os.

  Lemma tx_height_consensus os : tx_height_outputs (consensus_outputs os) = tx_height_outputs os.
  Proof.
    induction os as [|o r IH]; [reflexivity|].
    destruct o; simpl; rewrite IH; reflexivity.
  Qed.

  (** equality up to the check state *)
  Definition same_consensus (n n' : node) : Prop :=
    genesis n = genesis n' /\ committed n = committed n' /\ ph n = ph n'.

  Lemma step_consensus n n' e :
    same_consensus n n' -> is_consensus e = true ->
    same_consensus (fst (step n e)) (fst (step n' e)) /\ snd (step n e) = snd (step n' e) /\
    match snd (step n e) with OCheck _ | OAnswer _ => False | _ => True end.
  Proof.
    intros (Hg & Hc & Hp) He.
    destruct n as [g c p0 cs], n' as [g' c' p0' cs']. simpl in *. subst g' c' p0'.
    unfold same_consensus, Model.step, latest. simpl.
    destruct e, p0; simpl; try discriminate; auto;
      repeat match goal with |- context [let '(_, _) := ?x in _] => destruct x end; simpl; auto.
  Qed.

  Lemma step_non_consensus n e :
    is_consensus e = false ->
    same_consensus (fst (step n e)) n /\
    match snd (step n e) with OCheck _ | OAnswer _ => True | _ => False end.
  Proof.
    intros He. destruct n as [g c p0 cs]. unfold same_consensus, Model.step. simpl.
    destruct e, p0; simpl; try discriminate; auto;
      repeat match goal with |- context [let '(_, _) := ?x in _] => destruct x end; simpl; auto.
  Qed.

  Lemma same_consensus_trans n1 n2 n3 : same_consensus n1 n2 -> same_consensus n2 n3 -> same_consensus n1 n3.
  Proof. unfold same_consensus. intros (?&?&?) (?&?&?). repeat split; congruence. Qed.

  Theorem consensus_only_from n n' es :
    same_consensus n n' ->
    same_consensus (fst (exec n es)) (fst (exec n' (consensus_only es))) /\
    consensus_outputs (snd (exec n es)) = snd (exec n' (consensus_only es)).
  Proof.
    revert n n'. induction es as [|e r IH]; intros n n' Hs.
    - simpl. auto.
    - rewrite exec_cons. cbn [fst]. cbn [snd]. simpl consensus_only.
      destruct (is_consensus e) eqn:He.
      + rewrite exec_cons. cbn [fst]. cbn [snd].
        destruct (step_consensus n n' e Hs He) as (Hs1 & Ho & Hk).
        destruct (IH _ _ Hs1) as (Hs2 & Hos).
        split; [exact Hs2|]. simpl consensus_outputs. rewrite <- Ho, <- Hos.
        destruct (snd (step n e)); simpl; try contradiction; reflexivity.
      + destruct (step_non_consensus n e He) as (Hs1 & Hk).
        destruct (IH _ _ (same_consensus_trans _ _ _ Hs1 Hs)) as (Hs2 & Hos).
        split; [exact Hs2|]. simpl consensus_outputs.
        destruct (snd (step n e)); simpl; try contradiction; exact Hos.
  Qed.

  Lemma same_consensus_refl n : same_consensus n n.
  Proof. unfold same_consensus. auto. Qed.

  (** C09: CheckTx / simulate / query events interleaved anywhere change nothing but the check state and
      their own outputs *)
  Theorem mempool_query_independence n es :
    let n1 := fst (exec n es) in
    let n2 := fst (exec n (consensus_only es)) in
    committed n1 = committed n2 /\ ph n1 = ph n2 /\ genesis n1 = genesis n2 /\
    consensus_outputs (snd (exec n es)) = snd (exec n (consensus_only es)) /\
    tx_height_outputs (snd (exec n es)) = tx_height_outputs (snd (exec n (consensus_only es))) /\
    tx_results (snd (exec n es)) = tx_results (snd (exec n (consensus_only es))).
  Proof.
    destruct (consensus_only_from n n es (same_consensus_refl n)) as ((Hg & Hc & Hp) & Ho).
    simpl. repeat split; try assumption.
    - rewrite <- Ho. symmetry. apply tx_height_consensus.
    - rewrite <- Ho. generalize (snd (exec n es)). intros os.
      induction os as [|o r IH]; [reflexivity|]. destruct o; simpl; rewrite ?IH; reflexivity.
  Qed.

  (** the completed blocks do not depend on that traffic either *)
  Lemma completed_from_consensus_only p es : completed_from p (consensus_only es) = completed_from p es.
  Proof.
    revert p. induction es as [|e r IH]; intros p; [reflexivity|].
    simpl consensus_only. destruct e; simpl; rewrite ?IH; try reflexivity; destruct p; simpl; rewrite ?IH; reflexivity.
  Qed.

  (** * C20.  Queries read committed versions *)

  Lemma step_query n h q : step n (EQuery h q) = (n, OAnswer (option_map (fun s => query s q) (version n h))).
  Proof. unfold Model.step. destruct (ph n); reflexivity. Qed.

  (** the versions a node started at genesis can serve after [es] *)
  Lemma version_after g es h :
    version (fst (exec (start g) es)) h =
    match h with
    | O => Some (last (versions g (completed es)) g)
    | Suc k => nth_error (versions g (completed es)) k
    end.
  Proof.
    destruct h as [|k]; simpl.
    - rewrite latest_is_last_version. reflexivity.
    - rewrite committed_is_versions. reflexivity.
  Qed.

  (** C20: the answer to the query at position [i] is the query evaluated on a version of the reference
      history of the blocks completed before [i]: version [k+1] is the state after the [k+1]-th completed
      block, version 0 the state after the last one (genesis if none); a height that does not exist yet gives
      [None].  The deliver and check branches are never read. *)
  Theorem query_reads_committed_version g es i h q :
    nth_error es i = Some (EQuery h q) ->
    let n_i := fst (exec (start g) (firstn i es)) in
    let vs := versions g (completed (firstn i es)) in
    nth_error (snd (exec (start g) es)) i = Some (OAnswer (option_map (fun s => query s q) (version n_i h))) /\
    version n_i h = match h with O => Some (last vs g) | Suc k => nth_error vs k end.
  Proof.
    intros Hnth. simpl. split.
    - rewrite (exec_nth _ _ _ _ Hnth). rewrite step_query. reflexivity.
    - apply version_after.
  Qed.

  Corollary query_answer_explicit g es i h q :
    nth_error es i = Some (EQuery h q) ->
    let vs := versions g (completed (firstn i es)) in
    nth_error (snd (exec (start g) es)) i =
    Some (OAnswer (option_map (fun s => query s q)
                              (match h with O => Some (last vs g) | Suc k => nth_error vs k end))).
  Proof.
    intros Hnth. destruct (query_reads_committed_version g es i h q Hnth) as (Ho & Hv).
    simpl in *. rewrite Ho, Hv. reflexivity.
  Qed.

  Corollary query_latest g es i q :
    nth_error es i = Some (EQuery 0 q) ->
    nth_error (snd (exec (start g) es)) i =
    Some (OAnswer (Some (query (last (versions g (completed (firstn i es))) g) q))).
  Proof. intros Hnth. rewrite (query_answer_explicit g es i 0 q Hnth). reflexivity. Qed.

  (** from an arbitrary node: still the node's own committed versions *)
  Theorem query_reads_committed_version_from n es i h q :
    nth_error es i = Some (EQuery h q) ->
    nth_error (snd (exec n es)) i =
    Some (OAnswer (option_map (fun s => query s q) (version (fst (exec n (firstn i es))) h))).
  Proof. intros Hnth. rewrite (exec_nth _ _ _ _ Hnth). rewrite step_query. reflexivity. Qed.

  (** committed versions are immutable: the list only grows at the end *)
  Lemma step_committed_grows n e : exists l, committed (fst (step n e)) = committed n ++ l.
  Proof.
    destruct n as [g c p0 cs]. unfold Model.step. simpl.
    destruct e, p0; simpl;
      repeat match goal with |- context [let '(_, _) := ?x in _] => destruct x end; simpl;
      try (exists []; rewrite app_nil_r; reflexivity).
    eexists; reflexivity.
  Qed.

  Theorem committed_grows n es : exists l, committed (fst (exec n es)) = committed n ++ l.
  Proof.
    revert n. induction es as [|e r IH]; intros n.
    - exists []. simpl. rewrite app_nil_r. reflexivity.
    - rewrite exec_cons. cbn [fst]. destruct (IH (fst (step n e))) as [l2 H2].
      destruct (step_committed_grows n e) as [l1 H1].
      exists (l1 ++ l2). rewrite H2, H1, app_assoc. reflexivity.
  Qed.

  Theorem fixed_height_stable n es k s :
    nth_error (committed n) k = Some s -> nth_error (committed (fst (exec n es))) k = Some s.
  Proof.
    intros Hk. destruct (committed_grows n es) as [l Hl]. rewrite Hl.
    rewrite nth_error_app1; [exact Hk|]. apply nth_error_Some. congruence.
  Qed.

  Corollary version_stable n es k s :
    version n (Suc k) = Some s -> version (fst (exec n es)) (Suc k) = Some s.
  Proof. simpl. apply fixed_height_stable. Qed.

  (** C20: two queries of the same fixed height, anywhere in an execution (blocks, crashes, mempool traffic
      in between), return the same answer as soon as the version exists at the first one *)
  Theorem repeated_query_same_answer n es1 es2 k q s :
    version (fst (exec n es1)) (Suc k) = Some s ->
    let os := snd (exec n (es1 ++ [EQuery (Suc k) q] ++ es2 ++ [EQuery (Suc k) q])) in
    nth_error os (length es1) = Some (OAnswer (Some (query s q))) /\
    nth_error os (length es1 + 1 + length es2) = Some (OAnswer (Some (query s q))).
  Proof.
    intros Hv. simpl.
    set (es := es1 ++ EQuery (Suc k) q :: es2 ++ [EQuery (Suc k) q]).
    assert (H1 : nth_error es (length es1) = Some (EQuery (Suc k) q)).
    { unfold es. rewrite nth_error_app2 by lia. rewrite Nat.sub_diag. reflexivity. }
    assert (H2 : nth_error es (length es1 + 1 + length es2) = Some (EQuery (Suc k) q)).
    { unfold es. rewrite nth_error_app2 by lia.
      replace (length es1 + 1 + length es2 - length es1) with (Suc (length es2)) by lia.
      simpl. rewrite nth_error_app2 by lia. rewrite Nat.sub_diag. reflexivity. }
    assert (F1 : firstn (length es1) es = es1).
    { unfold es. rewrite firstn_app, Nat.sub_diag, firstn_all. simpl. apply app_nil_r. }
    assert (F2 : firstn (length es1 + 1 + length es2) es = es1 ++ EQuery (Suc k) q :: es2).
    { unfold es. rewrite firstn_app. rewrite firstn_all2 by lia. f_equal.
      replace (length es1 + 1 + length es2 - length es1) with (Suc (length es2)) by lia.
      simpl. f_equal. rewrite firstn_app, Nat.sub_diag, firstn_all. simpl. apply app_nil_r. }
    split.
    - rewrite (query_reads_committed_version_from n es _ _ _ H1). rewrite F1.
      change (nth_error (committed (fst (exec n es1))) k) with (version (fst (exec n es1)) (Suc k)).
      rewrite Hv. reflexivity.
    - rewrite (query_reads_committed_version_from n es _ _ _ H2). rewrite F2.
      rewrite exec_app. cbn [fst].
      rewrite (version_stable _ (EQuery (Suc k) q :: es2) k s Hv). reflexivity.
  Qed.

  (** positional form: the answer at a fixed height, once given, is given again by any later query *)
  Theorem same_height_same_answer n es i j k q a :
    i <= j ->
    nth_error es i = Some (EQuery (Suc k) q) ->
    nth_error es j = Some (EQuery (Suc k) q) ->
    nth_error (snd (exec n es)) i = Some (OAnswer (Some a)) ->
    nth_error (snd (exec n es)) j = Some (OAnswer (Some a)).
  Proof.
    intros Hij Hi Hj Ha.
    rewrite (query_reads_committed_version_from n es _ _ _ Hi) in Ha.
    rewrite (query_reads_committed_version_from n es _ _ _ Hj).
    destruct (version (fst (exec n (firstn i es))) (Suc k)) as [s|] eqn:Hv; [|discriminate].
    simpl in Ha. injection Ha as <-.
    assert (Hlen : i < length es) by (apply nth_error_Some; congruence).
    assert (Hsplit : firstn j es = firstn i es ++ firstn (j - i) (skipn i es)).
    { rewrite <- (firstn_skipn i es) at 1. rewrite firstn_app.
      rewrite firstn_length, Nat.min_l by lia. rewrite firstn_all2; [reflexivity|].
      rewrite firstn_length. lia. }
    rewrite Hsplit, exec_app. cbn [fst].
    rewrite (version_stable _ _ k s Hv). reflexivity.
  Qed.
End NodeProofs.

(** * Non-vacuity: a toy application executed on a concrete event list *)
Module Toy.
  Definition tbegin (h s : nat) : nat := s + h.
  Definition tdeliver (h s t : nat) : nat * nat := (s + t, s).
  Definition tend (h s : nat) : nat := 2 * s.
  Definition tcheck (s t : nat) : nat * nat := (s + 1, t).
  Definition tquery (s : nat) (_ : unit) : nat := s.
  Definition texec := exec nat nat nat nat unit nat tbegin tdeliver tend tcheck tquery.
  Definition tevent := event nat nat unit.

  Definition trace : list tevent :=
    [ EBegin 1; EDeliver 5; ECommit (* illegal here: ignored *); EQuery 0 tt; ECrash (* in the middle of block 1 *);
      EBegin 2; ECheck 7; EDeliver 3; EEnd; EQuery 1 tt (* not committed yet *); ECommit;
      EQuery 1 tt; EQuery 0 tt;
      EBegin 9; EDeliver 1; EEnd; ECrash (* after EndBlock, before Commit *);
      EQuery 2 tt; EQuery 1 tt ].

  Example trace_completed : completed nat nat unit trace = [(2, [3])].
  Proof. vm_compute. reflexivity. Qed.

  Example trace_node :
    fst (texec (start 0) trace) = {| genesis := 0; committed := [10]; ph := Idle; checkst := 10 |}.
  Proof. vm_compute. reflexivity. Qed.

  Example trace_outputs :
    snd (texec (start 0) trace) =
    [ ONone; OTx 1; ONone; OAnswer (Some 0); OHeight 0;
      ONone; OCheck 7; OTx 2; ONone; OAnswer None; OHeight 1;
      OAnswer (Some 10); OAnswer (Some 10);
      ONone; OTx 19; ONone; OHeight 1;
      OAnswer None; OAnswer (Some 10) ].
  Proof. vm_compute. reflexivity. Qed.

  Example trace_reference :
    versions nat nat nat nat tbegin tdeliver tend 0 [(2, [3])] = [10].
  Proof. vm_compute. reflexivity. Qed.
End Toy.

Print Assumptions exec_agree.
Print Assumptions committed_is_versions_from.
Print Assumptions committed_is_versions.
Print Assumptions crash_state.
Print Assumptions crash_leaves_no_trace.
Print Assumptions crash_keeps_completed_only.
Print Assumptions completed_blocks.
Print Assumptions exec_blocks.
Print Assumptions restart_equivalence_from.
Print Assumptions restart_equivalence.
Print Assumptions mempool_query_independence.
Print Assumptions query_reads_committed_version.
Print Assumptions query_answer_explicit.
Print Assumptions fixed_height_stable.
Print Assumptions repeated_query_same_answer.
Print Assumptions same_height_same_answer.
