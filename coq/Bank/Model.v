(** A small model of x/bank balances: address x denomination -> amount, total supply per denomination.
    Keys of the balance store are compkey encodings of [address; denom] (injective by C18). *)
From Coq Require Import Strings.String Strings.Byte.
From Coq Require Import List Arith NArith Bool.
From PV Require Import Base.Bytes Base.Outcome Base.KV Compkey.Model.
Import ListNotations.
Local Open Scope N_scope.

Definition coin := (bytes * N)%type.          (* denom, amount *)
Definition coins := list coin.

Record bank := { balances : store N; supply : store N }.

Definition bal_key (a d : bytes) : bytes :=
  match encode [a; d] with Some k => k | None => [] end.

Definition balance (bk : bank) (a d : bytes) : N :=
  match get (bal_key a d) (balances bk) with Some n => n | None => 0 end.

Definition set_balance (bk : bank) (a d : bytes) (n : N) : bank :=
  {| balances := (if n =? 0 then del (bal_key a d) (balances bk) else set (bal_key a d) n (balances bk));
     supply := supply bk |}.

Definition supply_of (bk : bank) (d : bytes) : N :=
  match get d (supply bk) with Some n => n | None => 0 end.

(** subtract coins from an account; None if some balance is insufficient *)
Fixpoint sub_coins (bk : bank) (a : bytes) (cs : coins) : option bank :=
  match cs with
  | [] => Some bk
  | (d, n) :: r =>
      if balance bk a d <? n then None
      else sub_coins (set_balance bk a d (balance bk a d - n)) a r
  end.

Fixpoint add_coins (bk : bank) (a : bytes) (cs : coins) : bank :=
  match cs with
  | [] => bk
  | (d, n) :: r => add_coins (set_balance bk a d (balance bk a d + n)) a r
  end.

(** SendCoins without vesting locks (custom-module histories never create vesting accounts) *)
Definition send (bk : bank) (from to : bytes) (cs : coins) : option bank :=
  match sub_coins bk from cs with
  | Some bk' => Some (add_coins bk' to cs)
  | None => None
  end.
