(** A small model of x/bank: balances (address x denomination -> amount), total supply per denomination,
    delayed-vesting locks, the set of existing accounts.  Keys of the balance store are compkey encodings
    of [address; denom] (injective by C18). *)
From Coq Require Import Strings.String Strings.Byte.
From Coq Require Import List Arith NArith ZArith Bool.
From PV Require Import Base.Bytes Base.Outcome Base.KV Compkey.Model.
Import ListNotations.
Local Open Scope N_scope.

Definition coin := (bytes * N)%type.          (* denom, amount *)
Definition coins := list coin.

(** a delayed vesting account: the original vesting amount stays locked until [end] (unix seconds) *)
Record vesting := { v_addr : bytes; v_amount : coins; v_end : Z }.

Record bank := { balances : store N; supply : store N; vestings : list vesting; accounts : list bytes }.

Definition with_balances (bk : bank) (b : store N) : bank :=
  {| balances := b; supply := supply bk; vestings := vestings bk; accounts := accounts bk |}.
Definition with_supply (bk : bank) (s : store N) : bank :=
  {| balances := balances bk; supply := s; vestings := vestings bk; accounts := accounts bk |}.

Definition bal_key (a d : bytes) : bytes :=
  match encode [a; d] with Some k => k | None => [] end.

Definition balance (bk : bank) (a d : bytes) : N :=
  match get (bal_key a d) (balances bk) with Some n => n | None => 0 end.

Definition set_balance (bk : bank) (a d : bytes) (n : N) : bank :=
  with_balances bk (if n =? 0 then del (bal_key a d) (balances bk) else set (bal_key a d) n (balances bk)).

Definition supply_of (bk : bank) (d : bytes) : N :=
  match get d (supply bk) with Some n => n | None => 0 end.
Definition set_supply (bk : bank) (d : bytes) (n : N) : bank :=
  with_supply bk (if n =? 0 then del d (supply bk) else set d n (supply bk)).

Definition amount_of (cs : coins) (d : bytes) : N :=
  fold_left (fun acc c => if bytes_eqb (fst c) d then acc + snd c else acc) cs 0.

Definition mem_addr (a : bytes) (l : list bytes) : bool := existsb (bytes_eqb a) l.
Definition account_exists (bk : bank) (a : bytes) : bool := mem_addr a (accounts bk).
Definition add_account (bk : bank) (a : bytes) : bank :=
  if account_exists bk a then bk
  else {| balances := balances bk; supply := supply bk; vestings := vestings bk; accounts := a :: accounts bk |}.

(** LockedCoins(addr, block time): the original vesting of a delayed vesting account before its end time.
    [now] is the block time in unix nanoseconds *)
Definition now_seconds (now : Z) : Z := (now / 1000000000)%Z.
Definition locked (bk : bank) (now : Z) (a d : bytes) : N :=
  fold_left (fun acc v => if bytes_eqb (v_addr v) a && (now_seconds now <? v_end v)%Z then acc + amount_of (v_amount v) d else acc)
            (vestings bk) 0.

(** subUnlockedCoins: every coin must be covered by balance - locked *)
Fixpoint sub_coins (bk : bank) (now : Z) (a : bytes) (cs : coins) : option bank :=
  match cs with
  | [] => Some bk
  | (d, n) :: r =>
      let bal := balance bk a d in
      let lk := locked bk now a d in
      if (bal <? lk) || (bal - lk <? n) then None
      else sub_coins (set_balance bk a d (bal - n)) now a r
  end.

Fixpoint add_coins (bk : bank) (a : bytes) (cs : coins) : bank :=
  match cs with
  | [] => bk
  | (d, n) :: r => add_coins (set_balance bk a d (balance bk a d + n)) a r
  end.

(** SendCoins: the recipient account is created if it does not exist *)
Definition send (bk : bank) (now : Z) (from to : bytes) (cs : coins) : option bank :=
  match sub_coins bk now from cs with
  | Some bk' => Some (add_account (add_coins bk' to cs) to)
  | None => None
  end.

(** InputOutputCoins with the single input SDK 0.47 allows: the input coins are subtracted from the sender
    (with the vesting lock check), then every output, in order, receives its coins and its account is created
    if it does not exist.  The stateless check "sum of the outputs = input" ([coins_eqb], below) is made by the
    caller (ValidateBasic); the addresses are decoded address bytes. *)
Fixpoint add_outputs (bk : bank) (outs : list (bytes * coins)) : bank :=
  match outs with
  | [] => bk
  | (a, cs) :: r => add_outputs (add_account (add_coins bk a cs) a) r
  end.

Definition multi_send (bk : bank) (now : Z) (from : bytes) (cs : coins) (outs : list (bytes * coins)) : option bank :=
  match sub_coins bk now from cs with
  | Some bk' => Some (add_outputs bk' outs)
  | None => None
  end.

(** the coins of all outputs, concatenated: [amount_of (outs_coins outs) d] is the total of [d] over the outputs *)
Definition outs_coins (outs : list (bytes * coins)) : coins := flat_map snd outs.

(** equality of two coin lists as multisets of (denomination, amount): for every denomination the amounts agree,
    [forall d, amount_of x d = amount_of y d] (lemma [coins_eqb_spec]); decided over the denominations that occur *)
Definition coins_eqb (x y : coins) : bool :=
  forallb (fun d => amount_of x d =? amount_of y d) (map fst x ++ map fst y).

(** the denominations an address holds, in store order (GetAllBalances) *)
Definition denoms_of (bk : bank) (a : bytes) : list bytes :=
  flat_map (fun e => match decode (fst e) with
                     | Some [a'; d] => if bytes_eqb a a' then [d] else []
                     | _ => [] end) (balances bk).

(** SpendableCoins: all balances minus the locked coins; empty if some locked amount exceeds its balance *)
Definition lock_denoms (bk : bank) (now : Z) (a : bytes) : list bytes :=
  flat_map (fun v => if bytes_eqb (v_addr v) a && (now_seconds now <? v_end v)%Z then map fst (v_amount v) else []) (vestings bk).

Definition spendable_coins (bk : bank) (now : Z) (a : bytes) : coins :=
  let ds := denoms_of bk a in
  if existsb (fun d => balance bk a d <? locked bk now a d) (ds ++ lock_denoms bk now a) then []
  else flat_map (fun d => let n := balance bk a d - locked bk now a d in if n =? 0 then [] else [(d, n)]) ds.

(** BurnCoins from a module account: balance and supply go down by the amount *)
Fixpoint burn_from (bk : bank) (module_acc : bytes) (cs : coins) : option bank :=
  match cs with
  | [] => Some bk
  | (d, n) :: r =>
      if balance bk module_acc d <? n then None
      else burn_from (set_supply (set_balance bk module_acc d (balance bk module_acc d - n)) d (supply_of bk d - n)) module_acc r
  end.
