(** Properties of the x/bank model: injective balance keys, the accounting identity
    "supply = sum of all balances" and its preservation by sends and by the burn end-blocker,
    and property C07: the burn address is a sink. *)
From Coq Require Import Strings.String Strings.Byte.
From Coq Require Import List Arith NArith ZArith Bool Lia ZifyN ZifyNat.
From PV Require Import Base.Bytes Base.Outcome Base.KV Compkey.Model Compkey.Proofs Bank.Model.
From PV Require Generated.GenApp Chain.Model.
Import ListNotations.
Local Open Scope N_scope.
Ltac Zify.zify_post_hook ::= Z.div_mod_to_equations.

Local Arguments decode : simpl never.

Ltac beq x y :=
  let E := fresh "E" in
  destruct (bytes_eqb x y) eqn:E; [apply bytes_eqb_eq in E | apply bytes_eqb_neq in E].

(** * Balance keys *)
Definition addr_ok (a : bytes) : Prop := (length a <= 255)%nat.
Definition denom_ok (d : bytes) : Prop := (length d <= 255)%nat.

Lemma denom_ok_dec d : {denom_ok d} + {~ denom_ok d}.
Proof. unfold denom_ok. apply le_dec. Qed.

Lemma bal_key_encode a d : addr_ok a -> denom_ok d -> encode [a; d] = Some (bal_key a d).
Proof.
  intros Ha Hd. destruct (proj2 (encode_Some_iff [a; d])) as [bz Hbz].
  { constructor; [exact Ha|]. constructor; [exact Hd|]. constructor. }
  unfold bal_key. rewrite Hbz. reflexivity.
Qed.

Lemma bal_key_decode a d : addr_ok a -> denom_ok d -> decode (bal_key a d) = Some [a; d].
Proof. intros Ha Hd. apply decode_encode. apply bal_key_encode; assumption. Qed.

Lemma bal_key_inj : forall a d a' d',
  addr_ok a -> denom_ok d -> addr_ok a' -> denom_ok d' -> bal_key a d = bal_key a' d' -> a = a' /\ d = d'.
Proof.
  intros a d a' d' Ha Hd Ha' Hd' HE.
  pose proof (bal_key_decode a d Ha Hd) as D1. rewrite HE in D1.
  rewrite (bal_key_decode a' d' Ha' Hd') in D1. inversion D1; subst; auto.
Qed.

Lemma decode_bal_key k a d : decode k = Some [a; d] -> addr_ok a /\ denom_ok d /\ k = bal_key a d.
Proof.
  intros D. apply decode_sound in D. destruct (forall_le2 a d k D) as [Ha Hd].
  split; [exact Ha|]. split; [exact Hd|]. unfold bal_key. rewrite D. reflexivity.
Qed.

Lemma bal_key_nonempty a d : addr_ok a -> denom_ok d -> bal_key a d <> [].
Proof.
  intros Ha Hd E. pose proof (bal_key_encode a d Ha Hd) as H. rewrite E in H. simpl in H.
  destruct (Byte.of_nat (length a)); [destruct (Byte.of_nat (length d))|]; discriminate.
Qed.

Lemma bal_key_not_ok a d : ~ (addr_ok a /\ denom_ok d) -> bal_key a d = [].
Proof.
  intros H. unfold bal_key. destruct (encode [a; d]) as [k|] eqn:E; [|reflexivity].
  exfalso. apply H. apply (forall_le2 a d k E).
Qed.

Lemma bal_key_eqb a d a' d' : addr_ok a -> denom_ok d -> addr_ok a' -> denom_ok d' ->
  bytes_eqb (bal_key a' d') (bal_key a d) = bytes_eqb a a' && bytes_eqb d d'.
Proof.
  intros Ha Hd Ha' Hd'. beq (bal_key a' d') (bal_key a d).
  - apply bal_key_inj in E; try assumption. destruct E; subst. rewrite !bytes_eqb_refl. reflexivity.
  - symmetry. apply andb_false_iff. beq a a'; [|left; reflexivity]. beq d d'; [|right; reflexivity].
    subst. contradiction E. reflexivity.
Qed.

(** * Sums over the raw balance store *)
(** the contribution of one store entry to the total of denomination [d] *)
Definition weight (d : bytes) (e : bytes * N) : N :=
  match decode (fst e) with
  | Some [_; d'] => if bytes_eqb d d' then snd e else 0
  | _ => 0
  end.
Arguments weight : simpl never.

Fixpoint tb (d : bytes) (s : store N) : N :=
  match s with [] => 0 | e :: r => weight d e + tb d r end.

(** sum of all balances of denomination [d], computed over the raw store by decoding the keys *)
Definition total_balance (bk : bank) (d : bytes) : N := tb d (balances bk).

(** the same thing written as one fold *)
Lemma total_balance_fold bk d :
  total_balance bk d =
  fold_right (fun e acc => match decode (fst e) with
                           | Some [_; d'] => if bytes_eqb d d' then snd e + acc else acc
                           | _ => acc end) 0 (balances bk).
Proof.
  unfold total_balance. induction (balances bk) as [|e r IH]; simpl; [reflexivity|].
  rewrite IH. unfold weight. destruct (decode (fst e)) as [[|a' [|d' [|? ?]]]|]; try reflexivity.
  destruct (bytes_eqb d d'); reflexivity.
Qed.

Definition wget (d k : bytes) (s : store N) : N :=
  match get k s with Some n => weight d (k, n) | None => 0 end.

Lemma del_absent (k : bytes) (s : store N) : get k s = None -> del k s = s.
Proof.
  induction s as [|[k' v'] r IH]; simpl; intros H; [reflexivity|].
  destruct (bytes_eqb k k'); [discriminate|]. rewrite IH by exact H. reflexivity.
Qed.

Lemma tb_del d k s : sorted s -> tb d (del k s) + wget d k s = tb d s.
Proof.
  unfold wget. induction s as [|[k' v'] r IH]; simpl; intros Hs; [reflexivity|].
  destruct Hs as [Hlb Hr].
  destruct (bytes_eqb k k') eqn:E.
  - apply bytes_eqb_eq in E; subst k'. rewrite del_absent by (apply lb_get_None; assumption). lia.
  - simpl. specialize (IH Hr). lia.
Qed.

Lemma tb_set d k v s : sorted s -> tb d (set k v s) + wget d k s = tb d s + weight d (k, v).
Proof.
  unfold wget. induction s as [|[k' v'] r IH]; simpl; intros Hs; [lia|].
  destruct Hs as [Hlb Hr].
  destruct (bytes_eqb k k') eqn:E.
  - apply bytes_eqb_eq in E; subst k'. simpl. lia.
  - destruct (bytes_ltb k k') eqn:L; simpl.
    + assert (Hk : lb k r).
      { destruct r as [|[k2 v2] r2]; simpl in *; [exact I|]. apply (bytes_ltb_trans _ k'); assumption. }
      rewrite (lb_get_None k r Hk Hr). lia.
    + specialize (IH Hr). lia.
Qed.

Lemma weight_bal_key d' a d n : addr_ok a -> denom_ok d ->
  weight d' (bal_key a d, n) = if bytes_eqb d d' then n else 0.
Proof.
  intros Ha Hd. unfold weight. cbn [fst snd]. rewrite (bal_key_decode a d Ha Hd).
  rewrite (bytes_eqb_sym d' d). reflexivity.
Qed.

Lemma wget_bal bk a d d' : addr_ok a -> denom_ok d ->
  wget d' (bal_key a d) (balances bk) = if bytes_eqb d d' then balance bk a d else 0.
Proof.
  intros Ha Hd. unfold wget, balance. destruct (get (bal_key a d) (balances bk)) as [n|].
  - apply weight_bal_key; assumption.
  - destruct (bytes_eqb d d'); reflexivity.
Qed.

(** * Balances under [set_balance] *)
Lemma balance_set_balance : forall bk a d n a' d',
  addr_ok a -> denom_ok d -> addr_ok a' -> denom_ok d' ->
  balance (set_balance bk a d n) a' d' = if bytes_eqb a a' && bytes_eqb d d' then n else balance bk a' d'.
Proof.
  intros bk a d n a' d' Ha Hd Ha' Hd'. unfold balance, set_balance, with_balances. cbn [balances].
  destruct (n =? 0) eqn:Z.
  - rewrite get_del. rewrite (bal_key_eqb a d a' d') by assumption.
    destruct (bytes_eqb a a' && bytes_eqb d d'); [|reflexivity]. apply N.eqb_eq in Z. congruence.
  - rewrite get_set. rewrite (bal_key_eqb a d a' d') by assumption.
    destruct (bytes_eqb a a' && bytes_eqb d d'); reflexivity.
Qed.

Lemma balance_set_balance_same bk a d n : addr_ok a -> denom_ok d -> balance (set_balance bk a d n) a d = n.
Proof. intros Ha Hd. rewrite balance_set_balance by assumption. rewrite !bytes_eqb_refl. reflexivity. Qed.

Lemma balance_set_balance_other bk a d n a' d' :
  addr_ok a -> denom_ok d -> addr_ok a' -> denom_ok d' -> a <> a' \/ d <> d' ->
  balance (set_balance bk a d n) a' d' = balance bk a' d'.
Proof.
  intros Ha Hd Ha' Hd' Hne. rewrite balance_set_balance by assumption.
  destruct Hne as [Hne|Hne]; apply bytes_eqb_neq in Hne; rewrite Hne; [|rewrite andb_false_r]; reflexivity.
Qed.

(** additive form (N subtraction is truncated) *)
Lemma total_balance_set_balance_add bk a d n d' :
  sorted (balances bk) -> addr_ok a -> denom_ok d ->
  total_balance (set_balance bk a d n) d' + (if bytes_eqb d d' then balance bk a d else 0)
  = total_balance bk d' + (if bytes_eqb d d' then n else 0).
Proof.
  intros Hs Ha Hd. unfold total_balance, set_balance, with_balances. cbn [balances].
  rewrite <- (wget_bal bk a d d' Ha Hd).
  destruct (n =? 0) eqn:Z.
  - apply N.eqb_eq in Z. subst n. rewrite tb_del by exact Hs. destruct (bytes_eqb d d'); lia.
  - rewrite tb_set by exact Hs. rewrite weight_bal_key by assumption. reflexivity.
Qed.

Lemma balance_le_total bk a d : sorted (balances bk) -> addr_ok a -> denom_ok d -> balance bk a d <= total_balance bk d.
Proof.
  intros Hs Ha Hd. pose proof (tb_del d (bal_key a d) (balances bk) Hs) as T.
  rewrite (wget_bal bk a d d Ha Hd) in T. rewrite bytes_eqb_refl in T. unfold total_balance. lia.
Qed.

Lemma total_balance_set_balance bk a d n d' :
  sorted (balances bk) -> addr_ok a -> denom_ok d ->
  total_balance (set_balance bk a d n) d'
  = if bytes_eqb d d' then total_balance bk d' - balance bk a d + n else total_balance bk d'.
Proof.
  intros Hs Ha Hd. pose proof (total_balance_set_balance_add bk a d n d' Hs Ha Hd) as T.
  pose proof (balance_le_total bk a d Hs Ha Hd) as L.
  beq d d'; [subst d'|]; lia.
Qed.

(** * The invariants *)
(** the balance store alone: sorted, every key is a well-formed balance key, zero balances are deleted *)
Record Bal_inv (bk : bank) : Prop := {
  bl_sorted : sorted (balances bk);
  bl_keys : forall k n, get k (balances bk) = Some n ->
            n <> 0 /\ exists a d, addr_ok a /\ denom_ok d /\ k = bal_key a d
}.

Record Bank_inv (bk : bank) : Prop := {
  bi_sorted : sorted (balances bk);
  bi_keys : forall k n, get k (balances bk) = Some n ->
            n <> 0 /\ exists a d, addr_ok a /\ denom_ok d /\ k = bal_key a d;   (* zero balances are deleted *)
  bi_supply : forall d, denom_ok d -> total_balance bk d = supply_of bk d        (* the accounting identity *)
}.

Lemma Bank_inv_Bal bk : Bank_inv bk -> Bal_inv bk.
Proof. intros [H1 H2 _]. split; assumption. Qed.

Lemma Bank_inv_intro bk : Bal_inv bk -> (forall d, denom_ok d -> total_balance bk d = supply_of bk d) -> Bank_inv bk.
Proof. intros [H1 H2] H3. split; assumption. Qed.

Lemma set_balance_Bal_inv bk a d n : Bal_inv bk -> addr_ok a -> denom_ok d -> Bal_inv (set_balance bk a d n).
Proof.
  intros [Hs Hk] Ha Hd. unfold set_balance, with_balances. split; cbn [balances].
  - destruct (n =? 0); [apply sorted_del | apply sorted_set]; exact Hs.
  - intros k n0 G. destruct (n =? 0) eqn:Z.
    + rewrite get_del in G. destruct (bytes_eqb k (bal_key a d)); [discriminate|]. exact (Hk k n0 G).
    + rewrite get_set in G. destruct (bytes_eqb k (bal_key a d)) eqn:E.
      * apply bytes_eqb_eq in E. injection G as <-. split; [apply N.eqb_neq; exact Z|]. exists a, d. auto.
      * exact (Hk k n0 G).
Qed.

Lemma balance_not_ok bk a d : Bal_inv bk -> ~ (addr_ok a /\ denom_ok d) -> balance bk a d = 0.
Proof.
  intros [Hs Hk] Hno. unfold balance. rewrite (bal_key_not_ok a d Hno).
  destruct (get [] (balances bk)) as [n|] eqn:G; [|reflexivity].
  destruct (Hk _ _ G) as [_ (a' & d' & Ha' & Hd' & E)]. symmetry in E.
  exfalso. exact (bal_key_nonempty a' d' Ha' Hd' E).
Qed.

(** * [amount_of] *)
Lemma fold_amount d (cs : list (bytes * N)) : forall acc,
  fold_left (fun acc (c : bytes * N) => if bytes_eqb (fst c) d then acc + snd c else acc) cs acc
  = acc + fold_left (fun acc (c : bytes * N) => if bytes_eqb (fst c) d then acc + snd c else acc) cs 0.
Proof.
  induction cs as [|c r IH]; intros acc; [simpl; lia|]. cbn [fold_left].
  destruct (bytes_eqb (fst c) d); cbv iota.
  - rewrite IH. rewrite (IH (0 + snd c)). lia.
  - rewrite IH. reflexivity.
Qed.

Lemma amount_of_nil d : amount_of [] d = 0.
Proof. reflexivity. Qed.

Lemma amount_of_cons d0 n r d : amount_of ((d0, n) :: r) d = (if bytes_eqb d0 d then n else 0) + amount_of r d.
Proof.
  unfold amount_of. cbn [fold_left fst snd]. rewrite fold_amount. destruct (bytes_eqb d0 d); lia.
Qed.

Lemma amount_of_app x y d : amount_of (x ++ y) d = amount_of x d + amount_of y d.
Proof. unfold amount_of. rewrite fold_left_app. rewrite fold_amount. reflexivity. Qed.

Definition coins_ok (cs : coins) : Prop := Forall (fun c => denom_ok (fst c)) cs.

(** * subtracting and adding coins *)
Lemma locked_vestings bk bk' now a d : vestings bk' = vestings bk -> locked bk' now a d = locked bk now a d.
Proof. intros H. unfold locked. rewrite H. reflexivity. Qed.

Lemma supply_of_supply bk bk' d : supply bk' = supply bk -> supply_of bk' d = supply_of bk d.
Proof. intros H. unfold supply_of. rewrite H. reflexivity. Qed.

Lemma sub_coins_spec now a : addr_ok a -> forall cs bk bk',
  Bal_inv bk -> coins_ok cs -> sub_coins bk now a cs = Some bk' ->
  Bal_inv bk' /\ supply bk' = supply bk /\ vestings bk' = vestings bk /\
  (forall d, denom_ok d -> balance bk' a d + amount_of cs d = balance bk a d) /\
  (forall a' d, addr_ok a' -> denom_ok d -> a' <> a -> balance bk' a' d = balance bk a' d) /\
  (forall d, denom_ok d -> total_balance bk' d + amount_of cs d = total_balance bk d).
Proof.
  intros Ha. induction cs as [|[d0 n] r IH]; intros bk bk' Hinv Hok H.
  - simpl in H. injection H as <-.
    split; [exact Hinv|]. repeat split; intros; rewrite ?amount_of_nil; try reflexivity; lia.
  - inversion Hok as [|? ? Hd0 Hr]; subst. cbn [fst] in Hd0.
    cbn [sub_coins] in H. cbv zeta in H.
    destruct ((balance bk a d0 <? locked bk now a d0) || (balance bk a d0 - locked bk now a d0 <? n)) eqn:C;
      [discriminate|].
    apply orb_false_iff in C as [C1 C2]. apply N.ltb_ge in C1, C2.
    assert (Hn : n <= balance bk a d0) by lia.
    pose proof (set_balance_Bal_inv bk a d0 (balance bk a d0 - n) Hinv Ha Hd0) as Hinv1.
    destruct (IH _ _ Hinv1 Hr H) as (I1 & I2 & I3 & I4 & I5 & I6).
    split; [exact I1|]. split; [exact I2|]. split; [exact I3|]. split; [|split].
    + intros d Hd. rewrite amount_of_cons. specialize (I4 d Hd).
      rewrite balance_set_balance in I4 by assumption. rewrite bytes_eqb_refl in I4. cbn [andb] in I4.
      beq d0 d; [subst d|]; lia.
    + intros a' d Ha' Hd Hne. rewrite (I5 a' d Ha' Hd Hne).
      apply balance_set_balance_other; try assumption. left. congruence.
    + intros d Hd. rewrite amount_of_cons. specialize (I6 d Hd).
      pose proof (total_balance_set_balance_add bk a d0 (balance bk a d0 - n) d (bl_sorted _ Hinv) Ha Hd0) as T.
      beq d0 d; [subst d|]; lia.
Qed.

Lemma add_coins_spec a : addr_ok a -> forall cs bk,
  Bal_inv bk -> coins_ok cs ->
  Bal_inv (add_coins bk a cs) /\ supply (add_coins bk a cs) = supply bk /\
  vestings (add_coins bk a cs) = vestings bk /\
  (forall d, denom_ok d -> balance (add_coins bk a cs) a d = balance bk a d + amount_of cs d) /\
  (forall a' d, addr_ok a' -> denom_ok d -> a' <> a -> balance (add_coins bk a cs) a' d = balance bk a' d) /\
  (forall d, denom_ok d -> total_balance (add_coins bk a cs) d = total_balance bk d + amount_of cs d).
Proof.
  intros Ha. induction cs as [|[d0 n] r IH]; intros bk Hinv Hok.
  - simpl. split; [exact Hinv|]. repeat split; intros; rewrite ?amount_of_nil; try reflexivity; lia.
  - inversion Hok as [|? ? Hd0 Hr]; subst. cbn [fst] in Hd0. cbn [add_coins].
    pose proof (set_balance_Bal_inv bk a d0 (balance bk a d0 + n) Hinv Ha Hd0) as Hinv1.
    destruct (IH _ Hinv1 Hr) as (I1 & I2 & I3 & I4 & I5 & I6).
    split; [exact I1|]. split; [exact I2|]. split; [exact I3|]. split; [|split].
    + intros d Hd. rewrite amount_of_cons. rewrite (I4 d Hd).
      rewrite balance_set_balance by assumption. rewrite bytes_eqb_refl. cbn [andb].
      beq d0 d; [subst d|]; lia.
    + intros a' d Ha' Hd Hne. rewrite (I5 a' d Ha' Hd Hne).
      apply balance_set_balance_other; try assumption. left. congruence.
    + intros d Hd. rewrite amount_of_cons. rewrite (I6 d Hd).
      pose proof (total_balance_set_balance_add bk a d0 (balance bk a d0 + n) d (bl_sorted _ Hinv) Ha Hd0) as T.
      beq d0 d; [subst d|]; lia.
Qed.

(** [add_account] only touches the account list *)
Lemma add_account_balances bk a : balances (add_account bk a) = balances bk.
Proof. unfold add_account. destruct (account_exists bk a); reflexivity. Qed.
Lemma add_account_supply bk a : supply (add_account bk a) = supply bk.
Proof. unfold add_account. destruct (account_exists bk a); reflexivity. Qed.
Lemma add_account_vestings bk a : vestings (add_account bk a) = vestings bk.
Proof. unfold add_account. destruct (account_exists bk a); reflexivity. Qed.

Lemma balance_balances bk bk' a d : balances bk' = balances bk -> balance bk' a d = balance bk a d.
Proof. intros H. unfold balance. rewrite H. reflexivity. Qed.
Lemma total_balance_balances bk bk' d : balances bk' = balances bk -> total_balance bk' d = total_balance bk d.
Proof. intros H. unfold total_balance. rewrite H. reflexivity. Qed.
Lemma Bal_inv_balances bk bk' : balances bk' = balances bk -> Bal_inv bk -> Bal_inv bk'.
Proof. intros H [H1 H2]. split; rewrite H; assumption. Qed.

(** * Sends *)
Lemma send_spec bk now from to cs bk' :
  Bank_inv bk -> addr_ok from -> addr_ok to -> coins_ok cs ->
  send bk now from to cs = Some bk' ->
  Bank_inv bk' /\ supply bk' = supply bk /\ vestings bk' = vestings bk /\
  (forall a d, addr_ok a -> denom_ok d -> a <> from -> a <> to -> balance bk' a d = balance bk a d) /\
  (from <> to -> forall d, denom_ok d ->
     balance bk' from d + amount_of cs d = balance bk from d /\
     balance bk' to d = balance bk to d + amount_of cs d).
Proof.
  intros Hinv Hfrom Hto Hok H. unfold send in H.
  destruct (sub_coins bk now from cs) as [bk1|] eqn:Hsub; [|discriminate]. injection H as <-.
  destruct (sub_coins_spec now from Hfrom cs bk bk1 (Bank_inv_Bal _ Hinv) Hok Hsub) as (S1 & S2 & S3 & S4 & S5 & S6).
  destruct (add_coins_spec to Hto cs bk1 S1 Hok) as (A1 & A2 & A3 & A4 & A5 & A6).
  pose proof (add_account_balances (add_coins bk1 to cs) to) as Eb.
  split; [|split; [|split; [|split]]].
  - apply Bank_inv_intro.
    + apply (Bal_inv_balances _ _ Eb A1).
    + intros d Hd. rewrite (total_balance_balances _ _ d Eb).
      rewrite (supply_of_supply (add_coins bk1 to cs)) by apply add_account_supply.
      rewrite (supply_of_supply bk1) by exact A2. rewrite (supply_of_supply bk) by exact S2.
      rewrite (A6 d Hd). rewrite <- (bi_supply _ Hinv d Hd). apply (S6 d Hd).
  - rewrite add_account_supply. congruence.
  - rewrite add_account_vestings. congruence.
  - intros a d Ha Hd Hn1 Hn2. rewrite (balance_balances _ _ a d Eb).
    rewrite (A5 a d Ha Hd Hn2). apply (S5 a d Ha Hd Hn1).
  - intros Hne d Hd. rewrite !(balance_balances _ _ _ d Eb). split.
    + rewrite (A5 from d Hfrom Hd Hne). apply (S4 d Hd).
    + rewrite (A4 d Hd). rewrite (S5 to d Hto Hd); [reflexivity|]. congruence.
Qed.

(** conservation: a send keeps the invariant (hence the accounting identity), the supply and all other accounts *)
Theorem send_conserves : forall bk now from to cs bk',
  Bank_inv bk -> addr_ok from -> addr_ok to -> Forall (fun c => denom_ok (fst c)) cs ->
  send bk now from to cs = Some bk' ->
  Bank_inv bk' /\ (forall d, supply_of bk' d = supply_of bk d) /\
  (forall a d, addr_ok a -> denom_ok d -> a <> from -> a <> to -> balance bk' a d = balance bk a d).
Proof.
  intros bk now from to cs bk' Hinv Hfrom Hto Hok H.
  destruct (send_spec bk now from to cs bk' Hinv Hfrom Hto Hok H) as (P1 & P2 & _ & P4 & _).
  split; [exact P1|]. split; [|exact P4]. intros d. apply supply_of_supply. exact P2.
Qed.

(** what moves: the sender loses and the recipient gains exactly the amount sent
    (no distinctness assumption on the denominations of [cs] is needed) *)
Theorem send_moves : forall bk now from to cs bk' d,
  Bank_inv bk -> addr_ok from -> addr_ok to -> Forall (fun c => denom_ok (fst c)) cs -> denom_ok d ->
  from <> to ->
  send bk now from to cs = Some bk' ->
  amount_of cs d <= balance bk from d /\
  balance bk' from d = balance bk from d - amount_of cs d /\
  balance bk' to d = balance bk to d + amount_of cs d.
Proof.
  intros bk now from to cs bk' d Hinv Hfrom Hto Hok Hd Hne H.
  destruct (send_spec bk now from to cs bk' Hinv Hfrom Hto Hok H) as (_ & _ & _ & _ & P5).
  destruct (P5 Hne d Hd) as [Q1 Q2]. repeat split; try exact Q2; lia.
Qed.

(** * Multi-sends (one input, several outputs) *)
Lemma amount_of_not_in cs d : ~ In d (map fst cs) -> amount_of cs d = 0.
Proof.
  induction cs as [|[d0 n] r IH]; intros H; [reflexivity|]. rewrite amount_of_cons. cbn [map fst] in H.
  beq d0 d; [exfalso; apply H; left; exact E|].
  rewrite IH; [lia|]. intros Hin. apply H. right. exact Hin.
Qed.

(** what [coins_eqb] decides: for every denomination the amounts agree *)
Lemma coins_eqb_spec x y : coins_eqb x y = true <-> forall d, amount_of x d = amount_of y d.
Proof.
  unfold coins_eqb. rewrite forallb_forall. split.
  - intros H d. destruct (in_dec bytes_eq_dec d (map fst x ++ map fst y)) as [Hin|Hnin].
    + apply N.eqb_eq. apply H. exact Hin.
    + rewrite !amount_of_not_in; [reflexivity| |]; intros Hin; apply Hnin; apply in_or_app; auto.
  - intros H d _. apply N.eqb_eq. apply H.
Qed.

Definition outs_ok (outs : list (bytes * coins)) : Prop :=
  Forall (fun o => addr_ok (fst o) /\ coins_ok (snd o)) outs.

(** the coins the outputs of a multi-send give to address [a] (an address may occur in several outputs) *)
Definition received (outs : list (bytes * coins)) (a : bytes) : coins :=
  flat_map (fun o => if bytes_eqb (fst o) a then snd o else []) outs.

Lemma received_not_in outs a : ~ In a (map fst outs) -> received outs a = [].
Proof.
  induction outs as [|[a0 cs] r IH]; intros H; [reflexivity|]. unfold received. cbn [flat_map fst snd].
  cbn [map fst] in H. beq a0 a; [exfalso; apply H; left; exact E|].
  cbn [app]. apply IH. intros Hin. apply H. right. exact Hin.
Qed.

Lemma add_outputs_spec : forall outs bk,
  Bal_inv bk -> outs_ok outs ->
  Bal_inv (add_outputs bk outs) /\ supply (add_outputs bk outs) = supply bk /\
  vestings (add_outputs bk outs) = vestings bk /\
  (forall a d, addr_ok a -> denom_ok d ->
     balance (add_outputs bk outs) a d = balance bk a d + amount_of (received outs a) d) /\
  (forall d, denom_ok d -> total_balance (add_outputs bk outs) d = total_balance bk d + amount_of (outs_coins outs) d).
Proof.
  induction outs as [|[a0 cs] r IH]; intros bk Hinv Hok.
  - cbn [add_outputs]. split; [exact Hinv|]. repeat split; intros; rewrite amount_of_nil; lia.
  - inversion Hok as [|? ? [Ha0 Hcs] Hr]; subst. cbn [fst snd] in Ha0, Hcs. cbn [add_outputs].
    destruct (add_coins_spec a0 Ha0 cs bk Hinv Hcs) as (A1 & A2 & A3 & A4 & A5 & A6).
    pose proof (add_account_balances (add_coins bk a0 cs) a0) as Eb.
    set (bk1 := add_account (add_coins bk a0 cs) a0) in *.
    pose proof (Bal_inv_balances _ _ Eb A1) as Hinv1.
    destruct (IH bk1 Hinv1 Hr) as (I1 & I2 & I3 & I4 & I5).
    split; [exact I1|]. split; [|split; [|split]].
    + rewrite I2. unfold bk1. rewrite add_account_supply. exact A2.
    + rewrite I3. unfold bk1. rewrite add_account_vestings. exact A3.
    + intros a d Ha Hd. rewrite (I4 a d Ha Hd). rewrite (balance_balances _ _ a d Eb).
      unfold received. cbn [flat_map fst snd]. fold (received r a). rewrite amount_of_app.
      beq a0 a.
      * subst a. rewrite (A4 d Hd). lia.
      * rewrite (A5 a d Ha Hd) by congruence. rewrite amount_of_nil. lia.
    + intros d Hd. rewrite (I5 d Hd). rewrite (total_balance_balances _ _ d Eb). rewrite (A6 d Hd).
      unfold outs_coins. cbn [flat_map snd]. rewrite amount_of_app. lia.
Qed.

Lemma multi_send_spec bk now from cs outs bk' :
  Bank_inv bk -> addr_ok from -> coins_ok cs -> outs_ok outs ->
  (forall d, amount_of cs d = amount_of (outs_coins outs) d) ->
  multi_send bk now from cs outs = Some bk' ->
  Bank_inv bk' /\ supply bk' = supply bk /\ vestings bk' = vestings bk /\
  (forall d, denom_ok d -> total_balance bk' d = total_balance bk d) /\
  (forall a d, addr_ok a -> denom_ok d -> a <> from ->
     balance bk' a d = balance bk a d + amount_of (received outs a) d) /\
  (forall d, denom_ok d ->
     balance bk' from d + amount_of cs d = balance bk from d + amount_of (received outs from) d).
Proof.
  intros Hinv Hfrom Hok Houts Hsum H. unfold multi_send in H.
  destruct (sub_coins bk now from cs) as [bk1|] eqn:Hsub; [|discriminate]. injection H as <-.
  destruct (sub_coins_spec now from Hfrom cs bk bk1 (Bank_inv_Bal _ Hinv) Hok Hsub) as (S1 & S2 & S3 & S4 & S5 & S6).
  destruct (add_outputs_spec outs bk1 S1 Houts) as (A1 & A2 & A3 & A4 & A5).
  assert (Htot : forall d, denom_ok d -> total_balance (add_outputs bk1 outs) d = total_balance bk d).
  { intros d Hd. rewrite (A5 d Hd). rewrite <- (Hsum d). apply (S6 d Hd). }
  split; [|split; [|split; [|split; [|split]]]].
  - apply Bank_inv_intro; [exact A1|]. intros d Hd. rewrite (Htot d Hd).
    rewrite (supply_of_supply bk1) by exact A2. rewrite (supply_of_supply bk) by exact S2.
    apply (bi_supply _ Hinv d Hd).
  - congruence.
  - congruence.
  - exact Htot.
  - intros a d Ha Hd Hne. rewrite (A4 a d Ha Hd). rewrite (S5 a d Ha Hd Hne). reflexivity.
  - intros d Hd. rewrite (A4 from d Hfrom Hd). pose proof (S4 d Hd). lia.
Qed.

(** conservation: a multi-send whose outputs sum to its input keeps the invariant (hence the accounting identity),
    the supply, the total balance of every denomination, and all accounts other than the sender and the recipients *)
Theorem multi_send_conserves : forall bk now from cs outs bk',
  Bank_inv bk -> addr_ok from -> Forall (fun c => denom_ok (fst c)) cs ->
  Forall (fun o => addr_ok (fst o) /\ Forall (fun c => denom_ok (fst c)) (snd o)) outs ->
  (forall d, amount_of cs d = amount_of (outs_coins outs) d) ->
  multi_send bk now from cs outs = Some bk' ->
  Bank_inv bk' /\ (forall d, supply_of bk' d = supply_of bk d) /\
  (forall d, denom_ok d -> total_balance bk' d = total_balance bk d) /\
  (forall a d, addr_ok a -> denom_ok d -> a <> from -> ~ In a (map fst outs) -> balance bk' a d = balance bk a d).
Proof.
  intros bk now from cs outs bk' Hinv Hfrom Hok Houts Hsum H.
  destruct (multi_send_spec bk now from cs outs bk' Hinv Hfrom Hok Houts Hsum H) as (P1 & P2 & _ & P4 & P5 & _).
  split; [exact P1|]. split; [|split; [exact P4|]].
  - intros d. apply supply_of_supply. exact P2.
  - intros a d Ha Hd Hne Hnin. rewrite (P5 a d Ha Hd Hne). rewrite (received_not_in outs a Hnin).
    rewrite amount_of_nil. lia.
Qed.

(** what moves: the sender loses the input, every address gains what the outputs naming it carry *)
Theorem multi_send_moves : forall bk now from cs outs bk' d,
  Bank_inv bk -> addr_ok from -> Forall (fun c => denom_ok (fst c)) cs ->
  Forall (fun o => addr_ok (fst o) /\ Forall (fun c => denom_ok (fst c)) (snd o)) outs -> denom_ok d ->
  (forall d, amount_of cs d = amount_of (outs_coins outs) d) ->
  multi_send bk now from cs outs = Some bk' ->
  amount_of cs d <= balance bk from d /\
  balance bk' from d = balance bk from d - amount_of cs d + amount_of (received outs from) d /\
  (forall a, addr_ok a -> a <> from -> balance bk' a d = balance bk a d + amount_of (received outs a) d).
Proof.
  intros bk now from cs outs bk' d Hinv Hfrom Hok Houts Hd Hsum H.
  destruct (multi_send_spec bk now from cs outs bk' Hinv Hfrom Hok Houts Hsum H) as (_ & _ & _ & _ & P5 & P6).
  assert (Hle : amount_of cs d <= balance bk from d).
  { unfold multi_send in H. destruct (sub_coins bk now from cs) as [bk1|] eqn:Hsub; [|discriminate].
    destruct (sub_coins_spec now from Hfrom cs bk bk1 (Bank_inv_Bal _ Hinv) Hok Hsub) as (_ & _ & _ & S4 & _).
    pose proof (S4 d Hd). lia. }
  split; [exact Hle|]. split.
  - pose proof (P6 d Hd). lia.
  - intros a Ha Hne. apply (P5 a d Ha Hd Hne).
Qed.

(** * Burning from a module account *)
Lemma supply_of_set_supply bk d n d' :
  supply_of (set_supply bk d n) d' = if bytes_eqb d d' then n else supply_of bk d'.
Proof.
  unfold supply_of, set_supply, with_supply. cbn [supply]. rewrite (bytes_eqb_sym d d').
  destruct (n =? 0) eqn:Z.
  - rewrite get_del. destruct (bytes_eqb d' d); [|reflexivity]. apply N.eqb_eq in Z. congruence.
  - rewrite get_set. destruct (bytes_eqb d' d); reflexivity.
Qed.

Lemma burn_from_spec m : addr_ok m -> forall cs bk bk',
  Bank_inv bk -> coins_ok cs -> burn_from bk m cs = Some bk' ->
  Bank_inv bk' /\ vestings bk' = vestings bk /\
  (forall d, supply_of bk' d + amount_of cs d = supply_of bk d) /\
  (forall d, denom_ok d -> balance bk' m d + amount_of cs d = balance bk m d) /\
  (forall a' d, addr_ok a' -> denom_ok d -> a' <> m -> balance bk' a' d = balance bk a' d).
Proof.
  intros Hm. induction cs as [|[d0 n] r IH]; intros bk bk' Hinv Hok H.
  - simpl in H. injection H as <-.
    split; [exact Hinv|]. repeat split; intros; rewrite ?amount_of_nil; try reflexivity; lia.
  - inversion Hok as [|? ? Hd0 Hr]; subst. cbn [fst] in Hd0. cbn [burn_from] in H.
    destruct (balance bk m d0 <? n) eqn:C; [discriminate|]. apply N.ltb_ge in C.
    pose proof (Bank_inv_Bal _ Hinv) as Hbal.
    pose proof (balance_le_total bk m d0 (bi_sorted _ Hinv) Hm Hd0) as Hle.
    rewrite (bi_supply _ Hinv d0 Hd0) in Hle.
    set (bk1 := set_supply (set_balance bk m d0 (balance bk m d0 - n)) d0 (supply_of bk d0 - n)) in *.
    assert (Eb : balances bk1 = balances (set_balance bk m d0 (balance bk m d0 - n))) by reflexivity.
    assert (Hinv1 : Bank_inv bk1).
    { apply Bank_inv_intro.
      - apply (Bal_inv_balances _ _ Eb). apply set_balance_Bal_inv; assumption.
      - intros d Hd. rewrite (total_balance_balances _ _ d Eb). unfold bk1. rewrite supply_of_set_supply.
        pose proof (total_balance_set_balance_add bk m d0 (balance bk m d0 - n) d (bi_sorted _ Hinv) Hm Hd0) as T.
        pose proof (bi_supply _ Hinv d Hd) as S.
        change (supply_of (set_balance bk m d0 (balance bk m d0 - n)) d) with (supply_of bk d).
        beq d0 d; [subst d|]; lia. }
    destruct (IH _ _ Hinv1 Hr H) as (I1 & I2 & I3 & I4 & I5).
    split; [exact I1|]. split; [exact I2|]. split; [|split].
    + intros d. rewrite amount_of_cons. specialize (I3 d). unfold bk1 in I3. rewrite supply_of_set_supply in I3.
      change (supply_of (set_balance bk m d0 (balance bk m d0 - n)) d) with (supply_of bk d) in I3.
      beq d0 d; [subst d|]; lia.
    + intros d Hd. rewrite amount_of_cons. specialize (I4 d Hd).
      rewrite (balance_balances _ _ m d Eb) in I4.
      rewrite balance_set_balance in I4 by assumption. rewrite bytes_eqb_refl in I4. cbn [andb] in I4.
      beq d0 d; [subst d|]; lia.
    + intros a' d Ha' Hd Hne. rewrite (I5 a' d Ha' Hd Hne). rewrite (balance_balances _ _ a' d Eb).
      apply balance_set_balance_other; try assumption. left. congruence.
Qed.

Lemma burn_from_succeeds m : addr_ok m -> forall cs bk,
  coins_ok cs -> (forall d, denom_ok d -> amount_of cs d <= balance bk m d) ->
  exists bk', burn_from bk m cs = Some bk'.
Proof.
  intros Hm. induction cs as [|[d0 n] r IH]; intros bk Hok Hle; [eexists; reflexivity|].
  inversion Hok as [|? ? Hd0 Hr]; subst. cbn [fst] in Hd0. cbn [burn_from].
  pose proof (Hle d0 Hd0) as L0. rewrite amount_of_cons, bytes_eqb_refl in L0.
  assert (C : (balance bk m d0 <? n) = false) by (apply N.ltb_ge; lia). rewrite C.
  apply IH; [exact Hr|]. intros d Hd.
  rewrite (balance_balances (set_balance bk m d0 (balance bk m d0 - n)) _ m d) by reflexivity.
  rewrite balance_set_balance by assumption. rewrite bytes_eqb_refl. cbn [andb].
  pose proof (Hle d Hd) as L. rewrite amount_of_cons in L.
  beq d0 d; [subst d|]; lia.
Qed.

Lemma sub_coins_succeeds now a : addr_ok a -> forall cs bk,
  coins_ok cs ->
  (forall d, In d (map fst cs) -> locked bk now a d + amount_of cs d <= balance bk a d) ->
  exists bk', sub_coins bk now a cs = Some bk'.
Proof.
  intros Ha. induction cs as [|[d0 n] r IH]; intros bk Hok Hle; [eexists; reflexivity|].
  inversion Hok as [|? ? Hd0 Hr]; subst. cbn [fst] in Hd0. cbn [sub_coins]. cbv zeta.
  pose proof (Hle d0 (or_introl eq_refl)) as L0. rewrite amount_of_cons, bytes_eqb_refl in L0.
  assert (C : (balance bk a d0 <? locked bk now a d0) || (balance bk a d0 - locked bk now a d0 <? n) = false).
  { apply orb_false_iff. split; apply N.ltb_ge; lia. }
  rewrite C. apply IH; [exact Hr|]. intros d Hin.
  assert (Hd : denom_ok d).
  { apply in_map_iff in Hin as [c [<- Hc]]. unfold coins_ok in Hr. rewrite Forall_forall in Hr. apply Hr. exact Hc. }
  rewrite (locked_vestings bk (set_balance bk a d0 (balance bk a d0 - n))) by reflexivity.
  rewrite balance_set_balance by assumption. rewrite bytes_eqb_refl. cbn [andb].
  pose proof (Hle d (or_intror Hin)) as L. rewrite amount_of_cons in L.
  beq d0 d; [subst d|]; lia.
Qed.

(** * The denominations an address holds *)
Lemma In_denoms_of bk a d :
  In d (denoms_of bk a) <-> addr_ok a /\ denom_ok d /\ exists n, In (bal_key a d, n) (balances bk).
Proof.
  unfold denoms_of. rewrite in_flat_map. split.
  - intros [[k n] [Hin Hd]]. cbn [fst] in Hd.
    destruct (decode k) as [[|a' [|d' [|? ?]]]|] eqn:D; try contradiction.
    destruct (bytes_eqb a a') eqn:E; [|contradiction]. destruct Hd as [<-|[]].
    apply bytes_eqb_eq in E; subst a'. apply decode_bal_key in D as (Ha & Hd & ->). eauto.
  - intros (Ha & Hd & n & Hin). exists (bal_key a d, n). split; [exact Hin|]. cbn [fst].
    rewrite (bal_key_decode a d Ha Hd). rewrite bytes_eqb_refl. left; reflexivity.
Qed.

Lemma denoms_of_ok bk a d : In d (denoms_of bk a) -> denom_ok d.
Proof. intros H. apply In_denoms_of in H. tauto. Qed.

Lemma not_in_denoms_of bk a d : addr_ok a -> denom_ok d -> ~ In d (denoms_of bk a) -> balance bk a d = 0.
Proof.
  intros Ha Hd Hnin. unfold balance. destruct (get (bal_key a d) (balances bk)) as [n|] eqn:G; [|reflexivity].
  exfalso. apply Hnin. apply In_denoms_of. apply get_In in G. eauto.
Qed.

Lemma NoDup_denoms_of bk a : sorted (balances bk) -> NoDup (denoms_of bk a).
Proof.
  unfold denoms_of. induction (balances bk) as [|[k n] r IH]; intros Hs; cbn [flat_map]; [constructor|].
  pose proof (IH (sorted_tail _ _ Hs)) as IHr. cbn [fst].
  destruct (decode k) as [[|a' [|d' [|? ?]]]|] eqn:D; cbn [app]; try exact IHr.
  destruct (bytes_eqb a a') eqn:E; cbn [app]; [|exact IHr].
  constructor; [|exact IHr]. intros Hin. apply in_flat_map in Hin as [[k2 n2] [Hin2 Hd2]]. cbn [fst] in Hd2.
  destruct (decode k2) as [[|a2 [|d2 [|? ?]]]|] eqn:D2; try contradiction.
  destruct (bytes_eqb a a2) eqn:E2; [|contradiction]. destruct Hd2 as [<-|[]].
  apply bytes_eqb_eq in E, E2. subst a' a2.
  apply decode_sound in D, D2. rewrite D in D2. injection D2 as <-.
  pose proof (sorted_all_gt k n r Hs k n2 Hin2) as C. rewrite bytes_ltb_irrefl in C. discriminate.
Qed.

(** * Spendable coins *)
(** some locked amount exceeds its balance (then SpendableCoins is empty) *)
Definition over_locked (bk : bank) (now : Z) (a : bytes) : bool :=
  existsb (fun d => balance bk a d <? locked bk now a d) (denoms_of bk a ++ lock_denoms bk now a).

Definition spend_entry (bk : bank) (now : Z) (a d : bytes) : coins :=
  let n := balance bk a d - locked bk now a d in if n =? 0 then [] else [(d, n)].

Lemma spendable_coins_eq bk now a :
  spendable_coins bk now a = if over_locked bk now a then [] else flat_map (spend_entry bk now a) (denoms_of bk a).
Proof. reflexivity. Qed.

Lemma amount_of_spend_entry bk now a d0 d :
  amount_of (spend_entry bk now a d0) d = if bytes_eqb d0 d then balance bk a d0 - locked bk now a d0 else 0.
Proof.
  unfold spend_entry. cbv zeta. destruct (balance bk a d0 - locked bk now a d0 =? 0) eqn:Z.
  - apply N.eqb_eq in Z. rewrite Z. rewrite amount_of_nil. destruct (bytes_eqb d0 d); reflexivity.
  - rewrite amount_of_cons, amount_of_nil. destruct (bytes_eqb d0 d); lia.
Qed.

Lemma amount_of_flat_spend bk now a d : forall ds, NoDup ds ->
  amount_of (flat_map (spend_entry bk now a) ds) d
  = if in_dec bytes_eq_dec d ds then balance bk a d - locked bk now a d else 0.
Proof.
  induction ds as [|d0 r IH]; intros Hnd; [reflexivity|].
  inversion Hnd as [|? ? Hnin Hr]; subst. cbn [flat_map]. rewrite amount_of_app, amount_of_spend_entry, (IH Hr).
  destruct (in_dec bytes_eq_dec d (d0 :: r)) as [Hin|Hnin2]; destruct (in_dec bytes_eq_dec d r) as [Hin'|Hnin'].
  - beq d0 d; [subst d; contradiction|lia].
  - beq d0 d; [subst d; lia|]. destruct Hin as [Hin|Hin]; [congruence|contradiction].
  - exfalso. apply Hnin2. right. exact Hin'.
  - beq d0 d; [|lia]. exfalso. apply Hnin2. left. exact E.
Qed.

(** the amount of each denomination among the spendable coins is the unlocked part of the balance *)
Theorem spendable_is_unlocked : forall bk now a d,
  sorted (balances bk) -> addr_ok a -> denom_ok d ->
  amount_of (spendable_coins bk now a) d
  = if over_locked bk now a then 0 else balance bk a d - locked bk now a d.
Proof.
  intros bk now a d Hs Ha Hd. rewrite spendable_coins_eq. destruct (over_locked bk now a); [reflexivity|].
  rewrite amount_of_flat_spend by (apply NoDup_denoms_of; exact Hs).
  destruct (in_dec bytes_eq_dec d (denoms_of bk a)) as [Hin|Hnin]; [reflexivity|].
  rewrite (not_in_denoms_of bk a d Ha Hd Hnin). reflexivity.
Qed.

Corollary spendable_le_unlocked : forall bk now a d,
  sorted (balances bk) -> addr_ok a -> denom_ok d ->
  amount_of (spendable_coins bk now a) d <= balance bk a d - locked bk now a d.
Proof.
  intros bk now a d Hs Ha Hd. rewrite (spendable_is_unlocked bk now a d Hs Ha Hd).
  destruct (over_locked bk now a); lia.
Qed.

Lemma spendable_in bk now a d n :
  In (d, n) (spendable_coins bk now a) ->
  In d (denoms_of bk a) /\ n = balance bk a d - locked bk now a d /\ n <> 0.
Proof.
  rewrite spendable_coins_eq. destruct (over_locked bk now a); [intros []|].
  intros H. apply in_flat_map in H as [d0 [Hin H]]. unfold spend_entry in H. cbv zeta in H.
  destruct (balance bk a d0 - locked bk now a d0 =? 0) eqn:Z; [contradiction|].
  destruct H as [H|[]]. injection H as <- <-. apply N.eqb_neq in Z. auto.
Qed.

Lemma spendable_nil bk now a :
  (forall d, In d (denoms_of bk a) -> balance bk a d - locked bk now a d = 0) -> spendable_coins bk now a = [].
Proof.
  intros H. rewrite spendable_coins_eq. destruct (over_locked bk now a); [reflexivity|].
  induction (denoms_of bk a) as [|d0 r IH]; [reflexivity|]. cbn [flat_map].
  rewrite IH by (intros d Hd; apply H; right; exact Hd).
  unfold spend_entry. cbv zeta. rewrite (H d0 (or_introl eq_refl)). reflexivity.
Qed.

(** * C07: the burn address is a sink *)
Lemma burn_address_ok : addr_ok GenApp.burn_address.
Proof. unfold addr_ok. apply Nat.leb_le. vm_compute. reflexivity. Qed.
Lemma burn_module_account_ok : addr_ok GenApp.burn_module_account.
Proof. unfold addr_ok. apply Nat.leb_le. vm_compute. reflexivity. Qed.
Lemma burn_address_not_module : GenApp.burn_address <> GenApp.burn_module_account.
Proof. apply bytes_eqb_neq. vm_compute. reflexivity. Qed.

(** the end-blocker never halts the chain: the burn module account has the Burner permission *)
Theorem burn_never_halts : forall now bk, Chain.Model.burn_end_block now bk <> Panic.
Proof.
  intros now bk. unfold Chain.Model.burn_end_block. cbv zeta.
  destruct (spendable_coins bk now GenApp.burn_address) as [|c0 cs0]; [discriminate|].
  destruct (send bk now GenApp.burn_address GenApp.burn_module_account (c0 :: cs0)) as [bk1|]; [|discriminate].
  assert (Hb : negb GenApp.burn_has_burner = false) by reflexivity. rewrite Hb.
  destruct (burn_from bk1 GenApp.burn_module_account (c0 :: cs0)); discriminate.
Qed.

Theorem burn_sink : forall bk now bk',
  Bank_inv bk ->
  (forall d, balance bk GenApp.burn_module_account d = 0) ->      (* the module account is empty between blocks *)
  Chain.Model.burn_end_block now bk = Ok bk' ->
  Bank_inv bk' /\
  spendable_coins bk' now GenApp.burn_address = [] /\
  (forall d, denom_ok d ->
     supply_of bk' d = supply_of bk d - amount_of (spendable_coins bk now GenApp.burn_address) d
     /\ amount_of (spendable_coins bk now GenApp.burn_address) d <= supply_of bk d) /\
  (forall a d, addr_ok a -> denom_ok d -> a <> GenApp.burn_address -> balance bk' a d = balance bk a d) /\
  (forall d, denom_ok d ->
     balance bk' GenApp.burn_address d
     = balance bk GenApp.burn_address d - amount_of (spendable_coins bk now GenApp.burn_address) d) /\
  (forall d, balance bk' GenApp.burn_module_account d = 0).
Proof.
  intros bk now bk' Hinv Hmod Hrun.
  pose proof burn_address_ok as Ha. pose proof burn_module_account_ok as Hm.
  pose proof burn_address_not_module as Ham.
  set (a := GenApp.burn_address) in *. set (m := GenApp.burn_module_account) in *.
  pose proof (bi_sorted _ Hinv) as Hs.
  unfold Chain.Model.burn_end_block in Hrun. cbv zeta in Hrun. fold a m in Hrun.
  destruct (spendable_coins bk now a) as [|c0 cs0] eqn:Hcs.
  - (* nothing spendable: the bank is unchanged *)
    injection Hrun as <-.
    split; [exact Hinv|]. split; [exact Hcs|]. split; [|split; [|split]].
    + intros d Hd. rewrite amount_of_nil. split; lia.
    + reflexivity.
    + intros d Hd. rewrite amount_of_nil. lia.
    + exact Hmod.
  - rewrite <- Hcs in *. set (cs := spendable_coins bk now a) in *.
    (* facts about the spendable coins *)
    assert (Hov : over_locked bk now a = false).
    { destruct (over_locked bk now a) eqn:Hov; [|reflexivity].
      unfold cs in Hcs. rewrite spendable_coins_eq, Hov in Hcs. discriminate. }
    assert (Hamt : forall d, denom_ok d -> amount_of cs d = balance bk a d - locked bk now a d).
    { intros d Hd. unfold cs. rewrite (spendable_is_unlocked bk now a d Hs Ha Hd), Hov. reflexivity. }
    assert (Hin : forall d n, In (d, n) cs -> denom_ok d /\ n = balance bk a d - locked bk now a d /\ n <> 0).
    { intros d n H. apply spendable_in in H as (H1 & H2 & H3). split; [|auto]. apply (denoms_of_ok _ _ _ H1). }
    assert (Hok : coins_ok cs).
    { unfold coins_ok. apply Forall_forall. intros [d n] H. apply (Hin d n H). }
    (* the send succeeds *)
    destruct (sub_coins_succeeds now a Ha cs bk Hok) as [bk1 Hsub].
    { intros d H. apply in_map_iff in H as [[d1 n] [E H]]. cbn [fst] in E. subst d1.
      destruct (Hin d n H) as (Hd & Hn & Hn0). rewrite (Hamt d Hd). lia. }
    destruct (send bk now a m cs) as [bks|] eqn:Hsend;
      [|unfold send in Hsend; rewrite Hsub in Hsend; discriminate].
    destruct (send_spec bk now a m cs bks Hinv Ha Hm Hok Hsend) as (P1 & P2 & P3 & P4 & P5).
    specialize (P5 Ham).
    destruct (negb GenApp.burn_has_burner); [discriminate|].
    (* the burn succeeds *)
    destruct (burn_from_succeeds m Hm cs bks Hok) as [bk2 Hburn].
    { intros d Hd. destruct (P5 d Hd) as [_ Q]. rewrite Q, (Hmod d). lia. }
    rewrite Hburn in Hrun. injection Hrun as <-.
    destruct (burn_from_spec m Hm cs bks bk2 P1 Hok Hburn) as (B1 & B2 & B3 & B4 & B5).
    assert (Hmod2 : forall d, denom_ok d -> balance bk2 m d = 0).
    { intros d Hd. pose proof (B4 d Hd) as Q. destruct (P5 d Hd) as [_ Q2]. rewrite Q2, (Hmod d) in Q. lia. }
    assert (Hbal : forall d, denom_ok d -> balance bk2 a d + amount_of cs d = balance bk a d).
    { intros d Hd. rewrite (B5 a d Ha Hd Ham). apply (P5 d Hd). }
    split; [exact B1|]. split; [|split; [|split; [|split]]].
    + apply spendable_nil. intros d Hd. apply denoms_of_ok in Hd.
      rewrite (locked_vestings bk bk2) by congruence.
      pose proof (Hbal d Hd) as Q. rewrite (Hamt d Hd) in Q. lia.
    + intros d Hd. pose proof (B3 d) as Q. rewrite (supply_of_supply bk bks d P2) in Q. split; lia.
    + intros a' d Ha' Hd Hne. destruct (bytes_eq_dec a' m) as [->|Hnm].
      * rewrite (Hmod2 d Hd), (Hmod d). reflexivity.
      * rewrite (B5 a' d Ha' Hd Hnm). apply (P4 a' d Ha' Hd Hne Hnm).
    + intros d Hd. pose proof (Hbal d Hd). lia.
    + intros d. destruct (denom_ok_dec d) as [Hd|Hd]; [apply (Hmod2 d Hd)|].
      apply balance_not_ok; [apply Bank_inv_Bal; exact B1|tauto].
Qed.

(** * The repaired defect, documented by a refutation
    The original end-blocker sent ALL balances of the burn address (GetAllBalances).  When part of the
    balance is locked by a vesting entry, that send fails, so nothing is ever burned although there are
    spendable coins.  The bank below: the burn address holds 577 umed of which 500 are locked. *)
Definition umed : bytes := b "umed"%string.

Definition locked_burn_bank : bank :=
  {| balances := [(bal_key GenApp.burn_address umed, 577)];
     supply := [(umed, 577)];
     vestings := [{| v_addr := GenApp.burn_address; v_amount := [(umed, 500)]; v_end := 100%Z |}];
     accounts := [GenApp.burn_address] |}.

Lemma umed_ok : denom_ok umed.
Proof. unfold denom_ok. apply Nat.leb_le. vm_compute. reflexivity. Qed.

Lemma locked_burn_bank_inv : Bank_inv locked_burn_bank.
Proof.
  split.
  - unfold locked_burn_bank. cbn [balances sorted lb]. auto.
  - intros k n G. unfold locked_burn_bank in G. cbn [balances get] in G.
    destruct (bytes_eqb k (bal_key GenApp.burn_address umed)) eqn:E; [|discriminate].
    injection G as <-. split; [discriminate|].
    exists GenApp.burn_address, umed. split; [exact burn_address_ok|]. split; [exact umed_ok|].
    apply bytes_eqb_eq. exact E.
  - intros d Hd. unfold total_balance, supply_of, locked_burn_bank. cbn [balances supply tb get].
    rewrite (weight_bal_key d _ umed 577 burn_address_ok umed_ok). rewrite (bytes_eqb_sym d umed).
    destruct (bytes_eqb umed d); reflexivity.
Qed.

Example burn_all_balances_fails_when_locked : exists bk now,
  Bank_inv bk /\ spendable_coins bk now GenApp.burn_address <> [] /\
  send bk now GenApp.burn_address GenApp.burn_module_account
       (map (fun d => (d, balance bk GenApp.burn_address d)) (denoms_of bk GenApp.burn_address)) = None.
Proof.
  exists locked_burn_bank, 0%Z. split; [exact locked_burn_bank_inv|]. split.
  - vm_compute. discriminate.
  - vm_compute. reflexivity.
Qed.

(** with the repaired end-blocker the same bank burns exactly the 77 spendable umed *)
Example burn_spendable_succeeds_when_locked :
  match Chain.Model.burn_end_block 0%Z locked_burn_bank with
  | Ok bk' => balance bk' GenApp.burn_address umed = 500 /\ supply_of bk' umed = 500 /\
              spendable_coins bk' 0%Z GenApp.burn_address = []
  | _ => False
  end.
Proof. vm_compute. repeat split; reflexivity. Qed.

Print Assumptions bal_key_inj.
Print Assumptions balance_set_balance.
Print Assumptions total_balance_set_balance.
Print Assumptions set_balance_Bal_inv.
Print Assumptions send_conserves.
Print Assumptions send_moves.
Print Assumptions coins_eqb_spec.
Print Assumptions multi_send_conserves.
Print Assumptions multi_send_moves.
Print Assumptions burn_sink.
Print Assumptions burn_never_halts.
Print Assumptions spendable_is_unlocked.
Print Assumptions spendable_le_unlocked.
Print Assumptions burn_all_balances_fails_when_locked.
Print Assumptions burn_spendable_succeeds_when_locked.
