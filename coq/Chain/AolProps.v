(** History-level facts about x/aol, obtained by lifting the per-handler lemmas of Aol/Inv.v. *)
From Coq Require Import Strings.String Strings.Byte.
From Coq Require Import List Arith NArith ZArith Bool Lia.
From PV Require Import Base.Bytes Base.Outcome Base.KV Compkey.Model Compkey.Proofs.
From PV Require Import Aol.Model Aol.Spec Aol.Inv Valid.Aol Bank.Model Did.Model Chain.Model Chain.Run Chain.Lift.
Import ListNotations.

Definition env_ok (e : env) : Prop := unbech_wf (e_unbech e).

(** ** frame: only AOL messages touch the AOL store *)
Lemma exec_base_aol_frame e c m c' a :
  exec_base e c m = Ok (c', a) -> (forall am, m <> BAol am) -> c_aol c' = c_aol c.
Proof.
  intros H Hn. destruct m as [am|dm|pm|f t amt|f t amt et|g r u ex|g r u|f amt outs]; simpl in H.
  - exfalso. apply (Hn am). reflexivity.
  - destruct dm as [did [doc|] vmid sg from|did [doc|] vmid sg from|did vmid sg from]; simpl in H; try discriminate;
      match type of H with bind ?x _ = _ => destruct x; simpl in H; try discriminate end;
      inversion H; reflexivity.
  - unfold exec_pnft in H. match type of H with bind ?x _ = _ => destruct x; simpl in H; try discriminate end.
    inversion H; reflexivity.
  - destruct (e_unbech e f), (e_unbech e t); try discriminate.
    destruct (mem_bytes _ _); try discriminate.
    destruct (send _ _ _ _ _); try discriminate. inversion H; reflexivity.
  - destruct (e_unbech e f), (e_unbech e t); try discriminate.
    destruct (mem_bytes _ _); try discriminate.
    destruct (account_exists _ _); try discriminate.
    destruct (send _ _ _ _ _); try discriminate. inversion H; reflexivity.
  - destruct (e_unbech e g), (e_unbech e r); try discriminate.
    destruct (match ex with Some t => _ | None => false end); try discriminate. inversion H; reflexivity.
  - destruct (e_unbech e g), (e_unbech e r); try discriminate.
    destruct (find_grant _ _ _ _); try discriminate. inversion H; reflexivity.
  - destruct (e_unbech e f); try discriminate. destruct (unbech_outs _ _); try discriminate.
    destruct (existsb _ _); try discriminate.
    destruct (multi_send _ _ _ _ _); try discriminate. inversion H; reflexivity.
Qed.

Lemma ante_aol_frame e c t c' : ante e c t = Some c' -> c_aol c' = c_aol c /\ c_did c' = c_did c /\ c_grants c' = c_grants c.
Proof.
  unfold ante. destruct (required_signers e t) as [[|p rest]| |]; try discriminate.
  destruct (list_bytes_eqb _ _); try discriminate.
  destruct (tx_fee t) as [|f fs]; [intros [= <-]; auto|].
  destruct (send _ _ _ _ _); try discriminate. intros [= <-]. auto.
Qed.

(** ** one AOL message: invariant, records, acknowledgement *)
Lemma exec_aol_inv e c m c' a :
  env_ok e -> Inv (c_aol c) -> exec_aol e c m = Ok (c', a) ->
  Inv (c_aol c') /\ records_preserved (c_aol c) (c_aol c').
Proof.
  intros He Hi H. destruct m as [t d o|t mo d w o|t w o|t k v w o f]; simpl in H;
    match type of H with bind ?x _ = _ => destruct x as [r| |] eqn:Ex; simpl in H; try discriminate end;
    inversion H; subst; simpl.
  - split; [eapply create_topic_inv | eapply create_topic_records]; eauto.
  - split; [eapply add_writer_inv | eapply add_writer_records]; eauto.
  - split; [eapply delete_writer_inv | eapply delete_writer_records]; eauto.
  - destruct r as [st' n]. split; [eapply add_record_inv | eapply add_record_records]; eauto.
Qed.

Definition R_aol (c c' : chain) : Prop :=
  Inv (c_aol c) -> Inv (c_aol c') /\ records_preserved (c_aol c) (c_aol c').

Lemma records_preserved_refl st : records_preserved st st.
Proof. intros o t n v _ H. exact H. Qed.
Lemma records_preserved_trans a b c : records_preserved a b -> records_preserved b c -> records_preserved a c.
Proof. intros H1 H2 o t n v Hn H. apply (H2 o t n v Hn). apply (H1 o t n v Hn). exact H. Qed.

Lemma R_aol_same c c' : c_aol c' = c_aol c -> R_aol c c'.
Proof. intros E Hi. rewrite E. split; [exact Hi | apply records_preserved_refl]. Qed.

Theorem aol_run o bs c :
  unbech_wf (o_unbech o) -> Inv (c_aol c) ->
  Inv (c_aol (run o c bs)) /\ records_preserved (c_aol c) (c_aol (run o c bs)).
Proof.
  intros Ho Hi.
  apply (R_run R_aol env_ok); try exact Hi.
  - intros c0. apply R_aol_same. reflexivity.
  - intros a b0 c0 H1 H2 Ha. destruct (H1 Ha) as [Hb P1]. destruct (H2 Hb) as [Hc P2].
    split; [exact Hc | eapply records_preserved_trans; eauto].
  - intros e c0 m c' acks He _ Hx Ha.
    destruct m as [am|dm|pm|f t amt|f t amt et|g r u ex|g r u|f amt outs];
      try (apply (R_aol_same c0 c'); [|exact Ha]; eapply exec_base_aol_frame; [exact Hx | intros am; discriminate]).
    simpl in Hx. eapply exec_aol_inv; eauto.
  - intros e c0 t c' _ Hx. apply R_aol_same. apply (ante_aol_frame e c0 t c' Hx).
  - intros e c0 _. apply R_aol_same. reflexivity.
  - intros e c0 _. apply R_aol_same. apply end_block_custom.
  - intros t. exact Ho.
Qed.

(** the gRPC view: an answer of Query/Record, once given, is given forever *)
Theorem q_record_stable o bs c os t n v :
  unbech_wf (o_unbech o) -> Inv (c_aol c) -> (n < two64)%N ->
  q_record (o_unbech o) true (c_aol c) os t n = Ok v ->
  q_record (o_unbech o) true (c_aol (run o c bs)) os t n = Ok v.
Proof.
  intros Ho Hi Hn Hq. destruct (aol_run o bs c Ho Hi) as [_ Hp].
  unfold q_record in *. destruct (o_unbech o os) as [ow|]; [|discriminate].
  destruct (record_key ow t n) as [rk| |] eqn:Ek; simpl in *; try discriminate.
  pose proof (record_key_ok _ _ _ _ Ek) as Hs.
  destruct (get rk (c_aol c)) as [v0|] eqn:G; [|discriminate]. inversion Hq; subst v0.
  specialize (Hp ow t n v Hn). unfold lookup in Hp. rewrite Hs in Hp. rewrite (Hp G). reflexivity.
Qed.

(** ** an accepted append: acknowledged offset = number of records before; the writer is listed *)
Theorem add_record_accepted e c t k v ws os fp c' acks :
  env_ok e -> Inv (c_aol c) ->
  exec_base e c (BAol (AAddRecord t k v ws os fp)) = Ok (c', acks) ->
  exists ow w n d nw,
    e_unbech e os = Some ow /\ e_unbech e ws = Some w /\ acks = [n] /\
    topic_info (c_aol c) ow t = Some (d, n, nw) /\
    n = N.of_nat (length (records_of (c_aol c) ow t)) /\
    has_key (c_aol c) (WriterKey ow t w) = true /\
    lookup (c_aol c) (RecordKey ow t n) = None /\
    lookup (c_aol c') (RecordKey ow t n) = Some (VRecord k v (e_now e) ws) /\
    topic_info (c_aol c') ow t = Some (d, (n + 1)%N, nw).
Proof.
  intros He Hi H. simpl in H.
  destruct (add_record (e_unbech e) (e_now e) (c_aol c) t k v ws os) as [[st' n]| |] eqn:Ea; simpl in H; try discriminate.
  inversion H; subst. simpl.
  destruct (add_record_effect (e_unbech e) He (e_now e) _ _ _ _ _ _ _ _ Hi Ea) as [ow [w [d [nw [H1 [H2 [H3 [H4 [H5 [H6 [H7 H8]]]]]]]]]]].
  exists ow, w, n, d, nw. repeat split; assumption.
Qed.

(** ** who may change what (C02) *)
Definition aol_msg_of (m : base_msg) : option aol_msg := match m with BAol a => Some a | _ => None end.

(** the writer list of a topic changes only through AddWriter / DeleteWriter naming exactly that
    (owner, topic, writer), and such a message is signed by the owner *)
Theorem writers_change_only_by_owner e c m c' acks ow t w :
  env_ok e -> Inv (c_aol c) -> exec_base e c m = Ok (c', acks) ->
  has_key (c_aol c') (WriterKey ow t w) <> has_key (c_aol c) (WriterKey ow t w) ->
  exists ws os, e_unbech e os = Some ow /\ e_unbech e ws = Some w /\ signers_base e m = Ok [ow] /\
    ((exists mo d, m = BAol (AAddWriter t mo d ws os)) \/ m = BAol (ADeleteWriter t ws os)).
Proof.
  intros He Hi Hx Hne.
  destruct m as [am|dm|pm|f tt amt|f tt amt et|g r u ex|g r u|f amt outs];
    try (exfalso; apply Hne; rewrite (exec_base_aol_frame e c _ c' acks Hx); [reflexivity | intros am; discriminate]).
  simpl in Hx.
  destruct am as [t0 d o|t0 mo d ws os|t0 ws os|t0 k v ws os f]; simpl in Hx;
    match type of Hx with bind ?x _ = _ => destruct x as [r| |] eqn:Ex; simpl in Hx; try discriminate end;
    inversion Hx; subst; simpl in Hne.
  - exfalso. apply Hne. apply (create_topic_writers (e_unbech e) He _ _ _ _ _ Hi Ex).
  - destruct (add_writer_effect (e_unbech e) He (e_now e) _ _ _ _ _ _ _ Hi Ex) as [o1 [w1 [H1 [H2 [H3 [H4 H5]]]]]].
    destruct (list_eq_dec Byte.byte_eq_dec ow o1) as [->|N1];
      [destruct (list_eq_dec Byte.byte_eq_dec t t0) as [->|N2];
       [destruct (list_eq_dec Byte.byte_eq_dec w w1) as [->|N3]|]|].
    + exists ws, os. split; [exact H1|]. split; [exact H2|]. split.
      * simpl. unfold addr_or_panic. rewrite H1. reflexivity.
      * left. exists mo, d. reflexivity.
    + exfalso. apply Hne. apply H5. intros E. inversion E. contradiction.
    + exfalso. apply Hne. apply H5. intros E. inversion E. contradiction.
    + exfalso. apply Hne. apply H5. intros E. inversion E. contradiction.
  - destruct (delete_writer_effect (e_unbech e) He _ _ _ _ _ Hi Ex) as [o1 [w1 [H1 [H2 [H3 [H4 H5]]]]]].
    destruct (list_eq_dec Byte.byte_eq_dec ow o1) as [->|N1];
      [destruct (list_eq_dec Byte.byte_eq_dec t t0) as [->|N2];
       [destruct (list_eq_dec Byte.byte_eq_dec w w1) as [->|N3]|]|].
    + exists ws, os. split; [exact H1|]. split; [exact H2|]. split.
      * simpl. unfold addr_or_panic. rewrite H1. reflexivity.
      * right. reflexivity.
    + exfalso. apply Hne. apply H5. intros E. inversion E. contradiction.
    + exfalso. apply Hne. apply H5. intros E. inversion E. contradiction.
    + exfalso. apply Hne. apply H5. intros E. inversion E. contradiction.
  - destruct r as [st' n]. exfalso. apply Hne. apply (add_record_writers (e_unbech e) He (e_now e) _ _ _ _ _ _ _ _ Hi Ex).
Qed.

(** a topic appears only through CreateTopic, under the address that signs that message *)
Theorem topic_created_under_signer e c m c' acks ow t :
  env_ok e -> Inv (c_aol c) -> exec_base e c m = Ok (c', acks) ->
  has_key (c_aol c') (TopicKey ow t) <> has_key (c_aol c) (TopicKey ow t) ->
  exists d os, m = BAol (ACreateTopic t d os) /\ e_unbech e os = Some ow /\ signers_base e m = Ok [ow].
Proof.
  intros He Hi Hx Hne.
  destruct m as [am|dm|pm|f tt amt|f tt amt et|g r u ex|g r u|f amt outs];
    try (exfalso; apply Hne; rewrite (exec_base_aol_frame e c _ c' acks Hx); [reflexivity | intros am; discriminate]).
  simpl in Hx.
  destruct am as [t0 d o|t0 mo d ws os|t0 ws os|t0 k v ws os f]; simpl in Hx;
    match type of Hx with bind ?x _ = _ => destruct x as [r| |] eqn:Ex; simpl in Hx; try discriminate end;
    inversion Hx; subst; simpl in Hne.
  - destruct (create_topic_effect (e_unbech e) He _ _ _ _ _ Hi Ex) as [o1 [H1 [H2 [H3 H4]]]].
    destruct (list_eq_dec Byte.byte_eq_dec ow o1) as [->|N1];
      [destruct (list_eq_dec Byte.byte_eq_dec t t0) as [->|N2]|].
    + exists d, o. split; [reflexivity|]. split; [exact H1|]. simpl. unfold addr_or_panic. rewrite H1. reflexivity.
    + exfalso. apply Hne. apply H4. intros E. inversion E. contradiction.
    + exfalso. apply Hne. apply H4. intros E. inversion E. contradiction.
  - exfalso. apply Hne. apply (add_writer_topics (e_unbech e) He (e_now e) _ _ _ _ _ _ _ Hi Ex).
  - exfalso. apply Hne. apply (delete_writer_topics (e_unbech e) He _ _ _ _ _ Hi Ex).
  - destruct r as [st' n]. exfalso. apply Hne. apply (add_record_topics (e_unbech e) He (e_now e) _ _ _ _ _ _ _ _ Hi Ex).
Qed.

(** removing a writer takes effect at once *)
Theorem delete_writer_immediate e c t ws os c' acks :
  env_ok e -> Inv (c_aol c) -> exec_base e c (BAol (ADeleteWriter t ws os)) = Ok (c', acks) ->
  exists ow w, e_unbech e os = Some ow /\ e_unbech e ws = Some w /\ has_key (c_aol c') (WriterKey ow t w) = false.
Proof.
  intros He Hi Hx. simpl in Hx.
  destruct (delete_writer (e_unbech e) (c_aol c) t ws os) as [st'| |] eqn:Ex; simpl in Hx; try discriminate.
  inversion Hx; subst. simpl.
  destruct (delete_writer_effect (e_unbech e) He _ _ _ _ _ Hi Ex) as [o1 [w1 [H1 [H2 [H3 [H4 H5]]]]]].
  exists o1, w1. auto.
Qed.

(** ** the signatures on an accepted transaction are those of the signers of its messages *)
Lemma fold_seen_incl (ss : list bytes) : forall seen x,
  In x seen \/ In x ss -> In x (fold_left (fun acc a => if mem_bytes a acc then acc else a :: acc) ss seen).
Proof.
  induction ss as [|s r IH]; intros seen x H; simpl.
  - destruct H as [H|[]]. exact H.
  - apply IH. destruct H as [H|[H|H]].
    + left. destruct (mem_bytes s seen); [exact H | right; exact H].
    + subst s. left. destruct (mem_bytes x seen) eqn:M; [|left; reflexivity].
      unfold mem_bytes in M. apply existsb_exists in M as [y [Hy E]]. apply bytes_eqb_eq in E. subst y. exact Hy.
    + right. exact H.
Qed.

Lemma tx_signers_acc_incl e : forall ms seen out,
  tx_signers_acc e ms seen = Ok out ->
  (forall x, In x seen -> In x out) /\
  (forall m ss x, In m ms -> signers e m = Ok ss -> In x ss -> In x out).
Proof.
  induction ms as [|m r IH]; intros seen out H; simpl in H.
  - inversion H; subst. split; [intros x Hx; apply in_rev in Hx; exact Hx | intros m ss x []].
  - destruct (signers e m) as [ss0| |] eqn:Es; simpl in H; try discriminate.
    destruct (IH _ _ H) as [H1 H2]. split.
    + intros x Hx. apply H1. apply fold_seen_incl. left. exact Hx.
    + intros m' ss x [->|Hin] Hs Hx.
      * rewrite Es in Hs. inversion Hs; subst. apply H1. apply fold_seen_incl. right. exact Hx.
      * apply (H2 m' ss x Hin Hs Hx).
Qed.

Lemma list_bytes_eqb_eq x : forall y, list_bytes_eqb x y = true -> x = y.
Proof.
  induction x as [|a x IH]; intros [|c y]; simpl; intros H; try discriminate; [reflexivity|].
  apply andb_true_iff in H as [H1 H2]. apply bytes_eqb_eq in H1. subst. f_equal. apply IH. exact H2.
Qed.

(** every signer of every message of an accepted transaction has signed it *)
Theorem ante_all_signers_signed e c t c1 m ss x :
  ante e c t = Some c1 -> In m (tx_msgs t) -> signers e m = Ok ss -> In x ss -> In x (tx_signed_by t).
Proof.
  unfold ante, required_signers. intros H Hm Hs Hx.
  destruct (tx_signers_acc e (tx_msgs t) []) as [[|p rest]| |] eqn:Er; try discriminate.
  destruct (list_bytes_eqb (tx_signed_by t) (p :: rest)) eqn:El; try discriminate.
  apply list_bytes_eqb_eq in El. rewrite El.
  destruct (tx_signers_acc_incl e _ _ _ Er) as [_ H2]. apply (H2 m ss x Hm Hs Hx).
Qed.

(** the delegation rule: a message inside MsgExec runs only for its single signer, who is the
    grantee or has an unexpired grant for this message type to the grantee *)
Theorem dispatch_step e c g m r acks0 res :
  dispatch e c g (m :: r) acks0 = Ok res ->
  exists granter c1 a1,
    signers_base e m = Ok [granter] /\
    (granter = g \/ exists gr, find_grant (c_grants c) granter g (type_url m) = Some gr /\
                                match gr_exp gr with Some t => (t <? e_now e)%Z = false | None => True end) /\
    exec_base e c m = Ok (c1, a1) /\ dispatch e c1 g r (acks0 ++ a1) = Ok res.
Proof.
  simpl. intros H.
  destruct (signers_base e m) as [ss| |] eqn:Es; simpl in H; try discriminate.
  destruct ss as [|granter [|x xs]]; try discriminate.
  destruct (bytes_eqb granter g) eqn:Eg.
  - apply bytes_eqb_eq in Eg. subst g. simpl in H.
    destruct (exec_base e c m) as [[c1 a1]| |] eqn:Ex; simpl in H; try discriminate.
    exists granter, c1, a1. auto.
  - destruct (find_grant (c_grants c) granter g (type_url m)) as [gr|] eqn:Ef; simpl in H; try discriminate.
    destruct (gr_exp gr) as [tm|] eqn:Eexp.
    + destruct (tm <? e_now e)%Z eqn:Et; simpl in H; try discriminate.
      destruct (exec_base e c m) as [[c1 a1]| |] eqn:Ex; simpl in H; try discriminate.
      exists granter, c1, a1. split; [reflexivity|]. split; [right; exists gr; rewrite Eexp; auto|]. auto.
    + simpl in H. destruct (exec_base e c m) as [[c1 a1]| |] eqn:Ex; simpl in H; try discriminate.
      exists granter, c1, a1. split; [reflexivity|]. split; [right; exists gr; rewrite Eexp; auto|]. auto.
Qed.

(** ** a transaction that is not accepted leaves the custom-module state as it was *)
Theorem reject_is_noop e c t :
  (forall acks, snd (deliver_tx e c t) <> ROk acks) ->
  c_aol (fst (deliver_tx e c t)) = c_aol c /\ c_did (fst (deliver_tx e c t)) = c_did c.
Proof.
  unfold deliver_tx. intros H.
  destruct (tx_msgs t) as [|m0 r0]; [auto|].
  destruct (vb_msgs e (m0 :: r0)) as [[]| |]; cbn [fst]; auto.
  destruct (ante e c t) as [c1|] eqn:Ea; cbn [fst]; auto.
  destruct (ante_aol_frame e c t c1 Ea) as [A [D _]].
  destruct (run_msgs e c1 (m0 :: r0) 0 []) as [c2 res] eqn:Er.
  destruct res; cbn [fst snd] in *; auto. exfalso. apply (H acks). reflexivity.
Qed.

(** ** counters (C13): at every reachable state the reported numbers are the counted contents *)
Theorem counters_exact o bs c :
  unbech_wf (o_unbech o) -> Inv (c_aol c) ->
  let st := c_aol (run o c bs) in
  (forall ow n, owner_total st ow = Some n -> n = N.of_nat (length (topics_of st ow))) /\
  (forall ow t d nr nw, topic_info st ow t = Some (d, nr, nw) ->
      nw = N.of_nat (length (writers_of st ow t)) /\ nr = N.of_nat (length (records_of st ow t)) /\
      (forall n, (n < two64)%N -> (has_key st (RecordKey ow t n) = true <-> (n < nr)%N))).
Proof.
  intros Ho Hi st. destruct (aol_run o bs c Ho Hi) as [Hinv _]. fold st in Hinv.
  split.
  - intros ow n H. apply (inv_owner_count st Hinv ow n H).
  - intros ow t d nr nw H. split; [apply (inv_writer_count st Hinv ow t d nr nw H)|].
    split; [apply (inv_record_count st Hinv ow t d nr nw H)|].
    apply (inv_record_dense st Hinv ow t d nr nw H).
Qed.
