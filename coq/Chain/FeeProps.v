(** C15: custom-module transactions move no coins except the fee, charged to the fee payer; all-or-nothing. *)
From Coq Require Import Strings.String Strings.Byte.
From Coq Require Import List Arith NArith ZArith Bool Lia.
From PV Require Import Base.Bytes Base.Outcome Base.KV Compkey.Model.
From PV Require Import Aol.Model Valid.Aol Bank.Model Did.Model Pnft.Model.
From PV Require Import Chain.Model Chain.Run Chain.AolProps Chain.DidProps Chain.PnftProps.
Import ListNotations.

Definition custom_base (m : base_msg) : bool :=
  match m with BAol _ | BDid _ | BPnft _ => true | _ => false end.
Definition custom_msg (m : msg) : bool :=
  match m with MBase bm => custom_base bm | MExec _ inner => forallb custom_base inner end.

(** the handlers of the three custom modules never touch the bank (nor the authz grants) *)
Lemma exec_custom_bank e c m c' a :
  custom_base m = true -> exec_base e c m = Ok (c', a) -> c_bank c' = c_bank c /\ c_grants c' = c_grants c.
Proof.
  intros Hc H. destruct m as [am|dm|pm|f t amt|f t amt et|g r u ex|g r u|f amt outs]; try discriminate; simpl in H.
  - destruct am as [t d o|t mo d w o|t w o|t k v w o f]; simpl in H;
      match type of H with bind ?x _ = _ => destruct x; simpl in H; try discriminate end;
      inversion H; split; reflexivity.
  - destruct dm as [did [doc|] vmid sg from|did [doc|] vmid sg from|did vmid sg from]; simpl in H; try discriminate;
      match type of H with bind ?x _ = _ => destruct x; simpl in H; try discriminate end;
      inversion H; split; reflexivity.
  - unfold exec_pnft in H. match type of H with bind ?x _ = _ => destruct x; simpl in H; try discriminate end.
    inversion H; split; reflexivity.
Qed.

Lemma dispatch_custom_bank e g : forall ms c acks0 c' acks,
  forallb custom_base ms = true -> dispatch e c g ms acks0 = Ok (c', acks) -> c_bank c' = c_bank c.
Proof.
  induction ms as [|m r IH]; intros c acks0 c' acks Hc H; simpl in H.
  - inversion H; reflexivity.
  - simpl in Hc. apply andb_true_iff in Hc as [Hm Hr].
    destruct (signers_base e m) as [ss| |]; simpl in H; try discriminate.
    destruct ss as [|granter [|x xs]]; try discriminate.
    match type of H with bind ?a _ = _ => destruct a as [[]| |]; simpl in H; try discriminate end.
    destruct (exec_base e c m) as [[c1 a1]| |] eqn:Ex; simpl in H; try discriminate.
    destruct (exec_custom_bank e c m c1 a1 Hm Ex) as [E _].
    rewrite (IH c1 _ c' acks Hr H). exact E.
Qed.

Lemma exec_msg_custom_bank e c m c' a :
  custom_msg m = true -> exec_msg e c m = Ok (c', a) -> c_bank c' = c_bank c.
Proof.
  destruct m as [bm|g inner]; simpl; intros Hc H.
  - apply (exec_custom_bank e c bm c' a Hc H).
  - destruct (e_unbech e g) as [ga|]; [|discriminate]. apply (dispatch_custom_bank e ga inner c [] c' a Hc H).
Qed.

Lemma run_msgs_custom_bank e : forall ms c idx acks,
  forallb custom_msg ms = true -> c_bank (fst (run_msgs e c ms idx acks)) = c_bank c.
Proof.
  induction ms as [|m r IH]; intros c idx acks Hc; simpl; [reflexivity|].
  simpl in Hc. apply andb_true_iff in Hc as [Hm Hr].
  destruct (exec_msg e c m) as [[c1 a]| |] eqn:Ex; simpl; try reflexivity.
  rewrite (IH c1 _ _ Hr). apply (exec_msg_custom_bank e c m c1 a Hm Ex).
Qed.

(** the bank after a transaction made only of custom-module messages: the bank after the ante handler
    if that accepted (whatever the messages did), the old bank otherwise *)
Theorem custom_tx_bank e c t :
  forallb custom_msg (tx_msgs t) = true ->
  c_bank (fst (deliver_tx e c t)) =
    match tx_msgs t, vb_msgs e (tx_msgs t), ante e c t with
    | _ :: _, Ok _, Some c1 => c_bank c1
    | _, _, _ => c_bank c
    end.
Proof.
  intros Hc. unfold deliver_tx. destruct (tx_msgs t) as [|m0 r0] eqn:Em; [reflexivity|].
  destruct (vb_msgs e (m0 :: r0)) as [[]| |]; cbn [fst]; try reflexivity.
  destruct (ante e c t) as [c1|] eqn:Ea; cbn [fst]; [|reflexivity].
  pose proof (run_msgs_custom_bank e (m0 :: r0) c1 0 [] Hc) as Hb.
  destruct (run_msgs e c1 (m0 :: r0) 0 []) as [c2 res]. cbn [fst] in Hb.
  destruct res; cbn [fst]; try reflexivity. exact Hb.
Qed.

(** what the ante handler does to the bank: nothing, or exactly one transfer of the declared fee from the
    first required signer to the fee collector *)
Theorem ante_moves_fee e c t c1 :
  ante e c t = Some c1 ->
  exists payer rest, required_signers e t = Ok (payer :: rest) /\ tx_signed_by t = payer :: rest /\
    (tx_fee t = [] /\ c_bank c1 = c_bank c \/
     tx_fee t <> [] /\ send (c_bank c) (e_now e) payer (e_fee_collector e) (tx_fee t) = Some (c_bank c1)).
Proof.
  unfold ante. destruct (required_signers e t) as [[|payer rest]| |] eqn:Er; try discriminate.
  destruct (list_bytes_eqb (tx_signed_by t) (payer :: rest)) eqn:El; try discriminate.
  apply list_bytes_eqb_eq in El. intros H. exists payer, rest. split; [reflexivity|]. split; [exact El|].
  destruct (tx_fee t) as [|f fs] eqn:Ef.
  - left. inversion H. auto.
  - right. split; [discriminate|]. destruct (send (c_bank c) (e_now e) payer (e_fee_collector e) (f :: fs)) as [bk|]; [|discriminate].
    inversion H. reflexivity.
Qed.

(** the fee payer of an add-record transaction that names one is that address, never the writer *)
Theorem addrecord_payer e t topic k v w o fp r fpa :
  tx_msgs t = MBase (BAol (AAddRecord topic k v w o fp)) :: r -> fp <> [] -> e_unbech e fp = Some fpa ->
  forall l, required_signers e t = Ok l -> exists rest, l = fpa :: rest.
Proof.
  intros Em Hne Hfp l Hl. unfold required_signers in Hl. rewrite Em in Hl. simpl in Hl.
  destruct (addr_or_panic e w) as [wa| |] eqn:Ew; simpl in Hl; try discriminate.
  destruct fp as [|c0 fp']; [contradiction|].
  unfold addr_or_panic in Hl at 1. rewrite Hfp in Hl. simpl in Hl.
  (* the accumulator now holds fpa first (and wa if different); the rest only appends *)
  assert (Hgen : forall ms seen out, tx_signers_acc e ms seen = Ok out -> forall x, In x seen -> In x out /\ True).
  { intros ms seen out H x Hx. split; [|exact I]. destruct (tx_signers_acc_incl e ms seen out H) as [H1 _]. apply H1. exact Hx. }
  clear Hgen.
  assert (Hhead : forall ms seen out, tx_signers_acc e ms seen = Ok out -> forall h, last seen h = h -> seen <> [] -> exists rest, out = h :: rest).
  { induction ms as [|m ms IH]; intros seen out H h Hlast Hne0; simpl in H.
    - inversion H; subst. destruct seen as [|s0 seen'] using rev_ind; [contradiction|].
      rewrite last_last in Hlast. subst s0. rewrite rev_app_distr. simpl. eexists; reflexivity.
    - destruct (signers e m) as [ss| |]; simpl in H; try discriminate.
      apply (IH _ _ H h).
      + clear H IH. revert seen Hlast Hne0. induction ss as [|s ss IHs]; intros seen Hlast Hne0; simpl; [exact Hlast|].
        apply IHs.
        * destruct (mem_bytes s seen); [exact Hlast|]. destruct seen as [|s1 seen1]; [contradiction|]. simpl. exact Hlast.
        * destruct (mem_bytes s seen); [exact Hne0 | discriminate].
      + clear H IH. revert seen Hne0 Hlast. induction ss as [|s ss IHs]; intros seen Hne0 Hlast; simpl; [exact Hne0|].
        apply IHs.
        * destruct (mem_bytes s seen); [exact Hne0 | discriminate].
        * destruct (mem_bytes s seen); [exact Hlast|]. destruct seen as [|s1 seen1]; [contradiction|]. simpl. exact Hlast. }
  destruct (bytes_eqb wa fpa || false); apply (Hhead _ _ _ Hl fpa); try reflexivity; discriminate.
Qed.

(** all-or-nothing: if the transaction is not accepted, the custom-module state is untouched *)
Theorem custom_state_atomic e c t :
  (forall acks, snd (deliver_tx e c t) <> ROk acks) ->
  c_aol (fst (deliver_tx e c t)) = c_aol c /\ c_did (fst (deliver_tx e c t)) = c_did c /\
  c_pnft (fst (deliver_tx e c t)) = c_pnft c.
Proof.
  intros H. destruct (reject_is_noop e c t H) as [A D]. split; [exact A|]. split; [exact D|].
  apply refused_is_noop_pnft. exact H.
Qed.

(** the supply is never changed by a transaction of custom-module messages *)
Lemma sub_coins_supply : forall cs bk now a bk', sub_coins bk now a cs = Some bk' -> supply bk' = supply bk.
Proof.
  induction cs as [|[d n] r IH]; intros bk now a bk' H; simpl in H; [inversion H; reflexivity|].
  destruct ((balance bk a d <? locked bk now a d)%N || (balance bk a d - locked bk now a d <? n)%N); [discriminate|].
  rewrite (IH _ _ _ _ H). reflexivity.
Qed.
Lemma add_coins_supply : forall cs bk a, supply (add_coins bk a cs) = supply bk.
Proof. induction cs as [|[d n] r IH]; intros bk a; simpl; [reflexivity|]. rewrite IH. reflexivity. Qed.
Lemma send_supply bk now f t cs bk' : send bk now f t cs = Some bk' -> supply bk' = supply bk.
Proof.
  unfold send. destruct (sub_coins bk now f cs) as [bk1|] eqn:E; [|discriminate]. intros [= <-].
  unfold add_account. destruct (account_exists _ _); simpl; rewrite add_coins_supply; apply (sub_coins_supply _ _ _ _ _ E).
Qed.

Theorem custom_tx_supply e c t :
  forallb custom_msg (tx_msgs t) = true -> supply (c_bank (fst (deliver_tx e c t))) = supply (c_bank c).
Proof.
  intros Hc. rewrite (custom_tx_bank e c t Hc).
  destruct (tx_msgs t) as [|m0 r0]; [reflexivity|].
  destruct (vb_msgs e (m0 :: r0)) as [[]| |]; try reflexivity.
  destruct (ante e c t) as [c1|] eqn:Ea; [|reflexivity].
  destruct (ante_moves_fee e c t c1 Ea) as [payer [rest [_ [_ [[_ E]|[_ E]]]]]].
  - rewrite E. reflexivity.
  - apply (send_supply _ _ _ _ _ _ E).
Qed.
