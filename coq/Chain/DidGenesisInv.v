(** C11 / C05 at the start of a chain: a DID genesis that passes GenesisState.Validate (as repaired, finding F14) puts the
    registry into the state the history theorems start from — every entry is a tombstone or a document about the DID it
    is stored under — whereas the original validation let a document about another identifier through. *)
From Coq Require Import Strings.String Strings.Byte.
From Coq Require Import List Arith NArith ZArith Bool Lia.
From PV Require Import Base.Bytes Base.Base64 Base.Base64Proofs Base.Outcome Base.KV Did.Model Did.Props.
From PV Require Import Chain.Model Chain.Run Chain.DidProps Chain.ExampleDid.
Import ListNotations.

Lemma valid_entry_ok did e : validate_did_entry true (did, e) = true -> entry_ok did e.
Proof.
  unfold validate_did_entry. cbn [fst snd negb orb].
  destruct (validate_did did) eqn:Hv; [|discriminate]. cbn [andb].
  destruct (en_doc e) as [d|] eqn:Hd; [|discriminate].
  destruct (doc_valid_json d); [|discriminate]. cbn [andb].
  intros H. exists d. split; [exact Hd|].
  apply orb_true_iff in H as [H|H].
  - right. unfold entry_deactivated in H. rewrite Hd in H. apply andb_true_iff in H as [H1 H2].
    split; [exact H1|]. apply negb_true_iff in H2. apply N.eqb_neq. exact H2.
  - left. apply bytes_eqb_eq in H. split; [exact H | apply validate_did_nonempty; exact Hv].
Qed.

Lemma init_did_inv : forall g s0, Inv_did s0 -> validate_did_genesis g = true -> Inv_did (init_did g s0).
Proof.
  induction g as [|[did e] r IH]; intros s0 HI Hv; [exact HI|].
  unfold validate_did_genesis, validate_did_genesis_gen in Hv. cbn [forallb] in Hv.
  apply andb_true_iff in Hv as [He Hr]. cbn [init_did]. apply IH; [|exact Hr].
  apply Inv_did_set; [exact HI | apply valid_entry_ok; exact He].
Qed.

(** InitGenesis of a validated genesis establishes the registry invariant *)
Theorem did_genesis_establishes_inv g : validate_did_genesis g = true -> Inv_did (init_did g []).
Proof. apply init_did_inv. exact Inv_did_empty. Qed.

(** hence, after any history that starts from a validated genesis, a DID resolves to a document about itself *)
Theorem did_genesis_then_history_resolves o bs c g did doc seq :
  validate_did_genesis g = true -> c_did c = init_did g [] ->
  q_did (c_did (run o c bs)) did = DFound doc seq -> doc_id doc = did.
Proof.
  intros Hv Hc. apply resolves_to_itself_along_histories. rewrite Hc. apply did_genesis_establishes_inv. exact Hv.
Qed.

(** every sequence a validated genesis can carry is a uint64 by construction of the file format; with the guard of F15
    an accepted proof over sequence [s] has [s <> max_seq], so the successor [s + 1] is again a uint64: the unbounded
    [N] of the model and the uint64 of the code never part *)
Lemma accepted_sequence_stays_uint64 b58key verify data s doc vmid sig n :
  (s <= max_seq)%N -> verify_ownership b58key verify marshal_doc data s doc vmid sig = Ok n -> (n = s + 1 /\ n <= max_seq)%N.
Proof.
  intros Hs H. pose proof (verify_ownership_below_max _ _ _ _ _ _ _ _ H) as Hm.
  apply verify_ownership_ok in H as [_ ->]. split; [reflexivity | lia].
Qed.

(** the original validation (strict = false) accepted a document filed under another identifier: the read operation
    for D1 then returns a document about someone else *)
Definition D2 : bytes := b "did:panacea:22222222222222222222222222222222".
Definition foreign_genesis : did_genesis := [(D2, {| en_doc := Some (doc_with K1); en_seq := 0 |})].

Theorem did_genesis_lenient_refuted :
  validate_did_genesis_gen false foreign_genesis = true /\
  validate_did_genesis foreign_genesis = false /\
  exists doc seq, q_did (init_did foreign_genesis []) D2 = DFound doc seq /\ doc_id doc <> D2.
Proof.
  split; [vm_compute; reflexivity|]. split; [vm_compute; reflexivity|].
  exists (doc_with K1), 0%N. split; [vm_compute; reflexivity | discriminate].
Qed.

(** non-vacuity: a genesis with a document under its own DID and a tombstone passes the repaired validation *)
Example did_genesis_nonvacuous :
  validate_did_genesis [(D1, {| en_doc := Some (doc_with K1); en_seq := 256 |}); (D2, {| en_doc := Some empty_doc; en_seq := 3 |})] = true.
Proof. vm_compute. reflexivity. Qed.

(** * the read operation as clients call it: the did_base64 field *)

(** a well-formed request — the standard base64 encoding of a DID — reads exactly that DID *)
Theorem q_did64_wellformed st did : q_did64 st (base64 did) = Some (q_did st did).
Proof. unfold q_did64. rewrite b64_decode_base64. reflexivity. Qed.

(** whatever the field holds: a document is returned only for a field that decodes, and it is about the decoded identifier *)
Theorem q_did64_about_the_request st raw doc seq :
  Inv_did st -> q_did64 st raw = Some (DFound doc seq) ->
  exists did, b64_decode raw = Some did /\ doc_id doc = did.
Proof.
  intros HI H. unfold q_did64 in H. destruct (b64_decode raw) as [did|] eqn:E; [|discriminate].
  cbn [option_map] in H. injection H as H. exists did. split; [reflexivity|].
  exact (resolves_to_itself _ did doc seq HI H).
Qed.

(** a field that does not decode is refused, never looked up under a part of it *)
Theorem q_did64_malformed_refused st raw : b64_decode raw = None -> q_did64 st raw = None.
Proof. intros E. unfold q_did64. rewrite E. reflexivity. Qed.

Example q_did64_unpadded_refused : forall st, q_did64 st (b "ZGlkOnBhbmFjZWE6MTExMTExMTExMTExMTExMTExMTExMTExMTExMTExMTExMQ") = None.
Proof. intros st. reflexivity. Qed.
