(** History-level facts about x/did: control (C03), sequence and replay (C04), create-once and
    tombstones (C05), a DID resolves to a document about itself (C11). *)
From Coq Require Import Strings.String Strings.Byte.
From Coq Require Import List Arith NArith ZArith Bool Lia.
From PV Require Import Base.Bytes Base.Outcome Base.KV Proto.Model Proto.Proofs.
From PV Require Import Aol.Model Valid.Aol Bank.Model Did.Model Did.Props Chain.Model Chain.Run Chain.Lift.
Import ListNotations.
Local Open Scope N_scope.

(** ** frame: only DID messages touch the DID registry *)
Lemma exec_base_did_frame e c m c' a :
  exec_base e c m = Ok (c', a) -> (forall dm, m <> BDid dm) -> c_did c' = c_did c.
Proof.
  intros H Hn. destruct m as [am|dm|pm|f t amt|f t amt et|g r u ex|g r u|f amt outs]; simpl in H.
  - destruct am as [t d o|t mo d w o|t w o|t k v w o f]; simpl in H;
      match type of H with bind ?x _ = _ => destruct x; simpl in H; try discriminate end;
      inversion H; reflexivity.
  - exfalso. apply (Hn dm). reflexivity.
  - unfold exec_pnft in H. match type of H with bind ?x _ = _ => destruct x; simpl in H; try discriminate end.
    inversion H; reflexivity.
  - destruct (e_unbech e f), (e_unbech e t); try discriminate.
    destruct (mem_bytes _ _); try discriminate.
    destruct (send _ _ _ _ _); try discriminate. inversion H; reflexivity.
  - destruct (e_unbech e f), (e_unbech e t); try discriminate.
    destruct (mem_bytes _ _); try discriminate.
    destruct (account_exists _ _); try discriminate.
    destruct (send _ _ _ _ _); try discriminate. inversion H; reflexivity.
  - destruct (e_unbech e g), (e_unbech e r); try discriminate.
    destruct (match ex with Some t => _ | None => false end); try discriminate. inversion H; reflexivity.
  - destruct (e_unbech e g), (e_unbech e r); try discriminate.
    destruct (find_grant _ _ _ _); try discriminate. inversion H; reflexivity.
  - destruct (e_unbech e f); try discriminate. destruct (unbech_outs _ _); try discriminate.
    destruct (existsb _ _); try discriminate.
    destruct (multi_send _ _ _ _ _); try discriminate. inversion H; reflexivity.
Qed.

Lemma ante_did_frame e c t c' : ante e c t = Some c' -> c_did c' = c_did c.
Proof.
  unfold ante. destruct (required_signers e t) as [[|p rest]| |]; try discriminate.
  destruct (list_bytes_eqb _ _); try discriminate.
  destruct (tx_fee t) as [|f fs]; [intros [= <-]; auto|].
  destruct (send _ _ _ _ _); try discriminate. intros [= <-]. auto.
Qed.

(** ** monotone history of one registry: entries never disappear, sequences never decrease,
    tombstones stay *)
Definition did_mono (st st' : did_state) : Prop :=
  forall did,
    (entry_empty (get_entry st did) = false ->
       entry_empty (get_entry st' did) = false /\ en_seq (get_entry st did) <= en_seq (get_entry st' did)) /\
    (entry_deactivated (get_entry st did) = true -> entry_deactivated (get_entry st' did) = true).

Lemma did_mono_refl st : did_mono st st.
Proof. intros did. split; [intros H; split; [exact H | lia] | auto]. Qed.

Lemma did_mono_trans a b c : did_mono a b -> did_mono b c -> did_mono a c.
Proof.
  intros H1 H2 did. destruct (H1 did) as [A1 A2]. destruct (H2 did) as [B1 B2]. split.
  - intros H. destruct (A1 H) as [E1 L1]. destruct (B1 E1) as [E2 L2]. split; [exact E2 | lia].
  - intros H. apply B2. apply A2. exact H.
Qed.

Lemma deactivated_not_empty e : entry_deactivated e = true -> entry_empty e = false.
Proof.
  unfold entry_deactivated, entry_empty. destruct (en_doc e) as [d|]; [|discriminate].
  intros H. apply andb_true_iff in H as [H1 H2]. rewrite H1. simpl. apply negb_true_iff in H2. exact H2.
Qed.

(** replacing the entry of [did] by a non-empty, non-older one is monotone provided the old entry
    was not a tombstone *)
Lemma did_mono_set st did e :
  entry_empty e = false -> en_seq (get_entry st did) <= en_seq e ->
  entry_deactivated (get_entry st did) = false ->
  did_mono st (set (did_key did) e st).
Proof.
  intros He Hs Hd did'. destruct (bytes_eq_dec did' did) as [->|Hne].
  - rewrite get_entry_set_same. split; [intros _; auto | rewrite Hd; discriminate].
  - rewrite get_entry_set_other by exact Hne. split; [intros H; split; [exact H | lia] | auto].
Qed.

Definition R_did (c c' : chain) : Prop :=
  Inv_did (c_did c) -> Inv_did (c_did c') /\ did_mono (c_did c) (c_did c').

Lemma R_did_same c c' : c_did c' = c_did c -> R_did c c'.
Proof. intros E Hi. rewrite E. split; [exact Hi | apply did_mono_refl]. Qed.

Lemma exec_did_step e c m c' a :
  vb_did e m = Ok tt -> exec_did e c m = Ok (c', a) -> R_did c c'.
Proof.
  intros Hvb Hx Hi.
  destruct m as [did doc vmid sg from|did doc vmid sg from|did vmid sg from]; simpl in Hvb, Hx.
  - apply vb_create_update_strict in Hvb as [Hv [d [-> [Hid Hne]]]].
    destruct (create_did (e_b58key e) (e_verify e) marshal_doc (c_did c) did d vmid sg) as [st'| |] eqn:Ec; simpl in Hx; try discriminate.
    inversion Hx; subst c' a. simpl. apply create_did_ok in Ec as [Hemp [_ ->]].
    assert (Hok : entry_ok did {| en_doc := Some d; en_seq := 0 |}).
    { exists d. split; [reflexivity|]. left. split; [exact Hid | apply validate_did_nonempty; exact Hv]. }
    split; [apply Inv_did_set; assumption|].
    intros did'. destruct (bytes_eq_dec did' did) as [->|Hn].
    + rewrite get_entry_set_same. split.
      * rewrite Hemp. discriminate.
      * intros Hd. apply deactivated_not_empty in Hd. rewrite Hemp in Hd. discriminate.
    + rewrite get_entry_set_other by exact Hn. split; [intros H; split; [exact H | lia] | auto].
  - apply vb_create_update_strict in Hvb as [Hv [d [-> [Hid Hne]]]].
    destruct (update_did (e_b58key e) (e_verify e) marshal_doc (c_did c) did d vmid sg) as [st'| |] eqn:Ec; simpl in Hx; try discriminate.
    inversion Hx; subst c' a. simpl. apply update_did_ok in Ec as [stored [Hs [Hemp [Hdeact [_ ->]]]]].
    assert (Hok : entry_ok did {| en_doc := Some d; en_seq := en_seq (get_entry (c_did c) did) + 1 |}).
    { exists d. split; [reflexivity|]. left. split; [exact Hid | apply validate_did_nonempty; exact Hv]. }
    split; [apply Inv_did_set; assumption|].
    apply did_mono_set; [apply (entry_ok_not_empty did); exact Hok | simpl; lia | exact Hdeact].
  - destruct (deactivate_did (e_b58key e) (e_verify e) marshal_doc (c_did c) did vmid sg) as [st'| |] eqn:Ec; simpl in Hx; try discriminate.
    inversion Hx; subst c' a. simpl. apply deactivate_did_ok in Ec as [stored [Hs [Hemp [Hdeact [_ ->]]]]].
    assert (Hok : entry_ok did {| en_doc := Some empty_doc; en_seq := en_seq (get_entry (c_did c) did) + 1 |}).
    { exists empty_doc. split; [reflexivity|]. right. split; [reflexivity | simpl; lia]. }
    split; [apply Inv_did_set; assumption|].
    apply did_mono_set; [apply (entry_ok_not_empty did); exact Hok | simpl; lia | exact Hdeact].
Qed.

Theorem did_run o bs c :
  Inv_did (c_did c) -> Inv_did (c_did (run o c bs)) /\ did_mono (c_did c) (c_did (run o c bs)).
Proof.
  intros Hi.
  apply (R_run R_did (fun _ => True)); try exact Hi; try (intros; exact I).
  - intros c0. apply R_did_same. reflexivity.
  - intros a b0 c0 H1 H2 Ha. destruct (H1 Ha) as [Hb P1]. destruct (H2 Hb) as [Hc P2].
    split; [exact Hc | eapply did_mono_trans; eauto].
  - intros e c0 m c' acks _ Hvb Hx.
    destruct m as [am|dm|pm|f t amt|f t amt et|g r u ex|g r u|f amt outs];
      try (apply (R_did_same c0 c'); eapply exec_base_did_frame; [exact Hx | intros dm0; discriminate]).
    simpl in Hvb, Hx. eapply exec_did_step; eauto.
  - intros e c0 t c' _ Hx. apply R_did_same. apply (ante_did_frame e c0 t c' Hx).
  - intros e c0 _. apply R_did_same. reflexivity.
  - intros e c0 _. apply R_did_same. apply end_block_custom.
Qed.

(** ** C11: whatever the registry returns for [did] is a document about [did] *)
Theorem resolves_to_itself st did doc seq :
  Inv_did st -> q_did st did = DFound doc seq -> doc_id doc = did.
Proof.
  intros Hi H. unfold q_did in H.
  destruct (entry_empty (get_entry st did)) eqn:Ee; [discriminate|].
  destruct (entry_deactivated (get_entry st did)) eqn:Ed; [discriminate|].
  destruct (en_doc (get_entry st did)) as [d|] eqn:Edoc; [|discriminate].
  inversion H; subst d seq.
  destruct (Inv_did_get_entry st did Hi) as [G|[d' [Hd' [[Hid _]|[He Hs]]]]].
  - unfold get_entry in Ee. rewrite G in Ee. discriminate.
  - rewrite Edoc in Hd'. inversion Hd'; subst d'. exact Hid.
  - rewrite Edoc in Hd'. assert (Hdd : doc = d') by congruence. subst d'. unfold entry_deactivated in Ed. rewrite Edoc in Ed.
    apply N.eqb_neq in Hs. rewrite Hs, He in Ed. simpl in Ed. discriminate.
Qed.

Theorem resolves_to_itself_along_histories o bs c did doc seq :
  Inv_did (c_did c) -> q_did (c_did (run o c bs)) did = DFound doc seq -> doc_id doc = did.
Proof. intros Hi. apply resolves_to_itself. apply (did_run o bs c Hi). Qed.

(** ** C05: a tombstone is permanent *)
Theorem tombstone_forever o bs c did :
  Inv_did (c_did c) -> entry_deactivated (get_entry (c_did c) did) = true ->
  let st := c_did (run o c bs) in
  entry_deactivated (get_entry st did) = true /\ q_did st did = DDeactivated /\
  forall b58key verify,
    (forall doc vmid sig, create_did b58key verify marshal_doc st did doc vmid sig = Err cs_did 13) /\
    (forall doc vmid sig, update_did b58key verify marshal_doc st did doc vmid sig = Err cs_did 13) /\
    (forall vmid sig, deactivate_did b58key verify marshal_doc st did vmid sig = Err cs_did 13).
Proof.
  intros Hi Hd st. destruct (did_run o bs c Hi) as [_ Hm]. destruct (Hm did) as [_ Hk].
  specialize (Hk Hd). fold st in Hk. split; [exact Hk|].
  split; [apply (deactivated_rejects_all (fun _ => None) (fun _ _ _ => false) st did Hk)|].
  intros b58key verify. destruct (deactivated_rejects_all b58key verify st did Hk) as [A [B [C _]]]. auto.
Qed.

(** an existing DID cannot be created again, now or after any history *)
Theorem create_once o bs c did :
  Inv_did (c_did c) -> entry_empty (get_entry (c_did c) did) = false ->
  forall b58key verify doc vmid sig,
  exists code, create_did b58key verify marshal_doc (c_did (run o c bs)) did doc vmid sig = Err cs_did code /\ (code = 2 \/ code = 13).
Proof.
  intros Hi He b58key verify doc vmid sig. destruct (did_run o bs c Hi) as [_ Hm]. destruct (Hm did) as [Hk _].
  destruct (Hk He) as [He' _]. apply create_existing_fails. exact He'.
Qed.

(** ** C04: replay.  [sig_binds]: a signature value verifies for at most one message *)
Definition sig_binds (verify : bytes -> bytes -> bytes -> bool) : Prop :=
  forall pk m pk' m' sg, verify pk m sg = true -> verify pk' m' sg = true -> m = m'.

Theorem no_replay o bs c c1 a m :
  sig_binds (o_verify o) -> Inv_did (c_did c) ->
  forall t0, vb_did (env_at o t0) m = Ok tt -> exec_did (env_at o t0) c m = Ok (c1, a) ->
  forall t1 from',
    let m' := match m with
              | DCreate did doc vmid sg _ => DCreate did doc vmid sg from'
              | DUpdate did doc vmid sg _ => DUpdate did doc vmid sg from'
              | DDeactivate did vmid sg _ => DDeactivate did vmid sg from'
              end in
    forall c2 a2, exec_did (env_at o t1) (run o c1 bs) m' <> Ok (c2, a2).
Proof.
  intros Hb Hi t0 Hvb Hx t1 from' m' c2 a2 Hy.
  pose proof (exec_did_step _ _ _ _ _ Hvb Hx Hi) as [Hi1 _].
  destruct (did_run o bs c1 Hi1) as [Hi2 Hm].
  destruct m as [did doc vmid sg from|did doc vmid sg from|did vmid sg from]; simpl in Hvb, Hx, Hy; subst m'.
  - (* create: the entry exists from now on *)
    apply vb_create_update_strict in Hvb as [Hv [d [-> [Hid Hne]]]]. simpl in Hx, Hy.
    destruct (create_did (o_b58key o) (o_verify o) marshal_doc (c_did c) did d vmid sg) as [st'| |] eqn:Ec; simpl in Hx; try discriminate.
    inversion Hx; subst c1. simpl in *. apply create_did_ok in Ec as [_ [_ ->]].
    destruct (Hm did) as [Hk _]. rewrite get_entry_set_same in Hk.
    assert (He : entry_empty {| en_doc := Some d; en_seq := 0 |} = false).
    { unfold entry_empty. simpl. rewrite Hne. reflexivity. }
    destruct (Hk He) as [He2 _].
    destruct (create_existing_fails (o_b58key o) (o_verify o) _ did d vmid sg He2) as [code [Hc _]].
    rewrite Hc in Hy. discriminate.
  - (* update: the sequence has moved on, and the signature is bound to the old one *)
    apply vb_create_update_strict in Hvb as [Hv [d [-> [Hid Hne]]]]. simpl in Hx, Hy.
    destruct (update_did (o_b58key o) (o_verify o) marshal_doc (c_did c) did d vmid sg) as [st'| |] eqn:Ec; simpl in Hx; try discriminate.
    inversion Hx; subst c1. simpl in *. apply update_did_ok in Ec as [stored [_ [_ [_ [[_ [vm [pk [_ [_ [_ Hv1]]]]]] ->]]]]].
    destruct (update_did (o_b58key o) (o_verify o) marshal_doc (c_did (run o _ bs)) did d vmid sg) as [st2| |] eqn:Ec2; simpl in Hy; try discriminate.
    apply update_did_ok in Ec2 as [stored2 [_ [_ [_ [[_ [vm2 [pk2 [_ [_ [_ Hv2]]]]]] _]]]]].
    pose proof (Hb _ _ _ _ _ Hv1 Hv2) as Heq. apply signbytes_inj in Heq as [_ Hseq].
    destruct (Hm did) as [Hk _]. rewrite get_entry_set_same in Hk.
    assert (He : entry_empty {| en_doc := Some d; en_seq := en_seq (get_entry (c_did c) did) + 1 |} = false).
    { unfold entry_empty. simpl. rewrite Hne. reflexivity. }
    destruct (Hk He) as [_ Hle]. simpl in Hle. lia.
  - (* deactivate: tombstone *)
    simpl in Hx, Hy.
    destruct (deactivate_did (o_b58key o) (o_verify o) marshal_doc (c_did c) did vmid sg) as [st'| |] eqn:Ec; simpl in Hx; try discriminate.
    inversion Hx; subst c1. simpl in *. apply deactivate_did_ok in Ec as [stored [_ [_ [_ [_ ->]]]]].
    destruct (Hm did) as [_ Hk]. rewrite get_entry_set_same in Hk.
    assert (Hd : entry_deactivated {| en_doc := Some empty_doc; en_seq := en_seq (get_entry (c_did c) did) + 1 |} = true).
    { unfold entry_deactivated. simpl. destruct (en_seq (get_entry (c_did c) did) + 1 =? 0) eqn:E; [apply N.eqb_eq in E; lia | reflexivity]. }
    specialize (Hk Hd).
    destruct (deactivated_rejects_all (o_b58key o) (o_verify o) _ did Hk) as [_ [_ [C _]]].
    rewrite C in Hy. discriminate.
Qed.

(** ** C03: what an accepted DID message proves, and what it writes (also C04: the sequence step) *)
Theorem did_accept_needs_proof e c m c' a :
  exec_did e c m = Ok (c', a) ->
  match m with
  | DCreate did (Some doc) vmid sg _ =>
      entry_empty (get_entry (c_did c) did) = true /\
      proof_ok (e_b58key e) (e_verify e) doc doc 0 vmid sg /\
      c_did c' = set (did_key did) {| en_doc := Some doc; en_seq := 0 |} (c_did c)
  | DUpdate did (Some doc) vmid sg _ =>
      exists stored, en_doc (get_entry (c_did c) did) = Some stored /\
        entry_empty (get_entry (c_did c) did) = false /\ entry_deactivated (get_entry (c_did c) did) = false /\
        proof_ok (e_b58key e) (e_verify e) stored doc (en_seq (get_entry (c_did c) did)) vmid sg /\
        c_did c' = set (did_key did) {| en_doc := Some doc; en_seq := en_seq (get_entry (c_did c) did) + 1 |} (c_did c)
  | DDeactivate did vmid sg _ =>
      exists stored, en_doc (get_entry (c_did c) did) = Some stored /\
        entry_empty (get_entry (c_did c) did) = false /\ entry_deactivated (get_entry (c_did c) did) = false /\
        proof_ok (e_b58key e) (e_verify e) stored (id_only did) (en_seq (get_entry (c_did c) did)) vmid sg /\
        c_did c' = set (did_key did) {| en_doc := Some empty_doc; en_seq := en_seq (get_entry (c_did c) did) + 1 |} (c_did c)
  | _ => False
  end.
Proof.
  intros Hx. destruct m as [did [doc|] vmid sg from|did [doc|] vmid sg from|did vmid sg from]; simpl in Hx; try discriminate.
  - destruct (create_did _ _ _ _ _ _ _ _) as [st'| |] eqn:Ec; simpl in Hx; try discriminate.
    inversion Hx; subst. simpl. apply create_did_ok in Ec. exact Ec.
  - destruct (update_did _ _ _ _ _ _ _ _) as [st'| |] eqn:Ec; simpl in Hx; try discriminate.
    inversion Hx; subst. simpl. apply update_did_ok in Ec. exact Ec.
  - destruct (deactivate_did _ _ _ _ _ _ _) as [st'| |] eqn:Ec; simpl in Hx; try discriminate.
    inversion Hx; subst. simpl. apply deactivate_did_ok in Ec. exact Ec.
Qed.

(** the relaying account plays no role in the handler *)
Theorem account_irrelevant e c did doc vmid sg f1 f2 :
  exec_did e c (DCreate did doc vmid sg f1) = exec_did e c (DCreate did doc vmid sg f2) /\
  exec_did e c (DUpdate did doc vmid sg f1) = exec_did e c (DUpdate did doc vmid sg f2) /\
  exec_did e c (DDeactivate did vmid sg f1) = exec_did e c (DDeactivate did vmid sg f2).
Proof. repeat split; reflexivity. Qed.

(** other DIDs are untouched by a DID message *)
Theorem did_msg_touches_only_its_did e c m c' a did' :
  exec_did e c m = Ok (c', a) ->
  did' <> (match m with DCreate d _ _ _ _ | DUpdate d _ _ _ _ | DDeactivate d _ _ _ => d end) ->
  get_entry (c_did c') did' = get_entry (c_did c) did'.
Proof.
  intros Hx Hne. pose proof (did_accept_needs_proof e c m c' a Hx) as H.
  destruct m as [did [doc|] vmid sg from|did [doc|] vmid sg from|did vmid sg from]; try contradiction.
  - destruct H as [_ [_ ->]]. apply get_entry_set_other. exact Hne.
  - destruct H as [s [_ [_ [_ [_ ->]]]]]. apply get_entry_set_other. exact Hne.
  - destruct H as [s [_ [_ [_ [_ ->]]]]]. apply get_entry_set_other. exact Hne.
Qed.
