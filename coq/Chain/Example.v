(** A small concrete history used as the non-vacuity witness of the history-level theorems. *)
From Coq Require Import Strings.String Strings.Byte.
From Coq Require Import List Arith NArith ZArith Bool.
From PV Require Import Base.Bytes Base.Outcome Base.KV Compkey.Model Aol.Model Aol.Spec Bank.Model Did.Model Chain.Model Chain.Run.
Import ListNotations.

(** a toy bech32: one-letter strings decode to the one-byte address with the same byte *)
Definition toy_unbech (s : bytes) : option bytes := match s with [c] => Some [c] | _ => None end.
Lemma toy_unbech_wf : unbech_wf toy_unbech.
Proof. intros s a H. destruct s as [|c [|d r]]; simpl in H; try discriminate. inversion H. reflexivity. Qed.

Definition toy_oracles : oracles :=
  {| o_unbech := toy_unbech; o_bech := (fun a => a); o_fee_collector := [xff]; o_blocked := [];
     o_b58key := fun _ => None; o_verify := fun _ _ _ => false |}.

Definition A : bytes := b "A".   (* owner *)
Definition W : bytes := b "W".   (* writer *)
Definition X : bytes := b "X".   (* stranger *)

Definition mk_tx (signer : bytes) (ms : list base_msg) : tx :=
  {| tx_msgs := map MBase ms; tx_signed_by := [signer]; tx_fee := [] |}.

Definition toy_history : list block :=
  [ (100%Z, [ mk_tx A [BAol (ACreateTopic (b "t") (b "desc") A); BAol (AAddWriter (b "t") (b "m") [] W A)];
              mk_tx W [BAol (AAddRecord (b "t") (b "k0") (b "v0") W A [])] ]);
    (200%Z, [ mk_tx X [BAol (AAddRecord (b "t") (b "kx") (b "vx") X A [])];        (* not a writer: rejected *)
              mk_tx W [BAol (AAddRecord (b "t") (b "k1") (b "v1") W A [])];
              mk_tx A [BAol (ADeleteWriter (b "t") W A)];
              mk_tx W [BAol (AAddRecord (b "t") (b "k2") (b "v2") W A [])] ]) ].    (* removed: rejected *)

Definition toy_final : chain := run toy_oracles empty_chain toy_history.
