(** A concrete DID history (non-vacuity witness): create, key rotation, rejected old key, rejected
    replay, deactivation, rejected re-creation.  Signatures are the ideal scheme sig = encode [pk; msg]. *)
From Coq Require Import Strings.String Strings.Byte.
From Coq Require Import List Arith NArith ZArith Bool Lia.
From PV Require Import Base.Bytes Base.Outcome Base.KV Compkey.Model Compkey.Proofs Proto.Model.
From PV Require Import Aol.Spec Bank.Model Did.Model Did.Props Chain.Model Chain.Run Chain.DidProps Chain.Example.
From PV Require Generated.GenConst.
Import ListNotations.

Definition ideal_sign (pk msg : bytes) : bytes := pk ++ msg.
Definition ideal_verify (pk msg sg : bytes) : bool := (length pk =? 4)%nat && bytes_eqb sg (pk ++ msg).

Lemma app_same_length_inj (a c x y : bytes) : length a = length c -> a ++ x = c ++ y -> a = c /\ x = y.
Proof.
  revert c; induction a as [|h a IH]; intros [|k c] Hl H; simpl in *; try discriminate; [auto|].
  inversion H; subst. destruct (IH c) as [-> ->]; [lia | assumption | auto].
Qed.

Lemma ideal_verify_binds : sig_binds ideal_verify.
Proof.
  intros pk m pk' m' sg H1 H2. unfold ideal_verify in *.
  apply andb_true_iff in H1 as [L1 E1]. apply andb_true_iff in H2 as [L2 E2].
  apply Nat.eqb_eq in L1. apply Nat.eqb_eq in L2.
  apply bytes_eqb_eq in E1. apply bytes_eqb_eq in E2. subst sg.
  apply app_same_length_inj in E2; [tauto | lia].
Qed.

Definition did_oracles : oracles :=
  {| o_unbech := toy_unbech; o_bech := (fun a => a); o_fee_collector := [xff]; o_blocked := [];
     o_b58key := fun s => Some s; o_verify := ideal_verify |}.

Definition D1 : bytes := b "did:panacea:11111111111111111111111111111111".
Definition K1 : bytes := b "key1".
Definition K2 : bytes := b "key2".

Definition doc_with (key : bytes) : did_doc :=
  {| doc_contexts := Some [GenConst.context_did_v1]; doc_id := D1; doc_controller := None;
     doc_vms := [{| vm_id := D1 ++ b "#k"; vm_type := GenConst.key_type_es256k_2019; vm_controller := D1; vm_pubkey58 := key |}];
     doc_auth := [VRef (D1 ++ b "#k")]; doc_assert := []; doc_keyagree := []; doc_capinv := []; doc_capdel := [];
     doc_services := [] |}.

Definition sig_over (key : bytes) (data : did_doc) (seq : N) : bytes := ideal_sign key (signbytes (marshal_doc data) seq).

Definition vmid : bytes := D1 ++ b "#k".
Definition m_create := DCreate D1 (Some (doc_with K1)) vmid (sig_over K1 (doc_with K1) 0) A.
Definition m_rotate := DUpdate D1 (Some (doc_with K2)) vmid (sig_over K1 (doc_with K2) 0) A.
Definition m_oldkey := DUpdate D1 (Some (doc_with K1)) vmid (sig_over K1 (doc_with K1) 1) A.
Definition m_newkey := DUpdate D1 (Some (doc_with K1)) vmid (sig_over K2 (doc_with K1) 1) X.
Definition m_deact  := DDeactivate D1 vmid (sig_over K1 (id_only D1) 2) A.

Definition tx1 (signer : bytes) (m : did_msg) : tx := mk_tx signer [BDid m].

Definition did_history : list block :=
  [ (100%Z, [tx1 A m_create; tx1 A m_create]);                 (* the second create: already exists *)
    (200%Z, [tx1 A m_rotate; tx1 A m_rotate; tx1 A m_oldkey;   (* replay refused; rotated-out key refused *)
             tx1 X m_newkey]);                                 (* the new key works, from any relayer *)
    (300%Z, [tx1 A m_deact; tx1 A m_create; tx1 A m_deact]) ].  (* tombstone: nothing works afterwards *)

Definition did_final : chain := run did_oracles empty_chain did_history.

Example did_history_results :
  run_results did_oracles empty_chain did_history =
    [[ROk []; RMsg 0 (b "did") 2];
     [ROk []; RMsg 0 (b "did") 9; RMsg 0 (b "did") 9; ROk []];
     [ROk []; RMsg 0 (b "did") 13; RMsg 0 (b "did") 13]] /\
  q_did (c_did did_final) D1 = DDeactivated /\
  en_seq (get_entry (c_did did_final) D1) = 3%N.
Proof. vm_compute. repeat split; reflexivity. Qed.
