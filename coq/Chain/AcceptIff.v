(** Exact characterisation of acceptance: for every handler of x/aol, x/pnft and x/did an [iff]
    that says when it returns [Ok] and what the new state then is, in terms of reads of the old state.
    The safety direction ("accepted -> authorised / changed only so") is in Aol/Inv.v, Pnft/Inv.v and
    Did/Props.v; the completeness direction ("these conditions -> accepted, with exactly this effect")
    is what this file adds.  A change that makes a handler refuse what it must accept, or accept with
    another effect, contradicts a theorem here. *)
From Coq Require Import Strings.String Strings.Byte.
From Coq Require Import List Arith NArith ZArith Bool Lia.
From Coq Require Import ZifyN ZifyNat.
From PV Require Import Base.Bytes Base.Outcome Base.KV Compkey.Model Compkey.Proofs.
From PV Require Import Aol.Model Aol.Spec Aol.Inv.
From PV Require Generated.GenConst.
Import ListNotations.

#[local] Arguments be_bytes : simpl never.
Local Opaque be_bytes.

(** * Part 1: x/aol *)

(** the store key of a typed key as a total function (the empty key when a component is too long
    to encode; every use below is guarded by the length conditions that exclude that case) *)
Definition skey (K : typed_key) : bytes :=
  match store_key K with Some k => k | None => [] end.

(** a typed key can be encoded iff every component has at most 255 bytes *)
Definition enc_ok (K : typed_key) : Prop := Forall (fun v => length v <= 255) (byte_slices K).

Lemma enc_ok_store_key K : enc_ok K <-> store_key K = Some (skey K).
Proof.
  unfold enc_ok, skey, store_key, encode_key. split.
  - intros H. apply encode_Some_iff in H as [bz ->]. reflexivity.
  - intros H. apply encode_Some_iff. destruct (encode (byte_slices K)) as [e|]; [eauto | discriminate].
Qed.

Lemma store_key_skey K k : store_key K = Some k -> k = skey K.
Proof. intros H. unfold skey. rewrite H. reflexivity. Qed.

Lemma key_of_iff K k :
  key_of (prefix_of_kind (kind_of K)) (byte_slices K) = Ok k <-> enc_ok K /\ k = skey K.
Proof.
  rewrite key_of_store_key. split.
  - intros H. split; [|apply store_key_skey; exact H]. apply enc_ok_store_key.
    rewrite <- (store_key_skey _ _ H). exact H.
  - intros [H ->]. apply enc_ok_store_key. exact H.
Qed.

Lemma key_of_Ok K : enc_ok K -> key_of (prefix_of_kind (kind_of K)) (byte_slices K) = Ok (skey K).
Proof. intros H. apply key_of_iff. split; [exact H | reflexivity]. Qed.

Lemma key_of_not_err pfx vs cs c : key_of pfx vs <> Err cs c.
Proof. unfold key_of. destruct (encode vs); discriminate. Qed.

Lemma key_of_Panic K : ~ enc_ok K -> key_of (prefix_of_kind (kind_of K)) (byte_slices K) = Panic.
Proof.
  intros H. destruct (key_of (prefix_of_kind (kind_of K)) (byte_slices K)) as [k|cs c|] eqn:E.
  - exfalso. apply H. apply (key_of_iff K k). exact E.
  - exfalso. exact (key_of_not_err _ _ _ _ E).
  - reflexivity.
Qed.

Lemma enc_ok_owner o : enc_ok (OwnerKey o) <-> length o <= 255.
Proof.
  unfold enc_ok. cbn [byte_slices]. split.
  - intros H. inversion H; subst. assumption.
  - intros H. repeat (apply Forall_cons; [assumption|]). apply Forall_nil.
Qed.

Lemma enc_ok_topic o t : enc_ok (TopicKey o t) <-> length o <= 255 /\ length t <= 255.
Proof.
  unfold enc_ok. cbn [byte_slices]. split.
  - intros H. inversion H as [|? ? H1 H2]; subst. inversion H2; subst. split; assumption.
  - intros [H1 H2]. repeat (apply Forall_cons; [assumption|]). apply Forall_nil.
Qed.

Lemma enc_ok_writer o t w : enc_ok (WriterKey o t w) <-> length o <= 255 /\ length t <= 255 /\ length w <= 255.
Proof.
  unfold enc_ok. cbn [byte_slices]. split.
  - intros H. inversion H as [|? ? H1 H2]; subst. inversion H2 as [|? ? H3 H4]; subst. inversion H4; subst.
    repeat split; assumption.
  - intros [H1 [H2 H3]]. repeat (apply Forall_cons; [assumption|]). apply Forall_nil.
Qed.

Lemma enc_ok_record o t n : enc_ok (RecordKey o t n) <-> length o <= 255 /\ length t <= 255.
Proof.
  unfold enc_ok. cbn [byte_slices]. split.
  - intros H. inversion H as [|? ? H1 H2]; subst. inversion H2 as [|? ? H3 H4]; subst. split; assumption.
  - intros [H1 H2]. repeat (apply Forall_cons; [assumption|]). apply Forall_cons; [|apply Forall_nil].
    rewrite be_bytes_length. lia.
Qed.

Lemma has_key_skey (st : aol_state) K : enc_ok K -> has_key st K = has (skey K) st.
Proof. intros H. apply has_key_has. apply enc_ok_store_key. exact H. Qed.

Lemma lookup_skey (st : aol_state) K : enc_ok K -> lookup st K = get (skey K) st.
Proof. intros H. apply lookup_get. apply enc_ok_store_key. exact H. Qed.

(** ** reads with the zero value for a missing entry, as the keeper's Get* functions return them *)
Definition owner_count (st : aol_state) (o : bytes) : N :=
  match owner_total st o with Some n => n | None => 0%N end.

Definition topic_view (st : aol_state) (o t : bytes) : bytes * N * N :=
  match topic_info st o t with Some x => x | None => ([], 0%N, 0%N) end.

Lemma get_owner_total_count st o : enc_ok (OwnerKey o) -> get_owner_total (skey (OwnerKey o)) st = owner_count st o.
Proof.
  intros H. unfold get_owner_total, owner_count, owner_total. rewrite (lookup_skey st _ H).
  destruct (get (skey (OwnerKey o)) st) as [[n|d nr nw|m d z|k v z w]|]; reflexivity.
Qed.

Lemma get_topic_view st o t : enc_ok (TopicKey o t) -> get_topic (skey (TopicKey o t)) st = topic_view st o t.
Proof.
  intros H. unfold get_topic, topic_view, topic_info. rewrite (lookup_skey st _ H).
  destruct (get (skey (TopicKey o t)) st) as [[n|d nr nw|m d z|k v z w]|]; reflexivity.
Qed.

Lemma topic_info_view st o t x : topic_info st o t = Some x -> topic_view st o t = x.
Proof. intros H. unfold topic_view. rewrite H. reflexivity. Qed.

Lemma topic_info_has st o t x : topic_info st o t = Some x -> has_key st (TopicKey o t) = true.
Proof.
  unfold topic_info, has_key. destruct (lookup st (TopicKey o t)); [reflexivity | discriminate].
Qed.

(** under the invariant "the topic exists" and "its entry reads as a topic" are the same thing *)
Lemma has_topic_info st o t :
  Forall entry_wf st -> has_key st (TopicKey o t) = true -> exists d nr nw, topic_info st o t = Some (d, nr, nw).
Proof.
  intros Hall H. destruct (has_key_true_inv _ _ H) as [v Hv].
  destruct (lookup_topic_val st o t v Hall Hv) as (d & nr & nw & ->).
  exists d, nr, nw. unfold topic_info. rewrite Hv. reflexivity.
Qed.

Lemma u64_dec_pos n : (1 <= n)%N -> u64_dec n = (n - 1)%N.
Proof. intros H. unfold u64_dec. destruct (N.eqb_spec n 0) as [E|_]; [lia | reflexivity]. Qed.

Lemma owner_key_Ok o : length o <= 255 -> owner_key o = Ok (skey (OwnerKey o)).
Proof. intros H. apply (key_of_Ok (OwnerKey o)). apply enc_ok_owner. exact H. Qed.
Lemma topic_key_Ok o t : length o <= 255 -> length t <= 255 -> topic_key o t = Ok (skey (TopicKey o t)).
Proof. intros H1 H2. apply (key_of_Ok (TopicKey o t)). apply enc_ok_topic. auto. Qed.
Lemma writer_key_Ok o t w :
  length o <= 255 -> length t <= 255 -> length w <= 255 -> writer_key o t w = Ok (skey (WriterKey o t w)).
Proof. intros H1 H2 H3. apply (key_of_Ok (WriterKey o t w)). apply enc_ok_writer. auto. Qed.
Lemma record_key_Ok o t n : length o <= 255 -> length t <= 255 -> record_key o t n = Ok (skey (RecordKey o t n)).
Proof. intros H1 H2. apply (key_of_Ok (RecordKey o t n)). apply enc_ok_record. auto. Qed.

Lemma topic_key_inv o t k : topic_key o t = Ok k -> length o <= 255 /\ length t <= 255 /\ k = skey (TopicKey o t).
Proof. intros H. apply (key_of_iff (TopicKey o t)) in H as [H ->]. apply enc_ok_topic in H. tauto. Qed.
Lemma writer_key_inv o t w k :
  writer_key o t w = Ok k -> length o <= 255 /\ length t <= 255 /\ length w <= 255 /\ k = skey (WriterKey o t w).
Proof. intros H. apply (key_of_iff (WriterKey o t w)) in H as [H ->]. apply enc_ok_writer in H. tauto. Qed.
Lemma owner_key_inv o k : owner_key o = Ok k -> k = skey (OwnerKey o).
Proof. intros H. apply (key_of_iff (OwnerKey o)) in H as [_ ->]. reflexivity. Qed.
Lemma record_key_inv o t n k : record_key o t n = Ok k -> k = skey (RecordKey o t n).
Proof. intros H. apply (key_of_iff (RecordKey o t n)) in H as [_ ->]. reflexivity. Qed.


Section AolAccept.
  Variable unbech : bytes -> option bytes.
  Variable now : Z.

  Lemma addr_iff s a : addr unbech s = Ok a <-> unbech s = Some a.
  Proof using Type.
    unfold addr, err_invalid_address. destruct (unbech s) as [x|]; split; intros H; try discriminate H;
      inversion H; reflexivity.
  Qed.

  Lemma addr_Some s a : unbech s = Some a -> addr unbech s = Ok a.
  Proof using Type. apply addr_iff. Qed.

  (** ** the four handlers, no hypothesis on the state: exactly what the code tests *)

  (** CreateTopic is accepted iff the owner string decodes, owner and topic fit a key component,
      and the owner has no topic of that name; the effect is the topic entry with counters 0 0 and
      the owner's counter + 1 *)
  Theorem create_topic_accept st topic desc owner_s st' :
    create_topic unbech st topic desc owner_s = Ok st' <->
    exists o, unbech owner_s = Some o /\ length o <= 255 /\ length topic <= 255 /\
      has_key st (TopicKey o topic) = false /\
      st' = set (skey (TopicKey o topic)) (VTopic desc 0 0)
              (set (skey (OwnerKey o)) (VOwner (owner_count st o + 1)) st).
  Proof using Type.
    unfold create_topic. split.
    - intros H.
      destruct (addr unbech owner_s) as [o|cs c|] eqn:Ea; try discriminate H. cbn [bind] in H.
      destruct (topic_key o topic) as [tk|cs c|] eqn:Etk; try discriminate H. cbn [bind] in H.
      apply topic_key_inv in Etk as (Lo & Lt & ->).
      destruct (has (skey (TopicKey o topic)) st) eqn:Hhas; [discriminate H|].
      rewrite (owner_key_Ok o Lo) in H. cbn [bind] in H. inversion H as [Hst]. clear H.
      exists o. apply addr_iff in Ea.
      split; [exact Ea|]. split; [exact Lo|]. split; [exact Lt|].
      split; [rewrite has_key_skey by (apply enc_ok_topic; auto); exact Hhas|].
      unfold u64_inc. rewrite get_owner_total_count by (apply enc_ok_owner; exact Lo). reflexivity.
    - intros (o & Ea & Lo & Lt & Hno & ->).
      rewrite (addr_Some _ _ Ea). cbn [bind]. rewrite (topic_key_Ok o topic Lo Lt). cbn [bind].
      rewrite has_key_skey in Hno by (apply enc_ok_topic; auto). rewrite Hno.
      rewrite (owner_key_Ok o Lo). cbn [bind]. unfold u64_inc.
      rewrite get_owner_total_count by (apply enc_ok_owner; exact Lo). reflexivity.
  Qed.

  (** AddWriter: both strings decode, the three components fit, the topic exists, the writer is
      not yet listed; effect: the writer entry, and the topic's writer counter + 1 *)
  Theorem add_writer_accept st topic moniker desc writer_s owner_s st' :
    add_writer unbech now st topic moniker desc writer_s owner_s = Ok st' <->
    exists o w d nr nw,
      unbech owner_s = Some o /\ unbech writer_s = Some w /\
      length o <= 255 /\ length topic <= 255 /\ length w <= 255 /\
      has_key st (TopicKey o topic) = true /\ has_key st (WriterKey o topic w) = false /\
      topic_view st o topic = (d, nr, nw) /\
      st' = set (skey (WriterKey o topic w)) (VWriter moniker desc now)
              (set (skey (TopicKey o topic)) (VTopic d nr (nw + 1)) st).
  Proof using Type.
    unfold add_writer. split.
    - intros H.
      destruct (addr unbech owner_s) as [o|cs c|] eqn:Ea; try discriminate H. cbn [bind] in H.
      destruct (addr unbech writer_s) as [w|cs c|] eqn:Eaw; try discriminate H. cbn [bind] in H.
      destruct (topic_key o topic) as [tk|cs c|] eqn:Etk; try discriminate H. cbn [bind] in H.
      apply topic_key_inv in Etk as (Lo & Lt & ->).
      destruct (has (skey (TopicKey o topic)) st) eqn:Hhas; cbn [negb] in H; [|discriminate H].
      destruct (writer_key o topic w) as [wk|cs c|] eqn:Ewk; try discriminate H. cbn [bind] in H.
      apply writer_key_inv in Ewk as (_ & _ & Lw & ->).
      destruct (has (skey (WriterKey o topic w)) st) eqn:Hhw; [discriminate H|].
      rewrite get_topic_view in H by (apply enc_ok_topic; auto).
      destruct (topic_view st o topic) as [[d nr] nw] eqn:Ev. inversion H as [Hst]. clear H.
      apply addr_iff in Ea. apply addr_iff in Eaw.
      exists o, w, d, nr, nw. repeat (split; [assumption|]).
      split; [rewrite has_key_skey by (apply enc_ok_topic; auto); exact Hhas|].
      split; [rewrite has_key_skey by (apply enc_ok_writer; auto); exact Hhw|].
      split; [exact Ev | reflexivity].
    - intros (o & w & d & nr & nw & Ea & Eaw & Lo & Lt & Lw & Ht & Hw & Ev & ->).
      rewrite (addr_Some _ _ Ea), (addr_Some _ _ Eaw). cbn [bind].
      rewrite (topic_key_Ok o topic Lo Lt). cbn [bind].
      rewrite has_key_skey in Ht by (apply enc_ok_topic; auto). rewrite Ht. cbn [negb].
      rewrite (writer_key_Ok o topic w Lo Lt Lw). cbn [bind].
      rewrite has_key_skey in Hw by (apply enc_ok_writer; auto). rewrite Hw.
      rewrite get_topic_view by (apply enc_ok_topic; auto). rewrite Ev. reflexivity.
  Qed.

  (** DeleteWriter: the writer entry exists (the code does not test the topic); effect: the writer
      entry removed, the topic's writer counter decremented as a uint64 *)
  Theorem delete_writer_accept st topic writer_s owner_s st' :
    delete_writer unbech st topic writer_s owner_s = Ok st' <->
    exists o w d nr nw,
      unbech owner_s = Some o /\ unbech writer_s = Some w /\
      length o <= 255 /\ length topic <= 255 /\ length w <= 255 /\
      has_key st (WriterKey o topic w) = true /\
      topic_view st o topic = (d, nr, nw) /\
      st' = del (skey (WriterKey o topic w)) (set (skey (TopicKey o topic)) (VTopic d nr (u64_dec nw)) st).
  Proof using Type.
    unfold delete_writer. split.
    - intros H.
      destruct (addr unbech owner_s) as [o|cs c|] eqn:Ea; try discriminate H. cbn [bind] in H.
      destruct (addr unbech writer_s) as [w|cs c|] eqn:Eaw; try discriminate H. cbn [bind] in H.
      destruct (writer_key o topic w) as [wk|cs c|] eqn:Ewk; try discriminate H. cbn [bind] in H.
      apply writer_key_inv in Ewk as (Lo & Lt & Lw & ->).
      destruct (has (skey (WriterKey o topic w)) st) eqn:Hhw; cbn [negb] in H; [|discriminate H].
      rewrite (topic_key_Ok o topic Lo Lt) in H. cbn [bind] in H.
      rewrite get_topic_view in H by (apply enc_ok_topic; auto).
      destruct (topic_view st o topic) as [[d nr] nw] eqn:Ev. inversion H as [Hst]. clear H.
      apply addr_iff in Ea. apply addr_iff in Eaw.
      exists o, w, d, nr, nw. repeat (split; [assumption|]).
      split; [rewrite has_key_skey by (apply enc_ok_writer; auto); exact Hhw|].
      split; [exact Ev | reflexivity].
    - intros (o & w & d & nr & nw & Ea & Eaw & Lo & Lt & Lw & Hw & Ev & ->).
      rewrite (addr_Some _ _ Ea), (addr_Some _ _ Eaw). cbn [bind].
      rewrite (writer_key_Ok o topic w Lo Lt Lw). cbn [bind].
      rewrite has_key_skey in Hw by (apply enc_ok_writer; auto). rewrite Hw. cbn [negb].
      rewrite (topic_key_Ok o topic Lo Lt). cbn [bind].
      rewrite get_topic_view by (apply enc_ok_topic; auto). rewrite Ev. reflexivity.
  Qed.

  (** AddRecord: topic exists, writer listed, the record counter is below 2^64 - 1 (the model's
      capacity guard); the acknowledged offset is the stored record counter; effect: the record entry
      under that offset and the counter + 1 *)
  Theorem add_record_accept st topic key value writer_s owner_s st' offset :
    add_record unbech now st topic key value writer_s owner_s = Ok (st', offset) <->
    exists o w d nw,
      unbech owner_s = Some o /\ unbech writer_s = Some w /\
      length o <= 255 /\ length topic <= 255 /\ length w <= 255 /\
      has_key st (TopicKey o topic) = true /\ has_key st (WriterKey o topic w) = true /\
      topic_view st o topic = (d, offset, nw) /\ (offset < two64 - 1)%N /\
      st' = set (skey (RecordKey o topic offset)) (VRecord key value now writer_s)
              (set (skey (TopicKey o topic)) (VTopic d (offset + 1) nw) st).
  Proof using Type.
    unfold add_record. split.
    - intros H.
      destruct (addr unbech owner_s) as [o|cs c|] eqn:Ea; try discriminate H. cbn [bind] in H.
      destruct (addr unbech writer_s) as [w|cs c|] eqn:Eaw; try discriminate H. cbn [bind] in H.
      destruct (topic_key o topic) as [tk|cs c|] eqn:Etk; try discriminate H. cbn [bind] in H.
      apply topic_key_inv in Etk as (Lo & Lt & ->).
      destruct (has (skey (TopicKey o topic)) st) eqn:Hhas; cbn [negb] in H; [|discriminate H].
      destruct (writer_key o topic w) as [wk|cs c|] eqn:Ewk; try discriminate H. cbn [bind] in H.
      apply writer_key_inv in Ewk as (_ & _ & Lw & ->).
      destruct (has (skey (WriterKey o topic w)) st) eqn:Hhw; cbn [negb] in H; [|discriminate H].
      rewrite get_topic_view in H by (apply enc_ok_topic; auto).
      destruct (topic_view st o topic) as [[d nr] nw] eqn:Ev.
      destruct (N.leb_spec (two64 - 1) nr) as [Hcap|Hcap]; [discriminate H|].
      rewrite (record_key_Ok o topic nr Lo Lt) in H. cbn [bind] in H.
      inversion H as [[Hst Hn]]. clear H. subst offset.
      apply addr_iff in Ea. apply addr_iff in Eaw.
      exists o, w, d, nw. repeat (split; [assumption|]).
      split; [rewrite has_key_skey by (apply enc_ok_topic; auto); exact Hhas|].
      split; [rewrite has_key_skey by (apply enc_ok_writer; auto); exact Hhw|].
      split; [exact Ev|]. split; [exact Hcap | reflexivity].
    - intros (o & w & d & nw & Ea & Eaw & Lo & Lt & Lw & Ht & Hw & Ev & Hcap & ->).
      rewrite (addr_Some _ _ Ea), (addr_Some _ _ Eaw). cbn [bind].
      rewrite (topic_key_Ok o topic Lo Lt). cbn [bind].
      rewrite has_key_skey in Ht by (apply enc_ok_topic; auto). rewrite Ht. cbn [negb].
      rewrite (writer_key_Ok o topic w Lo Lt Lw). cbn [bind].
      rewrite has_key_skey in Hw by (apply enc_ok_writer; auto). rewrite Hw. cbn [negb].
      rewrite get_topic_view by (apply enc_ok_topic; auto). rewrite Ev.
      destruct (N.leb_spec (two64 - 1) offset) as [Hc|_]; [lia|].
      rewrite (record_key_Ok o topic offset Lo Lt). cbn [bind]. reflexivity.
  Qed.
End AolAccept.

(** ** the same four statements over a state that satisfies the invariant, with a bech32 decoder
    that returns well-formed addresses: the conditions become the typed reads [topic_info] /
    [has_key], the address-length conditions disappear, and the counters are the real counts *)

Lemma has_key_enc_ok (st : aol_state) K : has_key st K = true -> enc_ok K.
Proof.
  unfold has_key, lookup. intros H. destruct (store_key K) as [kk|] eqn:E; [|discriminate H].
  apply enc_ok_store_key. unfold skey. rewrite E. reflexivity.
Qed.

Lemma has_key_wf (st : aol_state) K : Forall entry_wf st -> off_ok K -> has_key st K = true -> wf_key K.
Proof.
  intros Hall HO H. unfold has_key, lookup in H. destruct (store_key K) as [kk|] eqn:E; [|discriminate H].
  destruct (get kk st) as [v|] eqn:G; [|discriminate H]. apply get_In in G.
  rewrite Forall_forall in Hall. destruct (Hall _ G) as (K' & _ & HW & HK & _). cbn [fst] in HK.
  rewrite (store_key_inj_off K K' kk HO (wf_off_ok _ HW) E HK). exact HW.
Qed.

Lemma owner_count_topics st o : Inv st -> owner_count st o = N.of_nat (length (topics_of st o)).
Proof.
  intros HI. unfold owner_count. destruct (owner_total st o) as [n|] eqn:E.
  - apply (inv_owner_count st HI o n E).
  - unfold owner_total in E. destruct (lookup st (OwnerKey o)) as [v|] eqn:L.
    + destruct (lookup_owner_val st o v (inv_wf st HI) L) as [n ->]. discriminate E.
    + rewrite (topics_of_nil st o HI (has_key_false_lookup _ _ L)). reflexivity.
Qed.

(** a listed writer is counted: the writer counter of its topic is at least 1 *)
Lemma listed_writer_counted st o t w d nr nw :
  Inv st -> has_key st (WriterKey o t w) = true -> topic_info st o t = Some (d, nr, nw) -> (1 <= nw)%N.
Proof.
  intros HI Hw TI.
  pose proof (has_key_wf st (WriterKey o t w) (inv_wf st HI) I Hw) as Ww.
  pose proof (proj1 (enc_ok_store_key _) (has_key_enc_ok st _ Hw)) as Ek.
  pose proof (tcount_del_len (sel_writer o t) (WriterKey o t w) _ st (inv_sorted st HI) Ww Ek) as C.
  rewrite Hw in C. cbn [sel_writer] in C. rewrite !bytes_eqb_refl in C. cbn [andb length] in C.
  rewrite (inv_writer_count st HI o t d nr nw TI). rewrite writers_of_tcount. lia.
Qed.

Section AolAcceptInv.
  Variable unbech : bytes -> option bytes.
  Hypothesis Hunbech : unbech_wf unbech.
  Variable now : Z.

  Lemma unbech_len s a : unbech s = Some a -> length a <= 255.
  Proof. intros H. apply vaf_le. exact (Hunbech s a H). Qed.

  Theorem create_topic_accept_inv st topic desc owner_s st' :
    Inv st ->
    (create_topic unbech st topic desc owner_s = Ok st' <->
     exists o, unbech owner_s = Some o /\ length topic <= 255 /\
       has_key st (TopicKey o topic) = false /\
       st' = set (skey (TopicKey o topic)) (VTopic desc 0 0)
               (set (skey (OwnerKey o)) (VOwner (N.of_nat (length (topics_of st o)) + 1)) st)).
  Proof.
    intros HI. rewrite create_topic_accept. split.
    - intros (o & Ea & Lo & Lt & Hno & ->). exists o. rewrite <- (owner_count_topics st o HI). auto.
    - intros (o & Ea & Lt & Hno & ->). exists o. rewrite <- (owner_count_topics st o HI).
      pose proof (unbech_len _ _ Ea). auto.
  Qed.

  Theorem add_writer_accept_inv st topic moniker desc writer_s owner_s st' :
    Inv st ->
    (add_writer unbech now st topic moniker desc writer_s owner_s = Ok st' <->
     exists o w d nr nw,
       unbech owner_s = Some o /\ unbech writer_s = Some w /\
       topic_info st o topic = Some (d, nr, nw) /\ has_key st (WriterKey o topic w) = false /\
       st' = set (skey (WriterKey o topic w)) (VWriter moniker desc now)
               (set (skey (TopicKey o topic)) (VTopic d nr (nw + 1)) st)).
  Proof.
    intros HI. rewrite add_writer_accept. split.
    - intros (o & w & d & nr & nw & Ea & Eaw & Lo & Lt & Lw & Ht & Hw & Ev & ->).
      destruct (has_topic_info st o topic (inv_wf st HI) Ht) as (d1 & nr1 & nw1 & TI).
      rewrite (topic_info_view _ _ _ _ TI) in Ev. inversion Ev; subst d1 nr1 nw1.
      exists o, w, d, nr, nw. auto.
    - intros (o & w & d & nr & nw & Ea & Eaw & TI & Hw & ->).
      pose proof (topic_info_has _ _ _ _ TI) as Ht.
      pose proof (proj1 (enc_ok_topic _ _) (has_key_enc_ok st _ Ht)) as [Lo Lt].
      exists o, w, d, nr, nw. pose proof (unbech_len _ _ Eaw) as Lw.
      repeat (split; [assumption|]). split; [exact (topic_info_view _ _ _ _ TI) | reflexivity].
  Qed.

  Theorem delete_writer_accept_inv st topic writer_s owner_s st' :
    Inv st ->
    (delete_writer unbech st topic writer_s owner_s = Ok st' <->
     exists o w d nr nw,
       unbech owner_s = Some o /\ unbech writer_s = Some w /\
       topic_info st o topic = Some (d, nr, nw) /\ has_key st (WriterKey o topic w) = true /\
       st' = del (skey (WriterKey o topic w)) (set (skey (TopicKey o topic)) (VTopic d nr (nw - 1)) st)).
  Proof.
    intros HI. rewrite delete_writer_accept. split.
    - intros (o & w & d & nr & nw & Ea & Eaw & Lo & Lt & Lw & Hw & Ev & ->).
      pose proof (inv_writer_topic st HI o topic w Hw) as Ht.
      destruct (has_topic_info st o topic (inv_wf st HI) Ht) as (d1 & nr1 & nw1 & TI).
      rewrite (topic_info_view _ _ _ _ TI) in Ev. inversion Ev; subst d1 nr1 nw1.
      rewrite (u64_dec_pos nw (listed_writer_counted st o topic w d nr nw HI Hw TI)).
      exists o, w, d, nr, nw. auto.
    - intros (o & w & d & nr & nw & Ea & Eaw & TI & Hw & ->).
      pose proof (proj1 (enc_ok_writer _ _ _) (has_key_enc_ok st _ Hw)) as (Lo & Lt & Lw).
      exists o, w, d, nr, nw. repeat (split; [assumption|]).
      split; [exact (topic_info_view _ _ _ _ TI)|].
      rewrite (u64_dec_pos nw (listed_writer_counted st o topic w d nr nw HI Hw TI)). reflexivity.
  Qed.

  Theorem add_record_accept_inv st topic key value writer_s owner_s st' offset :
    Inv st ->
    (add_record unbech now st topic key value writer_s owner_s = Ok (st', offset) <->
     exists o w d nw,
       unbech owner_s = Some o /\ unbech writer_s = Some w /\
       topic_info st o topic = Some (d, offset, nw) /\ has_key st (WriterKey o topic w) = true /\
       (offset + 1 < two64)%N /\
       st' = set (skey (RecordKey o topic offset)) (VRecord key value now writer_s)
               (set (skey (TopicKey o topic)) (VTopic d (offset + 1) nw) st)).
  Proof.
    intros HI. rewrite add_record_accept. split.
    - intros (o & w & d & nw & Ea & Eaw & Lo & Lt & Lw & Ht & Hw & Ev & Hcap & ->).
      destruct (has_topic_info st o topic (inv_wf st HI) Ht) as (d1 & nr1 & nw1 & TI).
      rewrite (topic_info_view _ _ _ _ TI) in Ev. inversion Ev; subst d1 nr1 nw1.
      exists o, w, d, nw. repeat (split; [assumption|]). split; [lia | reflexivity].
    - intros (o & w & d & nw & Ea & Eaw & TI & Hw & Hcap & ->).
      pose proof (proj1 (enc_ok_writer _ _ _) (has_key_enc_ok st _ Hw)) as (Lo & Lt & Lw).
      exists o, w, d, nw. repeat (split; [assumption|]).
      split; [exact (topic_info_has _ _ _ _ TI)|]. split; [exact Hw|].
      split; [exact (topic_info_view _ _ _ _ TI)|]. split; [lia | reflexivity].
  Qed.

  (** the acknowledged offset is the number of records the topic holds *)
  Corollary add_record_offset_is_count st topic key value writer_s owner_s st' offset o :
    Inv st -> unbech owner_s = Some o ->
    add_record unbech now st topic key value writer_s owner_s = Ok (st', offset) ->
    offset = N.of_nat (length (records_of st o topic)).
  Proof.
    intros HI Ea H. apply (add_record_accept_inv _ _ _ _ _ _ _ _ HI) in H
      as (o' & w & d & nw & Ea' & _ & TI & _).
    rewrite Ea in Ea'. inversion Ea'; subst o'. exact (inv_record_count st HI o topic d offset nw TI).
  Qed.

  (** ** user-facing corollaries *)

  (** whoever holds an address can open a topic under it, unless the name is taken or too long *)
  Corollary anyone_can_create_fresh_topic st topic desc owner_s o :
    unbech owner_s = Some o -> length topic <= 255 -> has_key st (TopicKey o topic) = false ->
    exists st', create_topic unbech st topic desc owner_s = Ok st' /\
                topic_info st' o topic = Some (desc, 0%N, 0%N).
  Proof.
    intros Ea Lt Hno. pose proof (unbech_len _ _ Ea) as Lo.
    eexists. split.
    - apply create_topic_accept. exists o. repeat (split; [eassumption|]). reflexivity.
    - unfold topic_info. rewrite lookup_skey by (apply enc_ok_topic; auto). rewrite get_set_eq. reflexivity.
  Qed.

  Corollary owner_can_always_add_writer st topic moniker desc writer_s owner_s o w :
    Inv st -> unbech owner_s = Some o -> unbech writer_s = Some w ->
    has_key st (TopicKey o topic) = true -> has_key st (WriterKey o topic w) = false ->
    exists st', add_writer unbech now st topic moniker desc writer_s owner_s = Ok st' /\
                has_key st' (WriterKey o topic w) = true.
  Proof.
    intros HI Ea Eaw Ht Hw.
    destruct (has_topic_info st o topic (inv_wf st HI) Ht) as (d & nr & nw & TI).
    pose proof (proj1 (enc_ok_topic _ _) (has_key_enc_ok st _ Ht)) as [Lo Lt].
    pose proof (unbech_len _ _ Eaw) as Lw.
    eexists. split.
    - apply (add_writer_accept_inv _ _ _ _ _ _ _ HI). exists o, w, d, nr, nw.
      repeat (split; [eassumption|]). reflexivity.
    - rewrite has_key_skey by (apply enc_ok_writer; auto). unfold has. rewrite get_set_eq. reflexivity.
  Qed.

  Corollary owner_can_always_delete_listed_writer st topic writer_s owner_s o w :
    Inv st -> unbech owner_s = Some o -> unbech writer_s = Some w ->
    has_key st (WriterKey o topic w) = true ->
    exists st', delete_writer unbech st topic writer_s owner_s = Ok st' /\
                has_key st' (WriterKey o topic w) = false.
  Proof.
    intros HI Ea Eaw Hw.
    pose proof (inv_writer_topic st HI o topic w Hw) as Ht.
    destruct (has_topic_info st o topic (inv_wf st HI) Ht) as (d & nr & nw & TI).
    pose proof (has_key_enc_ok st _ Hw) as Ew.
    eexists. split.
    - apply (delete_writer_accept_inv _ _ _ _ _ HI). exists o, w, d, nr, nw.
      repeat (split; [eassumption|]). reflexivity.
    - rewrite has_key_skey by exact Ew. unfold has. rewrite get_del_eq. reflexivity.
  Qed.

  (** a listed writer can append, and is told the offset = the stored record counter; the only
      other condition is the model's capacity guard *)
  Corollary listed_writer_can_append st topic key value writer_s owner_s o w d nr nw :
    Inv st -> unbech owner_s = Some o -> unbech writer_s = Some w ->
    topic_info st o topic = Some (d, nr, nw) -> has_key st (WriterKey o topic w) = true ->
    (nr + 1 < two64)%N ->
    exists st', add_record unbech now st topic key value writer_s owner_s = Ok (st', nr) /\
                lookup st' (RecordKey o topic nr) = Some (VRecord key value now writer_s) /\
                nr = N.of_nat (length (records_of st o topic)).
  Proof.
    intros HI Ea Eaw TI Hw Hcap.
    pose proof (proj1 (enc_ok_writer _ _ _) (has_key_enc_ok st _ Hw)) as (Lo & Lt & Lw).
    eexists. split; [|split].
    - apply (add_record_accept_inv _ _ _ _ _ _ _ _ HI). exists o, w, d, nw.
      repeat (split; [eassumption|]). reflexivity.
    - rewrite lookup_skey by (apply enc_ok_record; auto). rewrite get_set_eq. reflexivity.
    - exact (inv_record_count st HI o topic d nr nw TI).
  Qed.

  (** ** refusals, by error code *)
  Theorem create_topic_refused_exists st topic desc owner_s :
    create_topic unbech st topic desc owner_s = Err cs_aol 5 <->
    exists o, unbech owner_s = Some o /\ length topic <= 255 /\ has_key st (TopicKey o topic) = true.
  Proof.
    unfold create_topic. split.
    - intros H.
      destruct (addr unbech owner_s) as [o|cs c|] eqn:Ea; [| |discriminate H].
      2:{ unfold addr, err_invalid_address in Ea. destruct (unbech owner_s); [discriminate Ea|].
          inversion Ea; subst. cbn [bind] in H. discriminate H. }
      cbn [bind] in H. apply (addr_iff unbech) in Ea.
      destruct (topic_key o topic) as [tk|cs c|] eqn:Etk; [| |discriminate H].
      2:{ exfalso. exact (key_of_not_err _ _ _ _ Etk). }
      cbn [bind] in H. apply topic_key_inv in Etk as (Lo & Lt & ->).
      destruct (has (skey (TopicKey o topic)) st) eqn:Hhas.
      + exists o. rewrite has_key_skey by (apply enc_ok_topic; auto). auto.
      + rewrite (owner_key_Ok o Lo) in H. cbn [bind] in H. discriminate H.
    - intros (o & Ea & Lt & Hh). pose proof (unbech_len _ _ Ea) as Lo.
      rewrite (addr_Some _ _ _ Ea). cbn [bind]. rewrite (topic_key_Ok o topic Lo Lt). cbn [bind].
      rewrite has_key_skey in Hh by (apply enc_ok_topic; auto). rewrite Hh. reflexivity.
  Qed.

  (** an address that is not a listed writer of an existing topic is refused with code 9 *)
  Theorem add_record_refused_unlisted st topic key value writer_s owner_s :
    add_record unbech now st topic key value writer_s owner_s = Err cs_aol 9 <->
    exists o w, unbech owner_s = Some o /\ unbech writer_s = Some w /\
      has_key st (TopicKey o topic) = true /\ has_key st (WriterKey o topic w) = false.
  Proof.
    unfold add_record. split.
    - intros H.
      destruct (unbech owner_s) as [o|] eqn:Ea.
      2:{ unfold addr in H. rewrite Ea in H. discriminate H. }
      rewrite (addr_Some _ _ _ Ea) in H. cbn [bind] in H.
      destruct (unbech writer_s) as [w|] eqn:Eaw.
      2:{ unfold addr in H. rewrite Eaw in H. discriminate H. }
      rewrite (addr_Some _ _ _ Eaw) in H. cbn [bind] in H.
      destruct (topic_key o topic) as [tk|cs c|] eqn:Etk; [| |discriminate H].
      2:{ exfalso. exact (key_of_not_err _ _ _ _ Etk). }
      cbn [bind] in H. apply topic_key_inv in Etk as (Lo & Lt & ->).
      destruct (has (skey (TopicKey o topic)) st) eqn:Hhas; cbn [negb] in H; [|discriminate H].
      pose proof (unbech_len _ _ Eaw) as Lw.
      rewrite (writer_key_Ok o topic w Lo Lt Lw) in H. cbn [bind] in H.
      destruct (has (skey (WriterKey o topic w)) st) eqn:Hhw; cbn [negb] in H.
      + exfalso. destruct (get_topic (skey (TopicKey o topic)) st) as [[d nr] nw].
        destruct (two64 - 1 <=? nr)%N; [discriminate H|].
        rewrite (record_key_Ok o topic nr Lo Lt) in H. cbn [bind] in H. discriminate H.
      + exists o, w. rewrite !has_key_skey by (first [apply enc_ok_topic | apply enc_ok_writer]; auto). auto.
    - intros (o & w & Ea & Eaw & Ht & Hw).
      pose proof (proj1 (enc_ok_topic _ _) (has_key_enc_ok st _ Ht)) as [Lo Lt].
      pose proof (unbech_len _ _ Eaw) as Lw.
      rewrite (addr_Some _ _ _ Ea), (addr_Some _ _ _ Eaw). cbn [bind].
      rewrite (topic_key_Ok o topic Lo Lt). cbn [bind].
      rewrite has_key_skey in Ht by (apply enc_ok_topic; auto). rewrite Ht. cbn [negb].
      rewrite (writer_key_Ok o topic w Lo Lt Lw). cbn [bind].
      rewrite has_key_skey in Hw by (apply enc_ok_writer; auto). rewrite Hw. reflexivity.
  Qed.
End AolAcceptInv.

(** ** more refusals of x/aol, by error code; and when the handler panics *)
Lemma cs_sdk_neq_aol : cs_sdk <> cs_aol.
Proof. intros H. vm_compute in H. discriminate H. Qed.

Section AolRefusals.
  Variable unbech : bytes -> option bytes.
  Hypothesis Hunbech : unbech_wf unbech.
  Variable now : Z.

  Let ulen := unbech_len unbech Hunbech.

  Theorem create_topic_refused_address st topic desc owner_s :
    create_topic unbech st topic desc owner_s = err_invalid_address <-> unbech owner_s = None.
  Proof using Type.
    unfold create_topic, addr. destruct (unbech owner_s) as [o|]; cbn [bind]; [|split; reflexivity].
    split; [|discriminate]. intros H. exfalso.
    destruct (topic_key o topic) as [tk|cs c|] eqn:Etk; cbn [bind] in H; [| |discriminate H].
    2:{ exact (key_of_not_err _ _ _ _ Etk). }
    destruct (has tk st); [unfold err_invalid_address in H; discriminate H|].
    destruct (owner_key o) as [ok|cs c|] eqn:Eok; cbn [bind] in H; try discriminate H.
    exact (key_of_not_err _ _ _ _ Eok).
  Qed.

  (** the handler itself panics (compkey.MustEncode) exactly on a topic name above 255 bytes;
      ValidateBasic refuses such names before the handler runs *)
  Theorem create_topic_panics_iff st topic desc owner_s :
    create_topic unbech st topic desc owner_s = Panic <->
    exists o, unbech owner_s = Some o /\ 255 < length topic.
  Proof using Hunbech.
    unfold create_topic, addr. destruct (unbech owner_s) as [o|] eqn:Ea; cbn [bind].
    2:{ split; [discriminate | intros (o & H & _); discriminate H]. }
    pose proof (ulen _ _ Ea) as Lo.
    destruct (le_lt_dec (length topic) 255) as [Lt|Lt].
    - rewrite (topic_key_Ok o topic Lo Lt). cbn [bind]. rewrite (owner_key_Ok o Lo). cbn [bind].
      split; [destruct (has _ st); discriminate | intros (o' & _ & H); lia].
    - assert (P : topic_key o topic = Panic).
      { apply (key_of_Panic (TopicKey o topic)). intros H. apply enc_ok_topic in H. lia. }
      rewrite P. cbn [bind]. split; [intros _; exists o; auto | reflexivity].
  Qed.

  Theorem add_writer_refused_no_topic st topic moniker desc writer_s owner_s :
    add_writer unbech now st topic moniker desc writer_s owner_s = Err cs_aol 7 <->
    exists o w, unbech owner_s = Some o /\ unbech writer_s = Some w /\ length topic <= 255 /\
      has_key st (TopicKey o topic) = false.
  Proof using Hunbech.
    unfold add_writer. split.
    - intros H.
      destruct (unbech owner_s) as [o|] eqn:Ea.
      2:{ unfold addr in H. rewrite Ea in H. cbn [bind] in H. unfold err_invalid_address in H.
          exfalso. injection H as E. discriminate E. }
      rewrite (addr_Some _ _ _ Ea) in H. cbn [bind] in H.
      destruct (unbech writer_s) as [w|] eqn:Eaw.
      2:{ unfold addr in H. rewrite Eaw in H. cbn [bind] in H. unfold err_invalid_address in H.
          exfalso. injection H as E. discriminate E. }
      rewrite (addr_Some _ _ _ Eaw) in H. cbn [bind] in H.
      destruct (topic_key o topic) as [tk|cs c|] eqn:Etk; [| |discriminate H].
      2:{ exfalso. exact (key_of_not_err _ _ _ _ Etk). }
      cbn [bind] in H. apply topic_key_inv in Etk as (Lo & Lt & ->).
      destruct (has (skey (TopicKey o topic)) st) eqn:Hhas; cbn [negb] in H.
      + exfalso. rewrite (writer_key_Ok o topic w Lo Lt (ulen _ _ Eaw)) in H. cbn [bind] in H.
        destruct (has (skey (WriterKey o topic w)) st); [discriminate H|].
        destruct (get_topic (skey (TopicKey o topic)) st) as [[d nr] nw]. discriminate H.
      + exists o, w. rewrite has_key_skey by (apply enc_ok_topic; auto). auto.
    - intros (o & w & Ea & Eaw & Lt & Ht). pose proof (ulen _ _ Ea) as Lo.
      rewrite (addr_Some _ _ _ Ea), (addr_Some _ _ _ Eaw). cbn [bind].
      rewrite (topic_key_Ok o topic Lo Lt). cbn [bind].
      rewrite has_key_skey in Ht by (apply enc_ok_topic; auto). rewrite Ht. reflexivity.
  Qed.

  Theorem add_writer_refused_listed st topic moniker desc writer_s owner_s :
    add_writer unbech now st topic moniker desc writer_s owner_s = Err cs_aol 6 <->
    exists o w, unbech owner_s = Some o /\ unbech writer_s = Some w /\
      has_key st (TopicKey o topic) = true /\ has_key st (WriterKey o topic w) = true.
  Proof using Hunbech.
    unfold add_writer. split.
    - intros H.
      destruct (unbech owner_s) as [o|] eqn:Ea.
      2:{ unfold addr in H. rewrite Ea in H. discriminate H. }
      rewrite (addr_Some _ _ _ Ea) in H. cbn [bind] in H.
      destruct (unbech writer_s) as [w|] eqn:Eaw.
      2:{ unfold addr in H. rewrite Eaw in H. discriminate H. }
      rewrite (addr_Some _ _ _ Eaw) in H. cbn [bind] in H.
      destruct (topic_key o topic) as [tk|cs c|] eqn:Etk; [| |discriminate H].
      2:{ exfalso. exact (key_of_not_err _ _ _ _ Etk). }
      cbn [bind] in H. apply topic_key_inv in Etk as (Lo & Lt & ->).
      destruct (has (skey (TopicKey o topic)) st) eqn:Hhas; cbn [negb] in H; [|discriminate H].
      rewrite (writer_key_Ok o topic w Lo Lt (ulen _ _ Eaw)) in H. cbn [bind] in H.
      destruct (has (skey (WriterKey o topic w)) st) eqn:Hhw.
      + exists o, w. pose proof (ulen _ _ Eaw).
        rewrite !has_key_skey by (first [apply enc_ok_topic | apply enc_ok_writer]; auto). auto.
      + exfalso. destruct (get_topic (skey (TopicKey o topic)) st) as [[d nr] nw]. discriminate H.
    - intros (o & w & Ea & Eaw & Ht & Hw).
      pose proof (proj1 (enc_ok_writer _ _ _) (has_key_enc_ok st _ Hw)) as (Lo & Lt & Lw).
      rewrite (addr_Some _ _ _ Ea), (addr_Some _ _ _ Eaw). cbn [bind].
      rewrite (topic_key_Ok o topic Lo Lt). cbn [bind].
      rewrite has_key_skey in Ht by (apply enc_ok_topic; auto). rewrite Ht. cbn [negb].
      rewrite (writer_key_Ok o topic w Lo Lt Lw). cbn [bind].
      rewrite has_key_skey in Hw by (apply enc_ok_writer; auto). rewrite Hw. reflexivity.
  Qed.

  Theorem delete_writer_refused_unlisted st topic writer_s owner_s :
    delete_writer unbech st topic writer_s owner_s = Err cs_aol 8 <->
    exists o w, unbech owner_s = Some o /\ unbech writer_s = Some w /\ length topic <= 255 /\
      has_key st (WriterKey o topic w) = false.
  Proof using Hunbech.
    unfold delete_writer. split.
    - intros H.
      destruct (unbech owner_s) as [o|] eqn:Ea.
      2:{ unfold addr in H. rewrite Ea in H. discriminate H. }
      rewrite (addr_Some _ _ _ Ea) in H. cbn [bind] in H.
      destruct (unbech writer_s) as [w|] eqn:Eaw.
      2:{ unfold addr in H. rewrite Eaw in H. discriminate H. }
      rewrite (addr_Some _ _ _ Eaw) in H. cbn [bind] in H.
      destruct (writer_key o topic w) as [wk|cs c|] eqn:Ewk; [| |discriminate H].
      2:{ exfalso. exact (key_of_not_err _ _ _ _ Ewk). }
      cbn [bind] in H. apply writer_key_inv in Ewk as (Lo & Lt & Lw & ->).
      destruct (has (skey (WriterKey o topic w)) st) eqn:Hhw; cbn [negb] in H.
      + exfalso. rewrite (topic_key_Ok o topic Lo Lt) in H. cbn [bind] in H.
        destruct (get_topic (skey (TopicKey o topic)) st) as [[d nr] nw]. discriminate H.
      + exists o, w. rewrite has_key_skey by (apply enc_ok_writer; auto). auto.
    - intros (o & w & Ea & Eaw & Lt & Hw). pose proof (ulen _ _ Ea) as Lo. pose proof (ulen _ _ Eaw) as Lw.
      rewrite (addr_Some _ _ _ Ea), (addr_Some _ _ _ Eaw). cbn [bind].
      rewrite (writer_key_Ok o topic w Lo Lt Lw). cbn [bind].
      rewrite has_key_skey in Hw by (apply enc_ok_writer; auto). rewrite Hw. reflexivity.
  Qed.

  Theorem add_record_refused_no_topic st topic key value writer_s owner_s :
    add_record unbech now st topic key value writer_s owner_s = Err cs_aol 7 <->
    exists o w, unbech owner_s = Some o /\ unbech writer_s = Some w /\ length topic <= 255 /\
      has_key st (TopicKey o topic) = false.
  Proof using Hunbech.
    unfold add_record. split.
    - intros H.
      destruct (unbech owner_s) as [o|] eqn:Ea.
      2:{ unfold addr in H. rewrite Ea in H. cbn [bind] in H. unfold err_invalid_address in H.
          exfalso. injection H as E. discriminate E. }
      rewrite (addr_Some _ _ _ Ea) in H. cbn [bind] in H.
      destruct (unbech writer_s) as [w|] eqn:Eaw.
      2:{ unfold addr in H. rewrite Eaw in H. cbn [bind] in H. unfold err_invalid_address in H.
          exfalso. injection H as E. discriminate E. }
      rewrite (addr_Some _ _ _ Eaw) in H. cbn [bind] in H.
      destruct (topic_key o topic) as [tk|cs c|] eqn:Etk; [| |discriminate H].
      2:{ exfalso. exact (key_of_not_err _ _ _ _ Etk). }
      cbn [bind] in H. apply topic_key_inv in Etk as (Lo & Lt & ->).
      destruct (has (skey (TopicKey o topic)) st) eqn:Hhas; cbn [negb] in H.
      + exfalso. rewrite (writer_key_Ok o topic w Lo Lt (ulen _ _ Eaw)) in H. cbn [bind] in H.
        destruct (has (skey (WriterKey o topic w)) st); cbn [negb] in H; [|discriminate H].
        destruct (get_topic (skey (TopicKey o topic)) st) as [[d nr] nw].
        destruct (two64 - 1 <=? nr)%N; [discriminate H|].
        rewrite (record_key_Ok o topic nr Lo Lt) in H. cbn [bind] in H. discriminate H.
      + exists o, w. rewrite has_key_skey by (apply enc_ok_topic; auto). auto.
    - intros (o & w & Ea & Eaw & Lt & Ht). pose proof (ulen _ _ Ea) as Lo.
      rewrite (addr_Some _ _ _ Ea), (addr_Some _ _ _ Eaw). cbn [bind].
      rewrite (topic_key_Ok o topic Lo Lt). cbn [bind].
      rewrite has_key_skey in Ht by (apply enc_ok_topic; auto). rewrite Ht. reflexivity.
  Qed.
End AolRefusals.

(** ** a discrepancy with the expected statement, shown on a concrete store.
    DeleteWriter does not test that the topic exists.  On a store that holds a writer entry without
    its topic (excluded by [Inv], so not reachable) it is accepted, and it writes a topic entry with
    an empty description and the writer counter 0 - 1 = 2^64 - 1.  Hence "topic exists" is not part
    of the acceptance condition of [delete_writer_accept]; it follows from [Inv] only. *)
Example delete_writer_without_topic :
  let unb := fun s : bytes => Some s in
  let o := b "owner" in let t := b "topic" in let w := b "writer" in
  let st : aol_state := set (skey (WriterKey o t w)) (VWriter [] [] 0) [] in
  has_key st (TopicKey o t) = false /\
  exists st', delete_writer unb st t w o = Ok st' /\
              topic_info st' o t = Some ([], 0%N, (two64 - 1)%N) /\ has_key st' (WriterKey o t w) = false.
Proof. cbv zeta. split; [vm_compute; reflexivity|]. eexists. split; [vm_compute; reflexivity|]. vm_compute. auto. Qed.

(** * Part 2: x/pnft *)
From PV Require Import Pnft.Model Pnft.Spec Pnft.Inv.

(** the denom written by UpdateDenom: non-empty fields replace the stored ones; id and owner stay *)
Definition denom_updated (d : denom) (name symbol description uri uri_hash data : bytes) : denom :=
  {| dn_id := dn_id d; dn_name := pick_nonempty name (dn_name d); dn_symbol := pick_nonempty symbol (dn_symbol d);
     dn_description := pick_nonempty description (dn_description d); dn_uri := pick_nonempty uri (dn_uri d);
     dn_uri_hash := pick_nonempty uri_hash (dn_uri_hash d); dn_owner := dn_owner d;
     dn_data := pick_nonempty data (dn_data d) |}.

(** the denom written by TransferDenom: only the owner changes *)
Definition denom_with_owner (d : denom) (receiver : bytes) : denom :=
  {| dn_id := dn_id d; dn_name := dn_name d; dn_symbol := dn_symbol d; dn_description := dn_description d;
     dn_uri := dn_uri d; dn_uri_hash := dn_uri_hash d; dn_owner := receiver; dn_data := dn_data d |}.

(** the token written by MintPNFT *)
Definition minted_token (c id name description uri uri_hash data creator : bytes) (now : Z) : token :=
  {| tk_class := c; tk_id := id; tk_uri := uri; tk_uri_hash := uri_hash; tk_name := name;
     tk_description := description; tk_creator := creator; tk_created_at := now; tk_data := data |}.

(** the three states the x/nft keeper produces *)
Definition minted (st : pnft_state) (t : token) (r : bytes) : pnft_state :=
  set (supply_key (tk_class t)) (VSupply (get_supply st (tk_class t) + 1))
    (set_owner (set (nft_key (tk_class t) (tk_id t)) (VToken t) st) (tk_class t) (tk_id t) r).

Definition transferred (st : pnft_state) (c i r : bytes) : pnft_state :=
  set_owner (delete_owner st c i (get_owner st c i)) c i r.

Definition u64_pred (n : N) : N := if (n =? 0)%N then 18446744073709551615%N else (n - 1)%N.

Definition burned (st : pnft_state) (c i : bytes) : pnft_state :=
  set (supply_key c) (VSupply (u64_pred (get_supply st c)))
    (delete_owner (del (nft_key c i) st) c i (get_owner st c i)).

Lemma get_class_has st c d : get_class st c = Some d -> has_class st c = true.
Proof.
  unfold get_class, has_class, has. destruct (get (class_key c) st); [reflexivity | discriminate].
Qed.

Lemma get_nft_has st c i t : get_nft st c i = Some t -> has_nft st c i = true.
Proof.
  unfold get_nft, has_nft, has. destruct (get (nft_key c i) st); [reflexivity | discriminate].
Qed.

(** with well-shaped entries [has_nft] and [get_nft] agree *)
Lemma has_nft_get_nft st c i :
  Forall Pnft.Spec.entry_ok st -> (has_nft st c i = false <-> get_nft st c i = None).
Proof.
  intros Hall. unfold has_nft, get_nft, has. destruct (get (nft_key c i) st) as [v|] eqn:G.
  - destruct (look_token st c i v Hall G) as [t [-> _]]. split; discriminate.
  - split; reflexivity.
Qed.

(** ** the x/nft keeper *)
Theorem nft_mint_accept st t r st' :
  nft_mint st t r = Ok st' <->
  has_class st (tk_class t) = true /\ has_nft st (tk_class t) (tk_id t) = false /\ st' = minted st t r.
Proof.
  split.
  - intros H. pose proof (nft_mint_ok _ _ _ _ H) as (Hc & Hn & E). split; [exact Hc|]. split; [exact Hn|]. exact E.
  - intros (Hc & Hn & ->). unfold nft_mint. rewrite Hc, Hn. cbn [negb]. unfold minted. do 3 f_equal.
    unfold set_owner. rewrite !get_supply_set_other; [reflexivity| | |]; intros c' E;
      rewrite ?supply_key_eq, ?nft_key_eq, ?owner_key_eq, ?by_owner_key_eq in E; discriminate E.
Qed.

Theorem nft_transfer_accept st c i r st' :
  nft_transfer st c i r = Ok st' <->
  has_class st c = true /\ has_nft st c i = true /\ st' = transferred st c i r.
Proof.
  unfold nft_transfer, transferred. split.
  - intros H. destruct (has_class st c); cbn [negb] in H; [|discriminate H].
    destruct (has_nft st c i); cbn [negb] in H; [|discriminate H]. inversion H. auto.
  - intros (-> & -> & ->). reflexivity.
Qed.

Theorem nft_burn_accept st c i st' :
  nft_burn st c i = Ok st' <->
  has_class st c = true /\ has_nft st c i = true /\ st' = burned st c i.
Proof.
  split.
  - intros H. pose proof (nft_burn_ok _ _ _ _ H) as (Hc & Hn & E). split; [exact Hc|]. split; [exact Hn|]. exact E.
  - intros (Hc & Hn & ->). unfold nft_burn. rewrite Hc, Hn. cbn [negb]. unfold burned, u64_pred. do 3 f_equal.
    all: unfold delete_owner; rewrite !get_supply_del_other; [reflexivity| | |]; intros c' E;
      rewrite ?supply_key_eq, ?nft_key_eq, ?owner_key_eq, ?by_owner_key_eq in E; discriminate E.
Qed.

Section PnftAccept.
  Variable unbech : bytes -> option bytes.
  Variable bech : bytes -> bytes.

  (** ** the seven handlers, no hypothesis on the state *)

  (** CreateDenom: anyone, iff the id is free *)
  Theorem create_denom_accept st d st' :
    create_denom st d = Ok st' <->
    has_class st (dn_id d) = false /\ st' = set (class_key (dn_id d)) (VClass d) st.
  Proof using Type.
    unfold create_denom. split.
    - intros H. destruct (has_class st (dn_id d)); [discriminate H|]. inversion H. auto.
    - intros (-> & ->). reflexivity.
  Qed.

  (** UpdateDenom: iff the denom exists and the updater is its stored owner string (and x/nft still
      has a class under the id recorded in the value) *)
  Theorem update_denom_accept st id name symbol description uri uri_hash updater data st' :
    update_denom st id name symbol description uri uri_hash updater data = Ok st' <->
    exists d, get_class st id = Some d /\ updater = dn_owner d /\ has_class st (dn_id d) = true /\
      st' = set (class_key (dn_id d)) (VClass (denom_updated d name symbol description uri uri_hash data)) st.
  Proof using Type.
    unfold update_denom. split.
    - intros H. destruct (get_class st id) as [d|]; [|discriminate H].
      destruct (bytes_eqb updater (dn_owner d)) eqn:E; cbn [negb] in H; [|discriminate H].
      apply bytes_eqb_eq in E. cbn [dn_id] in H.
      destruct (has_class st (dn_id d)) eqn:Hc; [|discriminate H].
      inversion H. exists d. auto.
    - intros (d & -> & -> & Hc & ->). rewrite bytes_eqb_refl. cbn [negb dn_id]. rewrite Hc. reflexivity.
  Qed.

  (** DeleteDenom: iff the denom exists, the remover is its owner and, with the guard of the
      repaired code, it has no tokens *)
  Theorem delete_denom_accept guard st id remover st' :
    delete_denom guard st id remover = Ok st' <->
    exists d, get_class st id = Some d /\ remover = dn_owner d /\
      (guard = true -> get_supply st id = 0%N) /\ st' = del (class_key id) st.
  Proof using Type.
    clear unbech bech. unfold delete_denom. split.
    - intros H. destruct (get_class st id) as [d|]; [|discriminate H].
      destruct (bytes_eqb remover (dn_owner d)) eqn:E; cbn [negb] in H; [|discriminate H].
      apply bytes_eqb_eq in E.
      destruct (guard && (0 <? get_supply st id)%N) eqn:G; [discriminate H|].
      inversion H. exists d. split; [reflexivity|]. split; [exact E|]. split; [|reflexivity].
      intros ->. cbn [andb] in G. apply N.ltb_ge in G. lia.
    - intros (d & -> & -> & Hg & ->). rewrite bytes_eqb_refl. cbn [negb].
      destruct guard; cbn [andb]; [|reflexivity]. rewrite (Hg eq_refl). reflexivity.
  Qed.

  (** TransferDenom: iff the denom exists and the sender is its owner; only the owner field changes *)
  Theorem transfer_denom_accept st id sender receiver st' :
    transfer_denom st id sender receiver = Ok st' <->
    exists d, get_class st id = Some d /\ sender = dn_owner d /\ has_class st (dn_id d) = true /\
      st' = set (class_key (dn_id d)) (VClass (denom_with_owner d receiver)) st.
  Proof using Type.
    unfold transfer_denom. split.
    - intros H. destruct (get_class st id) as [d|]; [|discriminate H].
      destruct (bytes_eqb sender (dn_owner d)) eqn:E; cbn [negb] in H; [|discriminate H].
      apply bytes_eqb_eq in E. cbn [dn_id] in H.
      destruct (has_class st (dn_id d)) eqn:Hc; [|discriminate H].
      inversion H. exists d. auto.
    - intros (d & -> & -> & Hc & ->). rewrite bytes_eqb_refl. cbn [negb dn_id]. rewrite Hc. reflexivity.
  Qed.

  (** MintPNFT: iff the denom exists, the creator is its owner and decodes to an address, and the
      token id is free in the class; the token goes to the creator and the supply grows by one *)
  Theorem mint_pnft_accept st now denom_id id name description uri uri_hash data creator st' :
    mint_pnft unbech st now denom_id id name description uri uri_hash data creator = Ok st' <->
    exists d r, get_class st denom_id = Some d /\ dn_owner d = creator /\ unbech creator = Some r /\
      has_class st (dn_id d) = true /\ has_nft st (dn_id d) id = false /\
      st' = minted st (minted_token (dn_id d) id name description uri uri_hash data creator now) r.
  Proof using Type.
    unfold mint_pnft. split.
    - intros H. destruct (get_class st denom_id) as [d|]; [|discriminate H].
      destruct (bytes_eqb (dn_owner d) creator) eqn:E; cbn [negb] in H; [|discriminate H].
      apply bytes_eqb_eq in E. destruct (unbech creator) as [r|]; [|discriminate H].
      match type of H with context [nft_mint st ?t r] => destruct (nft_mint st t r) as [st1| |] eqn:M end;
        try discriminate H.
      inversion H; subst st1. apply nft_mint_accept in M as (Hc & Hn & ->). cbn [tk_class tk_id] in Hc, Hn.
      exists d, r. repeat (split; [first [reflexivity | assumption]|]). reflexivity.
    - intros (d & r & G & E & U & Hc & Hn & ->). subst creator. rewrite G, bytes_eqb_refl. cbn [negb]. rewrite U.
      match goal with |- context [nft_mint st ?t r] =>
        assert (M : nft_mint st t r = Ok (minted st t r)) by (apply nft_mint_accept; auto) end.
      rewrite M. reflexivity.
  Qed.

  (** TransferPNFT: iff the token exists, the sender is the printed form of its stored owner, the
      receiver decodes, and x/nft has the class *)
  Theorem transfer_pnft_accept st denom_id id sender receiver st' :
    transfer_pnft unbech bech st denom_id id sender receiver = Ok st' <->
    exists t r, get_nft st denom_id id = Some t /\ sender = owner_string bech (get_owner st denom_id id) /\
      unbech receiver = Some r /\ has_class st denom_id = true /\
      st' = transferred st denom_id id r.
  Proof using Type.
    unfold transfer_pnft, get_pnft. split.
    - intros H. destruct (get_nft st denom_id id) as [t|] eqn:G; [|discriminate H]. cbn [p_owner] in H.
      destruct (bytes_eqb sender (owner_string bech (get_owner st denom_id id))) eqn:E; cbn [negb] in H; [|discriminate H].
      apply bytes_eqb_eq in E. destruct (unbech receiver) as [r|]; [|discriminate H].
      destruct (nft_transfer st denom_id id r) as [st1| |] eqn:T; try discriminate H.
      inversion H; subst st1. apply nft_transfer_accept in T as (Hc & Hn & ->).
      exists t, r. auto.
    - intros (t & r & G & -> & -> & Hc & ->). rewrite G. cbn [p_owner]. rewrite bytes_eqb_refl. cbn [negb].
      assert (T : nft_transfer st denom_id id r = Ok (transferred st denom_id id r)).
      { apply nft_transfer_accept. split; [exact Hc|]. split; [exact (get_nft_has _ _ _ _ G) | reflexivity]. }
      rewrite T. reflexivity.
  Qed.

  (** BurnPNFT: iff the token exists and the burner is the printed form of its stored owner *)
  Theorem burn_pnft_accept st denom_id id burner st' :
    burn_pnft bech st denom_id id burner = Ok st' <->
    exists t, get_nft st denom_id id = Some t /\ burner = owner_string bech (get_owner st denom_id id) /\
      has_class st denom_id = true /\ st' = burned st denom_id id.
  Proof using Type.
    unfold burn_pnft, get_pnft. split.
    - intros H. destruct (get_nft st denom_id id) as [t|] eqn:G; [|discriminate H]. cbn [p_owner] in H.
      destruct (bytes_eqb burner (owner_string bech (get_owner st denom_id id))) eqn:E; cbn [negb] in H; [|discriminate H].
      apply bytes_eqb_eq in E.
      destruct (nft_burn st denom_id id) as [st1| |] eqn:T; try discriminate H.
      inversion H; subst st1. apply nft_burn_accept in T as (Hc & Hn & ->).
      exists t. auto.
    - intros (t & G & -> & Hc & ->). rewrite G. cbn [p_owner]. rewrite bytes_eqb_refl. cbn [negb].
      assert (T : nft_burn st denom_id id = Ok (burned st denom_id id)).
      { apply nft_burn_accept. split; [exact Hc|]. split; [exact (get_nft_has _ _ _ _ G) | reflexivity]. }
      rewrite T. reflexivity.
  Qed.
End PnftAccept.

(** ** the same over a state that satisfies [Inv_pnft]: a denom is stored under its own id, a token
    has a class, a non-empty owner and a positive supply, so the side conditions on x/nft disappear *)
Lemma owner_string_wf bech o : verify_address_format o = true -> owner_string bech o = bech o.
Proof. destruct o; [discriminate | reflexivity]. Qed.

Lemma token_supply_pos st c i t : Inv_pnft st -> get_nft st c i = Some t -> (1 <= get_supply st c)%N.
Proof.
  intros HI G. rewrite (ip_supply st HI c).
  pose proof (toc_pos st c i (ip_sorted st HI) (ip_entries st HI) (get_nft_has _ _ _ _ G)). lia.
Qed.

Section PnftAcceptInv.
  Variable unbech : bytes -> option bytes.
  Variable bech : bytes -> bytes.

  Theorem update_denom_accept_inv st id name symbol description uri uri_hash updater data st' :
    Inv_pnft st ->
    (update_denom st id name symbol description uri uri_hash updater data = Ok st' <->
     exists d, get_class st id = Some d /\ updater = dn_owner d /\
       st' = set (class_key id) (VClass (denom_updated d name symbol description uri uri_hash data)) st).
  Proof using Type.
    intros HI. rewrite update_denom_accept. split.
    - intros (d & G & E & Hc & ->). destruct (get_class_id st id d HI G) as [Eid _]. rewrite Eid. exists d. auto.
    - intros (d & G & E & ->). destruct (get_class_id st id d HI G) as [Eid _]. exists d. rewrite Eid.
      pose proof (get_class_has _ _ _ G). auto.
  Qed.

  Theorem transfer_denom_accept_inv st id sender receiver st' :
    Inv_pnft st ->
    (transfer_denom st id sender receiver = Ok st' <->
     exists d, get_class st id = Some d /\ sender = dn_owner d /\
       st' = set (class_key id) (VClass (denom_with_owner d receiver)) st).
  Proof using Type.
    intros HI. rewrite transfer_denom_accept. split.
    - intros (d & G & E & Hc & ->). destruct (get_class_id st id d HI G) as [Eid _]. rewrite Eid. exists d. auto.
    - intros (d & G & E & ->). destruct (get_class_id st id d HI G) as [Eid _]. exists d. rewrite Eid.
      pose proof (get_class_has _ _ _ G). auto.
  Qed.

  Theorem mint_pnft_accept_inv st now denom_id id name description uri uri_hash data creator st' :
    Inv_pnft st ->
    (mint_pnft unbech st now denom_id id name description uri uri_hash data creator = Ok st' <->
     exists d r, get_class st denom_id = Some d /\ dn_owner d = creator /\ unbech creator = Some r /\
       get_nft st denom_id id = None /\
       st' = minted st (minted_token denom_id id name description uri uri_hash data creator now) r).
  Proof using Type.
    intros HI. rewrite mint_pnft_accept. split.
    - intros (d & r & G & E & U & Hc & Hn & ->). destruct (get_class_id st denom_id d HI G) as [Eid _].
      rewrite Eid in *. exists d, r. repeat (split; [assumption|]).
      split; [apply (has_nft_get_nft st denom_id id (ip_entries st HI)); exact Hn | reflexivity].
    - intros (d & r & G & E & U & Hn & ->). destruct (get_class_id st denom_id d HI G) as [Eid _].
      exists d, r. rewrite Eid. repeat (split; [assumption|]).
      split; [exact (get_class_has _ _ _ G)|].
      split; [apply (has_nft_get_nft st denom_id id (ip_entries st HI)); exact Hn | reflexivity].
  Qed.

  Theorem transfer_pnft_accept_inv st denom_id id sender receiver st' :
    Inv_pnft st ->
    (transfer_pnft unbech bech st denom_id id sender receiver = Ok st' <->
     exists t r, get_nft st denom_id id = Some t /\ sender = bech (get_owner st denom_id id) /\
       unbech receiver = Some r /\ st' = transferred st denom_id id r).
  Proof using Type.
    intros HI. rewrite transfer_pnft_accept. split.
    - intros (t & r & G & E & U & Hc & ->). destruct (token_has_owner st HI _ _ _ G) as [Vo _].
      rewrite (owner_string_wf bech _ Vo) in E. exists t, r. auto.
    - intros (t & r & G & E & U & ->). destruct (token_has_owner st HI _ _ _ G) as [Vo _].
      destruct (token_has_denom st HI _ _ _ G) as [Hc _].
      exists t, r. rewrite (owner_string_wf bech _ Vo). auto.
  Qed.

  Theorem burn_pnft_accept_inv st denom_id id burner st' :
    Inv_pnft st ->
    (burn_pnft bech st denom_id id burner = Ok st' <->
     exists t, get_nft st denom_id id = Some t /\ burner = bech (get_owner st denom_id id) /\
       st' = set (supply_key denom_id) (VSupply (get_supply st denom_id - 1))
               (delete_owner (del (nft_key denom_id id) st) denom_id id (get_owner st denom_id id))).
  Proof using Type.
    clear unbech. intros HI. rewrite burn_pnft_accept.
    assert (P : forall t, get_nft st denom_id id = Some t ->
                burned st denom_id id =
                set (supply_key denom_id) (VSupply (get_supply st denom_id - 1))
                  (delete_owner (del (nft_key denom_id id) st) denom_id id (get_owner st denom_id id))).
    { intros t G. pose proof (token_supply_pos st _ _ _ HI G) as Hp. unfold burned, u64_pred.
      destruct (N.eqb_spec (get_supply st denom_id) 0) as [E0|_]; [lia | reflexivity]. }
    split.
    - intros (t & G & E & Hc & ->). destruct (token_has_owner st HI _ _ _ G) as [Vo _].
      rewrite (owner_string_wf bech _ Vo) in E. exists t. rewrite <- (P t G). auto.
    - intros (t & G & E & ->). destruct (token_has_owner st HI _ _ _ G) as [Vo _].
      destruct (token_has_denom st HI _ _ _ G) as [Hc _].
      exists t. rewrite (owner_string_wf bech _ Vo), (P t G). auto.
  Qed.

  (** ** user-facing corollaries *)
  Corollary anyone_can_create_fresh_denom st d :
    has_class st (dn_id d) = false -> exists st', create_denom st d = Ok st' /\ get_class st' (dn_id d) = Some d.
  Proof using Type.
    intros H. eexists. split; [apply create_denom_accept; split; [exact H | reflexivity]|].
    unfold get_class. rewrite get_set_eq. reflexivity.
  Qed.

  Corollary denom_owner_can_update st id d name symbol description uri uri_hash data :
    Inv_pnft st -> get_class st id = Some d ->
    exists st', update_denom st id name symbol description uri uri_hash (dn_owner d) data = Ok st' /\
                get_class st' id = Some (denom_updated d name symbol description uri uri_hash data).
  Proof using Type.
    intros HI G. eexists. split.
    - apply (update_denom_accept_inv _ _ _ _ _ _ _ _ _ _ HI). exists d. auto.
    - unfold get_class. rewrite get_set_eq. reflexivity.
  Qed.

  Corollary denom_owner_can_hand_over st id d receiver :
    Inv_pnft st -> get_class st id = Some d ->
    exists st', transfer_denom st id (dn_owner d) receiver = Ok st' /\ denom_owner st' id = Some receiver.
  Proof using Type.
    intros HI G. eexists. split.
    - apply (transfer_denom_accept_inv _ _ _ _ _ HI). exists d. auto.
    - unfold denom_owner, get_class. rewrite get_set_eq. reflexivity.
  Qed.

  Corollary denom_owner_can_delete_empty st id d :
    get_class st id = Some d -> get_supply st id = 0%N ->
    exists st', delete_denom true st id (dn_owner d) = Ok st' /\ has_class st' id = false.
  Proof using Type.
    intros G Hs. eexists. split.
    - apply delete_denom_accept. exists d. auto.
    - unfold has_class, has. rewrite get_del_eq. reflexivity.
  Qed.

  (** the guard of the repaired code is the only thing that stops the owner *)
  Corollary denom_with_tokens_cannot_be_deleted st id remover :
    (0 < get_supply st id)%N -> forall st', delete_denom true st id remover <> Ok st'.
  Proof using Type.
    clear unbech bech. intros Hs st' H. apply delete_denom_accept in H as (d & _ & _ & Hg & _). specialize (Hg eq_refl). lia.
  Qed.

  (** the owner of a denom (whose owner string is an address) can mint any token id of that denom
      exactly when the id is not taken *)
  Corollary denom_owner_can_mint_unless_id_taken st now denom_id id name description uri uri_hash data d r :
    Inv_pnft st -> get_class st denom_id = Some d -> unbech (dn_owner d) = Some r ->
    ((exists st', mint_pnft unbech st now denom_id id name description uri uri_hash data (dn_owner d) = Ok st')
     <-> get_nft st denom_id id = None).
  Proof using Type.
    intros HI G U. split.
    - intros [st' H]. apply (mint_pnft_accept_inv _ _ _ _ _ _ _ _ _ _ _ HI) in H as (d' & r' & _ & _ & _ & Hn & _).
      exact Hn.
    - intros Hn. eexists. apply (mint_pnft_accept_inv _ _ _ _ _ _ _ _ _ _ _ HI). exists d, r. auto.
  Qed.

  Corollary only_denom_owner_can_mint st now denom_id id name description uri uri_hash data creator d st' :
    get_class st denom_id = Some d ->
    mint_pnft unbech st now denom_id id name description uri uri_hash data creator = Ok st' -> creator = dn_owner d.
  Proof using Type.
    intros G H. apply mint_pnft_accept in H as (d' & r & G' & E & _). rewrite G in G'. inversion G'; subst d'.
    symmetry. exact E.
  Qed.

  Corollary token_owner_can_transfer st denom_id id t receiver r :
    Inv_pnft st -> get_nft st denom_id id = Some t -> unbech receiver = Some r ->
    exists st', transfer_pnft unbech bech st denom_id id (bech (get_owner st denom_id id)) receiver = Ok st' /\
                get_owner st' denom_id id = r /\ get_nft st' denom_id id = Some t.
  Proof using Type.
    intros HI G U. eexists. split; [|split].
    - apply (transfer_pnft_accept_inv _ _ _ _ _ _ HI). exists t, r. auto.
    - unfold transferred, get_owner, set_owner, delete_owner. fold_enc. kv. rewrite get_set_eq. reflexivity.
    - unfold transferred, get_nft, set_owner, delete_owner. fold_enc. kv.
      change (enc (NToken denom_id id)) with (nft_key denom_id id). exact G.
  Qed.

  Corollary token_owner_can_burn st denom_id id t :
    Inv_pnft st -> get_nft st denom_id id = Some t ->
    exists st', burn_pnft bech st denom_id id (bech (get_owner st denom_id id)) = Ok st' /\
                get_nft st' denom_id id = None /\ (get_supply st' denom_id + 1 = get_supply st denom_id)%N.
  Proof using Type.
    clear unbech. intros HI G. eexists. split; [|split].
    - apply (burn_pnft_accept_inv _ _ _ _ _ HI). exists t. auto.
    - unfold get_nft, delete_owner. fold_enc. kv. rewrite get_del_eq. reflexivity.
    - rewrite get_supply_set_supply, bytes_eqb_refl. pose proof (token_supply_pos st _ _ _ HI G). lia.
  Qed.

  (** ** refusals: each PNFT handler answers [Ok] or its one error code, never anything else *)
  Theorem create_denom_total st d :
    (exists st', create_denom st d = Ok st') \/ create_denom st d = Err cs_pnft 1.
  Proof using Type. unfold create_denom. destruct (has_class st (dn_id d)); [right | left; eexists]; reflexivity. Qed.

  Theorem update_denom_total st id name symbol description uri uri_hash updater data :
    (exists st', update_denom st id name symbol description uri uri_hash updater data = Ok st') \/
    update_denom st id name symbol description uri uri_hash updater data = Err cs_pnft 2.
  Proof using Type.
    unfold update_denom. destruct (get_class st id) as [d|]; [|right; reflexivity].
    destruct (negb _); [right; reflexivity|]. destruct (has_class _ _); [left; eexists | right]; reflexivity.
  Qed.

  Theorem delete_denom_total guard st id remover :
    (exists st', delete_denom guard st id remover = Ok st') \/ delete_denom guard st id remover = Err cs_pnft 3.
  Proof using Type.
    unfold delete_denom. destruct (get_class st id) as [d|]; [|right; reflexivity].
    destruct (negb _); [right; reflexivity|]. destruct (guard && _); [right | left; eexists]; reflexivity.
  Qed.

  Theorem transfer_denom_total st id sender receiver :
    (exists st', transfer_denom st id sender receiver = Ok st') \/ transfer_denom st id sender receiver = Err cs_pnft 4.
  Proof using Type.
    unfold transfer_denom. destruct (get_class st id) as [d|]; [|right; reflexivity].
    destruct (negb _); [right; reflexivity|]. destruct (has_class _ _); [left; eexists | right]; reflexivity.
  Qed.

  Theorem mint_pnft_total st now denom_id id name description uri uri_hash data creator :
    (exists st', mint_pnft unbech st now denom_id id name description uri uri_hash data creator = Ok st') \/
    mint_pnft unbech st now denom_id id name description uri uri_hash data creator = Err cs_pnft 6.
  Proof using Type.
    unfold mint_pnft. destruct (get_class st denom_id) as [d|]; [|right; reflexivity].
    destruct (negb _); [right; reflexivity|]. destruct (unbech creator) as [r|]; [|right; reflexivity].
    unfold nft_mint. destruct (negb _); [right; reflexivity|].
    destruct (has_nft _ _ _); [right | left; eexists]; reflexivity.
  Qed.

  Theorem transfer_pnft_total st denom_id id sender receiver :
    (exists st', transfer_pnft unbech bech st denom_id id sender receiver = Ok st') \/
    transfer_pnft unbech bech st denom_id id sender receiver = Err cs_pnft 7.
  Proof using Type.
    unfold transfer_pnft. destruct (get_pnft bech st denom_id id) as [p|]; [|right; reflexivity].
    destruct (negb _); [right; reflexivity|]. destruct (unbech receiver) as [r|]; [|right; reflexivity].
    unfold nft_transfer. destruct (negb _); [right; reflexivity|].
    destruct (negb _); [right | left; eexists]; reflexivity.
  Qed.

  Theorem burn_pnft_total st denom_id id burner :
    (exists st', burn_pnft bech st denom_id id burner = Ok st') \/
    burn_pnft bech st denom_id id burner = Err cs_pnft 8.
  Proof using Type.
    unfold burn_pnft. destruct (get_pnft bech st denom_id id) as [p|]; [|right; reflexivity].
    destruct (negb _); [right; reflexivity|].
    unfold nft_burn. destruct (negb _); [right; reflexivity|].
    destruct (negb _); [right | left; eexists]; reflexivity.
  Qed.

  (** so a refusal is exactly the failure of the acceptance condition, e.g. for TransferPNFT *)
  Corollary transfer_pnft_refused_iff st denom_id id sender receiver :
    Inv_pnft st ->
    (transfer_pnft unbech bech st denom_id id sender receiver = Err cs_pnft 7 <->
     ~ (exists t r, get_nft st denom_id id = Some t /\ sender = bech (get_owner st denom_id id) /\
                    unbech receiver = Some r)).
  Proof using Type.
    intros HI. split.
    - intros H (t & r & G & E & U).
      assert (A : transfer_pnft unbech bech st denom_id id sender receiver = Ok (transferred st denom_id id r)).
      { apply (transfer_pnft_accept_inv _ _ _ _ _ _ HI). exists t, r. auto. }
      rewrite A in H. discriminate H.
    - intros N. destruct (transfer_pnft_total st denom_id id sender receiver) as [[st' H]|H]; [|exact H].
      exfalso. apply N. apply (transfer_pnft_accept_inv _ _ _ _ _ _ HI) in H as (t & r & G & E & U & _).
      exists t, r. auto.
  Qed.
End PnftAcceptInv.

(** ** a point where the acceptance condition is not the expected one.
    TransferPNFT / BurnPNFT (and MintPNFT for the denom owner) compare STRINGS: the sender must be
    byte-for-byte the printed form [bech owner] of the stored owner.  A sender string that decodes to
    the owner's address but is spelled differently is refused; "the sender decodes to the owner" is
    therefore not the acceptance condition (it would be under a round-trip law for bech32, which the
    model does not assume).  Concretely, with a decoder that reads both "A" and "a" as one address
    and a printer that writes "a": *)
Example transfer_by_other_spelling_refused :
  let unb := fun s : bytes => if bytes_eqb s (b "A") || bytes_eqb s (b "a") then Some (b "addr") else None in
  let bch := fun _ : bytes => b "a" in
  let d := {| dn_id := b "c"; dn_name := b "n"; dn_symbol := b "s"; dn_description := []; dn_uri := [];
              dn_uri_hash := []; dn_owner := b "a"; dn_data := [] |} in
  exists st1 st2,
    create_denom [] d = Ok st1 /\
    mint_pnft unb st1 0 (b "c") (b "i") (b "n") [] [] [] [] (b "a") = Ok st2 /\
    unb (b "A") = Some (get_owner st2 (b "c") (b "i")) /\
    transfer_pnft unb bch st2 (b "c") (b "i") (b "A") (b "a") = Err cs_pnft 7 /\
    exists st3, transfer_pnft unb bch st2 (b "c") (b "i") (b "a") (b "a") = Ok st3.
Proof.
  cbv zeta. eexists. eexists. split; [vm_compute; reflexivity|]. split; [vm_compute; reflexivity|].
  split; [vm_compute; reflexivity|]. split; [vm_compute; reflexivity|]. eexists. vm_compute. reflexivity.
Qed.

(** * Part 3: x/did *)
From PV Require Import Proto.Model Did.Model Did.Props.

(** ** the three states of a registry entry, as the query reports them *)
Lemma q_did_not_found st did : q_did st did = DNotFound <-> entry_empty (get_entry st did) = true.
Proof.
  unfold q_did. destruct (entry_empty (get_entry st did)) eqn:Ee; [split; reflexivity|].
  split; [|discriminate]. destruct (entry_deactivated (get_entry st did)); [discriminate|].
  unfold entry_empty in Ee. destruct (en_doc (get_entry st did)); discriminate.
Qed.

Lemma q_did_deactivated st did :
  q_did st did = DDeactivated <->
  entry_empty (get_entry st did) = false /\ entry_deactivated (get_entry st did) = true.
Proof.
  unfold q_did. destruct (entry_empty (get_entry st did)) eqn:Ee.
  - split; [discriminate | intros [H _]; discriminate H].
  - destruct (entry_deactivated (get_entry st did)); [split; auto|].
    split; [|intros [_ H]; discriminate H]. destruct (en_doc (get_entry st did)); discriminate.
Qed.

Lemma q_did_found st did stored seq :
  q_did st did = DFound stored seq <->
  entry_empty (get_entry st did) = false /\ entry_deactivated (get_entry st did) = false /\
  en_doc (get_entry st did) = Some stored /\ en_seq (get_entry st did) = seq.
Proof.
  unfold q_did. destruct (entry_empty (get_entry st did)) eqn:Ee.
  - split; [discriminate | intros [H _]; discriminate H].
  - destruct (entry_deactivated (get_entry st did)).
    + split; [discriminate | intros (_ & H & _); discriminate H].
    + destruct (en_doc (get_entry st did)) as [d|] eqn:Ed.
      * split; [intros [= -> ->]; auto | intros (_ & _ & [= ->] & ->); reflexivity].
      * unfold entry_empty in Ee. rewrite Ed in Ee. discriminate Ee.
Qed.

(** with the registry invariant "not found" means that nothing is stored under the DID *)
Lemma q_did_not_found_absent st did :
  Inv_did st -> (q_did st did = DNotFound <-> get (did_key did) st = None).
Proof.
  intros HI. rewrite q_did_not_found. split.
  - intros He. destruct (Inv_did_get_entry st did HI) as [G|Hok]; [exact G|].
    rewrite (entry_ok_not_empty did _ Hok) in He. discriminate He.
  - intros G. unfold get_entry. rewrite G. reflexivity.
Qed.

Section DidAccept.
  Variable b58key : bytes -> option bytes.
  Variable verify : bytes -> bytes -> bytes -> bool.

  Notation proof_ok := (proof_ok b58key verify).
  Notation create_did := (create_did b58key verify marshal_doc).
  Notation update_did := (update_did b58key verify marshal_doc).
  Notation deactivate_did := (deactivate_did b58key verify marshal_doc).

  (** the ownership check succeeds iff an ES256K authentication key of [doc] named [vmid] verifies
      the signature over the signed data and the expected sequence; it answers sequence + 1 *)
  Theorem verify_ownership_accept data seq doc vmid sig n :
    verify_ownership b58key verify marshal_doc data seq doc vmid sig = Ok n <->
    proof_ok doc data seq vmid sig /\ n = (seq + 1)%N.
  Proof using Type.
    split; [apply verify_ownership_ok|].
    intros [(Hm & vm & pk & Hvm & Ht & Hk & Hv) ->]. unfold verify_ownership.
    rewrite Hvm, Ht. cbn [negb]. rewrite Hk, Hv. apply N.eqb_neq in Hm. rewrite Hm. reflexivity.
  Qed.

  (** which error a failed check gives *)
  Theorem verify_ownership_refused data seq doc vmid sig :
    ~ proof_ok doc data seq vmid sig ->
    exists c, verify_ownership b58key verify marshal_doc data seq doc vmid sig = Err cs_did c /\
              (c = 8 \/ c = 15 \/ c = 10 \/ c = 9)%N.
  Proof using Type.
    intros Hn. unfold verify_ownership.
    destruct (vm_from doc (doc_auth doc) vmid) as [vm|] eqn:Hvm; [|exists 8%N; auto].
    destruct (es256k (vm_type vm)) eqn:Ht; cbn [negb]; [|exists 15%N; auto].
    destruct (b58key (vm_pubkey58 vm)) as [pk|] eqn:Hk; [|exists 10%N; auto].
    destruct (verify pk (signbytes (marshal_doc data) seq) sig) eqn:Hv; [|exists 9%N; auto 6].
    destruct (seq =? max_seq)%N eqn:Em; cbn [andb negb]; [exists 9%N; auto 6|].
    exfalso. apply Hn. split; [apply N.eqb_neq; exact Em|]. exists vm, pk. auto.
  Qed.

  (** CreateDID: iff nothing (live or deactivated) is registered under the DID and the new document
      proves control of itself at sequence 0 *)
  Theorem create_did_accept st did doc vmid sig st' :
    create_did st did doc vmid sig = Ok st' <->
    q_did st did = DNotFound /\ proof_ok doc doc 0%N vmid sig /\
    st' = set (did_key did) {| en_doc := Some doc; en_seq := 0 |} st.
  Proof using Type.
    rewrite q_did_not_found. split; [apply create_did_ok|].
    intros (He & Hp & ->). unfold Model.create_did. rewrite He. cbn [negb].
    assert (V : verify_ownership b58key verify marshal_doc doc 0 doc vmid sig = Ok (0 + 1)%N)
      by (apply verify_ownership_accept; auto).
    rewrite V. reflexivity.
  Qed.

  (** UpdateDID: iff a live document is registered and the signature is valid over the new document
      and the stored sequence, by an authentication key of the STORED document; sequence + 1 *)
  Theorem update_did_accept st did doc vmid sig st' :
    update_did st did doc vmid sig = Ok st' <->
    exists stored seq, q_did st did = DFound stored seq /\ proof_ok stored doc seq vmid sig /\
      st' = set (did_key did) {| en_doc := Some doc; en_seq := seq + 1 |} st.
  Proof using Type.
    split.
    - intros H. apply update_did_ok in H as (stored & Hs & He & Hd & Hp & ->).
      exists stored, (en_seq (get_entry st did)). split; [apply q_did_found; auto|]. auto.
    - intros (stored & seq & Hq & Hp & ->). apply q_did_found in Hq as (He & Hd & Hs & <-).
      unfold Model.update_did. rewrite He, Hd, Hs.
      assert (V : verify_ownership b58key verify marshal_doc doc (en_seq (get_entry st did)) stored vmid sig
                  = Ok (en_seq (get_entry st did) + 1)%N) by (apply verify_ownership_accept; auto).
      rewrite V. reflexivity.
  Qed.

  (** DeactivateDID: the same proof over the id-only document; the entry becomes a tombstone *)
  Theorem deactivate_did_accept st did vmid sig st' :
    deactivate_did st did vmid sig = Ok st' <->
    exists stored seq, q_did st did = DFound stored seq /\ proof_ok stored (id_only did) seq vmid sig /\
      st' = set (did_key did) {| en_doc := Some empty_doc; en_seq := seq + 1 |} st.
  Proof using Type.
    split.
    - intros H. apply deactivate_did_ok in H as (stored & Hs & He & Hd & Hp & ->).
      exists stored, (en_seq (get_entry st did)). split; [apply q_did_found; auto|]. auto.
    - intros (stored & seq & Hq & Hp & ->). apply q_did_found in Hq as (He & Hd & Hs & <-).
      unfold Model.deactivate_did. rewrite He, Hd, Hs.
      assert (V : verify_ownership b58key verify marshal_doc (id_only did) (en_seq (get_entry st did)) stored vmid sig
                  = Ok (en_seq (get_entry st did) + 1)%N) by (apply verify_ownership_accept; auto).
      rewrite V. reflexivity.
  Qed.

  (** ** refusals that do not depend on the proof *)
  Theorem create_did_refused_exists st did doc vmid sig :
    create_did st did doc vmid sig = Err cs_did 2 <-> exists stored seq, q_did st did = DFound stored seq.
  Proof using Type.
    unfold Model.create_did, q_did. destruct (entry_empty (get_entry st did)) eqn:Ee; cbn [negb].
    - split; [|intros (s & n & H); discriminate H].
      intros H. exfalso.
      destruct (verify_ownership b58key verify marshal_doc doc 0 doc vmid sig) as [n|cs c|] eqn:V;
        cbn [bind] in H; try discriminate H.
      unfold verify_ownership in V. destruct (vm_from doc (doc_auth doc) vmid) as [vm|]; [|inversion V; subst; discriminate H].
      destruct (negb (es256k (vm_type vm))); [inversion V; subst; discriminate H|].
      destruct (b58key (vm_pubkey58 vm)); [|inversion V; subst; discriminate H].
      destruct (verify _ _ sig && _); inversion V; subst; discriminate H.
    - destruct (entry_deactivated (get_entry st did)).
      + split; [discriminate | intros (s & n & H); discriminate H].
      + split; [intros _ | reflexivity].
        unfold entry_empty in Ee. destruct (en_doc (get_entry st did)) as [d|]; [|discriminate Ee]. eauto.
  Qed.

  Theorem create_did_refused_deactivated st did doc vmid sig :
    create_did st did doc vmid sig = Err cs_did 13 <-> q_did st did = DDeactivated.
  Proof using Type.
    unfold Model.create_did, q_did. destruct (entry_empty (get_entry st did)) eqn:Ee; cbn [negb].
    - split; [|discriminate].
      intros H. exfalso.
      destruct (verify_ownership b58key verify marshal_doc doc 0 doc vmid sig) as [n|cs c|] eqn:V;
        cbn [bind] in H; try discriminate H.
      unfold verify_ownership in V. destruct (vm_from doc (doc_auth doc) vmid) as [vm|]; [|inversion V; subst; discriminate H].
      destruct (negb (es256k (vm_type vm))); [inversion V; subst; discriminate H|].
      destruct (b58key (vm_pubkey58 vm)); [|inversion V; subst; discriminate H].
      destruct (verify _ _ sig && _); inversion V; subst; discriminate H.
    - destruct (entry_deactivated (get_entry st did)); [split; reflexivity|].
      split; [discriminate|]. destruct (en_doc (get_entry st did)); discriminate.
  Qed.

  Theorem update_did_refused_not_found st did doc vmid sig :
    update_did st did doc vmid sig = Err cs_did 5 <-> q_did st did = DNotFound.
  Proof using Type.
    rewrite q_did_not_found. unfold Model.update_did.
    destruct (entry_empty (get_entry st did)) eqn:Ee; [split; reflexivity|].
    split; [|discriminate]. intros H. exfalso.
    destruct (entry_deactivated (get_entry st did)); [discriminate H|].
    destruct (en_doc (get_entry st did)) as [stored|]; [|discriminate H].
    destruct (verify_ownership b58key verify marshal_doc doc (en_seq (get_entry st did)) stored vmid sig) as [n|cs c|] eqn:V;
      cbn [bind] in H; try discriminate H.
    unfold verify_ownership in V. destruct (vm_from stored (doc_auth stored) vmid) as [vm|]; [|inversion V; subst; discriminate H].
    destruct (negb (es256k (vm_type vm))); [inversion V; subst; discriminate H|].
    destruct (b58key (vm_pubkey58 vm)); [|inversion V; subst; discriminate H].
    destruct (verify _ _ sig && _); inversion V; subst; discriminate H.
  Qed.

  (** ** user-facing corollaries *)
  Corollary valid_proof_creates st did doc vmid sig :
    q_did st did = DNotFound -> proof_ok doc doc 0%N vmid sig -> doc_empty doc = false ->
    exists st', create_did st did doc vmid sig = Ok st' /\ q_did st' did = DFound doc 0%N.
  Proof using Type.
    intros Hq Hp Hne. eexists. split; [apply create_did_accept; auto|].
    apply q_did_found. rewrite get_entry_set_same. unfold entry_empty, entry_deactivated. cbn [en_doc en_seq].
    rewrite Hne. auto.
  Qed.

  Corollary valid_proof_updates st did stored seq doc vmid sig :
    q_did st did = DFound stored seq -> proof_ok stored doc seq vmid sig -> doc_empty doc = false ->
    exists st', update_did st did doc vmid sig = Ok st' /\ q_did st' did = DFound doc (seq + 1)%N.
  Proof using Type.
    intros Hq Hp Hne. eexists. split; [apply update_did_accept; exists stored, seq; auto|].
    apply q_did_found. rewrite get_entry_set_same. unfold entry_empty, entry_deactivated. cbn [en_doc en_seq].
    rewrite Hne. auto.
  Qed.

  Corollary valid_proof_deactivates st did stored seq vmid sig :
    q_did st did = DFound stored seq -> proof_ok stored (id_only did) seq vmid sig ->
    exists st', deactivate_did st did vmid sig = Ok st' /\ q_did st' did = DDeactivated.
  Proof using Type.
    intros Hq Hp. eexists. split; [apply deactivate_did_accept; exists stored, seq; auto|].
    apply q_did_deactivated. rewrite get_entry_set_same. unfold entry_empty, entry_deactivated. cbn [en_doc en_seq].
    assert (E : (seq + 1 =? 0)%N = false) by (apply N.eqb_neq; lia). rewrite E. auto.
  Qed.

  (** an update is decided by the proof alone once a live document is registered *)
  Corollary update_did_accepted_iff_proof st did stored seq doc vmid sig :
    q_did st did = DFound stored seq ->
    ((exists st', update_did st did doc vmid sig = Ok st') <-> proof_ok stored doc seq vmid sig).
  Proof using Type.
    intros Hq. split.
    - intros [st' H]. apply update_did_accept in H as (s & n & Hq' & Hp & _).
      rewrite Hq in Hq'. inversion Hq'; subst. exact Hp.
    - intros Hp. eexists. apply update_did_accept. exists stored, seq. auto.
  Qed.
  (** a discrepancy with the naive reading "an accepted update leaves a live document": the handler
      does not look at the new document, so an accepted update whose document has an empty id turns
      the entry into a tombstone (only the repaired ValidateBasic excludes such a message) *)
  Corollary update_with_empty_doc_deactivates st did stored seq doc vmid sig :
    q_did st did = DFound stored seq -> proof_ok stored doc seq vmid sig -> doc_empty doc = true ->
    exists st', update_did st did doc vmid sig = Ok st' /\ q_did st' did = DDeactivated.
  Proof using Type.
    intros Hq Hp He. eexists. split; [apply update_did_accept; exists stored, seq; auto|].
    apply q_did_deactivated. rewrite get_entry_set_same. unfold entry_empty, entry_deactivated. cbn [en_doc en_seq].
    assert (E : (seq + 1 =? 0)%N = false) by (apply N.eqb_neq; lia). rewrite He, E. auto.
  Qed.
End DidAccept.

(** * Part 4: the message server layer of the chain model
    [exec_base] accepts an AOL / DID / PNFT message exactly when the handler does, stores the
    handler's state in the right component and acknowledges what the handler returned; together
    with Parts 1-3 this characterises acceptance of a message by the chain. *)
From PV Require Import Chain.Model.

Lemma bind_wrap_iff {A B} (x : outcome A) (f : A -> B) (r : B) :
  bind x (fun a => Ok (f a)) = Ok r <-> exists a, x = Ok a /\ r = f a.
Proof.
  destruct x as [a|cs c|]; cbn [bind]; split.
  - intros [= <-]. eauto.
  - intros (a' & [= <-] & ->). reflexivity.
  - discriminate.
  - intros (a' & H & _). discriminate H.
  - discriminate.
  - intros (a' & H & _). discriminate H.
Qed.

Theorem exec_aol_accept e c m c' acks :
  exec_base e c (BAol m) = Ok (c', acks) <->
  match m with
  | ACreateTopic t d o =>
      exists st', create_topic (e_unbech e) (c_aol c) t d o = Ok st' /\ c' = with_aol c st' /\ acks = []
  | AAddWriter t mo d w o =>
      exists st', add_writer (e_unbech e) (e_now e) (c_aol c) t mo d w o = Ok st' /\ c' = with_aol c st' /\ acks = []
  | ADeleteWriter t w o =>
      exists st', delete_writer (e_unbech e) (c_aol c) t w o = Ok st' /\ c' = with_aol c st' /\ acks = []
  | AAddRecord t k v w o _ =>
      exists st' n, add_record (e_unbech e) (e_now e) (c_aol c) t k v w o = Ok (st', n) /\
                    c' = with_aol c st' /\ acks = [n]
  end.
Proof.
  cbn [exec_base]. destruct m as [t d o|t mo d w o|t w o|t k v w o f]; cbn [exec_aol].
  - rewrite (bind_wrap_iff _ (fun a => (with_aol c a, @nil N))). split.
    + intros (a & H & [= -> ->]). eauto.
    + intros (a & H & -> & ->). eauto.
  - rewrite (bind_wrap_iff _ (fun a => (with_aol c a, @nil N))). split.
    + intros (a & H & [= -> ->]). eauto.
    + intros (a & H & -> & ->). eauto.
  - rewrite (bind_wrap_iff _ (fun a => (with_aol c a, @nil N))). split.
    + intros (a & H & [= -> ->]). eauto.
    + intros (a & H & -> & ->). eauto.
  - rewrite (bind_wrap_iff _ (fun r => (with_aol c (fst r), [snd r]))). split.
    + intros ([a n] & H & [= -> ->]). cbn [fst snd]. eauto.
    + intros (a & n & H & -> & ->). exists (a, n). auto.
Qed.

Theorem exec_did_accept e c m c' acks :
  exec_base e c (BDid m) = Ok (c', acks) <->
  acks = [] /\ exists st', c' = with_did c st' /\
  match m with
  | DCreate did (Some doc) vmid sig _ =>
      create_did (e_b58key e) (e_verify e) marshal_doc (c_did c) did doc vmid sig = Ok st'
  | DUpdate did (Some doc) vmid sig _ =>
      update_did (e_b58key e) (e_verify e) marshal_doc (c_did c) did doc vmid sig = Ok st'
  | DDeactivate did vmid sig _ =>
      deactivate_did (e_b58key e) (e_verify e) marshal_doc (c_did c) did vmid sig = Ok st'
  | DCreate _ None _ _ _ | DUpdate _ None _ _ _ => False
  end.
Proof.
  cbn [exec_base].
  destruct m as [did [doc|] vmid sg from|did [doc|] vmid sg from|did vmid sg from]; cbn [exec_did];
    try (split; [discriminate | intros (_ & st' & _ & [])]).
  all: rewrite (bind_wrap_iff _ (fun a => (with_did c a, @nil N))); split;
    [intros (a & H & [= -> ->]); eauto | intros (-> & a & -> & H); eauto].
Qed.

Theorem exec_pnft_accept e c m c' acks :
  exec_base e c (BPnft m) = Ok (c', acks) <->
  acks = [] /\ exists st', c' = with_pnft c st' /\
  let st := c_pnft c in
  match m with
  | PCreateDenom id name symbol description uri uri_hash creator data =>
      create_denom st {| dn_id := id; dn_name := name; dn_symbol := symbol; dn_description := description;
                         dn_uri := uri; dn_uri_hash := uri_hash; dn_owner := creator; dn_data := data |} = Ok st'
  | PUpdateDenom id name symbol description uri uri_hash updater data =>
      update_denom st id name symbol description uri uri_hash updater data = Ok st'
  | PDeleteDenom id remover => delete_denom true st id remover = Ok st'
  | PTransferDenom id sender receiver => transfer_denom st id sender receiver = Ok st'
  | PMint denom_id id name description uri uri_hash data creator =>
      mint_pnft (e_unbech e) st (e_now e) denom_id id name description uri uri_hash data creator = Ok st'
  | PTransfer denom_id id sender receiver =>
      transfer_pnft (e_unbech e) (e_bech e) st denom_id id sender receiver = Ok st'
  | PBurn denom_id id burner => burn_pnft (e_bech e) st denom_id id burner = Ok st'
  end.
Proof.
  cbn [exec_base]. unfold exec_pnft. cbv zeta.
  rewrite (bind_wrap_iff _ (fun a => (with_pnft c a, @nil N))).
  destruct m; (split; [intros (a & H & [= -> ->]); eauto | intros (-> & a & -> & H); eauto]).
Qed.

(** two end-to-end readings *)
Corollary chain_accepts_append_of_listed_writer e c t k v ws os fp o w d nr nw :
  Inv (c_aol c) ->
  e_unbech e os = Some o -> e_unbech e ws = Some w ->
  topic_info (c_aol c) o t = Some (d, nr, nw) -> has_key (c_aol c) (WriterKey o t w) = true ->
  (nr + 1 < two64)%N ->
  exists c', exec_base e c (BAol (AAddRecord t k v ws os fp)) = Ok (c', [nr]) /\
             lookup (c_aol c') (RecordKey o t nr) = Some (VRecord k v (e_now e) ws) /\
             c_did c' = c_did c /\ c_pnft c' = c_pnft c /\ c_bank c' = c_bank c.
Proof.
  intros HI Ea Eaw TI Hw Hcap.
  destruct (listed_writer_can_append (e_unbech e) (e_now e) (c_aol c) t k v ws os o w d nr nw HI Ea Eaw TI Hw Hcap)
    as (st' & H & L & _).
  exists (with_aol c st'). split.
  - apply exec_aol_accept. exists st', nr. auto.
  - cbn [with_aol c_aol c_did c_pnft c_bank]. auto.
Qed.

Corollary chain_accepts_transfer_by_token_owner e c denom_id id t receiver r :
  Inv_pnft (c_pnft c) -> get_nft (c_pnft c) denom_id id = Some t -> e_unbech e receiver = Some r ->
  exists c', exec_base e c (BPnft (PTransfer denom_id id (e_bech e (get_owner (c_pnft c) denom_id id)) receiver)) = Ok (c', []) /\
             get_owner (c_pnft c') denom_id id = r.
Proof.
  intros HI G U.
  destruct (token_owner_can_transfer (e_unbech e) (e_bech e) (c_pnft c) denom_id id t receiver r HI G U)
    as (st' & H & Ho & _).
  exists (with_pnft c st'). split; [|exact Ho].
  apply exec_pnft_accept. split; [reflexivity|]. exists st'. auto.
Qed.

(** * assumptions: every statement above is closed under the global context *)
Print Assumptions enc_ok_store_key.
Print Assumptions store_key_skey.
Print Assumptions key_of_iff.
Print Assumptions key_of_Ok.
Print Assumptions key_of_not_err.
Print Assumptions key_of_Panic.
Print Assumptions enc_ok_owner.
Print Assumptions enc_ok_topic.
Print Assumptions enc_ok_writer.
Print Assumptions enc_ok_record.
Print Assumptions has_key_skey.
Print Assumptions lookup_skey.
Print Assumptions get_owner_total_count.
Print Assumptions get_topic_view.
Print Assumptions topic_info_view.
Print Assumptions topic_info_has.
Print Assumptions has_topic_info.
Print Assumptions u64_dec_pos.
Print Assumptions owner_key_Ok.
Print Assumptions topic_key_Ok.
Print Assumptions writer_key_Ok.
Print Assumptions record_key_Ok.
Print Assumptions topic_key_inv.
Print Assumptions writer_key_inv.
Print Assumptions owner_key_inv.
Print Assumptions record_key_inv.
Print Assumptions addr_iff.
Print Assumptions addr_Some.
Print Assumptions create_topic_accept.
Print Assumptions add_writer_accept.
Print Assumptions delete_writer_accept.
Print Assumptions add_record_accept.
Print Assumptions has_key_enc_ok.
Print Assumptions has_key_wf.
Print Assumptions owner_count_topics.
Print Assumptions listed_writer_counted.
Print Assumptions unbech_len.
Print Assumptions create_topic_accept_inv.
Print Assumptions add_writer_accept_inv.
Print Assumptions delete_writer_accept_inv.
Print Assumptions add_record_accept_inv.
Print Assumptions add_record_offset_is_count.
Print Assumptions anyone_can_create_fresh_topic.
Print Assumptions owner_can_always_add_writer.
Print Assumptions owner_can_always_delete_listed_writer.
Print Assumptions listed_writer_can_append.
Print Assumptions create_topic_refused_exists.
Print Assumptions add_record_refused_unlisted.
Print Assumptions cs_sdk_neq_aol.
Print Assumptions create_topic_refused_address.
Print Assumptions create_topic_panics_iff.
Print Assumptions add_writer_refused_no_topic.
Print Assumptions add_writer_refused_listed.
Print Assumptions delete_writer_refused_unlisted.
Print Assumptions add_record_refused_no_topic.
Print Assumptions delete_writer_without_topic.
Print Assumptions get_class_has.
Print Assumptions get_nft_has.
Print Assumptions has_nft_get_nft.
Print Assumptions nft_mint_accept.
Print Assumptions nft_transfer_accept.
Print Assumptions nft_burn_accept.
Print Assumptions create_denom_accept.
Print Assumptions update_denom_accept.
Print Assumptions delete_denom_accept.
Print Assumptions transfer_denom_accept.
Print Assumptions mint_pnft_accept.
Print Assumptions transfer_pnft_accept.
Print Assumptions burn_pnft_accept.
Print Assumptions owner_string_wf.
Print Assumptions token_supply_pos.
Print Assumptions update_denom_accept_inv.
Print Assumptions transfer_denom_accept_inv.
Print Assumptions mint_pnft_accept_inv.
Print Assumptions transfer_pnft_accept_inv.
Print Assumptions burn_pnft_accept_inv.
Print Assumptions anyone_can_create_fresh_denom.
Print Assumptions denom_owner_can_update.
Print Assumptions denom_owner_can_hand_over.
Print Assumptions denom_owner_can_delete_empty.
Print Assumptions denom_with_tokens_cannot_be_deleted.
Print Assumptions denom_owner_can_mint_unless_id_taken.
Print Assumptions only_denom_owner_can_mint.
Print Assumptions token_owner_can_transfer.
Print Assumptions token_owner_can_burn.
Print Assumptions create_denom_total.
Print Assumptions update_denom_total.
Print Assumptions delete_denom_total.
Print Assumptions transfer_denom_total.
Print Assumptions mint_pnft_total.
Print Assumptions transfer_pnft_total.
Print Assumptions burn_pnft_total.
Print Assumptions transfer_pnft_refused_iff.
Print Assumptions transfer_by_other_spelling_refused.
Print Assumptions q_did_not_found.
Print Assumptions q_did_deactivated.
Print Assumptions q_did_found.
Print Assumptions q_did_not_found_absent.
Print Assumptions verify_ownership_accept.
Print Assumptions verify_ownership_refused.
Print Assumptions create_did_accept.
Print Assumptions update_did_accept.
Print Assumptions deactivate_did_accept.
Print Assumptions create_did_refused_exists.
Print Assumptions create_did_refused_deactivated.
Print Assumptions update_did_refused_not_found.
Print Assumptions valid_proof_creates.
Print Assumptions valid_proof_updates.
Print Assumptions valid_proof_deactivates.
Print Assumptions update_did_accepted_iff_proof.
Print Assumptions update_with_empty_doc_deactivates.
Print Assumptions bind_wrap_iff.
Print Assumptions exec_aol_accept.
Print Assumptions exec_did_accept.
Print Assumptions exec_pnft_accept.
Print Assumptions chain_accepts_append_of_listed_writer.
Print Assumptions chain_accepts_transfer_by_token_owner.
