(** The chain-level model: messages, stateless validation, signer extraction, the transaction pipeline
    (ValidateBasic -> ante -> messages, all-or-nothing), authz delegation, blocks.
    Definitions only (extracted and run against the real application). *)
From Coq Require Import Strings.String Strings.Byte.
From Coq Require Import List Arith NArith ZArith Bool.
From PV Require Import Base.Bytes Base.Utf8 Base.Outcome Base.KV Compkey.Model Aol.Model Valid.Aol Bank.Model Did.Model Pnft.Model.
From PV Require Generated.GenConst Generated.GenNft Generated.GenApp.
Import ListNotations.

(** ** messages *)
Inductive aol_msg :=
| ACreateTopic (topic desc owner : bytes)
| AAddWriter (topic moniker desc writer owner : bytes)
| ADeleteWriter (topic writer owner : bytes)
| AAddRecord (topic key value writer owner feepayer : bytes).

Inductive did_msg :=
| DCreate (did : bytes) (doc : option did_doc) (vmid sig from : bytes)
| DUpdate (did : bytes) (doc : option did_doc) (vmid sig from : bytes)
| DDeactivate (did vmid sig from : bytes).

Inductive pnft_msg :=
| PCreateDenom (id name symbol description uri uri_hash creator data : bytes)
| PUpdateDenom (id name symbol description uri uri_hash updater data : bytes)
| PDeleteDenom (id remover : bytes)
| PTransferDenom (id sender receiver : bytes)
| PMint (denom_id id name description uri uri_hash data creator : bytes)
| PTransfer (denom_id id sender receiver : bytes)
| PBurn (denom_id id burner : bytes).

Inductive base_msg :=
| BAol (m : aol_msg)
| BDid (m : did_msg)
| BPnft (m : pnft_msg)
| BSend (from to : bytes) (amt : coins)
| BVest (from to : bytes) (amt : coins) (end_time : Z)          (* vesting MsgCreateVestingAccount, delayed *)
| BGrant (granter grantee type_url : bytes) (expiration : option Z)
| BRevoke (granter grantee type_url : bytes)
| BMultiSend (from : bytes) (amt : coins) (outs : list (bytes * coins)).
    (* bank MsgMultiSend: SDK 0.47 allows exactly one input; the message is that input (bech32 string, coins)
       plus the outputs (bech32 string, coins) *)

Inductive msg :=
| MBase (m : base_msg)
| MExec (grantee : bytes) (inner : list base_msg).

Record tx := {
  tx_msgs : list msg;
  tx_signed_by : list bytes;      (* the accounts (address bytes) whose keys signed, in signature order *)
  tx_fee : coins }.

Record grant := { gr_granter : bytes; gr_grantee : bytes; gr_url : bytes; gr_exp : option Z }.

Record chain := { c_aol : aol_state; c_did : did_state; c_pnft : pnft_state; c_bank : bank; c_grants : list grant }.

Definition with_aol (c : chain) (a : aol_state) : chain :=
  {| c_aol := a; c_did := c_did c; c_pnft := c_pnft c; c_bank := c_bank c; c_grants := c_grants c |}.
Definition with_did (c : chain) (d : did_state) : chain :=
  {| c_aol := c_aol c; c_did := d; c_pnft := c_pnft c; c_bank := c_bank c; c_grants := c_grants c |}.
Definition with_pnft (c : chain) (p : pnft_state) : chain :=
  {| c_aol := c_aol c; c_did := c_did c; c_pnft := p; c_bank := c_bank c; c_grants := c_grants c |}.
Definition with_bank (c : chain) (bk : bank) : chain :=
  {| c_aol := c_aol c; c_did := c_did c; c_pnft := c_pnft c; c_bank := bk; c_grants := c_grants c |}.
Definition with_grants (c : chain) (g : list grant) : chain :=
  {| c_aol := c_aol c; c_did := c_did c; c_pnft := c_pnft c; c_bank := c_bank c; c_grants := g |}.

Definition empty_chain : chain :=
  {| c_aol := []; c_did := []; c_pnft := []; c_bank := {| balances := []; supply := []; vestings := []; accounts := [] |};
     c_grants := [] |}.

(** what the environment supplies to a block: bech32 decoding, block time, module addresses *)
Record env := {
  e_unbech : bytes -> option bytes;
  e_now : Z;
  e_fee_collector : bytes;
  e_blocked : list bytes;
  (* cryptography / serialisation oracles of x/did (see Did/Model.v, Section Crypto) *)
  e_bech : bytes -> bytes;                  (* AccAddress.String() *)
  e_b58key : bytes -> option bytes;
  e_verify : bytes -> bytes -> bytes -> bool }.

Definition cs_authz : bytes := b "authz".
Definition cs_bank : bytes := b "bank".
(** sdk.MsgTypeURL(&banktypes.MsgMultiSend{}) *)
Definition url_bank_multi_send : bytes := b "/cosmos.bank.v1beta1.MsgMultiSend".

Definition type_url (m : base_msg) : bytes :=
  match m with
  | BAol (ACreateTopic _ _ _) => GenConst.url_aol_create_topic
  | BAol (AAddWriter _ _ _ _ _) => GenConst.url_aol_add_writer
  | BAol (ADeleteWriter _ _ _) => GenConst.url_aol_delete_writer
  | BAol (AAddRecord _ _ _ _ _ _) => GenConst.url_aol_add_record
  | BDid (DCreate _ _ _ _ _) => GenConst.url_did_create
  | BDid (DUpdate _ _ _ _ _) => GenConst.url_did_update
  | BDid (DDeactivate _ _ _ _) => GenConst.url_did_deactivate
  | BPnft (PCreateDenom _ _ _ _ _ _ _ _) => GenNft.url_pnft_create_denom
  | BPnft (PUpdateDenom _ _ _ _ _ _ _ _) => GenNft.url_pnft_update_denom
  | BPnft (PDeleteDenom _ _) => GenNft.url_pnft_delete_denom
  | BPnft (PTransferDenom _ _ _) => GenNft.url_pnft_transfer_denom
  | BPnft (PMint _ _ _ _ _ _ _ _) => GenNft.url_pnft_mint
  | BPnft (PTransfer _ _ _ _) => GenNft.url_pnft_transfer
  | BPnft (PBurn _ _ _) => GenNft.url_pnft_burn
  | BSend _ _ _ => GenConst.url_bank_send
  | BVest _ _ _ _ => GenApp.url_vesting_create
  | BGrant _ _ _ _ => GenConst.url_authz_grant
  | BRevoke _ _ _ => GenConst.url_authz_revoke
  | BMultiSend _ _ _ => url_bank_multi_send
  end.

(** ** ValidateBasic *)
Section WithEnv.
  Variable e : env.
  Let unbech := e_unbech e.

  Definition vb_aol (m : aol_msg) : outcome unit :=
    match m with
    | ACreateTopic t d o => vb_create_topic unbech t d o
    | AAddWriter t mo d w o => vb_add_writer unbech t mo d w o
    | ADeleteWriter t w o => vb_delete_writer unbech t w o
    | AAddRecord t k v w o f => vb_add_record unbech t k v w o f
    end.

  (** sdk.Coins.IsValid / IsAllPositive, reduced to: non-empty, positive amounts, denominations of 3..128 bytes
      (the SDK's denomination pattern [a-zA-Z][a-zA-Z0-9/:._-]{2,127}; the character class is not modelled) *)
  Definition coins_valid (cs : coins) : bool :=
    match cs with
    | [] => false
    | _ => forallb (fun c => (0 <? snd c)%N && (3 <=? length (fst c))%nat && (length (fst c) <=? 128)%nat) cs
    end.

  Definition vb_did (m : did_msg) : outcome unit :=
    match m with
    | DCreate did doc _ sig from | DUpdate did doc _ sig from => vb_create_update unbech true did doc sig from
    | DDeactivate did _ sig from => vb_deactivate unbech did sig from
    end.

  Definition vb_pnft (m : pnft_msg) : outcome unit :=
    match m with
    | PCreateDenom id name symbol _ _ _ creator _ => vb_create_denom unbech true id name symbol creator
    | PUpdateDenom id _ _ _ _ _ updater _ => vb_update_denom unbech id updater
    | PDeleteDenom id remover => vb_delete_denom unbech id remover
    | PTransferDenom id sender receiver => vb_transfer_denom unbech id sender receiver
    | PMint denom_id id name _ _ _ _ creator => vb_mint_pnft unbech true denom_id id name creator
    | PTransfer denom_id id sender receiver => vb_transfer_pnft unbech denom_id id sender receiver
    | PBurn denom_id id burner => vb_burn_pnft unbech denom_id id burner
    end.

  (** Output.ValidateBasic for every output, in order: the address decodes, the coins are valid and positive *)
  Fixpoint vb_outs (outs : list (bytes * coins)) : outcome unit :=
    match outs with
    | [] => Ok tt
    | (a, cs) :: r =>
        do _ <- validate_addr unbech a;
        if coins_valid cs then vb_outs r else Err cs_sdk 10
    end.

  Definition vb_base (m : base_msg) : outcome unit :=
    match m with
    | BAol a => vb_aol a
    | BDid d => vb_did d
    | BPnft p => vb_pnft p
    | BSend f t amt =>
        do _ <- validate_addr unbech f;
        do _ <- validate_addr unbech t;
        if coins_valid amt then Ok tt else Err cs_sdk 10
    | BVest f t amt end_time =>
        do _ <- validate_addr unbech f;
        do _ <- validate_addr unbech t;
        if negb (coins_valid amt) then Err cs_sdk 10
        else if (end_time <=? 0)%Z then Err cs_sdk 18 else Ok tt
    | BGrant g r _ _ =>
        match unbech g, unbech r with
        | Some ga, Some ra => if bytes_eqb ga ra then Err cs_authz 7 else Ok tt
        | _, _ => err_invalid_address
        end
    | BRevoke g r u =>
        match unbech g, unbech r with
        | Some ga, Some ra =>
            if bytes_eqb ga ra then Err cs_authz 7
            else match u with [] => Err cs_sdk 18 | _ => Ok tt end
        | _, _ => err_invalid_address
        end
    | BMultiSend f amt outs =>
        (* MsgMultiSend.ValidateBasic with one input: ErrNoOutputs (bank, 3); Input.ValidateBasic;
           Output.ValidateBasic for each output; ErrInputOutputMismatch (bank, 4) *)
        match outs with
        | [] => Err cs_bank 3
        | _ =>
            do _ <- validate_addr unbech f;
            if negb (coins_valid amt) then Err cs_sdk 10
            else
              do _ <- vb_outs outs;
              if coins_eqb amt (outs_coins outs) then Ok tt else Err cs_bank 4
        end
    end.

  Fixpoint vb_all (ms : list base_msg) : outcome unit :=
    match ms with
    | [] => Ok tt
    | m :: r => do _ <- vb_base m; vb_all r
    end.

  Definition validate_basic (m : msg) : outcome unit :=
    match m with
    | MBase bm => vb_base bm
    | MExec g inner =>
        do _ <- validate_addr unbech g;
        match inner with [] => Err cs_sdk 18 | _ => vb_all inner end
    end.

  (** ** GetSigners (address bytes); a bech32 string that does not decode makes the Go code panic *)
  Definition addr_or_panic (s : bytes) : outcome bytes :=
    match unbech s with Some a => Ok a | None => Panic end.

  Definition signers_base (m : base_msg) : outcome (list bytes) :=
    match m with
    | BAol (ACreateTopic _ _ o) | BAol (AAddWriter _ _ _ _ o) | BAol (ADeleteWriter _ _ o) =>
        do a <- addr_or_panic o; Ok [a]
    | BAol (AAddRecord _ _ _ w _ f) =>
        do wa <- addr_or_panic w;
        match f with
        | [] => Ok [wa]
        | _ => do fa <- addr_or_panic f; Ok [fa; wa]
        end
    | BDid (DCreate _ _ _ _ f) | BDid (DUpdate _ _ _ _ f) | BDid (DDeactivate _ _ _ f) => do a <- addr_or_panic f; Ok [a]
    | BPnft (PCreateDenom _ _ _ _ _ _ s _) | BPnft (PUpdateDenom _ _ _ _ _ _ s _) | BPnft (PDeleteDenom _ s)
    | BPnft (PTransferDenom _ s _) | BPnft (PMint _ _ _ _ _ _ _ s) | BPnft (PTransfer _ _ s _) | BPnft (PBurn _ _ s) =>
        do a <- addr_or_panic s; Ok [a]
    | BSend f _ _ | BVest f _ _ _ => do a <- addr_or_panic f; Ok [a]
    | BGrant g _ _ _ | BRevoke g _ _ => do a <- addr_or_panic g; Ok [a]
    | BMultiSend f _ _ => do a <- addr_or_panic f; Ok [a]
    end.

  Definition signers (m : msg) : outcome (list bytes) :=
    match m with
    | MBase bm => signers_base bm
    | MExec g _ => do a <- addr_or_panic g; Ok [a]
    end.

  Definition mem_bytes (x : bytes) (l : list bytes) : bool := existsb (bytes_eqb x) l.

  (** tx.GetSigners(): the signers of all messages, first occurrence order, de-duplicated *)
  Fixpoint tx_signers_acc (ms : list msg) (seen : list bytes) : outcome (list bytes) :=
    match ms with
    | [] => Ok (rev seen)
    | m :: r =>
        do ss <- signers m;
        tx_signers_acc r (fold_left (fun acc a => if mem_bytes a acc then acc else a :: acc) ss seen)
    end.
  Definition required_signers (t : tx) : outcome (list bytes) := tx_signers_acc (tx_msgs t) [].

  Fixpoint list_bytes_eqb (x y : list bytes) : bool :=
    match x, y with
    | [], [] => true
    | a :: x', c :: y' => bytes_eqb a c && list_bytes_eqb x' y'
    | _, _ => false
    end.

  (** ** handlers *)
  Definition exec_aol (c : chain) (m : aol_msg) : outcome (chain * list N) :=
    match m with
    | ACreateTopic t d o =>
        do a <- create_topic unbech (c_aol c) t d o; Ok (with_aol c a, [])
    | AAddWriter t mo d w o =>
        do a <- add_writer unbech (e_now e) (c_aol c) t mo d w o; Ok (with_aol c a, [])
    | ADeleteWriter t w o =>
        do a <- delete_writer unbech (c_aol c) t w o; Ok (with_aol c a, [])
    | AAddRecord t k v w o _ =>
        do r <- add_record unbech (e_now e) (c_aol c) t k v w o; Ok (with_aol c (fst r), [snd r])
    end.

  Definition exec_did (c : chain) (m : did_msg) : outcome (chain * list N) :=
    match m with
    | DCreate did (Some doc) vmid sig _ =>
        do d <- create_did (e_b58key e) (e_verify e) marshal_doc (c_did c) did doc vmid sig; Ok (with_did c d, [])
    | DUpdate did (Some doc) vmid sig _ =>
        do d <- update_did (e_b58key e) (e_verify e) marshal_doc (c_did c) did doc vmid sig; Ok (with_did c d, [])
    | DCreate _ None _ _ _ | DUpdate _ None _ _ _ => Panic       (* excluded by ValidateBasic *)
    | DDeactivate did vmid sig _ =>
        do d <- deactivate_did (e_b58key e) (e_verify e) marshal_doc (c_did c) did vmid sig; Ok (with_did c d, [])
    end.

  (** msgServer of x/pnft; the handler-level ValidateBasic repeats the stateless check *)
  Definition exec_pnft (c : chain) (m : pnft_msg) : outcome (chain * list N) :=
    let st := c_pnft c in
    let r :=
      match m with
      | PCreateDenom id name symbol description uri uri_hash creator data =>
          create_denom st {| dn_id := id; dn_name := name; dn_symbol := symbol; dn_description := description;
                             dn_uri := uri; dn_uri_hash := uri_hash; dn_owner := creator; dn_data := data |}
      | PUpdateDenom id name symbol description uri uri_hash updater data =>
          update_denom st id name symbol description uri uri_hash updater data
      | PDeleteDenom id remover => delete_denom true st id remover
      | PTransferDenom id sender receiver => transfer_denom st id sender receiver
      | PMint denom_id id name description uri uri_hash data creator =>
          mint_pnft unbech st (e_now e) denom_id id name description uri uri_hash data creator
      | PTransfer denom_id id sender receiver => transfer_pnft unbech (e_bech e) st denom_id id sender receiver
      | PBurn denom_id id burner => burn_pnft (e_bech e) st denom_id id burner
      end in
    do st' <- r; Ok (with_pnft c st', []).

  Definition grant_matches (g r u : bytes) (x : grant) : bool :=
    bytes_eqb (gr_granter x) g && bytes_eqb (gr_grantee x) r && bytes_eqb (gr_url x) u.

  Definition find_grant (gs : list grant) (g r u : bytes) : option grant := find (grant_matches g r u) gs.
  Definition remove_grant (gs : list grant) (g r u : bytes) : list grant :=
    filter (fun x => negb (grant_matches g r u x)) gs.

  (** the output addresses, decoded *)
  Fixpoint unbech_outs (outs : list (bytes * coins)) : option (list (bytes * coins)) :=
    match outs with
    | [] => Some []
    | (a, cs) :: r =>
        match unbech a, unbech_outs r with
        | Some a', Some r' => Some ((a', cs) :: r')
        | _, _ => None
        end
    end.

  Definition exec_base (c : chain) (m : base_msg) : outcome (chain * list N) :=
    match m with
    | BAol a => exec_aol c a
    | BDid d => exec_did c d
    | BPnft p => exec_pnft c p
    | BSend f t amt =>
        match unbech f, unbech t with
        | Some fa, Some ta =>
            if mem_bytes ta (e_blocked e) then Err cs_sdk 4
            else match send (c_bank c) (e_now e) fa ta amt with
                 | Some bk => Ok (with_bank c bk, [])
                 | None => Err cs_sdk 5
                 end
        | _, _ => err_invalid_address
        end
    | BVest f t amt end_time =>
        (* x/auth/vesting msgServer.CreateVestingAccount (delayed): the target must not exist and not be blocked *)
        match unbech f, unbech t with
        | Some fa, Some ta =>
            if mem_bytes ta (e_blocked e) then Err cs_sdk 4
            else if account_exists (c_bank c) ta then Err cs_sdk 18
            else
              let bk0 := c_bank c in
              let bk1 := {| balances := balances bk0; supply := supply bk0;
                            vestings := {| v_addr := ta; v_amount := amt; v_end := end_time |} :: vestings bk0;
                            accounts := ta :: accounts bk0 |} in
              match send bk1 (e_now e) fa ta amt with
              | Some bk => Ok (with_bank c bk, [])
              | None => Err cs_sdk 5
              end
        | _, _ => err_invalid_address
        end
    | BGrant g r u exp =>
        match unbech g, unbech r with
        | Some ga, Some ra =>
            let expired := match exp with Some t => (t <=? e_now e)%Z | None => false end in
            if expired then Err cs_authz 3
            else Ok (with_bank (with_grants c ({| gr_granter := ga; gr_grantee := ra; gr_url := u; gr_exp := exp |}
                                                  :: remove_grant (c_grants c) ga ra u))
                               (add_account (c_bank c) ra), [])
        | _, _ => err_invalid_address
        end
    | BRevoke g r u =>
        match unbech g, unbech r with
        | Some ga, Some ra =>
            match find_grant (c_grants c) ga ra u with
            | Some _ => Ok (with_grants c (remove_grant (c_grants c) ga ra u), [])
            | None => Err cs_authz 2
            end
        | _, _ => err_invalid_address
        end
    | BMultiSend f amt outs =>
        (* x/bank msgServer.MultiSend: no output may be a blocked address; then InputOutputCoins *)
        match unbech f, unbech_outs outs with
        | Some fa, Some outs' =>
            if existsb (fun o => mem_bytes (fst o) (e_blocked e)) outs' then Err cs_sdk 4
            else match multi_send (c_bank c) (e_now e) fa amt outs' with
                 | Some bk => Ok (with_bank c bk, [])
                 | None => Err cs_sdk 5
                 end
        | _, _ => err_invalid_address
        end
    end.

  (** x/authz Keeper.DispatchActions with generic authorizations *)
  Fixpoint dispatch (c : chain) (grantee : bytes) (ms : list base_msg) (acks : list N) : outcome (chain * list N) :=
    match ms with
    | [] => Ok (c, acks)
    | m :: r =>
        do ss <- signers_base m;
        match ss with
        | [granter] =>
            let authorised :=
              if bytes_eqb granter grantee then Ok tt
              else match find_grant (c_grants c) granter grantee (type_url m) with
                   | None => Err cs_authz 2
                   | Some g =>
                       match gr_exp g with
                       | Some t => if (t <? e_now e)%Z then Err cs_authz 6 else Ok tt
                       | None => Ok tt
                       end
                   end in
            do _ <- authorised;
            do res <- exec_base c m;
            dispatch (fst res) grantee r (acks ++ snd res)
        | _ => Err cs_authz 9
        end
    end.

  Definition exec_msg (c : chain) (m : msg) : outcome (chain * list N) :=
    match m with
    | MBase bm => exec_base c bm
    | MExec g inner =>
        match unbech g with
        | Some ga => dispatch c ga inner []
        | None => err_invalid_address
        end
    end.

  (** ** the transaction pipeline *)
  Inductive tx_result :=
  | ROk (acks : list N)
  | RVb (codespace : bytes) (code : N)         (* a message failed ValidateBasic: nothing happens *)
  | RVbPanic
  | RAnte                                      (* the ante handler refused: nothing happens *)
  | RMsg (index : nat) (codespace : bytes) (code : N)   (* message [index] failed: only the fee is charged *)
  | RMsgPanic.

  Fixpoint vb_msgs (ms : list msg) : outcome unit :=
    match ms with
    | [] => Ok tt
    | m :: r => do _ <- validate_basic m; vb_msgs r
    end.

  (** the ante handler, reduced to what the properties need: the signatures are exactly those of the
      required signers, in order; the fee is moved from the first signer to the fee collector *)
  Definition ante (c : chain) (t : tx) : option chain :=
    match required_signers t with
    | Ok (payer :: rest) =>
        if list_bytes_eqb (tx_signed_by t) (payer :: rest) then
          match tx_fee t with
          | [] => Some c
          | fee => match send (c_bank c) (e_now e) payer (e_fee_collector e) fee with
                   | Some bk => Some (with_bank c bk)
                   | None => None
                   end
          end
        else None
    | _ => None
    end.

  Fixpoint run_msgs (c : chain) (ms : list msg) (idx : nat) (acks : list N) : chain * tx_result :=
    match ms with
    | [] => (c, ROk acks)
    | m :: r =>
        match exec_msg c m with
        | Ok (c', a) => run_msgs c' r (S idx) (acks ++ a)
        | Err cs code => (c, RMsg idx cs code)
        | Panic => (c, RMsgPanic)
        end
    end.

  Definition deliver_tx (c : chain) (t : tx) : chain * tx_result :=
    match tx_msgs t with
    | [] => (c, RVb cs_sdk 18)
    | _ =>
        match vb_msgs (tx_msgs t) with
        | Err cs code => (c, RVb cs code)
        | Panic => (c, RVbPanic)
        | Ok _ =>
            match ante c t with
            | None => (c, RAnte)
            | Some c1 =>
                let '(c2, res) := run_msgs c1 (tx_msgs t) 0 [] in
                match res with
                | ROk acks => (c2, ROk acks)
                | other => (c1, other)          (* the message branch is discarded, the fee stays charged *)
                end
            end
        end
    end.
End WithEnv.

(** ** genesis export followed by import into a fresh chain (custom modules; the SDK modules' state —
    accounts, balances, grants — is carried over by the SDK's own export/import, which is trusted) *)
Section ExportImport.
  Variable bech : bytes -> bytes.
  Variable unbech : bytes -> option bytes.
  Definition export_import (c : chain) : outcome chain :=
    do g <- export_genesis bech (c_aol c);
    do a <- init_genesis unbech g;
    let d := init_did (export_did (c_did c)) [] in
    let pg := export_pnft bech (c_pnft c) in
    if negb (validate_pnft_genesis pg) then Err (b "pnft") 0
    else
      do p <- init_pnft_genesis unbech false pg;
      Ok (with_pnft (with_did (with_aol c a) d) p).
End ExportImport.

(** ** the JSON layer of the genesis file
    The exported genesis is a JSON document: every string field passes through json.Marshal / Unmarshal, which
    replaces each byte that is not part of a well-formed UTF-8 sequence by U+FFFD ([coerce_utf8]).  Byte fields
    (record keys and values) are base64 and unaffected.  After the coercion the AOL genesis validation checks the
    limits of the coerced values. *)
Definition cu := Base.Utf8.coerce_utf8.
Definition coerce_aol_val (v : aol_val) : aol_val :=
  match v with
  | VTopic d nr nw => VTopic (cu d) nr nw
  | VWriter m d t => VWriter (cu m) (cu d) t
  | VRecord k x t w => VRecord k x t (cu w)
  | VOwner n => VOwner n
  end.
Definition coerce_gen_entries (l : list gen_entry) : list gen_entry := map (fun e => (cu (fst e), coerce_aol_val (snd e))) l.
Definition coerce_aol_genesis (g : aol_genesis) : aol_genesis :=
  {| g_owners := coerce_gen_entries (g_owners g); g_topics := coerce_gen_entries (g_topics g);
     g_writers := coerce_gen_entries (g_writers g); g_records := coerce_gen_entries (g_records g) |}.
(** Topic.Validate / Writer.Validate of the genesis values (Record.Validate checks the key twice and the address) *)
Definition aol_val_valid (unbech : bytes -> option bytes) (v : aol_val) : bool :=
  match v with
  | VTopic d _ _ => match Valid.Aol.validate_description d with Ok _ => true | _ => false end
  | VWriter m d _ => match Valid.Aol.validate_moniker m with Ok _ => (match Valid.Aol.validate_description d with Ok _ => true | _ => false end) | _ => false end
  | VRecord k _ _ w => (blen k <=? GenConst.max_record_key_length)%N && (match unbech w with Some _ => true | None => false end)
  | VOwner _ => true
  end.
Definition aol_genesis_valid (unbech : bytes -> option bytes) (g : aol_genesis) : bool :=
  forallb (fun e => aol_val_valid unbech (snd e)) (g_topics g ++ g_writers g ++ g_records g).

Definition coerce_vm (v : vmethod) : vmethod :=
  {| vm_id := cu (vm_id v); vm_type := cu (vm_type v); vm_controller := cu (vm_controller v); vm_pubkey58 := cu (vm_pubkey58 v) |}.
Definition coerce_rel (r : vrel) : vrel := match r with VRef i => VRef (cu i) | VDed v => VDed (coerce_vm v) end.
Definition coerce_doc (d : did_doc) : did_doc :=
  {| doc_contexts := option_map (map cu) (doc_contexts d); doc_id := cu (doc_id d);
     doc_controller := option_map (map cu) (doc_controller d); doc_vms := map coerce_vm (doc_vms d);
     doc_auth := map coerce_rel (doc_auth d); doc_assert := map coerce_rel (doc_assert d);
     doc_keyagree := map coerce_rel (doc_keyagree d); doc_capinv := map coerce_rel (doc_capinv d);
     doc_capdel := map coerce_rel (doc_capdel d);
     doc_services := map (fun s => {| sv_id := cu (sv_id s); sv_type := cu (sv_type s); sv_endpoint := cu (sv_endpoint s) |}) (doc_services d) |}.
Definition coerce_did_genesis (g : did_genesis) : did_genesis :=
  map (fun e => (cu (fst e), {| en_doc := option_map coerce_doc (en_doc (snd e)); en_seq := en_seq (snd e) |})) g.

Definition coerce_denom (d : denom) : denom :=
  {| dn_id := cu (dn_id d); dn_name := cu (dn_name d); dn_symbol := cu (dn_symbol d); dn_description := cu (dn_description d);
     dn_uri := cu (dn_uri d); dn_uri_hash := cu (dn_uri_hash d); dn_owner := cu (dn_owner d); dn_data := cu (dn_data d) |}.
Definition coerce_token (t : token) : token :=
  {| tk_class := cu (tk_class t); tk_id := cu (tk_id t); tk_uri := cu (tk_uri t); tk_uri_hash := cu (tk_uri_hash t);
     tk_name := cu (tk_name t); tk_description := cu (tk_description t); tk_creator := cu (tk_creator t);
     tk_created_at := tk_created_at t; tk_data := cu (tk_data t) |}.
Definition coerce_pnft_genesis (g : pnft_genesis) : pnft_genesis :=
  {| pg_denoms := map coerce_denom (pg_denoms g);
     pg_pnfts := map (fun p => {| p_token := coerce_token (p_token p); p_owner := cu (p_owner p) |}) (pg_pnfts g) |}.

Section ExportImportJson.
  Variable bech : bytes -> bytes.
  Variable unbech : bytes -> option bytes.
  Definition export_import_json (c : chain) : outcome chain :=
    do g0 <- export_genesis bech (c_aol c);
    let g := coerce_aol_genesis g0 in
    if negb (aol_genesis_valid unbech g) then Err (b "aol") 0
    else
      do a <- init_genesis unbech g;
      let d := init_did (coerce_did_genesis (export_did (c_did c))) [] in
      let pg := coerce_pnft_genesis (export_pnft bech (c_pnft c)) in
      if negb (validate_pnft_genesis pg) then Err (b "pnft") 0
      else
        do p <- init_pnft_genesis unbech false pg;
        Ok (with_pnft (with_did (with_aol c a) d) p).
  (** the whole application: x/authz InitGenesis (SDK) skips grants that expired before the import time and PANICS on a grant
      that expires exactly then (SaveGrant requires expiration > block time) *)
  Definition export_import_app (now : Z) (c : chain) : outcome chain :=
    if existsb (fun g => match gr_exp g with Some t => (t =? now)%Z | None => false end) (c_grants c) then Panic
    else export_import_json c.
End ExportImportJson.

(** ** blocks and histories *)
(** x/authz BeginBlocker (DequeueAndDeleteExpiredGrants): grants whose expiration is BEFORE the block time are removed.
    The queue scan ends at InclusiveEndBytes(prefix ++ time), which does not include the keys prefix ++ time ++ granter ...:
    a grant expiring exactly at the block time stays (and is still usable) during that block *)
Definition begin_block (e : env) (c : chain) : chain :=
  with_grants c (filter (fun g => match gr_exp g with Some t => negb (t <? e_now e)%Z | None => true end) (c_grants c)).

(** x/burn EndBlock: move the spendable coins of the burn address to the burn module account and burn them
    there; any error is only logged.  bank.BurnCoins panics if the module account lacks the Burner permission
    ([GenApp.burn_has_burner], regenerated from maccPerms). *)
Definition burn_end_block (now : Z) (bk : bank) : outcome bank :=
  let cs := spendable_coins bk now GenApp.burn_address in
  match cs with
  | [] => Ok bk
  | _ =>
      match send bk now GenApp.burn_address GenApp.burn_module_account cs with
      | None => Ok bk                                   (* logged, nothing burned *)
      | Some bk1 =>
          if negb GenApp.burn_has_burner then Panic
          else match burn_from bk1 GenApp.burn_module_account cs with
               | Some bk2 => Ok bk2
               | None => Ok bk1
               end
      end
  end.

Definition end_block (e : env) (c : chain) : chain :=
  if GenApp.burn_in_end_blockers then
    match burn_end_block (e_now e) (c_bank c) with
    | Ok bk => with_bank c bk
    | _ => c                                            (* a panic halts the chain: see C07_never_halts *)
    end
  else c.

Fixpoint deliver_txs (e : env) (c : chain) (ts : list tx) : chain * list tx_result :=
  match ts with
  | [] => (c, [])
  | t :: r =>
      let '(c1, res) := deliver_tx e c t in
      let '(c2, rs) := deliver_txs e c1 r in
      (c2, res :: rs)
  end.

Definition run_block (e : env) (c : chain) (ts : list tx) : chain * list tx_result :=
  let '(c1, rs) := deliver_txs e (begin_block e c) ts in (end_block e c1, rs).
