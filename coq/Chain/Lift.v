(** Lifting a step relation from the message handlers to whole histories.
    [R c c'] is any reflexive, transitive relation that every accepted (and validated) base message,
    the ante handler and the begin/end blockers respect; then every history respects it. *)
From Coq Require Import Strings.String Strings.Byte.
From Coq Require Import List Arith NArith ZArith Bool.
From PV Require Import Base.Bytes Base.Outcome Base.KV Aol.Model Valid.Aol Chain.Model Chain.Run.
Import ListNotations.

Section Lift.
  Variable R : chain -> chain -> Prop.
  Variable E : env -> Prop.                 (* the environments considered (e.g. a well-formed bech32 decoder) *)
  Hypothesis R_refl : forall c, R c c.
  Hypothesis R_trans : forall a b c, R a b -> R b c -> R a c.
  Hypothesis R_base : forall e c m c' acks, E e ->
      vb_base e m = Ok tt -> exec_base e c m = Ok (c', acks) -> R c c'.
  Hypothesis R_ante : forall e c t c', E e -> ante e c t = Some c' -> R c c'.
  Hypothesis R_begin : forall e c, E e -> R c (begin_block e c).
  Hypothesis R_end : forall e c, E e -> R c (end_block e c).

  Lemma vb_all_cons e m r : vb_all e (m :: r) = Ok tt -> vb_base e m = Ok tt /\ vb_all e r = Ok tt.
  Proof.
    simpl. destruct (vb_base e m) as [[]| |] eqn:Evb0; simpl; intros H; try discriminate. auto.
  Qed.

  Lemma R_dispatch e grantee (He : E e) : forall ms c acks0 c' acks,
      vb_all e ms = Ok tt -> dispatch e c grantee ms acks0 = Ok (c', acks) -> R c c'.
  Proof.
    induction ms as [|m r IH]; intros c acks0 c' acks Hvb H; simpl in H.
    - inversion H; subst. apply R_refl.
    - apply vb_all_cons in Hvb as [Hm Hr].
      destruct (signers_base e m) as [ss| |] eqn:Es; simpl in H; try discriminate.
      destruct ss as [|granter [|x xs]]; try discriminate.
      match type of H with
      | bind ?a _ = _ => destruct a as [[]| |] eqn:Ea; simpl in H; try discriminate
      end.
      destruct (exec_base e c m) as [[c1 a1]| |] eqn:Ex; simpl in H; try discriminate.
      apply (R_trans _ c1); [apply (R_base e c m c1 a1 He Hm Ex) | apply (IH c1 _ c' acks Hr H)].
  Qed.

  Lemma R_exec_msg e c m c' a (He : E e) : validate_basic e m = Ok tt -> exec_msg e c m = Ok (c', a) -> R c c'.
  Proof.
    destruct m as [bm|g inner]; simpl; intros Hvb H.
    - apply (R_base e c bm c' a He Hvb H).
    - destruct (validate_addr (e_unbech e) g) as [[]| |]; simpl in Hvb; try discriminate.
      destruct (e_unbech e g) as [ga|]; try discriminate.
      destruct inner as [|m0 r0]; [discriminate|].
      apply (R_dispatch e ga He (m0 :: r0) c [] c' a Hvb H).
  Qed.

  Lemma vb_msgs_cons e m r : vb_msgs e (m :: r) = Ok tt -> validate_basic e m = Ok tt /\ vb_msgs e r = Ok tt.
  Proof.
    simpl. destruct (validate_basic e m) as [[]| |] eqn:Evb0; simpl; intros H; try discriminate. auto.
  Qed.

  Lemma R_run_msgs e (He : E e) : forall ms c idx acks, vb_msgs e ms = Ok tt -> R c (fst (run_msgs e c ms idx acks)).
  Proof.
    induction ms as [|m r IH]; intros c idx acks Hvb; simpl; [apply R_refl|].
    apply vb_msgs_cons in Hvb as [Hm Hr].
    destruct (exec_msg e c m) as [[c1 a]| |] eqn:Ex; simpl; try apply R_refl.
    apply (R_trans _ c1); [apply (R_exec_msg e c m c1 a He Hm Ex) | apply IH; exact Hr].
  Qed.

  Lemma R_deliver_tx e c t (He : E e) : R c (fst (deliver_tx e c t)).
  Proof.
    unfold deliver_tx. destruct (tx_msgs t) as [|m0 r0] eqn:Em; [apply R_refl|].
    destruct (vb_msgs e (m0 :: r0)) as [[]| |] eqn:Evb; try apply R_refl.
    destruct (ante e c t) as [c1|] eqn:Ea; [|apply R_refl].
    pose proof (R_run_msgs e He (m0 :: r0) c1 0 [] Evb) as Hr.
    destruct (run_msgs e c1 (m0 :: r0) 0 []) as [c2 res] eqn:Er. cbn [fst] in Hr.
    pose proof (R_ante e c t c1 He Ea) as Ha.
    destruct res; cbn [fst]; try exact Ha. apply (R_trans _ c1); assumption.
  Qed.

  Lemma R_deliver_txs e (He : E e) : forall ts c, R c (fst (deliver_txs e c ts)).
  Proof.
    induction ts as [|t r IH]; intros c; simpl; [apply R_refl|].
    pose proof (R_deliver_tx e c t He) as H1.
    destruct (deliver_tx e c t) as [c1 res]. simpl in H1.
    pose proof (IH c1) as H2. destruct (deliver_txs e c1 r) as [c2 rs]. simpl in *.
    apply (R_trans _ c1); assumption.
  Qed.

  Lemma R_run_block e c ts (He : E e) : R c (fst (run_block e c ts)).
  Proof.
    unfold run_block. pose proof (R_deliver_txs e He ts (begin_block e c)) as H.
    destruct (deliver_txs e (begin_block e c) ts) as [c1 rs]. simpl in *.
    apply (R_trans _ (begin_block e c)); [apply R_begin; exact He|].
    apply (R_trans _ c1); [exact H | apply R_end; exact He].
  Qed.

  Theorem R_run o (Ho : forall t, E (env_at o t)) : forall bs c, R c (run o c bs).
  Proof.
    induction bs as [|[t txs] r IH]; intros c; simpl; [apply R_refl|].
    apply (R_trans _ (fst (run_block (env_at o t) c txs))); [apply R_run_block; apply Ho | apply IH].
  Qed.
End Lift.
