(** Ties between the model and facts the translator re-derives from the Go code on every run (T1):
    the signer order of every custom message (probed by calling GetSigners), the custom keepers' fields. *)
From Coq Require Import Strings.String Strings.Byte.
From Coq Require Import List Arith NArith ZArith Bool.
From PV Require Import Base.Bytes Base.Outcome Base.KV Aol.Model Did.Model Pnft.Model Bank.Model Chain.Model.
From PV Require Generated.GenSchema Generated.GenApp.
Import ListNotations.

(** a one-letter address string decodes to the one-byte address with that letter; "-" (pattern for an empty field)
    is the empty string, which does not decode *)
Definition probe_unbech (s : bytes) : option bytes := match s with [c] => Some [c] | _ => None end.
Definition probe_env : env :=
  {| e_unbech := probe_unbech; e_now := 0%Z; e_fee_collector := []; e_blocked := []; e_bech := (fun a => a);
     e_b58key := (fun _ => None); e_verify := (fun _ _ _ => false) |}.

Definition fld (pat : bytes) (i : nat) : bytes :=
  match nth_error pat i with Some c => if byte_eqb c "-"%byte then [] else [c] | None => [] end.

Definition probe_msg (kind pat : bytes) : option base_msg :=
  let f := fld pat in
  if bytes_eqb kind (b "aol.CreateTopic") then Some (BAol (ACreateTopic (b "t") [] (f 0)))
  else if bytes_eqb kind (b "aol.AddWriter") then Some (BAol (AAddWriter (b "t") [] [] (f 0) (f 1)))
  else if bytes_eqb kind (b "aol.DeleteWriter") then Some (BAol (ADeleteWriter (b "t") (f 0) (f 1)))
  else if bytes_eqb kind (b "aol.AddRecord") then Some (BAol (AAddRecord (b "t") [] [] (f 0) (f 1) (f 2)))
  else if bytes_eqb kind (b "did.Create") then Some (BDid (DCreate [] None [] [] (f 0)))
  else if bytes_eqb kind (b "did.Update") then Some (BDid (DUpdate [] None [] [] (f 0)))
  else if bytes_eqb kind (b "did.Deactivate") then Some (BDid (DDeactivate [] [] [] (f 0)))
  else if bytes_eqb kind (b "pnft.CreateDenom") then Some (BPnft (PCreateDenom [] [] [] [] [] [] (f 0) []))
  else if bytes_eqb kind (b "pnft.UpdateDenom") then Some (BPnft (PUpdateDenom [] [] [] [] [] [] (f 0) []))
  else if bytes_eqb kind (b "pnft.DeleteDenom") then Some (BPnft (PDeleteDenom [] (f 0)))
  else if bytes_eqb kind (b "pnft.TransferDenom") then Some (BPnft (PTransferDenom [] (f 0) (f 1)))
  else if bytes_eqb kind (b "pnft.Mint") then Some (BPnft (PMint [] [] [] [] [] [] [] (f 0)))
  else if bytes_eqb kind (b "pnft.Transfer") then Some (BPnft (PTransfer [] [] (f 0) (f 1)))
  else if bytes_eqb kind (b "pnft.Burn") then Some (BPnft (PBurn [] [] (f 0)))
  else None.

(** the model's answer to a probe: the signers as letters, "!" for a panic *)
Definition model_probe (kind pat : bytes) : bytes :=
  match probe_msg kind pat with
  | Some m => match signers_base probe_env m with
              | Ok l => concat l
              | _ => b "!"
              end
  | None => b "?"
  end.

Definition probes_agree : bool :=
  forallb (fun p => match p with (k, pat, r) => bytes_eqb (model_probe k pat) r end) GenSchema.probe_signers.

(** every probe of the real GetSigners — every message kind, every pattern of equal / different / empty
    address fields — is answered identically by the model's signer extraction *)
Theorem signer_probes_agree : probes_agree = true.
Proof. vm_compute. reflexivity. Qed.

Theorem signer_probes_nonempty : (90 <=? length GenSchema.probe_signers)%nat = true.
Proof. vm_compute. reflexivity. Qed.

(** keeper structs *)
Definition is_sub (needle hay : bytes) : bool :=
  existsb (fun i => is_prefix needle (skipn i hay)) (seq 0 (S (length hay))).
Definition lower (c : byte) : byte :=
  let n := Byte.to_N c in if (65 <=? n)%N && (n <=? 90)%N then byte_of_N_mod (n + 32) else c.

Definition keeper_has_bank (k : bytes) : bool :=
  existsb (fun f => match f with (kk, name, kind, ty) => bytes_eqb kk k && is_sub (b "bank") (map lower (name ++ ty)) end)
          GenSchema.keeper_fields.

(** the AOL and DID keepers hold no bank keeper: their handlers cannot move coins *)
Theorem aol_did_keepers_have_no_bank : keeper_has_bank (b "aol") = false /\ keeper_has_bank (b "did") = false.
Proof. vm_compute. split; reflexivity. Qed.

(** the four custom keepers consist of codecs, store keys and keepers only — interface or struct values,
    no map, slice, pointer, channel or counter that could act as an in-memory cache across restarts *)
Definition keeper_field_stateless (f : bytes * bytes * bytes * bytes) : bool :=
  match f with (_, _, kind, _) => bytes_eqb kind (b "interface") || bytes_eqb kind (b "struct") end.
Theorem keepers_stateless : forallb keeper_field_stateless GenSchema.keeper_fields = true.
Proof. vm_compute. reflexivity. Qed.
Theorem keepers_present : (4 <=? length GenSchema.keeper_fields)%nat = true.
Proof. vm_compute. reflexivity. Qed.

(** the ante handler chain of app/ante.go is the one the model's [ante] abstracts: validation of the messages, fee
    deduction from the fee payer, signature count and verification against the required signers, sequence increment *)
Definition modelled_ante_chain : list bytes :=
  [b "ante.NewSetUpContextDecorator"; b "ante.NewExtensionOptionsDecorator"; b "ante.NewValidateBasicDecorator";
   b "ante.NewTxTimeoutHeightDecorator"; b "ante.NewValidateMemoDecorator"; b "ante.NewConsumeGasForTxSizeDecorator";
   b "ante.NewDeductFeeDecorator"; b "ante.NewSetPubKeyDecorator"; b "ante.NewValidateSigCountDecorator";
   b "ante.NewSigGasConsumeDecorator"; b "ante.NewSigVerificationDecorator"; b "ante.NewIncrementSequenceDecorator";
   b "ibcante.NewRedundantRelayDecorator"].
Theorem ante_chain_as_modelled : GenApp.ante_decorators = modelled_ante_chain.
Proof. vm_compute. reflexivity. Qed.
Print Assumptions ante_chain_as_modelled.

(** the burn end-blocker is the last one that can move coins: every module whose end-blocker runs after it is a custom
    module whose EndBlock is the bare `return []abci.ValidatorUpdate{}` (both facts regenerated from app/app.go and
    x/*/module.go) — so nothing can put coins on the burn address between the burn and the end of the block *)
Definition after_burn_harmless : bool :=
  forallb (fun m => existsb (bytes_eqb m) GenApp.trivial_end_blocks) GenApp.end_blockers_after_burn.
Theorem burn_is_last_coin_mover : GenApp.burn_in_end_blockers = true /\ after_burn_harmless = true.
Proof. vm_compute. split; reflexivity. Qed.

Lemma burn_module_account_blocked_fact : GenApp.burn_module_account_blocked = true.
Proof. reflexivity. Qed.
Print Assumptions burn_is_last_coin_mover.
