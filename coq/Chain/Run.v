(** Histories: sequences of blocks processed by the chain model. Definitions only. *)
From Coq Require Import Strings.String Strings.Byte.
From Coq Require Import List Arith NArith ZArith Bool.
From PV Require Import Base.Bytes Base.Outcome Base.KV Chain.Model Did.Model.
Import ListNotations.

(** what stays fixed along a history: the bech32 decoder, module addresses, the DID crypto oracles *)
Record oracles := {
  o_unbech : bytes -> option bytes;
  o_bech : bytes -> bytes;
  o_fee_collector : bytes;
  o_blocked : list bytes;
  o_b58key : bytes -> option bytes;
  o_verify : bytes -> bytes -> bytes -> bool }.

Definition env_at (o : oracles) (now : Z) : env :=
  {| e_unbech := o_unbech o; e_now := now; e_fee_collector := o_fee_collector o; e_blocked := o_blocked o; e_bech := o_bech o;
     e_b58key := o_b58key o; e_verify := o_verify o |}.

(** a block: its header time and its transactions *)
Definition block := (Z * list tx)%type.

Fixpoint run (o : oracles) (c : chain) (bs : list block) : chain :=
  match bs with
  | [] => c
  | (t, txs) :: r => run o (fst (run_block (env_at o t) c txs)) r
  end.

Lemma run_app o c b1 b2 : run o c (b1 ++ b2) = run o (run o c b1) b2.
Proof. revert c; induction b1 as [|[t txs] r IH]; intros c; simpl; [reflexivity | apply IH]. Qed.

(** the end blocker (x/burn) only touches the bank *)
Lemma end_block_custom e c :
  c_aol (end_block e c) = c_aol c /\ c_did (end_block e c) = c_did c /\ c_pnft (end_block e c) = c_pnft c /\
  c_grants (end_block e c) = c_grants c.
Proof.
  unfold end_block. destruct Generated.GenApp.burn_in_end_blockers; [|auto].
  destruct (burn_end_block (e_now e) (c_bank c)); simpl; auto.
Qed.

(** the results of every transaction of a history, block by block *)
Fixpoint run_results (o : oracles) (c : chain) (bs : list block) : list (list tx_result) :=
  match bs with
  | [] => []
  | (t, txs) :: r =>
      let '(c', rs) := run_block (env_at o t) c txs in rs :: run_results o c' r
  end.
