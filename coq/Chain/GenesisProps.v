(** C08 at chain level: genesis export followed by import of the three custom modules.

    For a chain whose module states satisfy their invariants, [export_import] succeeds; the AOL and DID
    stores, the bank and the grants come back exactly; the PNFT store comes back without its zero supply
    counters ([strip_zero_supply], see Pnft/Genesis.v: x/nft's Burn leaves [0x05 class -> 0] behind and
    the genesis import never writes such an entry).  So [export_import c = Ok c] holds exactly when the
    PNFT store has no zero counter, and is FALSE in general ([export_import_history_exact_refuted]).
    What always holds: the exported genesis of the imported chain is identical, and a second
    export/import is the identity. *)
From Coq Require Import Strings.String Strings.Byte.
From Coq Require Import List Arith NArith ZArith Bool Lia.
From PV Require Import Base.Bytes Base.Outcome Base.KV Compkey.Model.
From PV Require Import Aol.Model Aol.Spec Aol.Inv Aol.StoredSpec Aol.Stored Aol.Genesis Valid.Aol Bank.Model.
From PV Require Import Did.Model Did.Props Did.Genesis.
From PV Require Import Pnft.Model Pnft.Spec Pnft.Inv Pnft.Genesis.
From PV Require Import Chain.Model Chain.Run Chain.Lift Chain.AolProps Chain.DidProps Chain.StoredProps Chain.PnftProps.
Import ListNotations.

(** * [Pnft_stored_ok] along every history *)
Lemma exec_pnft_stored e c m c' a :
  vb_pnft e m = Ok tt -> exec_pnft e c m = Ok (c', a) ->
  Pnft_stored_ok (c_pnft c) -> Pnft_stored_ok (c_pnft c').
Proof.
  intros Hvb Hx HS. unfold exec_pnft in Hx.
  destruct m as [id name symbol description uri uri_hash creator data
                |id name symbol description uri uri_hash updater data
                |id remover|id sender receiver
                |denom_id id name description uri uri_hash data creator
                |denom_id id sender receiver|denom_id id burner]; cbn [vb_pnft] in Hvb;
    match type of Hx with bind ?x _ = _ => destruct x as [st'| |] eqn:Ex; cbn [bind] in Hx; try discriminate Hx end;
    injection Hx as <- _; cbn [c_pnft with_pnft].
  - refine (create_denom_stored (e_unbech e) _ _ _ HS _ Ex). exact Hvb.
  - exact (update_denom_stored _ _ _ _ _ _ _ _ _ _ HS Ex).
  - exact (delete_denom_stored _ _ _ _ HS Ex).
  - exact (transfer_denom_stored (e_unbech e) _ _ _ _ _ HS Hvb Ex).
  - exact (mint_pnft_stored (e_unbech e) _ _ _ _ _ _ _ _ _ _ _ HS Hvb Ex).
  - exact (transfer_pnft_stored (e_unbech e) (e_bech e) _ _ _ _ _ _ HS Ex).
  - exact (burn_pnft_stored (e_bech e) _ _ _ _ _ HS Ex).
Qed.

Definition R_pnft_stored (c c' : chain) : Prop := Pnft_stored_ok (c_pnft c) -> Pnft_stored_ok (c_pnft c').

Theorem pnft_stored_run o bs c :
  Pnft_stored_ok (c_pnft c) -> Pnft_stored_ok (c_pnft (run o c bs)).
Proof.
  intros HS.
  apply (R_run R_pnft_stored (fun _ => True)); try exact HS; try (intros; exact I).
  - intros c0 H. exact H.
  - intros a b0 c0 H1 H2 Ha. apply H2. apply H1. exact Ha.
  - intros e c0 m c' acks _ Hvb Hx Ha.
    destruct m as [am|dm|pm|f t amt|f t amt et|g r u ex|g r u|f amt outs];
      try (rewrite (exec_base_pnft_frame e c0 _ c' acks Hx); [exact Ha | intros pm0; discriminate]).
    cbn [vb_base exec_base] in Hvb, Hx. exact (exec_pnft_stored e c0 pm c' acks Hvb Hx Ha).
  - intros e c0 t c' _ Hx Ha. rewrite (ante_pnft_frame e c0 t c' Hx). exact Ha.
  - intros e c0 _ Ha. exact Ha.
  - intros e c0 _ Ha. destruct (end_block_custom e c0) as [_ [_ [E _]]]. rewrite E. exact Ha.
Qed.

(** * the states considered: every custom module satisfies its invariants *)
Record genesis_ok (c : chain) : Prop := {
  go_aol : Inv (c_aol c);
  go_aol_stored : Stored_ok (c_aol c);
  go_did : Inv_did (c_did c);
  go_pnft : Inv_pnft (c_pnft c);
  go_pnft_stored : Pnft_stored_ok (c_pnft c) }.

Lemma genesis_ok_empty : genesis_ok empty_chain.
Proof.
  split; cbn [empty_chain c_aol c_did c_pnft].
  - exact Inv_empty.
  - intros K v H. rewrite lookup_nil in H. discriminate H.
  - exact Inv_did_empty.
  - exact Inv_pnft_empty.
  - exact Pnft_stored_ok_empty.
Qed.

(** the invariants hold after every history from the empty chain *)
Theorem genesis_ok_run o bs : unbech_wf (o_unbech o) -> genesis_ok (run o empty_chain bs).
Proof.
  intros Ho. destruct genesis_ok_empty as [H1 H2 H3 H4 H5].
  destruct (stored_within_limits o bs empty_chain Ho H1 H2) as [A1 A2].
  split; [exact A1 | exact A2 | exact (proj1 (did_run o bs empty_chain H3))
         | exact (pnft_run o bs empty_chain Ho H4) | exact (pnft_stored_run o bs empty_chain H5)].
Qed.

(** the imported chain: everything as before, the PNFT store without its zero supply counters *)
Definition imported (c : chain) : chain := with_pnft c (strip_zero_supply (c_pnft c)).

Lemma imported_id c : sorted (c_pnft c) -> no_zero_supply (c_pnft c) -> imported c = c.
Proof. intros Hs Hz. unfold imported. rewrite (strip_id _ Hs Hz). destruct c; reflexivity. Qed.

Lemma imported_idem c : imported (imported c) = imported c.
Proof. unfold imported. cbn [c_pnft with_pnft c_aol c_did c_bank c_grants]. rewrite strip_idem. reflexivity. Qed.

Lemma genesis_ok_imported c : genesis_ok c -> genesis_ok (imported c).
Proof.
  intros [H1 H2 H3 H4 H5]. split; cbn [imported with_pnft c_aol c_did c_pnft]; try assumption.
  - apply strip_inv. exact H4.
  - apply stored_ok_strip. exact H5.
Qed.

Section G.
  Variable bech : bytes -> bytes.
  Variable unbech : bytes -> option bytes.
  (** what the statement needs of the bech32 codec: decoding inverts encoding on well-formed addresses;
      an encoded address contains no '/' (Aol/Genesis.v) and is not the empty string (Pnft/Genesis.v) *)
  Hypothesis unbech_bech : forall a, verify_address_format a = true -> unbech (bech a) = Some a.
  Hypothesis bech_no_slash : forall a, no_byte sep (bech a).
  Hypothesis bech_nonempty : forall a, verify_address_format a = true -> bech a <> [].

  (** ** export then import *)
  Theorem export_import_chain : forall c, genesis_ok c -> export_import bech unbech c = Ok (imported c).
  Proof.
    intros c [H1 H2 H3 H4 H5]. unfold export_import.
    destruct (export_import_identity bech unbech unbech_bech bech_no_slash (c_aol c) H1 H2) as (g & Eg & _).
    rewrite Eg. cbn [bind].
    rewrite (export_import_same_order bech unbech unbech_bech bech_no_slash (c_aol c) g H1 H2 Eg). cbn [bind].
    cbv zeta. rewrite (did_export_import_identity (c_did c) H3).
    rewrite (pnft_export_validates bech bech_nonempty (c_pnft c) H4 H5). cbn [negb].
    rewrite (pnft_export_import bech unbech unbech_bech (c_pnft c) H4). cbn [bind].
    destruct c; reflexivity.
  Qed.

  (** the statement of C08, module by module *)
  Corollary export_import_chain_fields : forall c, genesis_ok c ->
    exists c', export_import bech unbech c = Ok c' /\
      c_aol c' = c_aol c /\ c_did c' = c_did c /\ c_pnft c' = strip_zero_supply (c_pnft c) /\
      c_bank c' = c_bank c /\ c_grants c' = c_grants c /\ genesis_ok c'.
  Proof.
    intros c H. exists (imported c). split; [exact (export_import_chain c H)|].
    do 5 (split; [reflexivity|]). exact (genesis_ok_imported c H).
  Qed.

  (** nothing observable through the PNFT keeper is lost *)
  Corollary export_import_chain_pnft_reads : forall c c', genesis_ok c -> export_import bech unbech c = Ok c' ->
    (forall id, get_class (c_pnft c') id = get_class (c_pnft c) id) /\
    (forall id i, get_pnft bech (c_pnft c') id i = get_pnft bech (c_pnft c) id i) /\
    (forall id i, get_owner (c_pnft c') id i = get_owner (c_pnft c) id i) /\
    (forall id, get_supply (c_pnft c') id = get_supply (c_pnft c) id) /\
    all_denoms (c_pnft c') = all_denoms (c_pnft c) /\
    (forall id, pnfts_of_class bech (c_pnft c') id = pnfts_of_class bech (c_pnft c) id).
  Proof.
    intros c c' H E. rewrite (export_import_chain c H) in E. injection E as <-.
    pose proof (ip_sorted _ (go_pnft c H)) as Hs. cbn [imported with_pnft c_pnft].
    split; [intros id; apply strip_get_class; exact Hs|].
    split; [intros id i; unfold get_pnft; rewrite (strip_get_nft _ id i Hs), (strip_get_owner _ id i Hs); reflexivity|].
    split; [intros id i; apply strip_get_owner; exact Hs|]. split; [intros id; apply strip_get_supply; exact Hs|].
    split; [apply strip_all_denoms | intros id; apply strip_pnfts_of_class; exact Hs].
  Qed.

  (** [export_import c = Ok c] exactly when the PNFT store holds no zero supply counter *)
  Theorem export_import_chain_identity : forall c, genesis_ok c -> no_zero_supply (c_pnft c) ->
    export_import bech unbech c = Ok c.
  Proof.
    intros c H Hz. rewrite (export_import_chain c H). f_equal.
    apply imported_id; [exact (ip_sorted _ (go_pnft c H)) | exact Hz].
  Qed.

  Theorem export_import_chain_identity_iff : forall c, genesis_ok c ->
    (export_import bech unbech c = Ok c <-> no_zero_supply (c_pnft c)).
  Proof.
    intros c H. split; [|apply export_import_chain_identity; exact H].
    rewrite (export_import_chain c H). intros E. injection E as E.
    apply (f_equal c_pnft) in E. cbn [imported with_pnft c_pnft] in E. rewrite <- E.
    apply strip_no_zero. exact (ip_sorted _ (go_pnft c H)).
  Qed.

  (** ** the export of the imported chain is identical, for all three modules *)
  Theorem reexport_identical : forall c c', genesis_ok c -> export_import bech unbech c = Ok c' ->
    export_genesis bech (c_aol c') = export_genesis bech (c_aol c) /\
    export_did (c_did c') = export_did (c_did c) /\
    export_pnft bech (c_pnft c') = export_pnft bech (c_pnft c).
  Proof.
    intros c c' H E. rewrite (export_import_chain c H) in E. injection E as <-.
    cbn [imported with_pnft c_aol c_did c_pnft]. split; [reflexivity|]. split; [reflexivity|].
    apply strip_export. exact (ip_sorted _ (go_pnft c H)).
  Qed.

  (** ** a second export/import is the identity *)
  Theorem export_import_idempotent : forall c c', genesis_ok c -> export_import bech unbech c = Ok c' ->
    genesis_ok c' /\ export_import bech unbech c' = Ok c'.
  Proof.
    intros c c' H E. rewrite (export_import_chain c H) in E. injection E as <-.
    pose proof (genesis_ok_imported c H) as H'. split; [exact H'|].
    rewrite (export_import_chain _ H'). rewrite imported_idem. reflexivity.
  Qed.
End G.

(** * along every history from the empty chain *)
Section Histories.
  Variable o : oracles.
  Hypothesis o_wf : unbech_wf (o_unbech o).
  Hypothesis o_unbech_bech : forall a, verify_address_format a = true -> o_unbech o (o_bech o a) = Some a.
  Hypothesis o_bech_no_slash : forall a, no_byte sep (o_bech o a).
  Hypothesis o_bech_nonempty : forall a, verify_address_format a = true -> o_bech o a <> [].

  Theorem export_import_along_histories : forall bs,
    let c := run o empty_chain bs in
    exists c', export_import (o_bech o) (o_unbech o) c = Ok c' /\
      c_aol c' = c_aol c /\ c_did c' = c_did c /\ c_pnft c' = strip_zero_supply (c_pnft c) /\
      c_bank c' = c_bank c /\ c_grants c' = c_grants c /\
      (no_zero_supply (c_pnft c) -> c' = c) /\
      (* the re-export is identical and a second round trip is the identity *)
      export_genesis (o_bech o) (c_aol c') = export_genesis (o_bech o) (c_aol c) /\
      export_did (c_did c') = export_did (c_did c) /\
      export_pnft (o_bech o) (c_pnft c') = export_pnft (o_bech o) (c_pnft c) /\
      export_import (o_bech o) (o_unbech o) c' = Ok c'.
  Proof.
    intros bs c. pose proof (genesis_ok_run o bs o_wf) as H. fold c in H.
    pose proof (export_import_chain (o_bech o) (o_unbech o) o_unbech_bech o_bech_no_slash o_bech_nonempty c H) as E.
    exists (imported c). split; [exact E|].
    destruct (reexport_identical (o_bech o) (o_unbech o) o_unbech_bech o_bech_no_slash o_bech_nonempty c _ H E) as (R1 & R2 & R3).
    destruct (export_import_idempotent (o_bech o) (o_unbech o) o_unbech_bech o_bech_no_slash o_bech_nonempty c _ H E) as [_ R4].
    do 5 (split; [reflexivity|]).
    split; [intros Hz; apply imported_id; [exact (ip_sorted _ (go_pnft c H)) | exact Hz]|].
    split; [exact R1|]. split; [exact R2|]. split; [exact R3 | exact R4].
  Qed.
End Histories.

(** * the exact statement is false: a concrete history *)
(** identity codec on well-formed addresses (it satisfies the round-trip and non-emptiness premises; the AOL
    store of the example is empty, so the '/' premise is not exercised) *)
Definition ex_oracles : oracles :=
  {| o_unbech := id_unbech; o_bech := id_bech; o_fee_collector := [xff]; o_blocked := [];
     o_b58key := fun _ => None; o_verify := fun _ _ _ => false |}.

Definition ex_A : bytes := [x41].
Definition ex_tx (ms : list base_msg) : tx := {| tx_msgs := map MBase ms; tx_signed_by := [ex_A]; tx_fee := [] |}.

(** one block, one transaction of "A": CreateDenom "a", MintPNFT "a"/"i", BurnPNFT "a"/"i" *)
Definition ex_history : list block :=
  [ (100%Z, [ ex_tx [ BPnft (PCreateDenom [x61] [x6e] [x73] [] [] [] ex_A []);
                      BPnft (PMint [x61] [x69] [x6e] [] [] [] [] ex_A);
                      BPnft (PBurn [x61] [x69] ex_A) ] ]) ].

Theorem export_import_history_exact_refuted :
  let c := run ex_oracles empty_chain ex_history in
  unbech_wf (o_unbech ex_oracles) /\
  (forall a, verify_address_format a = true -> o_unbech ex_oracles (o_bech ex_oracles a) = Some a) /\
  (forall a, verify_address_format a = true -> o_bech ex_oracles a <> []) /\
  genesis_ok c /\
  c_pnft c = [(class_key [x61], VClass {| dn_id := [x61]; dn_name := [x6e]; dn_symbol := [x73]; dn_description := [];
                                          dn_uri := []; dn_uri_hash := []; dn_owner := ex_A; dn_data := [] |});
              (supply_key [x61], VSupply 0)] /\
  export_import (o_bech ex_oracles) (o_unbech ex_oracles) c <> Ok c /\
  export_import (o_bech ex_oracles) (o_unbech ex_oracles) c = Ok (imported c) /\
  c_pnft (imported c) = [(class_key [x61], VClass {| dn_id := [x61]; dn_name := [x6e]; dn_symbol := [x73];
                            dn_description := []; dn_uri := []; dn_uri_hash := []; dn_owner := ex_A; dn_data := [] |})].
Proof.
  intros c. split; [exact id_unbech_wf|]. split; [exact id_unbech_bech|]. split; [exact id_bech_nonempty|].
  split; [exact (genesis_ok_run ex_oracles ex_history id_unbech_wf)|].
  split; [vm_compute; reflexivity|].
  split; [vm_compute; intros H; discriminate H|].
  split; vm_compute; reflexivity.
Qed.

Print Assumptions pnft_stored_run.
Print Assumptions genesis_ok_run.
Print Assumptions export_import_chain.
Print Assumptions export_import_chain_fields.
Print Assumptions export_import_chain_pnft_reads.
Print Assumptions export_import_chain_identity.
Print Assumptions export_import_chain_identity_iff.
Print Assumptions reexport_identical.
Print Assumptions export_import_idempotent.
Print Assumptions export_import_along_histories.
Print Assumptions export_import_history_exact_refuted.
