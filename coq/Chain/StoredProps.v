(** "Nothing outside the limits is ever stored by a transaction" (C16), lifted to histories. *)
From Coq Require Import Strings.String Strings.Byte.
From Coq Require Import List Arith NArith ZArith Bool Lia.
From PV Require Import Base.Bytes Base.Outcome Base.KV Compkey.Model.
From PV Require Import Aol.Model Aol.Spec Aol.Inv Aol.StoredSpec Aol.Stored Valid.Aol Bank.Model Did.Model Did.Props.
From PV Require Import Chain.Model Chain.Run Chain.Lift Chain.AolProps Chain.DidProps.
Import ListNotations.

Definition R_stored (c c' : chain) : Prop :=
  Inv (c_aol c) /\ Stored_ok (c_aol c) -> Inv (c_aol c') /\ Stored_ok (c_aol c').

Lemma R_stored_same c c' : c_aol c' = c_aol c -> R_stored c c'.
Proof. intros E H. rewrite E. exact H. Qed.

Lemma exec_aol_stored e c m c' a :
  env_ok e -> vb_aol e m = Ok tt -> exec_aol e c m = Ok (c', a) -> R_stored c c'.
Proof.
  intros He Hvb Hx [Hi Hs].
  destruct (exec_aol_inv e c m c' a He Hi Hx) as [Hi' _]. split; [exact Hi'|].
  destruct m as [t d o|t mo d w o|t w o|t k v w o f]; simpl in Hvb, Hx;
    match type of Hx with bind ?x _ = _ => destruct x as [r| |] eqn:Ex; simpl in Hx; try discriminate end;
    inversion Hx; subst; simpl.
  - exact (create_topic_stored (e_unbech e) He _ _ _ _ _ Hi Hs Hvb Ex).
  - exact (add_writer_stored (e_unbech e) He (e_now e) _ _ _ _ _ _ _ Hi Hs Hvb Ex).
  - exact (delete_writer_stored (e_unbech e) He _ _ _ _ _ Hi Hs Hvb Ex).
  - destruct r as [st' n]. exact (add_record_stored (e_unbech e) He (e_now e) _ _ _ _ _ _ _ _ _ Hi Hs Hvb Ex).
Qed.

(** along every history from a state within the limits, every stored topic name, description, moniker,
    record key and value stays within the published limits *)
Theorem stored_within_limits o bs c :
  unbech_wf (o_unbech o) -> Inv (c_aol c) -> Stored_ok (c_aol c) ->
  Inv (c_aol (run o c bs)) /\ Stored_ok (c_aol (run o c bs)).
Proof.
  intros Ho Hi Hs.
  apply (R_run R_stored env_ok); try (split; assumption).
  - intros c0. apply R_stored_same. reflexivity.
  - intros a b0 c0 H1 H2 Ha. apply H2. apply H1. exact Ha.
  - intros e c0 m c' acks He Hvb Hx.
    destruct m as [am|dm|pm|f t amt|f t amt et|g r u ex|g r u|f amt outs];
      try (apply (R_stored_same c0 c'); eapply exec_base_aol_frame; [exact Hx | intros am0; discriminate]).
    simpl in Hvb, Hx. eapply exec_aol_stored; eauto.
  - intros e c0 t c' _ Hx. apply R_stored_same. apply (ante_aol_frame e c0 t c' Hx).
  - intros e c0 _. apply R_stored_same. reflexivity.
  - intros e c0 _. apply R_stored_same. apply end_block_custom.
  - intros t. exact Ho.
Qed.

(** DID: a stored document was accepted by the stateless validator when it was written: it is valid
    per the method specification and its id is the DID it is stored under *)
Lemma vb_doc_valid did doc : vb_doc true did (Some doc) = Ok tt -> doc_valid doc = true /\ doc_id doc = did.
Proof.
  intros Ed. pose proof (vb_doc_strict did doc Ed) as [Hid Hne]. split; [|exact Hid].
  unfold vb_doc in Ed. simpl in Ed. rewrite Hne in Ed. simpl in Ed.
  destruct (bytes_eqb (doc_id doc) did); simpl in Ed; [|discriminate].
  destruct (doc_valid doc); [reflexivity | discriminate].
Qed.

Theorem did_stored_valid e c did doc vmid sg from c' a (upd : bool) :
  let m := if upd then DUpdate did (Some doc) vmid sg from else DCreate did (Some doc) vmid sg from in
  vb_did e m = Ok tt -> exec_did e c m = Ok (c', a) ->
  en_doc (get_entry (c_did c') did) = Some doc /\ doc_valid doc = true /\ doc_id doc = did.
Proof.
  intros m Hvb Hx. pose proof (did_accept_needs_proof e c m c' a Hx) as H.
  assert (Hd : doc_valid doc = true /\ doc_id doc = did).
  { destruct upd; subst m; cbn [vb_did] in Hvb; unfold vb_create_update in Hvb;
      (destruct (validate_did did); cbn [negb] in Hvb; [|discriminate]);
      (destruct (vb_doc true did (Some doc)) as [[]| |] eqn:Ed; cbn [bind] in Hvb; try discriminate);
      apply vb_doc_valid; exact Ed. }
  destruct upd; subst m; simpl in H.
  - destruct H as [s [_ [_ [_ [_ ->]]]]]. rewrite get_entry_set_same. simpl. tauto.
  - destruct H as [_ [_ ->]]. rewrite get_entry_set_same. simpl. tauto.
Qed.
