(** C07 at history level: along every history of blocks the bank invariant of Bank/Props.v holds (in particular
    the accounting identity supply = sum of balances), the burn module account is empty between blocks, and
    after every block the burn address holds no spendable coin. *)
From Coq Require Import Strings.String Strings.Byte.
From Coq Require Import List Arith NArith ZArith Bool Lia.
From PV Require Import Base.Bytes Base.Outcome Base.KV Compkey.Model.
From PV Require Import Aol.Model Aol.Spec Valid.Aol Bank.Model Did.Model Pnft.Model.
From PV Require Import Chain.Model Chain.Run Chain.Lift Chain.AolProps Chain.FeeProps Bank.Props.
From PV Require Generated.GenApp.
Import ListNotations.

(** * The environments and the invariant *)
Definition bank_env_ok (e : env) : Prop :=
  unbech_wf (e_unbech e) /\
  In GenApp.burn_module_account (e_blocked e) /\          (* module accounts may not receive funds *)
  addr_ok (e_fee_collector e) /\
  e_fee_collector e <> GenApp.burn_module_account.

Definition BI (c : chain) : Prop :=
  Bank_inv (c_bank c) /\ forall d, balance (c_bank c) GenApp.burn_module_account d = 0%N.

(** the transactions considered: the denominations of the declared fee fit a balance key
    ([ante] does not validate the fee coins in the model) *)
Definition fee_ok (t : tx) : Prop := Forall (fun c => denom_ok (fst c)) (tx_fee t).
Definition fees_ok_txs (ts : list tx) : Prop := Forall fee_ok ts.
Definition fees_ok (bs : list block) : Prop := Forall (fun b : block => fees_ok_txs (snd b)) bs.

(** * Addresses and coins *)
Lemma unbech_wf_addr_ok u s a : unbech_wf u -> u s = Some a -> addr_ok a.
Proof.
  intros Hu H. specialize (Hu s a H). unfold verify_address_format in Hu.
  apply andb_true_iff in Hu as [_ Hu]. apply Nat.leb_le in Hu. exact Hu.
Qed.

Lemma env_unbech_addr_ok e s a : bank_env_ok e -> e_unbech e s = Some a -> addr_ok a.
Proof. intros [Hu _] H. apply (unbech_wf_addr_ok _ s a Hu H). Qed.

(** validated coins: non-empty, positive, denominations of at most 128 bytes *)
Lemma coins_valid_spec cs : coins_valid cs = true ->
  cs <> [] /\ Forall (fun c => (0 < snd c)%N) cs /\ Forall (fun c => denom_ok (fst c)) cs.
Proof.
  intros H. destruct cs as [|c0 r]; [discriminate|]. split; [discriminate|].
  unfold coins_valid in H. rewrite forallb_forall in H.
  split; apply Forall_forall; intros c Hc; specialize (H c Hc);
    apply andb_true_iff in H as [H H3]; apply andb_true_iff in H as [H1 H2].
  - apply N.ltb_lt. exact H1.
  - unfold denom_ok. apply Nat.leb_le in H3. apply (Nat.le_trans _ 128 _ H3). apply Nat.leb_le. reflexivity.
Qed.

Lemma not_blocked_neq e a x : mem_bytes a (e_blocked e) = false -> In x (e_blocked e) -> a <> x.
Proof.
  intros Hm Hin E. subst x. unfold mem_bytes in Hm.
  assert (Ht : existsb (bytes_eqb a) (e_blocked e) = true).
  { apply existsb_exists. exists a. split; [exact Hin | apply bytes_eqb_refl]. }
  rewrite Ht in Hm. discriminate.
Qed.

(** * Sends and the empty module account *)
(** an account without any balance cannot send a positive amount *)
Lemma send_from_empty_fails bk now from to cs :
  (forall d, balance bk from d = 0%N) -> cs <> [] -> Forall (fun c => (0 < snd c)%N) cs ->
  send bk now from to cs = None.
Proof.
  intros Hz Hne Hpos. destruct cs as [|[d n] r]; [contradiction|].
  inversion Hpos as [|? ? Hn _]; subst. cbn [snd] in Hn.
  unfold send. cbn [sub_coins]. cbv zeta. rewrite (Hz d).
  assert (C : ((0 <? locked bk now from d) || (0 - locked bk now from d <? n))%N = true).
  { destruct (0 <? locked bk now from d)%N eqn:L; [reflexivity|]. apply N.ltb_ge in L. cbn [orb]. apply N.ltb_lt. lia. }
  rewrite C. reflexivity.
Qed.

(** [Bank_inv] only talks about the balances and the supply *)
Lemma Bank_inv_fields bk bk' : balances bk' = balances bk -> supply bk' = supply bk -> Bank_inv bk -> Bank_inv bk'.
Proof.
  intros Hb Hs Hi. apply Bank_inv_intro.
  - apply (Bal_inv_balances _ _ Hb). apply Bank_inv_Bal. exact Hi.
  - intros d Hd. rewrite (total_balance_balances _ _ d Hb). rewrite (supply_of_supply bk bk' d Hs).
    apply (bi_supply _ Hi d Hd).
Qed.

Lemma add_account_Bank_inv bk a : Bank_inv bk -> Bank_inv (add_account bk a).
Proof. apply Bank_inv_fields; [apply add_account_balances | apply add_account_supply]. Qed.

(** a send whose recipient is not the burn module account keeps the invariant and leaves that account empty
    (as a sender it can only "send" amounts of zero) *)
Lemma send_keeps_module_empty bk now from to cs bk' :
  Bank_inv bk -> (forall d, balance bk GenApp.burn_module_account d = 0%N) ->
  addr_ok from -> addr_ok to -> Forall (fun c => denom_ok (fst c)) cs ->
  to <> GenApp.burn_module_account ->
  send bk now from to cs = Some bk' ->
  Bank_inv bk' /\ forall d, balance bk' GenApp.burn_module_account d = 0%N.
Proof.
  intros Hi Hz Hf Ht Hok Hne Hs.
  destruct (send_spec bk now from to cs bk' Hi Hf Ht Hok Hs) as (P1 & _ & _ & P4 & P5).
  split; [exact P1|]. intros d. destruct (denom_ok_dec d) as [Hd|Hd].
  - destruct (bytes_eq_dec from GenApp.burn_module_account) as [E|E].
    + subst from. assert (Hft : GenApp.burn_module_account <> to) by congruence.
      destruct (P5 Hft d Hd) as [Q _]. rewrite (Hz d) in Q. lia.
    + rewrite (P4 GenApp.burn_module_account d burn_module_account_ok Hd); [apply Hz | congruence | congruence].
  - apply balance_not_ok; [apply Bank_inv_Bal; exact P1 | tauto].
Qed.

(** the module account is never the sender of a validated bank message *)
Corollary module_account_never_sends bk now to cs :
  (forall d, balance bk GenApp.burn_module_account d = 0%N) -> coins_valid cs = true ->
  send bk now GenApp.burn_module_account to cs = None.
Proof.
  intros Hz Hv. destruct (coins_valid_spec cs Hv) as (H1 & H2 & _).
  apply send_from_empty_fails; assumption.
Qed.

(** * Multi-sends and the empty module account *)
(** after stateless validation the decoded outputs fit balance keys and carry the same coins *)
Lemma vb_unbech_outs_ok e : bank_env_ok e -> forall outs outs',
  vb_outs e outs = Ok tt -> unbech_outs e outs = Some outs' ->
  outs_ok outs' /\ outs_coins outs' = outs_coins outs.
Proof.
  intros He. induction outs as [|[a cs] r IH]; intros outs' Hvb Hu.
  - cbn [unbech_outs] in Hu. injection Hu as <-. split; [constructor | reflexivity].
  - cbn [vb_outs unbech_outs] in Hvb, Hu. unfold validate_addr in Hvb.
    destruct (e_unbech e a) as [a'|] eqn:Ea; [|discriminate]. cbn [bind] in Hvb.
    destruct (coins_valid cs) eqn:Ecv; [|discriminate].
    destruct (unbech_outs e r) as [r'|]; [|discriminate]. injection Hu as <-.
    destruct (IH r' Hvb eq_refl) as [I1 I2]. split.
    + constructor; [|exact I1]. cbn [fst snd]. split; [apply (env_unbech_addr_ok e a a' He Ea)|].
      apply (coins_valid_spec cs Ecv).
    + unfold outs_coins. cbn [flat_map snd]. f_equal. exact I2.
Qed.

Lemma not_blocked_outs e (outs : list (bytes * coins)) x :
  existsb (fun o => mem_bytes (fst o) (e_blocked e)) outs = false -> In x (e_blocked e) -> ~ In x (map fst outs).
Proof.
  intros Hex Hin Hx. apply in_map_iff in Hx as [o [Eo Ho]].
  assert (Hm : mem_bytes (fst o) (e_blocked e) = false).
  { destruct (mem_bytes (fst o) (e_blocked e)) eqn:M; [|reflexivity].
    rewrite <- Hex. symmetry. apply existsb_exists. exists o. split; assumption. }
  apply (not_blocked_neq e (fst o) x Hm Hin). exact Eo.
Qed.

(** a multi-send none of whose outputs is the burn module account keeps the invariant and leaves that account
    empty (as the input it can only "send" amounts of zero, and it receives nothing) *)
Lemma multi_send_keeps_module_empty bk now from cs outs bk' :
  Bank_inv bk -> (forall d, balance bk GenApp.burn_module_account d = 0%N) ->
  addr_ok from -> Forall (fun c => denom_ok (fst c)) cs -> outs_ok outs ->
  (forall d, amount_of cs d = amount_of (outs_coins outs) d) ->
  ~ In GenApp.burn_module_account (map fst outs) ->
  multi_send bk now from cs outs = Some bk' ->
  Bank_inv bk' /\ forall d, balance bk' GenApp.burn_module_account d = 0%N.
Proof.
  intros Hi Hz Hf Hok Houts Hsum Hnin Hs.
  destruct (multi_send_spec bk now from cs outs bk' Hi Hf Hok Houts Hsum Hs) as (P1 & _ & _ & _ & P5 & P6).
  split; [exact P1|]. intros d. destruct (denom_ok_dec d) as [Hd|Hd].
  - pose proof (received_not_in outs _ Hnin) as Hr.
    destruct (bytes_eq_dec from GenApp.burn_module_account) as [E|E].
    + subst from. pose proof (P6 d Hd) as Q. rewrite Hr, (Hz d), amount_of_nil in Q. lia.
    + rewrite (P5 GenApp.burn_module_account d burn_module_account_ok Hd) by congruence.
      rewrite Hr, (Hz d), amount_of_nil. reflexivity.
  - apply balance_not_ok; [apply Bank_inv_Bal; exact P1 | tauto].
Qed.

(** * One validated base message *)
Lemma BI_same_bank c c' : c_bank c' = c_bank c -> BI c -> BI c'.
Proof. intros E H. unfold BI. rewrite E. exact H. Qed.

Lemma exec_base_BI : forall e c m c' a,
  bank_env_ok e -> vb_base e m = Ok tt -> exec_base e c m = Ok (c', a) -> BI c -> BI c'.
Proof.
  intros e c m c' a He Hvb Hx [Hi Hz].
  destruct m as [am|dm|pm|f t amt|f t amt et|g r u ex|g r u|f amt outs].
  - apply (BI_same_bank c); [|split; assumption]. apply (exec_custom_bank e c (BAol am) c' a eq_refl Hx).
  - apply (BI_same_bank c); [|split; assumption]. apply (exec_custom_bank e c (BDid dm) c' a eq_refl Hx).
  - apply (BI_same_bank c); [|split; assumption]. apply (exec_custom_bank e c (BPnft pm) c' a eq_refl Hx).
  - (* BSend *)
    simpl in Hvb, Hx. unfold validate_addr in Hvb.
    destruct (e_unbech e f) as [fa|] eqn:Ef; [|discriminate].
    destruct (e_unbech e t) as [ta|] eqn:Et; [|discriminate]. simpl in Hvb.
    destruct (coins_valid amt) eqn:Ecv; [|discriminate].
    destruct (mem_bytes ta (e_blocked e)) eqn:Em; [discriminate|].
    destruct (send (c_bank c) (e_now e) fa ta amt) as [bk|] eqn:Es; [|discriminate].
    inversion Hx; subst c' a. unfold BI. cbn [c_bank with_bank].
    destruct (coins_valid_spec amt Ecv) as (_ & _ & Hok).
    apply (send_keeps_module_empty (c_bank c) (e_now e) fa ta amt bk Hi Hz
             (env_unbech_addr_ok e f fa He Ef) (env_unbech_addr_ok e t ta He Et) Hok); [|exact Es].
    apply (not_blocked_neq e ta _ Em). apply He.
  - (* BVest *)
    simpl in Hvb, Hx. unfold validate_addr in Hvb.
    destruct (e_unbech e f) as [fa|] eqn:Ef; [|discriminate].
    destruct (e_unbech e t) as [ta|] eqn:Et; [|discriminate]. simpl in Hvb.
    destruct (coins_valid amt) eqn:Ecv; [|discriminate].
    destruct (mem_bytes ta (e_blocked e)) eqn:Em; [discriminate|].
    destruct (account_exists (c_bank c) ta); [discriminate|].
    match type of Hx with context [send ?b _ _ _ _] => set (bk1 := b) in * end.
    destruct (send bk1 (e_now e) fa ta amt) as [bk|] eqn:Es; [|discriminate].
    inversion Hx; subst c' a. unfold BI. cbn [c_bank with_bank].
    destruct (coins_valid_spec amt Ecv) as (_ & _ & Hok).
    assert (Hi1 : Bank_inv bk1) by (apply (Bank_inv_fields (c_bank c) bk1); [reflexivity | reflexivity | exact Hi]).
    assert (Hz1 : forall d, balance bk1 GenApp.burn_module_account d = 0%N).
    { intros d. rewrite (balance_balances (c_bank c) bk1) by reflexivity. apply Hz. }
    apply (send_keeps_module_empty bk1 (e_now e) fa ta amt bk Hi1 Hz1
             (env_unbech_addr_ok e f fa He Ef) (env_unbech_addr_ok e t ta He Et) Hok); [|exact Es].
    apply (not_blocked_neq e ta _ Em). apply He.
  - (* BGrant *)
    simpl in Hx.
    destruct (e_unbech e g) as [ga|]; [|discriminate]. destruct (e_unbech e r) as [ra|]; [|discriminate].
    match type of Hx with (if ?b then _ else _) = _ => destruct b; [discriminate|] end.
    inversion Hx; subst c' a. unfold BI. cbn [c_bank with_bank]. split.
    + apply add_account_Bank_inv. exact Hi.
    + intros d. rewrite (balance_balances (c_bank c)) by apply add_account_balances. apply Hz.
  - (* BRevoke *)
    simpl in Hx.
    destruct (e_unbech e g) as [ga|]; [|discriminate]. destruct (e_unbech e r) as [ra|]; [|discriminate].
    destruct (find_grant (c_grants c) ga ra u); [|discriminate].
    inversion Hx; subst c' a. split; assumption.
  - (* BMultiSend *)
    cbn [vb_base exec_base] in Hvb, Hx.
    assert (Hvb' : (do _ <- validate_addr (e_unbech e) f;
                    if negb (coins_valid amt) then Err cs_sdk 10
                    else do _ <- vb_outs e outs;
                         if coins_eqb amt (outs_coins outs) then Ok tt else Err cs_bank 4) = Ok tt)
      by (destruct outs; [discriminate Hvb | exact Hvb]).
    clear Hvb. unfold validate_addr in Hvb'.
    destruct (e_unbech e f) as [fa|] eqn:Ef; [|discriminate]. cbn [bind] in Hvb'.
    destruct (coins_valid amt) eqn:Ecv; cbn [negb] in Hvb'; [|discriminate].
    destruct (vb_outs e outs) as [[]| |] eqn:Evo; cbn [bind] in Hvb'; try discriminate.
    destruct (coins_eqb amt (outs_coins outs)) eqn:Eeq; [|discriminate].
    destruct (unbech_outs e outs) as [outs'|] eqn:Eu; [|discriminate].
    destruct (existsb (fun o => mem_bytes (fst o) (e_blocked e)) outs') eqn:Ebl; [discriminate|].
    destruct (multi_send (c_bank c) (e_now e) fa amt outs') as [bk|] eqn:Es; [|discriminate].
    inversion Hx; subst c' a. unfold BI. cbn [c_bank with_bank].
    destruct (coins_valid_spec amt Ecv) as (_ & _ & Hok).
    destruct (vb_unbech_outs_ok e He outs outs' Evo Eu) as [Houts Hco].
    apply (multi_send_keeps_module_empty (c_bank c) (e_now e) fa amt outs' bk Hi Hz
             (env_unbech_addr_ok e f fa He Ef) Hok Houts); [| |exact Es].
    + intros d. rewrite Hco. apply coins_eqb_spec. exact Eeq.
    + apply (not_blocked_outs e outs' _ Ebl). apply He.
Qed.

(** * The ante handler *)
Lemma addr_or_panic_addr_ok e s a : bank_env_ok e -> addr_or_panic e s = Ok a -> addr_ok a.
Proof.
  intros He H. unfold addr_or_panic in H. destruct (e_unbech e s) as [a0|] eqn:E; [|discriminate].
  inversion H; subst a0. apply (env_unbech_addr_ok e s a He E).
Qed.

Lemma signers_base_addr_ok e m ss : bank_env_ok e -> signers_base e m = Ok ss -> Forall addr_ok ss.
Proof.
  intros He H.
  assert (One : forall s l, (do a <- addr_or_panic e s; Ok [a]) = Ok l -> Forall addr_ok l).
  { intros s l H1. destruct (addr_or_panic e s) as [a0| |] eqn:Ea; simpl in H1; try discriminate.
    inversion H1; subst l. constructor; [apply (addr_or_panic_addr_ok e s a0 He Ea) | constructor]. }
  destruct m as [am|dm|pm|f t amt|f t amt et|g r u ex|g r u|f amt outs]; simpl in H.
  - destruct am as [t d o|t mo d w o|t w o|t k v w o f]; try (apply (One _ _ H)).
    destruct (addr_or_panic e w) as [wa| |] eqn:Ew; simpl in H; try discriminate.
    pose proof (addr_or_panic_addr_ok e w wa He Ew) as Hwa.
    destruct f as [|f0 fr].
    + inversion H; subst ss. constructor; [exact Hwa | constructor].
    + destruct (addr_or_panic e (f0 :: fr)) as [fa| |] eqn:Efa; simpl in H; try discriminate.
      inversion H; subst ss. constructor; [apply (addr_or_panic_addr_ok e _ fa He Efa)|].
      constructor; [exact Hwa | constructor].
  - destruct dm as [did doc vmid sg from|did doc vmid sg from|did vmid sg from]; apply (One _ _ H).
  - destruct pm; apply (One _ _ H).
  - apply (One _ _ H).
  - apply (One _ _ H).
  - apply (One _ _ H).
  - apply (One _ _ H).
  - apply (One _ _ H).
Qed.

Lemma signers_addr_ok e m ss : bank_env_ok e -> signers e m = Ok ss -> Forall addr_ok ss.
Proof.
  intros He H. destruct m as [bm|g inner]; simpl in H.
  - apply (signers_base_addr_ok e bm ss He H).
  - destruct (addr_or_panic e g) as [a0| |] eqn:Ea; simpl in H; try discriminate.
    inversion H; subst ss. constructor; [apply (addr_or_panic_addr_ok e g a0 He Ea) | constructor].
Qed.

Lemma fold_seen_addr_ok (ss : list bytes) : forall seen,
  Forall addr_ok ss -> Forall addr_ok seen ->
  Forall addr_ok (fold_left (fun acc a => if mem_bytes a acc then acc else a :: acc) ss seen).
Proof.
  induction ss as [|s r IH]; intros seen Hss Hseen; simpl; [exact Hseen|].
  inversion Hss as [|? ? Hs Hr]; subst. apply IH; [exact Hr|].
  destruct (mem_bytes s seen); [exact Hseen | constructor; assumption].
Qed.

Lemma tx_signers_acc_addr_ok e (He : bank_env_ok e) : forall ms seen out,
  Forall addr_ok seen -> tx_signers_acc e ms seen = Ok out -> Forall addr_ok out.
Proof.
  induction ms as [|m r IH]; intros seen out Hseen H; simpl in H.
  - inversion H; subst out. apply Forall_rev. exact Hseen.
  - destruct (signers e m) as [ss| |] eqn:Es; simpl in H; try discriminate.
    refine (IH _ out _ H). apply fold_seen_addr_ok; [apply (signers_addr_ok e m ss He Es) | exact Hseen].
Qed.

(** every required signer (in particular the fee payer) is an address decoded by [unbech] *)
Lemma required_signers_addr_ok e t l : bank_env_ok e -> required_signers e t = Ok l -> Forall addr_ok l.
Proof. intros He H. apply (tx_signers_acc_addr_ok e He (tx_msgs t) [] l); [constructor | exact H]. Qed.

Lemma ante_BI : forall e c t c', bank_env_ok e -> ante e c t = Some c' -> fee_ok t -> BI c -> BI c'.
Proof.
  intros e c t c' He Ha Hfee [Hi Hz].
  destruct (ante_moves_fee e c t c' Ha) as (payer & rest & Hreq & _ & [[_ Eb]|[_ Es]]).
  - apply (BI_same_bank c); [exact Eb | split; assumption].
  - pose proof (required_signers_addr_ok e t _ He Hreq) as Hl. inversion Hl as [|? ? Hp _]; subst.
    destruct He as (Hu & Hbl & Hfc & Hne).
    apply (send_keeps_module_empty (c_bank c) (e_now e) payer (e_fee_collector e) (tx_fee t) (c_bank c')
             Hi Hz Hp Hfc Hfee Hne Es).
Qed.

(** * Begin and end of a block *)
Lemma begin_block_BI e c : BI c -> BI (begin_block e c).
Proof. apply BI_same_bank. reflexivity. Qed.

Lemma burn_end_block_Ok now bk : exists bk', burn_end_block now bk = Ok bk'.
Proof.
  unfold burn_end_block. cbv zeta.
  destruct (spendable_coins bk now GenApp.burn_address) as [|c0 cs0]; [eexists; reflexivity|].
  destruct (send bk now GenApp.burn_address GenApp.burn_module_account (c0 :: cs0)) as [bk1|]; [|eexists; reflexivity].
  assert (Hb : negb GenApp.burn_has_burner = false) by reflexivity. rewrite Hb.
  destruct (burn_from bk1 GenApp.burn_module_account (c0 :: cs0)); eexists; reflexivity.
Qed.

Theorem end_block_never_halts : forall e c, burn_end_block (e_now e) (c_bank c) <> Panic.
Proof. intros e c. apply burn_never_halts. Qed.

Lemma end_block_bank e c : exists bk, burn_end_block (e_now e) (c_bank c) = Ok bk /\ end_block e c = with_bank c bk.
Proof.
  destruct (burn_end_block_Ok (e_now e) (c_bank c)) as [bk Hbk]. exists bk. split; [exact Hbk|].
  unfold end_block. assert (Hb : GenApp.burn_in_end_blockers = true) by reflexivity. rewrite Hb, Hbk. reflexivity.
Qed.

Theorem end_block_BI_sink : forall e c, bank_env_ok e -> BI c ->
  BI (end_block e c) /\
  spendable_coins (c_bank (end_block e c)) (e_now e) GenApp.burn_address = [] /\
  (forall d, denom_ok d ->
     supply_of (c_bank (end_block e c)) d
     = (supply_of (c_bank c) d - amount_of (spendable_coins (c_bank c) (e_now e) GenApp.burn_address) d)%N) /\
  (forall a d, addr_ok a -> denom_ok d -> a <> GenApp.burn_address ->
     balance (c_bank (end_block e c)) a d = balance (c_bank c) a d).
Proof.
  intros e c _ [Hi Hz]. destruct (end_block_bank e c) as (bk & Hbk & Eend). rewrite Eend. cbn [c_bank with_bank].
  destruct (burn_sink (c_bank c) (e_now e) bk Hi Hz Hbk) as (S1 & S2 & S3 & S4 & _ & S6).
  split; [split; assumption|]. split; [exact S2|]. split; [|exact S4].
  intros d Hd. apply (S3 d Hd).
Qed.

(** * Transactions, blocks, histories *)
Definition R_BI (c c' : chain) : Prop := BI c -> BI c'.

Lemma R_BI_refl c : R_BI c c.
Proof. intros H. exact H. Qed.
Lemma R_BI_trans a b c : R_BI a b -> R_BI b c -> R_BI a c.
Proof. intros H1 H2 H. apply H2. apply H1. exact H. Qed.
Lemma R_BI_base e c m c' acks : bank_env_ok e -> vb_base e m = Ok tt -> exec_base e c m = Ok (c', acks) -> R_BI c c'.
Proof. intros He Hvb Hx H. apply (exec_base_BI e c m c' acks He Hvb Hx H). Qed.

(** the message layer is the generic lifting of Chain/Lift.v (it does not involve [ante]) *)
Lemma dispatch_BI e grantee ms c acks0 c' acks :
  bank_env_ok e -> vb_all e ms = Ok tt -> dispatch e c grantee ms acks0 = Ok (c', acks) -> BI c -> BI c'.
Proof. intros He Hvb H. apply (R_dispatch R_BI bank_env_ok R_BI_refl R_BI_trans R_BI_base e grantee He ms c acks0 c' acks Hvb H). Qed.

Lemma exec_msg_BI e c m c' a :
  bank_env_ok e -> validate_basic e m = Ok tt -> exec_msg e c m = Ok (c', a) -> BI c -> BI c'.
Proof. intros He Hvb H. apply (R_exec_msg R_BI bank_env_ok R_BI_refl R_BI_trans R_BI_base e c m c' a He Hvb H). Qed.

Lemma run_msgs_BI e ms c idx acks :
  bank_env_ok e -> vb_msgs e ms = Ok tt -> BI c -> BI (fst (run_msgs e c ms idx acks)).
Proof. intros He Hvb. apply (R_run_msgs R_BI bank_env_ok R_BI_refl R_BI_trans R_BI_base e He ms c idx acks Hvb). Qed.

(** a transaction: validate, ante, run the messages on a branch kept only if all succeed *)
Lemma deliver_tx_BI e c t : bank_env_ok e -> fee_ok t -> BI c -> BI (fst (deliver_tx e c t)).
Proof.
  intros He Hfee Hc. unfold deliver_tx. destruct (tx_msgs t) as [|m0 r0] eqn:Em; [exact Hc|].
  destruct (vb_msgs e (m0 :: r0)) as [[]| |] eqn:Evb; try exact Hc.
  destruct (ante e c t) as [c1|] eqn:Ea; [|exact Hc].
  pose proof (ante_BI e c t c1 He Ea Hfee Hc) as H1.
  pose proof (run_msgs_BI e (m0 :: r0) c1 0 [] He Evb H1) as H2.
  destruct (run_msgs e c1 (m0 :: r0) 0 []) as [c2 res]. cbn [fst] in H2.
  destruct res; cbn [fst]; try exact H1. exact H2.
Qed.

Lemma deliver_txs_BI e (He : bank_env_ok e) : forall ts c, fees_ok_txs ts -> BI c -> BI (fst (deliver_txs e c ts)).
Proof.
  induction ts as [|t r IH]; intros c Hf Hc; simpl; [exact Hc|].
  inversion Hf as [|? ? Ht Hr]; subst.
  pose proof (deliver_tx_BI e c t He Ht Hc) as H1.
  destruct (deliver_tx e c t) as [c1 res]. cbn [fst] in H1.
  pose proof (IH c1 Hr H1) as H2. destruct (deliver_txs e c1 r) as [c2 rs]. cbn [fst] in *. exact H2.
Qed.

(** a block: afterwards the invariant holds and the burn address has nothing spendable *)
Theorem run_block_BI_sink : forall e c txs, bank_env_ok e -> fees_ok_txs txs -> BI c ->
  let c' := fst (run_block e c txs) in
  BI c' /\ spendable_coins (c_bank c') (e_now e) GenApp.burn_address = [].
Proof.
  intros e c txs He Hf Hc. unfold run_block.
  pose proof (deliver_txs_BI e He txs (begin_block e c) Hf (begin_block_BI e c Hc)) as H1.
  destruct (deliver_txs e (begin_block e c) txs) as [c1 rs]. cbn [fst] in *.
  destruct (end_block_BI_sink e c1 He H1) as (E1 & E2 & _). split; assumption.
Qed.

(** what the block does to the supply: only the end-blocker changes it, by exactly the spendable coins
    of the burn address *)
Theorem run_block_supply : forall e c txs, bank_env_ok e -> fees_ok_txs txs -> BI c ->
  forall d, denom_ok d ->
    supply_of (c_bank (fst (run_block e c txs))) d
    = (supply_of (c_bank (fst (deliver_txs e (begin_block e c) txs))) d
       - amount_of (spendable_coins (c_bank (fst (deliver_txs e (begin_block e c) txs))) (e_now e) GenApp.burn_address) d)%N.
Proof.
  intros e c txs He Hf Hc d Hd. unfold run_block.
  pose proof (deliver_txs_BI e He txs (begin_block e c) Hf (begin_block_BI e c Hc)) as H1.
  destruct (deliver_txs e (begin_block e c) txs) as [c1 rs]. cbn [fst] in *.
  destruct (end_block_BI_sink e c1 He H1) as (_ & _ & E3 & _). apply (E3 d Hd).
Qed.

(** every history *)
Theorem run_BI : forall o bs c, (forall t, bank_env_ok (env_at o t)) -> fees_ok bs -> BI c -> BI (run o c bs).
Proof.
  intros o bs. induction bs as [|[t txs] r IH]; intros c Ho Hf Hc; simpl; [exact Hc|].
  inversion Hf as [|? ? Hb Hr]; subst. cbn [snd] in Hb.
  apply (IH _ Ho Hr). apply (run_block_BI_sink (env_at o t) c txs (Ho t) Hb Hc).
Qed.

(** the accounting identity after every history: the supply of every denomination is the sum of all balances *)
Corollary run_accounting : forall o bs c, (forall t, bank_env_ok (env_at o t)) -> fees_ok bs -> BI c ->
  Bank_inv (c_bank (run o c bs)) /\
  (forall d, denom_ok d -> total_balance (c_bank (run o c bs)) d = supply_of (c_bank (run o c bs)) d) /\
  (forall d, balance (c_bank (run o c bs)) GenApp.burn_module_account d = 0%N).
Proof.
  intros o bs c Ho Hf Hc. destruct (run_BI o bs c Ho Hf Hc) as [Hi Hz].
  split; [exact Hi|]. split; [|exact Hz]. intros d Hd. apply (bi_supply _ Hi d Hd).
Qed.

(** after the last block of every non-empty history the burn address has no spendable coin (at that block's time) *)
Corollary run_sink : forall o bs t txs c, (forall t, bank_env_ok (env_at o t)) -> fees_ok (bs ++ [(t, txs)]) -> BI c ->
  spendable_coins (c_bank (run o c (bs ++ [(t, txs)]))) t GenApp.burn_address = [].
Proof.
  intros o bs t txs c Ho Hf Hc. rewrite run_app. unfold fees_ok in Hf. apply Forall_app in Hf as [Hf1 Hf2].
  inversion Hf2 as [|? ? Hb _]; subst. cbn [snd] in Hb. cbn [run].
  apply (run_block_BI_sink (env_at o t) (run o c bs) txs (Ho t) Hb (run_BI o bs c Ho Hf1 Hc)).
Qed.

(** the initial state *)
Example BI_empty : BI empty_chain.
Proof.
  split.
  - split.
    + exact I.
    + intros k n G. discriminate.
    + intros d _. reflexivity.
  - intros d. reflexivity.
Qed.

(** non-vacuity of the multi-send case: a validated multi-send with one output at the burn address and one elsewhere
    is accepted from a state satisfying the invariant, and the end-blocker of that block burns the burn address's share *)
Definition ms_unbech (s : bytes) : option bytes := if verify_address_format s then Some s else None.
Definition ms_A : bytes := b "AAAAAAAAAAAAAAAAAAAA".
Definition ms_B : bytes := b "BBBBBBBBBBBBBBBBBBBB".
Definition ms_env : env :=
  {| e_unbech := ms_unbech; e_now := 100%Z; e_fee_collector := b "FFFFFFFFFFFFFFFFFFFF";
     e_blocked := [GenApp.burn_module_account]; e_bech := fun a => a; e_b58key := fun _ => None;
     e_verify := fun _ _ _ => false |}.
Definition ms_bank : bank :=
  {| balances := [(bal_key ms_A umed, 10%N)]; supply := [(umed, 10%N)]; vestings := []; accounts := [ms_A] |}.
Definition ms_msg : base_msg :=
  BMultiSend ms_A [(umed, 10%N)] [(GenApp.burn_address, [(umed, 7%N)]); (ms_B, [(umed, 3%N)])].

Lemma ms_env_ok : bank_env_ok ms_env.
Proof.
  split; [|split; [|split]].
  - intros s a H. cbn [ms_env e_unbech] in H. unfold ms_unbech in H.
    destruct (verify_address_format s) eqn:E; [|discriminate]. inversion H; subst a. exact E.
  - left. reflexivity.
  - unfold addr_ok. apply Nat.leb_le. vm_compute. reflexivity.
  - apply bytes_eqb_neq. vm_compute. reflexivity.
Qed.

Lemma ms_A_ok : addr_ok ms_A.
Proof. unfold addr_ok. apply Nat.leb_le. vm_compute. reflexivity. Qed.

Lemma ms_bank_BI : BI (with_bank empty_chain ms_bank).
Proof.
  assert (Hi : Bank_inv ms_bank).
  { split.
    - unfold ms_bank. cbn [balances sorted lb]. auto.
    - intros k n G. unfold ms_bank in G. cbn [balances get] in G.
      destruct (bytes_eqb k (bal_key ms_A umed)) eqn:E; [|discriminate].
      injection G as <-. split; [discriminate|].
      exists ms_A, umed. split; [exact ms_A_ok|]. split; [exact umed_ok|]. apply bytes_eqb_eq. exact E.
    - intros d Hd. unfold total_balance, supply_of, ms_bank. cbn [balances supply tb get].
      rewrite (weight_bal_key d _ umed 10%N ms_A_ok umed_ok). rewrite (bytes_eqb_sym d umed).
      destruct (bytes_eqb umed d); reflexivity. }
  split; cbn [c_bank with_bank]; [exact Hi|]. intros d. destruct (denom_ok_dec d) as [Hd|Hd].
  - unfold balance, ms_bank. cbn [balances get].
    destruct (bytes_eqb (bal_key GenApp.burn_module_account d) (bal_key ms_A umed)) eqn:E; [|reflexivity].
    apply bytes_eqb_eq in E. apply bal_key_inj in E as [E _];
      [|exact burn_module_account_ok|exact Hd|exact ms_A_ok|exact umed_ok].
    exfalso. revert E. apply bytes_eqb_neq. vm_compute. reflexivity.
  - apply balance_not_ok; [apply Bank_inv_Bal; exact Hi | tauto].
Qed.

Example multi_send_reaches_burn_address :
  let c := with_bank empty_chain ms_bank in
  bank_env_ok ms_env /\ BI c /\ vb_base ms_env ms_msg = Ok tt /\
  exists c', exec_base ms_env c ms_msg = Ok (c', []) /\
    balance (c_bank c') ms_A umed = 0%N /\ balance (c_bank c') GenApp.burn_address umed = 7%N /\
    balance (c_bank c') ms_B umed = 3%N /\ supply_of (c_bank c') umed = 10%N /\
    balance (c_bank (end_block ms_env c')) GenApp.burn_address umed = 0%N /\
    supply_of (c_bank (end_block ms_env c')) umed = 3%N.
Proof.
  intros c. split; [exact ms_env_ok|]. split; [exact ms_bank_BI|]. split; [vm_compute; reflexivity|].
  destruct (exec_base ms_env c ms_msg) as [[c' a]| |] eqn:Ex; [|vm_compute in Ex; discriminate Ex ..].
  exists c'. vm_compute in Ex. inversion Ex; subst c' a. repeat split; vm_compute; reflexivity.
Qed.

Print Assumptions send_from_empty_fails.
Print Assumptions required_signers_addr_ok.
Print Assumptions multi_send_keeps_module_empty.
Print Assumptions exec_base_BI.
Print Assumptions ante_BI.
Print Assumptions end_block_BI_sink.
Print Assumptions end_block_never_halts.
Print Assumptions run_block_BI_sink.
Print Assumptions run_block_supply.
Print Assumptions run_BI.
Print Assumptions run_accounting.
Print Assumptions run_sink.
Print Assumptions BI_empty.
Print Assumptions multi_send_reaches_burn_address.
